(* Properties/C09.v -- Class entries reflect the cpp_class structure of the source.
   Only theorem statements; proofs are in Proofs/AggClass.v.  Spec side (defined there on the nested
   view of Spec/AggSpec.v): class_inner / class_attrs / class_method_decls read the items of a
   class body in source order, looking through function bodies but not into nested classes. *)
From Coq Require Import String List.
From CMinx Require Import Base.Str Model.Parser Model.Writer Model.DocTypes Model.Aggregator
     Spec.AggSpec Gen.SourceLiterals Proofs.AggClass Proofs.LiteralsMatch
     Base.PySem Gen.PySource Proofs.SourceMatch
     Proofs.SourceMatch2
     Model.Pipeline Proofs.SourceMatch3.
Import ListNotations.

(* cpp_class ... cpp_end_class is balanced: commands after cpp_end_class belong to the enclosing
   context again (any nesting depth) *)
Theorem C09_class_stack_restored :
  forall trigger strip_fn strip_mac strip_mem fl nodes st st',
    inc_cpp_class fl = true -> wf_nodes nodes = true -> class_hdrs_ok nodes = true ->
    agg_run fl trigger strip_fn strip_mac strip_mem st (flatten_all nodes) = Ok st' ->
    class_stack st' = class_stack st.
Proof. exact class_stack_restored. Qed.
Print Assumptions C09_class_stack_restored.

(* the main theorem: the entry of a class lists exactly the attributes, methods, constructors
   and inner classes of ITS body, in source order; every other existing entry is unchanged except
   that the enclosing class gains this class's name in its inner-class list *)
Theorem C09_class_entry_reflects_body :
  forall trigger strip_fn strip_mac strip_mem fl doc hdr body endc name supers st st',
    class_flags_on fl = true ->
    wf_node (NClass doc hdr body endc) = true ->
    class_hdrs_ok [NClass doc hdr body endc] = true ->
    singles hdr = name :: supers ->
    top_in_range st = true ->
    agg_run fl trigger strip_fn strip_mac strip_mem st (flatten (NClass doc hdr body endc)) = Ok st' ->
    cview_at st' (length (documented st))
    = Some {| cv_name := name; cv_doc := doc_of doc; cv_supers := supers;
              cv_inner := class_inner body;
              cv_ctors := class_method_decls true body;
              cv_members := class_method_decls false body;
              cv_attrs := class_attrs body |}
    /\ class_stack st' = class_stack st
    /\ (forall i, i < length (documented st) ->
          cview_at st' i
          = if is_top i st
            then option_map (cv_ext {| it_inner := [name]; it_ctors := []; it_members := [];
                                       it_attrs := [] |}) (cview_at st i)
            else cview_at st i).
Proof. exact class_entry_reflects_body. Qed.
Print Assumptions C09_class_entry_reflects_body.

(* its side condition holds in every reachable state *)
Theorem C09_reachable_top_in_range :
  forall trigger strip_fn strip_mac strip_mem fl es st,
    agg_run fl trigger strip_fn strip_mac strip_mem agg_init es = Ok st -> top_in_range st = true.
Proof. exact reachable_top_in_range. Qed.
Print Assumptions C09_reachable_top_in_range.

(* members and attributes attach to the innermost class (top of the stack) and to no other entry *)
Theorem C09_member_attaches_to_top_only :
  forall is_ctor c doc docd st cidx rest name parent types n d su inner ct me at_,
    singles c = name :: parent :: types ->
    class_stack st = Some cidx :: rest ->
    nth_error (documented st) cidx = Some (EClass n d su inner ct me at_) ->
    let m := decl_method is_ctor name parent types doc docd in
    let st' := process_member is_ctor c doc docd st in
    nth_error (documented st') cidx
    = Some (if is_ctor then EClass n d su inner (ct ++ [m]) me at_
            else EClass n d su inner ct (me ++ [m]) at_)
    /\ (forall i, i <> cidx -> nth_error (documented st') i = nth_error (documented st) i)
    /\ length (documented st') = length (documented st)
    /\ origins st' = origins st
    /\ class_stack st' = class_stack st
    /\ def_stack st' = def_stack st
    /\ awaiting st' = AwMethod cidx is_ctor.
Proof. exact member_attaches_to_top_only. Qed.
Print Assumptions C09_member_attaches_to_top_only.

Theorem C09_attr_attaches_to_top_only :
  forall c doc docd st cidx rest parent name more n d su inner ct me at_,
    singles c = parent :: name :: more ->
    class_stack st = Some cidx :: rest ->
    nth_error (documented st) cidx = Some (EClass n d su inner ct me at_) ->
    let a := decl_attr c parent name doc docd in
    let st' := process_attr c doc docd st in
    nth_error (documented st') cidx = Some (EClass n d su inner ct me (at_ ++ [a]))
    /\ (forall i, i <> cidx -> nth_error (documented st') i = nth_error (documented st) i)
    /\ length (documented st') = length (documented st)
    /\ origins st' = origins st
    /\ class_stack st' = class_stack st
    /\ def_stack st' = def_stack st
    /\ awaiting st' = awaiting st.
Proof. exact attr_attaches_to_top_only. Qed.
Print Assumptions C09_attr_attaches_to_top_only.

(* a class defined inside another: its own entry (base classes as written) and its name in the
   outer class's inner-class list *)
Theorem C09_inner_class_registered :
  forall c doc docd st cidx rest name supers n d su inner ct me at_,
    singles c = name :: supers ->
    class_stack st = Some cidx :: rest ->
    nth_error (documented st) cidx = Some (EClass n d su inner ct me at_) ->
    let st' := process_class c doc docd st in
    documented st'
    = update_nth cidx (fun _ => EClass n d su (inner ++ [name]) ct me at_) (documented st)
      ++ [EClass name doc supers [] [] [] []]
    /\ nth_error (documented st') (length (documented st)) = Some (EClass name doc supers [] [] [] [])
    /\ nth_error (documented st') cidx = Some (EClass n d su (inner ++ [name]) ct me at_)
    /\ (forall i, i <> cidx -> i < length (documented st) ->
                  nth_error (documented st') i = nth_error (documented st) i)
    /\ length (documented st') = S (length (documented st))
    /\ origins st' = origins st ++ [docd]
    /\ class_stack st' = Some (length (documented st)) :: class_stack st
    /\ def_stack st' = def_stack st
    /\ awaiting st' = awaiting st.
Proof. exact inner_class_registered. Qed.
Print Assumptions C09_inner_class_registered.

(* a method's parameters come from the definition that follows its declaration: without the
   name and self arguments, after the member strip pattern; macro flag iff that definition is a macro *)
Theorem C09_method_params_from_next_definition :
  forall trigger strip_fn strip_mac strip_mem fl consumed c st cidx is_ctor n d su inner ct me at_ ms0 m,
    awaiting st = AwMethod cidx is_ctor ->
    nth_error (documented st) cidx = Some (EClass n d su inner ct me at_) ->
    (if is_ctor then ct else me) = ms0 ++ [m] ->
    is_def_name (cmd_kind c) = true ->
    exists st',
      enter_command fl trigger strip_fn strip_mac strip_mem consumed c st = Ok st'
      /\ (let m' := {| m_name := m_name m; m_doc := m_doc m; m_parent := m_parent m;
                       m_types := m_types m;
                       m_params := m_params m ++ skipn 2 (map strip_mem (singles c));
                       m_ctor := m_ctor m;
                       m_macro := str_eqb (cmd_kind c) (s"macro");
                       m_docd := m_docd m |} in
          nth_error (documented st') cidx
          = Some (if is_ctor then EClass n d su inner (ms0 ++ [m']) me at_
                  else EClass n d su inner ct (ms0 ++ [m']) at_))
      /\ (forall i, i <> cidx -> nth_error (documented st') i = nth_error (documented st) i)
      /\ length (documented st') = length (documented st)
      /\ origins st' = origins st
      /\ class_stack st' = class_stack st
      /\ def_stack st' = (if consumed then def_stack st else None :: def_stack st)
      /\ awaiting st' = AwNone.
Proof. exact method_params_from_next_definition. Qed.
Print Assumptions C09_method_params_from_next_definition.

(* rendering: macro note iff macro; attribute value option iff a default was given *)
Theorem C09_method_macro_note_iff :
  forall m, In method_note (dir_body (render_method m)) <-> m_macro m = true.
Proof. exact method_macro_note_iff. Qed.
Print Assumptions C09_method_macro_note_iff.

Theorem C09_attribute_value_iff :
  forall a, dir_opts (render_attribute a) = [] <-> a_default a = None.
Proof. exact render_attribute_value_iff. Qed.
Print Assumptions C09_attribute_value_iff.

Theorem C09_source_literals_pinned :
  get (s"ClassDocumentation.process") doctypes_strings
  = [s"py:class"; F; s"Bases: "; s", "; s":class:`"; F; s"`"; [nl];
     s"**Additional Constructors**"; s"**Methods**"; s"**Attributes**"; s"**Inner classes**"; s"class"]
  /\ get (s"MethodDocumentation.process") doctypes_strings
  = [s", "; s"args"; s"[, ...]"; []; s"py:method"; F; s"("; F; s")"; s"note"; method_macro_note;
     s":param "; F; s":"; s"param "; F; []; s":type "; F; s":"; s"type "; F].
Proof. exact (conj class_doc_literals method_doc_literals). Qed.
Print Assumptions C09_source_literals_pinned.

(* ---- tie by translation: Gen/PySource.v is regenerated from the CURRENT Python source by
   translators/py2coq.py (statement-by-statement rendering of the function into Gallina over the
   combinators of Base/PySem.v); the model function is proved equal to it for all arguments ---- *)
Theorem C09_method_process_matches_source :
  forall w m,
    PySource.MethodDocumentation_process w [] (m_name m) (m_doc m) (m_types m) (m_params m) (m_macro m)
    = w_add w (render_method m).
Proof. exact method_process_matches_source. Qed.
Print Assumptions C09_method_process_matches_source.

Theorem C09_attribute_process_matches_source :
  forall w a,
    PySource.AttributeDocumentation_process w [] (a_name a) (a_doc a) (a_default a)
    = w_add w (render_attribute a).
Proof. exact attribute_process_matches_source. Qed.
Print Assumptions C09_attribute_process_matches_source.

(* py2coq batch 4: the cpp_class / cpp_attr / cpp_member / cpp_constructor methods as regenerated from aggregator.py equal the model steps *)
Theorem C09_process_cpp_class_matches_source :
  forall c doc docd st,
    (documented (process_class c doc docd st), py_class_stack (class_stack (process_class c doc docd st)))
    = PySource.DocumentationAggregator_process_cpp_class c doc
        (documented st) (py_class_stack (class_stack st)).
Proof. exact process_cpp_class_matches_source. Qed.
Print Assumptions C09_process_cpp_class_matches_source.

Theorem C09_process_class_frame :
  forall c doc docd st,
    def_stack (process_class c doc docd st) = def_stack st
    /\ awaiting (process_class c doc docd st) = awaiting st.
Proof. exact process_class_frame. Qed.
Print Assumptions C09_process_class_frame.

Theorem C09_process_cpp_attr_matches_source :
  forall c doc docd st,
    same_docs (documented (process_attr c doc docd st))
      (PySource.DocumentationAggregator_process_cpp_attr c doc
         (documented st) (py_class_stack (class_stack st))).
Proof. exact process_cpp_attr_matches_source. Qed.
Print Assumptions C09_process_cpp_attr_matches_source.

Theorem C09_process_attr_frame :
  forall c doc docd st, same_stacks (process_attr c doc docd st) st.
Proof. exact process_attr_frame. Qed.
Print Assumptions C09_process_attr_frame.

Theorem C09_process_cpp_member_matches_source :
  forall is_ctor c doc docd st,
    same_docs (documented (process_member is_ctor c doc docd st))
      (fst (PySource.DocumentationAggregator_process_cpp_member c doc is_ctor
              (documented st) (py_class_stack (class_stack st)) (awaiting st)))
    /\ awaiting (process_member is_ctor c doc docd st)
       = snd (PySource.DocumentationAggregator_process_cpp_member c doc is_ctor
                (documented st) (py_class_stack (class_stack st)) (awaiting st)).
Proof. exact process_cpp_member_matches_source. Qed.
Print Assumptions C09_process_cpp_member_matches_source.

Theorem C09_process_cpp_constructor_matches_source :
  forall c doc docd st,
    same_docs (documented (process_member true c doc docd st))
      (fst (PySource.DocumentationAggregator_process_cpp_constructor c doc
              (documented st) (py_class_stack (class_stack st)) (awaiting st)))
    /\ awaiting (process_member true c doc docd st)
       = snd (PySource.DocumentationAggregator_process_cpp_constructor c doc
                (documented st) (py_class_stack (class_stack st)) (awaiting st)).
Proof. exact process_cpp_constructor_matches_source. Qed.
Print Assumptions C09_process_cpp_constructor_matches_source.

Theorem C09_process_member_frame :
  forall is_ctor c doc docd st,
    class_stack (process_member is_ctor c doc docd st) = class_stack st
    /\ def_stack (process_member is_ctor c doc docd st) = def_stack st.
Proof. exact process_member_frame. Qed.
Print Assumptions C09_process_member_frame.

(* py2coq batch 5: ClassDocumentation.process as regenerated from documentation_types.py renders exactly the model class entry *)
Theorem C09_class_process_matches_source :
  forall w name doc supers inner ctors members attrs,
    PySource.ClassDocumentation_process w [] name doc supers inner ctors members attrs
    = w_add w (render_entry (EClass name doc supers inner ctors members attrs)).
Proof. exact class_process_matches_source. Qed.
Print Assumptions C09_class_process_matches_source.
