(* Proofs/SourceLinks.v -- discharges the side condition of SourceMatch.process_docs_matches_source
   for every state the aggregator reaches: Documenter.process_docs (translated from the source) IS
   Pipeline.finalize on the documented list of every accepted file. *)
From Coq Require Import String List NArith Bool Arith.
From CMinx Require Import Base.Str Base.PySem Model.Parser Model.DocTypes Model.Aggregator
     Model.Pipeline Gen.PySource Proofs.AggInv Proofs.SourceMatch.
Import ListNotations.

Lemma no_module_only_first : forall l, AggInv.no_module l = true ->
  forallb (fun e => negb (py_is_module_entry e)) l = true.
Proof.
  intros l H. unfold AggInv.no_module in H. rewrite forallb_forall in *. intros e He.
  specialize (H e He). destruct e; cbn in *; try reflexivity; exact H.
Qed.

Theorem aggregate_modules_only_first :
  forall fl trigger strip_fn strip_mac strip_mem f st,
    aggregate fl trigger strip_fn strip_mac strip_mem f = Ok st ->
    modules_only_first (documented st) = true.
Proof.
  intros fl trigger strip_fn strip_mac strip_mem f st H.
  destruct (module_only_first trigger strip_fn strip_mac strip_mem fl f st H) as [Hnone Hsome].
  unfold modules_only_first.
  destruct (f_module f) as [t|] eqn:Em.
  - destruct (Hsome t eq_refl) as [rest [Hd Hr]]. rewrite Hd. cbn [tl].
    apply no_module_only_first. exact Hr.
  - specialize (Hnone eq_refl). destruct (documented st) as [|e r]; [reflexivity|].
    cbn [tl]. apply no_module_only_first.
    unfold AggInv.no_module in *. cbn [forallb] in Hnone.
    apply andb_true_iff in Hnone. exact (proj2 Hnone).
Qed.

(* process_docs of the current documenter.py, on the entries of any accepted file, decides title
   and module entry exactly as the model's finalize *)
Theorem process_docs_is_finalize :
  forall fl trigger strip_fn strip_mac strip_mem f st title module_name,
    aggregate fl trigger strip_fn strip_mac strip_mem f = Ok st ->
    PySource.Documenter_process_docs (documented st) module_name title
    = (snd (finalize title module_name (documented st)),
       fst (finalize title module_name (documented st))).
Proof.
  intros fl trigger strip_fn strip_mac strip_mem f st title module_name H.
  apply process_docs_matches_source.
  exact (aggregate_modules_only_first fl trigger strip_fn strip_mac strip_mem f st H).
Qed.

(* ==== MAIN THEOREMS ==== *)
Print Assumptions aggregate_modules_only_first.
Print Assumptions process_docs_is_finalize.
