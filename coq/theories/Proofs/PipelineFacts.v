(* Proofs/PipelineFacts.v -- Model/Pipeline.v glued to the lexer / parser facts: an accepted page
   is computed from the whole file (C06), stuck lexing is an error outcome (C06), the page depends
   on the source text only through its visible token sequence (C04). *)
From Coq Require Import String List NArith Bool Arith Lia.
From CMinx Require Import Base.Str Model.Lexer Model.Parser Model.Writer Model.DocTypes
     Model.Aggregator Model.Pipeline Proofs.LexerFacts Proofs.ParserFacts.
Import ListNotations.

Section PipelineFacts.
  Variable fl : flags.
  Variable trigger : str.
  Variables strip_fn strip_mac strip_mem : str -> str.
  Variable hdrs : list str.

  Let doc := document_str fl trigger strip_fn strip_mac strip_mem hdrs.

  (* C06: an accepted page is computed from a view of the file in which no source character was
     skipped: the pieces concatenate to the source, the tree contains every visible token *)
  Theorem ok_only_from_whole_file : forall title m src r,
    doc title m src = OOk r ->
    exists ps f st,
      lex_all src = LexOk ps /\ concat (map snd ps) = src
      /\ parse (visible ps) = Some f /\ unparse_file f = visible ps
      /\ aggregate fl trigger strip_fn strip_mac strip_mem f = Ok st
      /\ r = render_page hdrs title m (documented st).
  Proof.
    intros title m src r H. unfold doc, document_str in H.
    destruct (lex src) as [ts|p] eqn:El; [|discriminate H].
    destruct (parse ts) as [f|] eqn:Ep; [|discriminate H].
    destruct (aggregate fl trigger strip_fn strip_mac strip_mem f) as [st|] eqn:Ea; [|discriminate H].
    injection H as <-.
    destruct (lex_visible src ts El) as [ps [Hall [Hvis Hcat]]].
    destruct (lex_tokens_good src ts El) as [Hcanon _].
    exists ps, f, st. subst ts.
    repeat split; try assumption; try reflexivity.
    apply parse_unparse; assumption.
  Qed.

  (* C06: if lexing gets stuck (no rule matches at a reachable position) the outcome is the lexer
     error, never a page *)
  Theorem stuck_is_error : forall title m src ps rest,
    reaches src ps rest -> rest <> [] -> best rest = None -> doc title m src = OLexErr.
  Proof.
    intros title m src ps rest Hr Hne Hb. unfold doc, document_str, lex.
    rewrite (lex_stuck src ps rest Hr Hne Hb). reflexivity.
  Qed.

  Corollary unterminated_quote_fails : forall title m src ps r,
    reaches src ps (dq :: r) -> quoted_body r = None -> doc title m src = OLexErr.
  Proof.
    intros title m src ps r Hr Hq. apply (stuck_is_error title m src ps (dq :: r) Hr); [discriminate|].
    apply best_unterminated_quote. exact Hq.
  Qed.

  Corollary invalid_escape_fails : forall title m src ps r,
    reaches src ps (bsl :: r) ->
    (match r with [] => true | b :: _ => negb (esc_ok b) end) = true ->
    doc title m src = OLexErr.
  Proof.
    intros title m src ps r Hr He. apply (stuck_is_error title m src ps (bsl :: r) Hr); [discriminate|].
    apply best_bad_escape. exact He.
  Qed.

  Corollary unterminated_bracket_comment_fails : forall title m src ps r,
    reaches src ps (hash :: r) ->
    opens_bracket (take_while (fun c => negb (is_eol c)) r) = true ->
    m_bracket_arg r = None ->
    startswith doc_open (hash :: r) = false ->
    doc title m src = OLexErr.
  Proof.
    intros title m src ps r Hr Ho Hm Hd.
    apply (stuck_is_error title m src ps (hash :: r) Hr); [discriminate|].
    apply best_unterminated_bracket_comment; assumption.
  Qed.

  (* a token sequence outside the grammar is the parser error *)
  Theorem rejected_tokens_fail : forall title m src ts,
    lex src = LexOk ts -> parse ts = None -> doc title m src = OParseErr.
  Proof.
    intros title m src ts El Ep. unfold doc, document_str. rewrite El, Ep. reflexivity.
  Qed.

  (* the outcome is total and classified: exactly one of page / lexer error / parser error / crash *)
  Theorem outcome_cases : forall title m src,
    (exists p, lex src = LexErr p /\ doc title m src = OLexErr)
    \/ (exists ts, lex src = LexOk ts /\ parse ts = None /\ doc title m src = OParseErr)
    \/ (exists ts f, lex src = LexOk ts /\ parse ts = Some f
                     /\ aggregate fl trigger strip_fn strip_mac strip_mem f = Crash
                     /\ doc title m src = OCrash)
    \/ (exists ts f st, lex src = LexOk ts /\ parse ts = Some f
                        /\ aggregate fl trigger strip_fn strip_mac strip_mem f = Ok st
                        /\ doc title m src = OOk (render_page hdrs title m (documented st))).
  Proof.
    intros title m src. unfold doc, document_str.
    destruct (lex src) as [ts|p] eqn:El.
    - destruct (parse ts) as [f|] eqn:Ep.
      + destruct (aggregate fl trigger strip_fn strip_mac strip_mem f) as [st|] eqn:Ea.
        * right. right. right. exists ts, f, st. repeat split; reflexivity || assumption.
        * right. right. left. exists ts, f. repeat split; reflexivity || assumption.
      + right. left. exists ts. repeat split; reflexivity || assumption.
    - left. exists p. split; reflexivity.
  Qed.

  (* C04: the page depends on the text only through the visible token sequence: any edit that
     keeps the token sequence keeps the output *)
  Theorem layout_invariance : forall title m src1 src2,
    lex_sim (lex src1) (lex src2) -> doc title m src1 = doc title m src2.
  Proof.
    intros title m src1 src2 H. unfold doc, document_str.
    destruct (lex src1) as [t1|p1], (lex src2) as [t2|p2]; cbn [lex_sim] in H;
      try contradiction; [subst t2|]; reflexivity.
  Qed.

  (* decoding: the page of a byte string is the page of its decoded text *)
  Theorem bytes_via_text : forall title m bs src,
    decode_source bs = Some src ->
    document_bytes fl trigger strip_fn strip_mac strip_mem hdrs title m bs = doc title m src.
  Proof. intros title m bs src H. unfold document_bytes. rewrite H. reflexivity. Qed.

  Theorem undecodable_fails : forall title m bs,
    decode_source bs = None ->
    document_bytes fl trigger strip_fn strip_mac strip_mem hdrs title m bs = ODecodeErr.
  Proof. intros title m bs H. unfold document_bytes. rewrite H. reflexivity. Qed.
End PipelineFacts.

(* ==== MAIN THEOREMS ==== *)
Print Assumptions ok_only_from_whole_file.
Print Assumptions stuck_is_error.
Print Assumptions unterminated_quote_fails.
Print Assumptions invalid_escape_fails.
Print Assumptions unterminated_bracket_comment_fails.
Print Assumptions outcome_cases.
Print Assumptions layout_invariance.
