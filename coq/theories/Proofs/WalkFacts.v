(* Proofs/WalkFacts.v -- theorems about Model/Walk.v (document over a file tree):
   C13 (expected pages), C14 (toctrees), C15 (exclusion, listing order), C18 (output
   location), C06 link (failing file aborts).  Everything is parametric in the settings,
   the exclusion matcher and the per-file documenter. *)
From Coq Require Import String List NArith Bool Arith Lia Permutation Sorted.
From CMinx Require Import Base.Str Model.Writer Model.Path Model.Naming Model.Pipeline Model.Walk.
Import ListNotations.

(* ---- spec ---- *)

(* projections of a run *)
Definition write_paths (acts : list action) : list (list str) :=
  flat_map (fun a => match a with AWrite p _ => [p] | _ => [] end) acts.
Definition writes (acts : list action) : list (list str * str) :=
  flat_map (fun a => match a with AWrite p c => [(p, c)] | _ => [] end) acts.
Definition prints (acts : list action) : list str :=
  flat_map (fun a => match a with APrint c => [c] | _ => [] end) acts.
Definition mkdirs (acts : list action) : list (list str) :=
  flat_map (fun a => match a with AMkDirs p => [p] | _ => [] end) acts.
Definition is_stop (a : action) : bool :=
  match a with AAbort _ | AExit255 => true | _ => false end.

Definition index_rst : str := s"index.rst".
Definition index_stem : str := s"index".
Definition rst_name (fn : str) : str := stem fn ++ s".rst".

(* boolean duplicate-freeness of a list of strings *)
Fixpoint nodupb (l : list str) : bool :=
  match l with
  | [] => true
  | x :: r => negb (mem_str x r) && nodupb r
  end.

(* stems of the files of one directory that get a page (by name) *)
Definition cmake_stems (ch : list node) : list str :=
  map stem (filter is_cmake_name (map fst (file_entries ch))).

(* one directory: sibling names pairwise distinct, page stems pairwise distinct, none is index *)
Definition dir_ok (ch : list node) : bool :=
  nodupb (map node_name ch) && nodupb (cmake_stems ch) && negb (mem_str index_stem (cmake_stems ch)).

Fixpoint node_ok (n : node) : bool :=
  match n with
  | F _ _ => true
  | D _ ch => dir_ok ch && forallb node_ok ch
  end.
Definition tree_ok (ch : list node) : bool := dir_ok ch && forallb node_ok ch.

(* no file that gets a page has stem index (weaker than tree_ok) *)
Fixpoint node_no_index (n : node) : bool :=
  match n with
  | F _ _ => true
  | D _ ch => negb (mem_str index_stem (cmake_stems ch)) && forallb node_no_index ch
  end.
Definition no_index_page (ch : list node) : bool :=
  negb (mem_str index_stem (cmake_stems ch)) && forallb node_no_index ch.

(* all directory / file names of a tree *)
Fixpoint node_dir_names (n : node) : list str :=
  match n with F _ _ => [] | D nm ch => nm :: flat_map node_dir_names ch end.
Fixpoint node_file_names (n : node) : list str :=
  match n with F nm _ => [nm] | D _ ch => flat_map node_file_names ch end.
Definition tree_dir_names (ch : list node) : list str := flat_map node_dir_names ch.
Definition tree_file_names (ch : list node) : list str := flat_map node_file_names ch.

(* a name / path component that cannot leave its directory *)
Definition name_ok (c : str) : bool :=
  negb (mem slash c) && negb (str_eqb c dotdot) && negb (str_eqb c []).
Definition names_ok (ch : list node) : bool :=
  forallb name_ok (tree_dir_names ch ++ tree_file_names ch).

(* where a path component of an output path may come from *)
Definition component_from_tree (top : list node) (c : str) : Prop :=
  In c (tree_dir_names top)
  \/ (exists fn, In fn (tree_file_names top) /\ c = rst_name fn)
  \/ c = index_rst.

(* the same tree up to the listing order of every directory *)
Inductive tperm : node -> node -> Prop :=
| tp_F nm c : tperm (F nm c) (F nm c)
| tp_D nm ch ch' : tperm_list ch ch' -> tperm (D nm ch) (D nm ch')
with tperm_list : list node -> list node -> Prop :=
| tpl_nil : tperm_list [] []
| tpl_skip x x' l l' : tperm x x' -> tperm_list l l' -> tperm_list (x :: l) (x' :: l')
| tpl_swap x y l : tperm_list (y :: x :: l) (x :: y :: l)
| tpl_trans l1 l2 l3 : tperm_list l1 l2 -> tperm_list l2 l3 -> tperm_list l1 l3.

Scheme tperm_mind := Minimality for tperm Sort Prop
  with tperm_list_mind := Minimality for tperm_list Sort Prop.
Combined Scheme tperm_mutind from tperm_mind, tperm_list_mind.

(* ------------------------------------------------------------------ *)
(* str_leb is a total order                                            *)
(* ------------------------------------------------------------------ *)

Lemma str_leb_refl : forall a, str_leb a a = true.
Proof.
  induction a as [|x a IH]; cbn [str_leb]; [reflexivity|].
  rewrite N.ltb_irrefl. exact IH.
Qed.

Lemma str_leb_total : forall a b, str_leb a b = true \/ str_leb b a = true.
Proof.
  induction a as [|x a IH]; intros b.
  - left. reflexivity.
  - destruct b as [|y b]; [right; reflexivity|].
    cbn [str_leb].
    destruct (N.ltb_spec x y) as [Hxy|Hxy]; [left; reflexivity|].
    destruct (N.ltb_spec y x) as [Hyx|Hyx]; [right; reflexivity|].
    apply IH.
Qed.

Lemma str_leb_antisym : forall a b, str_leb a b = true -> str_leb b a = true -> a = b.
Proof.
  induction a as [|x a IH]; intros b Hab Hba.
  - destruct b as [|y b]; [reflexivity|discriminate Hba].
  - destruct b as [|y b]; [discriminate Hab|].
    cbn [str_leb] in Hab, Hba.
    destruct (N.ltb_spec x y) as [Hxy|Hxy].
    + destruct (N.ltb_spec y x) as [Hyx|Hyx]; [lia|discriminate Hba].
    + destruct (N.ltb_spec y x) as [Hyx|Hyx]; [discriminate Hab|].
      assert (x = y) by lia. subst y. f_equal. apply IH; assumption.
Qed.

Lemma str_leb_trans : forall a b c, str_leb a b = true -> str_leb b c = true -> str_leb a c = true.
Proof.
  induction a as [|x a IH]; intros b c Hab Hbc.
  - reflexivity.
  - destruct b as [|y b]; [discriminate Hab|].
    destruct c as [|z c]; [discriminate Hbc|].
    cbn [str_leb] in Hab, Hbc |- *.
    destruct (N.ltb_spec x y) as [Hxy|Hxy].
    + destruct (N.ltb_spec y z) as [Hyz|Hyz].
      * destruct (N.ltb_spec x z) as [Hxz|Hxz]; [reflexivity|lia].
      * destruct (N.ltb_spec z y) as [Hzy|Hzy]; [discriminate Hbc|].
        destruct (N.ltb_spec x z) as [Hxz|Hxz]; [reflexivity|lia].
    + destruct (N.ltb_spec y x) as [Hyx|Hyx]; [discriminate Hab|].
      assert (x = y) by lia. subst y.
      destruct (N.ltb_spec x z) as [Hxz|Hxz]; [reflexivity|].
      destruct (N.ltb_spec z x) as [Hzx|Hzx]; [discriminate Hbc|].
      eapply IH; eassumption.
Qed.

(* ------------------------------------------------------------------ *)
(* sort_by: permutation, sortedness, canonicity                        *)
(* ------------------------------------------------------------------ *)

Section SortBy.
  Context {A : Type} (key : A -> str).

  Definition key_le (a b : A) : Prop := str_leb (key a) (key b) = true.

  Lemma insert_sorted_perm : forall x l, Permutation (insert_sorted key x l) (x :: l).
  Proof.
    intros x l. induction l as [|y r IH]; cbn [insert_sorted].
    - apply Permutation_refl.
    - destruct (str_leb (key x) (key y)).
      + apply Permutation_refl.
      + eapply perm_trans; [apply perm_skip; exact IH|apply perm_swap].
  Qed.

  Lemma sort_by_perm : forall l, Permutation (sort_by key l) l.
  Proof.
    induction l as [|x r IH]; cbn.
    - constructor.
    - eapply perm_trans; [apply insert_sorted_perm|]. apply perm_skip. exact IH.
  Qed.

  Lemma insert_sorted_sorted : forall x l,
    StronglySorted key_le l -> StronglySorted key_le (insert_sorted key x l).
  Proof.
    intros x l. induction l as [|y r IH]; intros Hs; cbn [insert_sorted].
    - constructor; constructor.
    - inversion Hs as [|y' r' Hr Hy]; subst.
      destruct (str_leb (key x) (key y)) eqn:E.
      + constructor; [exact Hs|].
        constructor; [exact E|].
        rewrite Forall_forall in Hy |- *. intros z Hz.
        unfold key_le. eapply str_leb_trans; [exact E|apply Hy; exact Hz].
      + constructor; [apply IH; exact Hr|].
        rewrite Forall_forall in Hy |- *. intros z Hz.
        apply (Permutation_in _ (insert_sorted_perm x r)) in Hz.
        destruct Hz as [Hz|Hz].
        * subst z. unfold key_le.
          destruct (str_leb_total (key x) (key y)) as [H|H]; [congruence|exact H].
        * apply Hy; exact Hz.
  Qed.

  Lemma sort_by_sorted : forall l, StronglySorted key_le (sort_by key l).
  Proof.
    induction l as [|x r IH]; cbn.
    - constructor.
    - apply insert_sorted_sorted. exact IH.
  Qed.

  Lemma key_inj_of_nodup : forall l x y,
    NoDup (map key l) -> In x l -> In y l -> key x = key y -> x = y.
  Proof.
    induction l as [|a r IH]; intros x y Hnd Hx Hy Hk; [destruct Hx|].
    cbn [map] in Hnd. inversion Hnd as [|k ks Hnin Hnd']; subst.
    destruct Hx as [Hx|Hx]; destruct Hy as [Hy|Hy]; subst.
    - reflexivity.
    - exfalso. apply Hnin. rewrite Hk. apply in_map. exact Hy.
    - exfalso. apply Hnin. rewrite <- Hk. apply in_map. exact Hx.
    - eapply IH; eassumption.
  Qed.

  Lemma sorted_perm_eq : forall l1 l2,
    StronglySorted key_le l1 -> StronglySorted key_le l2 -> Permutation l1 l2 ->
    NoDup (map key l1) -> l1 = l2.
  Proof.
    induction l1 as [|a t1 IH]; intros l2 H1 H2 Hp Hnd.
    - apply Permutation_nil in Hp. symmetry. exact Hp.
    - destruct l2 as [|b t2].
      + apply Permutation_sym, Permutation_nil in Hp. discriminate Hp.
      + assert (Hab : a = b).
        { assert (Hina : In a (b :: t2)) by (eapply Permutation_in; [exact Hp|left; reflexivity]).
          assert (Hinb : In b (a :: t1))
            by (eapply Permutation_in; [apply Permutation_sym; exact Hp|left; reflexivity]).
          destruct Hina as [Hina|Hina]; [symmetry; exact Hina|].
          destruct Hinb as [Hinb|Hinb]; [exact Hinb|].
          inversion H1 as [|a' t1' _ Ha]; subst.
          inversion H2 as [|b' t2' _ Hb]; subst.
          rewrite Forall_forall in Ha, Hb.
          apply (key_inj_of_nodup (a :: t1)); [exact Hnd|left; reflexivity|right; exact Hinb|].
          apply str_leb_antisym; [apply Ha; exact Hinb|apply Hb; exact Hina]. }
        subst b. f_equal.
        inversion H1; subst. inversion H2; subst.
        cbn [map] in Hnd. inversion Hnd; subst.
        apply IH; try assumption.
        eapply Permutation_cons_inv. exact Hp.
  Qed.

  Lemma sort_by_perm_eq : forall l l',
    Permutation l l' -> NoDup (map key l) -> sort_by key l = sort_by key l'.
  Proof.
    intros l l' Hp Hnd.
    apply sorted_perm_eq.
    - apply sort_by_sorted.
    - apply sort_by_sorted.
    - eapply perm_trans; [apply sort_by_perm|].
      eapply perm_trans; [exact Hp|apply Permutation_sym, sort_by_perm].
    - eapply Permutation_NoDup; [|exact Hnd].
      apply Permutation_map. apply Permutation_sym. apply sort_by_perm.
  Qed.
End SortBy.

(* ------------------------------------------------------------------ *)
(* generic list / projection lemmas                                    *)
(* ------------------------------------------------------------------ *)

Lemma in_write_paths : forall acts p, In p (write_paths acts) <-> exists t, In (AWrite p t) acts.
Proof.
  intros acts p. unfold write_paths. rewrite in_flat_map. split.
  - intros [a [Ha Hp]]. destruct a as [r|r c|c|o|]; cbn in Hp; try contradiction. destruct Hp as [Hp|[]].
    subst r. exists c. exact Ha.
  - intros [t Ht]. exists (AWrite p t). split; [exact Ht|left; reflexivity].
Qed.

Lemma in_writes : forall acts p t, In (p, t) (writes acts) <-> In (AWrite p t) acts.
Proof.
  intros acts p t. unfold writes. rewrite in_flat_map. split.
  - intros [a [Ha Hp]]. destruct a as [r|r c|c|o|]; cbn in Hp; try contradiction. destruct Hp as [Hp|[]].
    inversion Hp; subst. exact Ha.
  - intros Ht. exists (AWrite p t). split; [exact Ht|left; reflexivity].
Qed.

Lemma in_mkdirs : forall acts p, In p (mkdirs acts) <-> In (AMkDirs p) acts.
Proof.
  intros acts p. unfold mkdirs. rewrite in_flat_map. split.
  - intros [a [Ha Hp]]. destruct a as [r|r c|c|o|]; cbn in Hp; try contradiction. destruct Hp as [Hp|[]].
    subst r. exact Ha.
  - intros Ht. exists (AMkDirs p). split; [exact Ht|left; reflexivity].
Qed.

Lemma in_prints : forall acts c, In c (prints acts) <-> In (APrint c) acts.
Proof.
  intros acts p. unfold prints. rewrite in_flat_map. split.
  - intros [a [Ha Hp]]. destruct a as [r|r c|c|o|]; cbn in Hp; try contradiction. destruct Hp as [Hp|[]].
    subst c. exact Ha.
  - intros Ht. exists (APrint p). split; [exact Ht|left; reflexivity].
Qed.

Lemma write_paths_app : forall a b, write_paths (a ++ b) = write_paths a ++ write_paths b.
Proof. intros a b. apply flat_map_app. Qed.
Lemma writes_app : forall a b, writes (a ++ b) = writes a ++ writes b.
Proof. intros a b. apply flat_map_app. Qed.
Lemma prints_app : forall a b, prints (a ++ b) = prints a ++ prints b.
Proof. intros a b. apply flat_map_app. Qed.
Lemma mkdirs_app : forall a b, mkdirs (a ++ b) = mkdirs a ++ mkdirs b.
Proof. intros a b. apply flat_map_app. Qed.

Lemma write_paths_writes : forall acts, write_paths acts = map fst (writes acts).
Proof.
  induction acts as [|a r IH]; [reflexivity|].
  change (write_paths (a :: r)) with (write_paths ([a] ++ r)).
  change (writes (a :: r)) with (writes ([a] ++ r)).
  rewrite write_paths_app, writes_app, map_app, IH. f_equal.
  destruct a; reflexivity.
Qed.

Lemma flat_map_flat_map : forall {A B C} (f : A -> list B) (g : B -> list C) l,
  flat_map g (flat_map f l) = flat_map (fun x => flat_map g (f x)) l.
Proof.
  intros A B C f g l. induction l as [|x r IH]; [reflexivity|].
  cbn [flat_map]. rewrite flat_map_app, IH. reflexivity.
Qed.

Lemma NoDup_app_intro : forall {A} (l1 l2 : list A),
  NoDup l1 -> NoDup l2 -> (forall x, In x l1 -> In x l2 -> False) -> NoDup (l1 ++ l2).
Proof.
  intros A l1 l2 H1 H2 Hd. induction l1 as [|a r IH]; [exact H2|].
  inversion H1 as [|a' r' Hnin Hr]; subst. cbn [app]. constructor.
  - rewrite in_app_iff. intros [H|H]; [exact (Hnin H)|].
    apply (Hd a); [left; reflexivity|exact H].
  - apply IH; [exact Hr|]. intros x Hx. apply Hd. right. exact Hx.
Qed.

Lemma perm_filter : forall {A} (f : A -> bool) l l',
  Permutation l l' -> Permutation (filter f l) (filter f l').
Proof.
  intros A f l l' Hp. induction Hp as [|x l l' Hp IH|x y l|l1 l2 l3 H1 IH1 H2 IH2].
  - constructor.
  - cbn [filter]. destruct (f x); [apply perm_skip|]; exact IH.
  - cbn [filter]. destruct (f x); destruct (f y); try apply Permutation_refl. apply perm_swap.
  - eapply perm_trans; eassumption.
Qed.

Lemma str_eqb_eq : forall a b, str_eqb a b = true <-> a = b.
Proof.
  induction a as [|x a IH]; intros b; destruct b as [|y b]; cbn [str_eqb]; split; intros H;
    try reflexivity; try discriminate H.
  - apply andb_true_iff in H. destruct H as [H1 H2].
    apply N.eqb_eq in H1. apply IH in H2. subst. reflexivity.
  - inversion H; subst. rewrite N.eqb_refl. cbn. apply IH. reflexivity.
Qed.

Lemma mem_str_in : forall x l, mem_str x l = true <-> In x l.
Proof.
  intros x l. induction l as [|y r IH]; cbn [mem_str In].
  - split; [discriminate|intros []].
  - rewrite orb_true_iff, IH, str_eqb_eq. split; intros [H|H]; auto.
Qed.

Lemma nodupb_NoDup : forall l, nodupb l = true <-> NoDup l.
Proof.
  induction l as [|x r IH]; cbn [nodupb].
  - split; [constructor|reflexivity].
  - rewrite andb_true_iff, negb_true_iff, IH. split.
    + intros [H1 H2]. constructor; [|exact H2].
      intros Hin. apply mem_str_in in Hin. congruence.
    + intros H. inversion H as [|x' r' Hnin Hr]; subst. split; [|exact Hr].
      destruct (mem_str x r) eqn:E; [|reflexivity].
      apply mem_str_in in E. contradiction.
Qed.

(* cut_at_abort *)
Lemma cut_at_abort_id : forall acts,
  (forall a, In a acts -> is_stop a = false) -> cut_at_abort acts = acts.
Proof.
  induction acts as [|a r IH]; intros H; [reflexivity|].
  assert (Ha : is_stop a = false) by (apply H; left; reflexivity).
  assert (Hr : cut_at_abort r = r) by (apply IH; intros x Hx; apply H; right; exact Hx).
  destruct a; cbn [cut_at_abort]; try (rewrite Hr; reflexivity); discriminate Ha.
Qed.

Lemma cut_at_abort_spec : forall acts,
  ((forall a, In a acts -> is_stop a = false) /\ cut_at_abort acts = acts)
  \/ exists pre a post, acts = pre ++ a :: post /\ is_stop a = true
                        /\ (forall x, In x pre -> is_stop x = false)
                        /\ cut_at_abort acts = pre ++ [a].
Proof.
  induction acts as [|a r IH].
  - left. split; [intros a []|reflexivity].
  - destruct (is_stop a) eqn:Ea.
    + right. exists [], a, r. split; [reflexivity|]. split; [exact Ea|].
      split; [intros x []|]. destruct a; try discriminate Ea; reflexivity.
    + destruct IH as [[Hns Hid]|[pre [b [post [Hr [Hb [Hpre Hcut]]]]]]].
      * left. split.
        -- intros x [Hx|Hx]; [subst x; exact Ea|apply Hns; exact Hx].
        -- destruct a; try discriminate Ea; cbn [cut_at_abort]; rewrite Hid; reflexivity.
      * right. exists (a :: pre), b, post. subst r. split; [reflexivity|]. split; [exact Hb|].
        split.
        -- intros x [Hx|Hx]; [subst x; exact Ea|apply Hpre; exact Hx].
        -- destruct a; try discriminate Ea; cbn [cut_at_abort]; rewrite Hcut; reflexivity.
Qed.

Lemma cut_at_abort_in : forall acts a, In a (cut_at_abort acts) -> In a acts.
Proof.
  intros acts a Hin.
  destruct (cut_at_abort_spec acts) as [[_ Hid]|[pre [b [post [Hr [_ [_ Hcut]]]]]]].
  - rewrite Hid in Hin. exact Hin.
  - rewrite Hcut in Hin. rewrite Hr. apply in_app_iff in Hin. apply in_app_iff.
    destruct Hin as [H|[H|[]]]; [left; exact H|right; left; exact H].
Qed.

(* in a cut run a stop action can only be the last one *)
Lemma cut_at_abort_stop_last : forall acts l1 a l2,
  cut_at_abort acts = l1 ++ a :: l2 -> is_stop a = true -> l2 = [].
Proof.
  intros acts l1 a l2 Hc Ha.
  destruct (cut_at_abort_spec acts) as [[Hns Hid]|[pre [b [post [Hr [Hb [Hpre Hcut]]]]]]].
  - rewrite Hid in Hc. rewrite (Hns a) in Ha; [discriminate Ha|].
    rewrite Hc. apply in_app_iff. right. left. reflexivity.
  - rewrite Hcut in Hc. clear Hcut Hr.
    revert l1 Hc. induction pre as [|x pre IH]; intros l1 Hc.
    + destruct l1 as [|y l1]; cbn in Hc.
      * inversion Hc. reflexivity.
      * inversion Hc as [[H1 H2]]. destruct l1; discriminate H2.
    + destruct l1 as [|y l1]; cbn [app] in Hc.
      * inversion Hc; subst. rewrite (Hpre a) in Ha; [discriminate Ha|left; reflexivity].
      * inversion Hc as [[Hy H1]]. apply (IH (fun z Hz => Hpre z (or_intror Hz)) l1 H1).
Qed.

(* nested induction on trees *)
Section NodeInd.
  Variable P : node -> Prop.
  Hypothesis HF : forall nm c, P (F nm c).
  Hypothesis HD : forall nm ch, Forall P ch -> P (D nm ch).
  Fixpoint node_ind2 (n : node) : P n :=
    match n with
    | F nm c => HF nm c
    | D nm ch =>
        HD nm ch ((fix go (l : list node) : Forall P l :=
                     match l with
                     | [] => Forall_nil P
                     | x :: r => Forall_cons x (node_ind2 x) (go r)
                     end) ch)
    end.
End NodeInd.

(* ================================================================== *)
(* the walk                                                            *)
(* ================================================================== *)

Section WalkFacts.
  Variable st : wsettings.
  Variable hdrs : list str.
  Variable docfn : str -> str -> list N -> outcome.
  Variable excl : list str -> bool -> bool.

  (* ---- spec ---- *)

  (* no file fails *)
  Definition all_ok : Prop := forall t m c, exists text, docfn t m c = OOk text.

  Definition run_prefix (base : str) : str :=
    match ws_prefix st with Some p => p | None => base end.

  (* C13: which pages are expected, by structural recursion on the tree *)
  (* a visited directory is processed (index.rst and pages): always in a recursive run; in a
     non-recursive run with auto-exclusion only when it directly holds a non-excluded file whose
     name ends in .cmake (case-sensitive) *)
  Definition dir_processed (rel : list str) (children : list node) : bool :=
    negb (ws_auto_exclude st)
    || existsb (fun n => match n with
                         | F fn _ => lc_cmake_suffix fn && negb (excl (rel ++ [fn]) false)
                         | D _ _ => false
                         end) children
    || ws_recursive st.

  Definition expected_in_dir (rel : list str) (children : list node) : list (list str) :=
    if dir_processed rel children
    then (rel ++ [index_rst])
         :: flat_map (fun n => match n with
                               | F fn _ => if negb (excl (rel ++ [fn]) false) && is_cmake_name fn
                                           then [rel ++ [rst_name fn]] else []
                               | D _ _ => []
                               end) children
    else [].

  Fixpoint expected_sub (rel : list str) (n : node) : list (list str) :=
    match n with
    | F _ _ => []
    | D nm ch =>
        if keep_dir st excl rel (D nm ch)
        then expected_in_dir (rel ++ [nm]) ch ++ flat_map (expected_sub (rel ++ [nm])) ch
        else []
    end.

  Definition expected_paths (rel : list str) (children : list node) : list (list str) :=
    expected_in_dir rel children
    ++ (if ws_recursive st then flat_map (expected_sub rel) children else []).

  (* the directories (path, children) the run visits below (rel0, ch0) *)
  Inductive visited : list str -> list node -> list str -> list node -> Prop :=
  | v_here rel ch : visited rel ch rel ch
  | v_down rel ch nm sub rel' ch' :
      ws_recursive st = true -> In (D nm sub) ch -> keep_dir st excl rel (D nm sub) = true ->
      visited (rel ++ [nm]) sub rel' ch' -> visited rel ch rel' ch'.

  (* C14: the toctree of the directory (rel, ch) *)
  Definition nonexcl_files (rel : list str) (ch : list node) : list (str * list N) :=
    filter (fun f => negb (excl (rel ++ [fst f]) false)) (file_entries ch).
  Definition subdirs_of (rel : list str) (ch : list node) : list str :=
    sort_by (fun x => x) (map node_name (filter (keep_dir st excl rel) ch)).
  Definition files_of (rel : list str) (ch : list node) : list str :=
    map fst (sort_by fst (nonexcl_files rel ch)).
  Definition index_of (prefix : str) (rel : list str) (ch : list node) : str :=
    index_text st hdrs prefix rel (subdirs_of rel ch) (files_of rel ch).
  (* its entries, as written *)
  Definition toctree_dirs (rel : list str) (ch : list node) : list str :=
    if ws_recursive st then subdirs_of rel ch else [].
  Definition toctree_files (rel : list str) (ch : list node) : list str :=
    filter is_cmake_name (files_of rel ch).
  Definition toctree_entries (rel : list str) (ch : list node) : list str :=
    map (fun d => d ++ s"/index.rst") (toctree_dirs rel ch) ++ map stem (toctree_files rel ch).

  (* every written path is linked from the top index through toctree entries of written
     index pages *)
  Inductive reachable (prefix : str) (run : list action) : list str -> Prop :=
  | reach_top text : In (AWrite [index_rst] text) run -> reachable prefix run [index_rst]
  | reach_sub rel ch sub :
      reachable prefix run (rel ++ [index_rst]) ->
      In (AWrite (rel ++ [index_rst]) (index_of prefix rel ch)) run ->
      In sub (toctree_dirs rel ch) -> reachable prefix run (rel ++ [sub; index_rst])
  | reach_page rel ch f :
      reachable prefix run (rel ++ [index_rst]) ->
      In (AWrite (rel ++ [index_rst]) (index_of prefix rel ch)) run ->
      In f (toctree_files rel ch) -> reachable prefix run (rel ++ [rst_name f]).

  (* a page write is described by the file it documents *)
  Definition is_page_of (base : str) (rel : list str) (ch : list node) (p : list str) (text : str)
    : Prop :=
    exists fn bytes title modname,
      In (F fn bytes) ch /\ excl (rel ++ [fn]) false = false /\ is_cmake_name fn = true
      /\ p = rel ++ [rst_name fn]
      /\ (title, modname) = header_and_module (Some (run_prefix base)) (ws_sep st) (ws_ext_titles st)
                                              (ws_ext_modules st) (rel_string (rel ++ [fn]))
      /\ docfn title modname bytes = OOk text.

  (* ---- end of spec ---- *)

  Notation keepd := (keep_dir st excl).
  Notation vdir := (visit_dir st hdrs docfn excl).
  Notation dacts := (doc_actions st docfn).

  Lemma expected_sub_D : forall rel nm ch,
    expected_sub rel (D nm ch)
    = if keepd rel (D nm ch)
      then expected_in_dir (rel ++ [nm]) ch ++ flat_map (expected_sub (rel ++ [nm])) ch
      else [].
  Proof. reflexivity. Qed.

  (* the toctree entries are what index_text renders *)
  Lemma index_of_entries : forall prefix rel ch,
    index_of prefix rel ch
    = doc_text hdrs (match rel with
                     | [] => prefix
                     | _ :: _ => prefix ++ ws_sep st ++ rel_string rel
                     end)
        [Dir (s"toctree") [] [(s"maxdepth", s"2")] (map Para (toctree_entries rel ch))].
  Proof.
    intros prefix rel ch. unfold index_of, index_text, toctree_entries, toctree_dirs, toctree_files.
    rewrite map_app, !map_map. destruct (ws_recursive st); reflexivity.
  Qed.

  (* actions of everything below a kept child, flattened *)
  Fixpoint sub_acts (prefix : str) (rel : list str) (n : node) : list action :=
    match n with
    | F _ _ => []
    | D nm ch =>
        if keepd rel (D nm ch)
        then snd (vdir prefix (rel ++ [nm]) ch) ++ flat_map (sub_acts prefix (rel ++ [nm])) ch
        else []
    end.

  Lemma sub_acts_D : forall prefix rel nm ch,
    sub_acts prefix rel (D nm ch)
    = if keepd rel (D nm ch)
      then snd (vdir prefix (rel ++ [nm]) ch) ++ flat_map (sub_acts prefix (rel ++ [nm])) ch
      else [].
  Proof. reflexivity. Qed.

  Lemma visits_node_flat : forall prefix n rel,
    flat_map snd (visits_node st hdrs docfn excl prefix rel n) = sub_acts prefix rel n.
  Proof.
    intros prefix n. induction n as [nm c|nm ch IH] using node_ind2; intros rel.
    - reflexivity.
    - rewrite sub_acts_D. cbn [visits_node].
      destruct (keepd rel (D nm ch)); [|reflexivity].
      cbn [flat_map]. f_equal.
      induction IH as [|x r Hx Hr IHr]; [reflexivity|].
      rewrite flat_map_app. cbn [flat_map]. rewrite Hx, IHr. reflexivity.
  Qed.

  Lemma visits_flat : forall prefix rel ch,
    flat_map snd (visits st hdrs docfn excl prefix rel ch) = flat_map (sub_acts prefix rel) ch.
  Proof.
    intros prefix rel ch. unfold visits. rewrite flat_map_flat_map.
    apply flat_map_ext. intros n. apply visits_node_flat.
  Qed.

  Definition raw_acts (prefix : str) (top : list node) : list action :=
    snd (vdir prefix [] top) ++ (if ws_recursive st then flat_map (sub_acts prefix []) top else []).

  Lemma document_dir : forall base top,
    document st hdrs docfn excl base (KDir top)
    = if excl [] true then [] else cut_at_abort (raw_acts (run_prefix base) top).
  Proof.
    intros base top. unfold document, raw_acts, run_prefix.
    destruct (excl [] true); [reflexivity|]. f_equal.
    destruct (ws_recursive st).
    - cbn [flat_map]. rewrite visits_flat. reflexivity.
    - rewrite app_nil_r. reflexivity.
  Qed.
  (* ---------------- one file ---------------- *)

  Lemma doc_actions_cases : forall pre tn out name content,
    let tm := header_and_module pre (ws_sep st) (ws_ext_titles st) (ws_ext_modules st) tn in
    (exists text, docfn (fst tm) (snd tm) content = OOk text
                  /\ dacts pre tn out name content
                     = if ws_out st then [AMkDirs []; AWrite (out ++ [rst_name name]) text]
                       else [APrint (text ++ [nl])])
    \/ (exists o, docfn (fst tm) (snd tm) content = o /\ (forall t, o <> OOk t)
                  /\ dacts pre tn out name content = [AAbort o]).
  Proof.
    intros pre tn out name content. unfold doc_actions.
    destruct (header_and_module pre (ws_sep st) (ws_ext_titles st) (ws_ext_modules st) tn)
      as [title modname].
    cbn [fst snd]. destruct (docfn title modname content) as [text| | | |] eqn:E.
    - left. exists text. split; reflexivity.
    - right. exists ODecodeErr. split; [reflexivity|]. split; [discriminate|reflexivity].
    - right. exists OLexErr. split; [reflexivity|]. split; [discriminate|reflexivity].
    - right. exists OParseErr. split; [reflexivity|]. split; [discriminate|reflexivity].
    - right. exists OCrash. split; [reflexivity|]. split; [discriminate|reflexivity].
  Qed.

  Lemma doc_actions_ok : all_ok -> forall pre tn out name content,
    exists text,
      docfn (fst (header_and_module pre (ws_sep st) (ws_ext_titles st) (ws_ext_modules st) tn))
            (snd (header_and_module pre (ws_sep st) (ws_ext_titles st) (ws_ext_modules st) tn))
            content = OOk text
      /\ dacts pre tn out name content
         = if ws_out st then [AMkDirs []; AWrite (out ++ [rst_name name]) text]
           else [APrint (text ++ [nl])].
  Proof.
    intros Hok pre tn out name content.
    destruct (doc_actions_cases pre tn out name content) as [H|[o [Ho [Hno _]]]]; [exact H|].
    exfalso. cbv zeta in Ho.
    destruct (Hok (fst (header_and_module pre (ws_sep st) (ws_ext_titles st) (ws_ext_modules st) tn))
                  (snd (header_and_module pre (ws_sep st) (ws_ext_titles st) (ws_ext_modules st) tn))
                  content) as [t Ht].
    rewrite Ht in Ho. apply (Hno t). symmetry. exact Ho.
  Qed.

  (* W15, first part *)
  Theorem failed_file_aborts : forall pre tn out name content title modname o,
    (title, modname) = header_and_module pre (ws_sep st) (ws_ext_titles st) (ws_ext_modules st) tn ->
    docfn title modname content = o -> (forall t, o <> OOk t) ->
    dacts pre tn out name content = [AAbort o].
  Proof.
    intros pre tn out name content title modname o Htm Ho Hno.
    unfold doc_actions. rewrite <- Htm. rewrite Ho.
    destruct o as [t| | | |]; try reflexivity. exfalso. apply (Hno t). reflexivity.
  Qed.

  (* ---------------- one directory ---------------- *)

  Lemma file_entries_F : forall fn c r, file_entries (F fn c :: r) = (fn, c) :: file_entries r.
  Proof. reflexivity. Qed.
  Lemma file_entries_D : forall nm ch r, file_entries (D nm ch :: r) = file_entries r.
  Proof. reflexivity. Qed.

  Lemma in_file_entries : forall ch fn c, In (fn, c) (file_entries ch) <-> In (F fn c) ch.
  Proof.
    induction ch as [|n r IH]; intros fn c; [split; intros []|].
    destruct n as [fn' c'|nm sub].
    - rewrite file_entries_F. cbn [In]. rewrite IH. split; intros [H|H]; auto.
      + left. inversion H; reflexivity.
      + left. inversion H; reflexivity.
    - rewrite file_entries_D, IH. cbn [In]. split; [auto|].
      intros [H|H]; [discriminate H|exact H].
  Qed.

  Definition page_acts (prefix : str) (rel : list str) (f : str * list N) : list action :=
    if is_cmake_name (fst f)
    then dacts (Some prefix) (rel_string (rel ++ [fst f])) rel (fst f) (snd f)
    else [].

  Lemma processed_eq : forall rel ch,
    negb (ws_auto_exclude st) || existsb (fun f => lc_cmake_suffix (fst f)) (nonexcl_files rel ch)
    || ws_recursive st
    = dir_processed rel ch.
  Proof.
    intros rel ch. unfold dir_processed. f_equal. f_equal. unfold nonexcl_files.
    induction ch as [|n r IH]; [reflexivity|].
    destruct n as [fn c|nm sub].
    - rewrite file_entries_F. cbn [filter existsb fst].
      destruct (excl (rel ++ [fn]) false); cbn [negb existsb fst].
      + rewrite andb_false_r. exact IH.
      + rewrite andb_true_r, IH. reflexivity.
    - rewrite file_entries_D. cbn [existsb]. exact IH.
  Qed.

  Lemma visit_dir_eq : forall prefix rel ch,
    vdir prefix rel ch
    = if dir_processed rel ch
      then (true,
            (if ws_out st
             then [AMkDirs rel; AWrite (rel ++ [index_rst]) (index_of prefix rel ch)] else [])
            ++ flat_map (page_acts prefix rel) (sort_by fst (nonexcl_files rel ch)))
      else (false, []).
  Proof.
    intros prefix rel ch. rewrite <- processed_eq. reflexivity.
  Qed.

  Lemma visit_dir_fst : forall prefix rel ch, fst (vdir prefix rel ch) = dir_processed rel ch.
  Proof. intros. rewrite visit_dir_eq. destruct (dir_processed rel ch); reflexivity. Qed.

  Lemma in_sorted_files : forall rel ch f,
    In f (sort_by fst (nonexcl_files rel ch))
    <-> In (F (fst f) (snd f)) ch /\ excl (rel ++ [fst f]) false = false.
  Proof.
    intros rel ch f. split.
    - intros H. apply (Permutation_in _ (sort_by_perm fst _)) in H.
      unfold nonexcl_files in H. apply filter_In in H. destruct H as [H1 H2].
      destruct f as [fn c]. apply in_file_entries in H1. apply negb_true_iff in H2.
      split; assumption.
    - intros [H1 H2]. apply (Permutation_in _ (Permutation_sym (sort_by_perm fst _))).
      unfold nonexcl_files. apply filter_In. destruct f as [fn c]. split.
      + apply in_file_entries. exact H1.
      + apply negb_true_iff. exact H2.
  Qed.

  Lemma in_visit_dir : forall prefix rel ch a,
    In a (snd (vdir prefix rel ch)) <->
    dir_processed rel ch = true
    /\ ((ws_out st = true
         /\ (a = AMkDirs rel \/ a = AWrite (rel ++ [index_rst]) (index_of prefix rel ch)))
        \/ exists fn bytes,
             In (F fn bytes) ch /\ excl (rel ++ [fn]) false = false /\ is_cmake_name fn = true
             /\ In a (dacts (Some prefix) (rel_string (rel ++ [fn])) rel fn bytes)).
  Proof.
    intros prefix rel ch a. rewrite visit_dir_eq.
    destruct (dir_processed rel ch); cbn [snd].
    2:{ split; [intros []|intros [H _]; discriminate H]. }
    rewrite in_app_iff, in_flat_map. split.
    - intros [H|[f [Hf Ha]]]; (split; [reflexivity|]).
      + left. destruct (ws_out st); [|destruct H]. split; [reflexivity|].
        destruct H as [H|[H|[]]]; [left|right]; symmetry; exact H.
      + right. unfold page_acts in Ha. destruct (is_cmake_name (fst f)) eqn:Ec; [|destruct Ha].
        apply in_sorted_files in Hf. destruct Hf as [H1 H2].
        exists (fst f), (snd f). repeat split; assumption.
    - intros [_ [[Ho H]|[fn [bytes [H1 [H2 [H3 H4]]]]]]].
      + left. rewrite Ho. destruct H as [H|H]; subst a; [left|right; left]; reflexivity.
      + right. exists (fn, bytes). split.
        * apply in_sorted_files. split; assumption.
        * unfold page_acts. cbn [fst snd]. rewrite H3. exact H4.
  Qed.

  (* ---------------- the whole run ---------------- *)

  Lemma in_sub_acts : forall prefix a, ws_recursive st = true -> forall n rel0,
    In a (sub_acts prefix rel0 n) ->
    exists nm sub rel ch, n = D nm sub /\ keepd rel0 n = true
                          /\ visited (rel0 ++ [nm]) sub rel ch /\ In a (snd (vdir prefix rel ch)).
  Proof.
    intros prefix a Hrec n. induction n as [nm c|nm ch IH] using node_ind2; intros rel0 Hin.
    - destruct Hin.
    - rewrite sub_acts_D in Hin. destruct (keepd rel0 (D nm ch)) eqn:Ek; [|destruct Hin].
      apply in_app_iff in Hin. destruct Hin as [Hin|Hin].
      + exists nm, ch, (rel0 ++ [nm]), ch. repeat split; try assumption. constructor.
      + apply in_flat_map in Hin. destruct Hin as [c [Hc Hin]].
        rewrite Forall_forall in IH.
        destruct (IH c Hc _ Hin) as [nm' [sub [rel [ch' [E [Hk [Hv Ha]]]]]]].
        exists nm, ch, rel, ch'. repeat split; try assumption.
        subst c. eapply v_down; eassumption.
  Qed.
  Lemma visited_in_all : forall prefix a rel0 ch0 rel ch,
    visited rel0 ch0 rel ch -> In a (snd (vdir prefix rel ch)) ->
    In a (snd (vdir prefix rel0 ch0)
          ++ (if ws_recursive st then flat_map (sub_acts prefix rel0) ch0 else [])).
  Proof.
    intros prefix a rel0 ch0 rel ch Hv. induction Hv as [rel ch|rel ch nm sub rel' ch' Hrec Hin Hk Hv IH];
      intros Ha.
    - apply in_app_iff. left. exact Ha.
    - apply in_app_iff. right. rewrite Hrec. apply in_flat_map.
      exists (D nm sub). split; [exact Hin|].
      rewrite sub_acts_D, Hk. specialize (IH Ha). rewrite Hrec in IH. exact IH.
  Qed.

  (* the actions of a run are exactly the actions of its visited directories *)
  Lemma in_raw_iff : forall prefix top a,
    In a (raw_acts prefix top)
    <-> exists rel ch, visited [] top rel ch /\ In a (snd (vdir prefix rel ch)).
  Proof.
    intros prefix top a. unfold raw_acts. split.
    - intros H. apply in_app_iff in H. destruct H as [H|H].
      + exists [], top. split; [constructor|exact H].
      + destruct (ws_recursive st) eqn:Hrec; [|destruct H].
        apply in_flat_map in H. destruct H as [n [Hn H]].
        destruct (in_sub_acts prefix a Hrec n [] H) as [nm [sub [rel [ch [E [Hk [Hv Ha]]]]]]].
        exists rel, ch. split; [|exact Ha]. subst n. eapply v_down; eassumption.
    - intros [rel [ch [Hv Ha]]]. eapply visited_in_all; eassumption.
  Qed.

  Lemma visited_snoc : forall rel0 ch0 rel ch nm sub,
    visited rel0 ch0 rel ch -> ws_recursive st = true -> In (D nm sub) ch ->
    keepd rel (D nm sub) = true -> visited rel0 ch0 (rel ++ [nm]) sub.
  Proof.
    intros rel0 ch0 rel ch nm sub Hv Hrec Hin Hk.
    induction Hv as [rel ch|rel ch nm' sub' rel' ch' Hrec' Hin' Hk' Hv IH].
    - eapply v_down; try eassumption. constructor.
    - eapply v_down; try eassumption. apply IH; assumption.
  Qed.

  Lemma visited_prefix : forall rel0 ch0 rel ch,
    visited rel0 ch0 rel ch -> exists q, rel = rel0 ++ q.
  Proof.
    intros rel0 ch0 rel ch Hv. induction Hv as [rel ch|rel ch nm sub rel' ch' _ _ _ _ [q Hq]].
    - exists []. rewrite app_nil_r. reflexivity.
    - exists (nm :: q). rewrite Hq, <- app_assoc. reflexivity.
  Qed.

  (* ---------------- W7 / W11 / W15 ---------------- *)

  (* W7 *)
  Theorem excluded_input_no_output : forall base kind,
    excl [] (match kind with KDir _ => true | _ => false end) = true ->
    document st hdrs docfn excl base kind = [].
  Proof.
    intros base kind H. unfold document. rewrite H. reflexivity.
  Qed.

  Definition is_fs (a : action) : bool :=
    match a with AWrite _ _ | AMkDirs _ => true | _ => false end.

  Lemma no_fs_projections : forall acts,
    (forall a, In a acts -> is_fs a = false) -> write_paths acts = [] /\ mkdirs acts = [].
  Proof.
    induction acts as [|a r IH]; intros H; [split; reflexivity|].
    destruct IH as [IH1 IH2]; [intros x Hx; apply H; right; exact Hx|].
    assert (Ha : is_fs a = false) by (apply H; left; reflexivity).
    change (a :: r) with ([a] ++ r). rewrite write_paths_app, mkdirs_app, IH1, IH2.
    destruct a; try discriminate Ha; split; reflexivity.
  Qed.

  Lemma doc_actions_no_fs : ws_out st = false -> forall pre tn out name content a,
    In a (dacts pre tn out name content) -> is_fs a = false.
  Proof.
    intros Ho pre tn out name content a Ha.
    destruct (doc_actions_cases pre tn out name content) as [[text [_ E]]|[o [_ [_ E]]]];
      rewrite E in Ha.
    - rewrite Ho in Ha. destruct Ha as [Ha|[]]. subst a. reflexivity.
    - destruct Ha as [Ha|[]]. subst a. reflexivity.
  Qed.

  (* W11 *)
  Theorem no_output_dir_no_writes : ws_out st = false -> forall base kind,
    write_paths (document st hdrs docfn excl base kind) = []
    /\ mkdirs (document st hdrs docfn excl base kind) = [].
  Proof.
    intros Ho base kind. apply no_fs_projections. intros a Ha.
    destruct kind as [|content|top].
    - unfold document in Ha. destruct (excl [] false); [destruct Ha|].
      destruct Ha as [Ha|[]]. subst a. reflexivity.
    - unfold document in Ha. destruct (excl [] false); [destruct Ha|].
      apply cut_at_abort_in in Ha. rewrite Ho in Ha. cbn [app] in Ha.
      eapply doc_actions_no_fs; eassumption.
    - rewrite document_dir in Ha. destruct (excl [] true); [destruct Ha|].
      apply cut_at_abort_in in Ha. apply in_raw_iff in Ha.
      destruct Ha as [rel [ch [_ Ha]]]. apply in_visit_dir in Ha.
      destruct Ha as [_ [[Ho' _]|[fn [bytes [_ [_ [_ Ha]]]]]]]; [congruence|].
      eapply doc_actions_no_fs; eassumption.
  Qed.

  (* W15, single file: the run ends in the abort and writes nothing *)
  Theorem failed_file_aborts_run : forall base content title modname o,
    excl [] false = false ->
    (title, modname) = header_and_module (ws_prefix st) (ws_sep st) (ws_ext_titles st)
                                         (ws_ext_modules st) base ->
    docfn title modname content = o -> (forall t, o <> OOk t) ->
    document st hdrs docfn excl base (KFile content)
    = (if ws_out st then [AMkDirs []] else []) ++ [AAbort o]
    /\ write_paths (document st hdrs docfn excl base (KFile content)) = []
    /\ prints (document st hdrs docfn excl base (KFile content)) = [].
  Proof.
    intros base content title modname o He Htm Ho Hno.
    assert (E : document st hdrs docfn excl base (KFile content)
                = (if ws_out st then [AMkDirs []] else []) ++ [AAbort o]).
    { unfold document. rewrite He.
      rewrite (failed_file_aborts _ _ _ _ _ _ _ _ Htm Ho Hno).
      destruct (ws_out st); reflexivity. }
    rewrite E. split; [reflexivity|]. destruct (ws_out st); split; reflexivity.
  Qed.

  (* W15, directory: nothing follows the first abort *)
  Theorem nothing_after_abort : forall base kind l1 a l2,
    document st hdrs docfn excl base kind = l1 ++ a :: l2 -> is_stop a = true -> l2 = [].
  Proof.
    intros base kind l1 a l2 H Ha. unfold document in H.
    destruct (excl [] match kind with KDir _ => true | _ => false end).
    - destruct l1; discriminate H.
    - destruct kind as [|content|top].
      + destruct l1 as [|x l1]; inversion H as [[H1 H2]]; [reflexivity|].
        destruct l1; discriminate H2.
      + eapply cut_at_abort_stop_last; eassumption.
      + eapply cut_at_abort_stop_last; eassumption.
  Qed.

  (* ---------------- W4 ---------------- *)

  Theorem keep_dir_processed : forall rel nm ch,
    keepd rel (D nm ch) = true -> dir_processed (rel ++ [nm]) ch = true.
  Proof.
    intros rel nm ch H. unfold keep_dir in H. apply andb_true_iff in H. destruct H as [_ H].
    unfold dir_processed. apply orb_true_iff. left. rewrite <- H. f_equal.
    clear H. induction ch as [|c r IH]; [reflexivity|].
    cbn [existsb]. rewrite IH. destruct c as [fn bytes|nm' sub]; [|reflexivity].
    rewrite <- app_assoc. reflexivity.
  Qed.

  (* the repair of F23: in a recursive run every visited directory is processed, the input
     directory included, whether or not it directly holds a CMake file *)
  Lemma dir_processed_recursive : ws_recursive st = true -> forall rel ch,
    dir_processed rel ch = true.
  Proof.
    intros Hrec rel ch. unfold dir_processed. rewrite Hrec. apply orb_true_r.
  Qed.
  (* ---------------- all files succeed: nothing is cut ---------------- *)

  Lemma doc_actions_no_stop : all_ok -> forall pre tn out name content a,
    In a (dacts pre tn out name content) -> is_stop a = false.
  Proof.
    intros Hok pre tn out name content a Ha.
    destruct (doc_actions_ok Hok pre tn out name content) as [text [_ E]]. rewrite E in Ha.
    destruct (ws_out st).
    - destruct Ha as [Ha|[Ha|[]]]; subst a; reflexivity.
    - destruct Ha as [Ha|[]]; subst a; reflexivity.
  Qed.

  Lemma raw_no_stop : all_ok -> forall prefix top a, In a (raw_acts prefix top) -> is_stop a = false.
  Proof.
    intros Hok prefix top a Ha. apply in_raw_iff in Ha. destruct Ha as [rel [ch [_ Ha]]].
    apply in_visit_dir in Ha. destruct Ha as [_ [[_ [Ha|Ha]]|[fn [bytes [_ [_ [_ Ha]]]]]]].
    - subst a. reflexivity.
    - subst a. reflexivity.
    - eapply doc_actions_no_stop; eassumption.
  Qed.

  Lemma document_dir_ok : all_ok -> excl [] true = false -> forall base top,
    document st hdrs docfn excl base (KDir top) = raw_acts (run_prefix base) top.
  Proof.
    intros Hok He base top. rewrite document_dir, He.
    apply cut_at_abort_id. intros a Ha. eapply raw_no_stop; eassumption.
  Qed.

  (* ---------------- W1: the written paths ---------------- *)

  Definition page_paths (rel : list str) (f : str * list N) : list (list str) :=
    if is_cmake_name (fst f) then [rel ++ [rst_name (fst f)]] else [].

  Lemma write_paths_pages : all_ok -> ws_out st = true -> forall prefix rel l,
    write_paths (flat_map (page_acts prefix rel) l) = flat_map (page_paths rel) l.
  Proof.
    intros Hok Ho prefix rel l. induction l as [|f r IH]; [reflexivity|].
    cbn [flat_map]. rewrite write_paths_app, IH. f_equal.
    unfold page_acts, page_paths. destruct (is_cmake_name (fst f)); [|reflexivity].
    destruct (doc_actions_ok Hok (Some prefix) (rel_string (rel ++ [fst f])) rel (fst f) (snd f))
      as [text [_ E]].
    rewrite E, Ho. reflexivity.
  Qed.

  Lemma page_paths_children : forall rel ch,
    flat_map (page_paths rel) (nonexcl_files rel ch)
    = flat_map (fun n => match n with
                         | F fn _ => if negb (excl (rel ++ [fn]) false) && is_cmake_name fn
                                     then [rel ++ [rst_name fn]] else []
                         | D _ _ => []
                         end) ch.
  Proof.
    intros rel ch. unfold nonexcl_files. induction ch as [|n r IH]; [reflexivity|].
    destruct n as [fn c|nm sub].
    - rewrite file_entries_F. cbn [filter flat_map fst].
      destruct (excl (rel ++ [fn]) false); cbn [negb andb flat_map].
      + exact IH.
      + rewrite IH. reflexivity.
    - rewrite file_entries_D. cbn [flat_map app]. exact IH.
  Qed.

  Lemma write_paths_visit_dir : all_ok -> ws_out st = true -> forall prefix rel ch,
    write_paths (snd (vdir prefix rel ch))
    = if dir_processed rel ch
      then (rel ++ [index_rst]) :: flat_map (page_paths rel) (sort_by fst (nonexcl_files rel ch))
      else [].
  Proof.
    intros Hok Ho prefix rel ch. rewrite visit_dir_eq.
    destruct (dir_processed rel ch); [|reflexivity].
    cbn [snd]. rewrite Ho, write_paths_app, write_paths_pages by assumption. reflexivity.
  Qed.

  Lemma visit_dir_perm : all_ok -> ws_out st = true -> forall prefix rel ch,
    Permutation (write_paths (snd (vdir prefix rel ch))) (expected_in_dir rel ch).
  Proof.
    intros Hok Ho prefix rel ch. rewrite write_paths_visit_dir by assumption.
    unfold expected_in_dir. destruct (dir_processed rel ch); [|constructor].
    apply perm_skip. rewrite <- page_paths_children.
    apply Permutation_flat_map. apply sort_by_perm.
  Qed.

  Lemma sub_acts_perm : all_ok -> ws_out st = true -> forall prefix n rel,
    Permutation (write_paths (sub_acts prefix rel n)) (expected_sub rel n).
  Proof.
    intros Hok Ho prefix n. induction n as [nm c|nm ch IH] using node_ind2; intros rel.
    - constructor.
    - rewrite sub_acts_D, expected_sub_D. destruct (keepd rel (D nm ch)); [|constructor].
      rewrite write_paths_app. apply Permutation_app; [apply visit_dir_perm; assumption|].
      induction IH as [|x r Hx Hr IHr]; [constructor|].
      cbn [flat_map]. rewrite write_paths_app. apply Permutation_app; [apply Hx|exact IHr].
  Qed.

  Lemma raw_acts_perm : all_ok -> ws_out st = true -> forall prefix top,
    Permutation (write_paths (raw_acts prefix top)) (expected_paths [] top).
  Proof.
    intros Hok Ho prefix top. unfold raw_acts, expected_paths.
    rewrite write_paths_app. apply Permutation_app; [apply visit_dir_perm; assumption|].
    destruct (ws_recursive st); [|constructor].
    induction top as [|x r IH]; [constructor|].
    cbn [flat_map]. rewrite write_paths_app.
    apply Permutation_app; [apply sub_acts_perm; assumption|exact IH].
  Qed.

  (* W1 *)
  Theorem writes_exact : ws_out st = true -> all_ok -> excl [] true = false -> forall base children,
    Permutation (write_paths (document st hdrs docfn excl base (KDir children)))
                (expected_paths [] children).
  Proof.
    intros Ho Hok He base children. rewrite document_dir_ok by assumption.
    apply raw_acts_perm; assumption.
  Qed.

  Corollary writes_exact_in : ws_out st = true -> all_ok -> excl [] true = false ->
    forall base children p,
    In p (write_paths (document st hdrs docfn excl base (KDir children)))
    <-> In p (expected_paths [] children).
  Proof.
    intros Ho Hok He base children p. split; apply Permutation_in.
    - apply writes_exact; assumption.
    - apply Permutation_sym. apply writes_exact; assumption.
  Qed.

  (* without --recursive only the input directory itself *)
  Corollary writes_exact_nonrecursive : ws_recursive st = false -> forall children,
    expected_paths [] children = expected_in_dir [] children.
  Proof.
    intros Hr children. unfold expected_paths. rewrite Hr. apply app_nil_r.
  Qed.

  (* the recursion of expected_paths, as requested *)
  Lemma expected_sub_paths : ws_recursive st = true -> forall rel nm ch,
    expected_sub rel (D nm ch)
    = if keepd rel (D nm ch) then expected_paths (rel ++ [nm]) ch else [].
  Proof.
    intros Hr rel nm ch. rewrite expected_sub_D. unfold expected_paths. rewrite Hr. reflexivity.
  Qed.
  (* ---------------- what every action of a run is ---------------- *)

  Lemma visited_snoc_ind : forall rel0 ch0 (P : list str -> list node -> Prop),
    P rel0 ch0 ->
    (forall rel ch nm sub, visited rel0 ch0 rel ch -> P rel ch -> ws_recursive st = true ->
                           In (D nm sub) ch -> keepd rel (D nm sub) = true -> P (rel ++ [nm]) sub) ->
    forall rel ch, visited rel0 ch0 rel ch -> P rel ch.
  Proof.
    intros rel0 ch0 P H0 Hstep rel ch Hv. revert P H0 Hstep.
    induction Hv as [rel ch|rel ch nm sub rel' ch' Hrec Hin Hk Hv IH]; intros P H0 Hstep.
    - exact H0.
    - apply IH.
      + apply (Hstep rel ch nm sub); try assumption. constructor.
      + intros r c nm' sub' Hv' HP Hrec' Hin' Hk'.
        apply (Hstep r c nm' sub'); try assumption.
        eapply v_down; eassumption.
  Qed.

  Lemma in_doc_actions_write : forall pre tn out name content p text,
    In (AWrite p text) (dacts pre tn out name content) ->
    ws_out st = true /\ p = out ++ [rst_name name]
    /\ docfn (fst (header_and_module pre (ws_sep st) (ws_ext_titles st) (ws_ext_modules st) tn))
             (snd (header_and_module pre (ws_sep st) (ws_ext_titles st) (ws_ext_modules st) tn))
             content = OOk text.
  Proof.
    intros pre tn out name content p text Hin.
    destruct (doc_actions_cases pre tn out name content) as [[t [Hd E]]|[o [_ [_ E]]]];
      rewrite E in Hin.
    - destruct (ws_out st).
      + destruct Hin as [Hin|[Hin|[]]]; [discriminate Hin|]. inversion Hin; subst.
        split; [reflexivity|]. split; [reflexivity|exact Hd].
      + destruct Hin as [Hin|[]]. discriminate Hin.
    - destruct Hin as [Hin|[]]. discriminate Hin.
  Qed.

  Lemma in_doc_actions_mkdirs : forall pre tn out name content p,
    In (AMkDirs p) (dacts pre tn out name content) -> ws_out st = true /\ p = [].
  Proof.
    intros pre tn out name content p Hin.
    destruct (doc_actions_cases pre tn out name content) as [[t [Hd E]]|[o [_ [_ E]]]];
      rewrite E in Hin.
    - destruct (ws_out st).
      + destruct Hin as [Hin|[Hin|[]]]; [|discriminate Hin]. inversion Hin; subst.
        split; reflexivity.
      + destruct Hin as [Hin|[]]. discriminate Hin.
    - destruct Hin as [Hin|[]]. discriminate Hin.
  Qed.

  Lemma in_document_dir : forall base top a,
    In a (document st hdrs docfn excl base (KDir top)) ->
    excl [] true = false
    /\ exists rel ch, visited [] top rel ch /\ In a (snd (vdir (run_prefix base) rel ch)).
  Proof.
    intros base top a Ha. rewrite document_dir in Ha.
    destruct (excl [] true); [destruct Ha|]. split; [reflexivity|].
    apply cut_at_abort_in in Ha. apply in_raw_iff in Ha. exact Ha.
  Qed.

  (* every write of a directory run is the index of a visited directory or the page of a
     non-excluded file of a visited directory *)
  Theorem write_cases : forall base top p text,
    In (AWrite p text) (document st hdrs docfn excl base (KDir top)) ->
    ws_out st = true /\ excl [] true = false
    /\ exists rel ch, visited [] top rel ch /\ dir_processed rel ch = true
        /\ ((p = rel ++ [index_rst] /\ text = index_of (run_prefix base) rel ch)
            \/ is_page_of base rel ch p text).
  Proof.
    intros base top p text Hin. apply in_document_dir in Hin.
    destruct Hin as [He [rel [ch [Hv Hin]]]]. apply in_visit_dir in Hin.
    destruct Hin as [Hp [[Ho [H|H]]|[fn [bytes [H1 [H2 [H3 H4]]]]]]].
    - discriminate H.
    - inversion H; subst. split; [exact Ho|]. split; [exact He|].
      exists rel, ch. split; [exact Hv|]. split; [exact Hp|]. left. split; reflexivity.
    - apply in_doc_actions_write in H4. destruct H4 as [Ho [Hpp Hd]].
      split; [exact Ho|]. split; [exact He|].
      exists rel, ch. split; [exact Hv|]. split; [exact Hp|]. right.
      exists fn, bytes.
      exists (fst (header_and_module (Some (run_prefix base)) (ws_sep st) (ws_ext_titles st)
                                     (ws_ext_modules st) (rel_string (rel ++ [fn])))),
             (snd (header_and_module (Some (run_prefix base)) (ws_sep st) (ws_ext_titles st)
                                     (ws_ext_modules st) (rel_string (rel ++ [fn])))).
      repeat split; try assumption.
  Qed.

  Lemma mkdir_cases : forall base top p,
    In (AMkDirs p) (document st hdrs docfn excl base (KDir top)) ->
    ws_out st = true /\ (p = [] \/ exists ch, visited [] top p ch /\ dir_processed p ch = true).
  Proof.
    intros base top p Hin. apply in_document_dir in Hin.
    destruct Hin as [He [rel [ch [Hv Hin]]]]. apply in_visit_dir in Hin.
    destruct Hin as [Hp [[Ho [H|H]]|[fn [bytes [H1 [H2 [H3 H4]]]]]]].
    - inversion H; subst. split; [exact Ho|]. right. exists ch. split; assumption.
    - discriminate H.
    - apply in_doc_actions_mkdirs in H4. destruct H4 as [Ho Hpp]. split; [exact Ho|left; exact Hpp].
  Qed.

  (* W2 *)
  Theorem page_content : forall base top p text,
    In (AWrite p text) (document st hdrs docfn excl base (KDir top)) ->
    (forall rel, p <> rel ++ [index_rst]) ->
    exists rel ch, visited [] top rel ch /\ is_page_of base rel ch p text.
  Proof.
    intros base top p text Hin Hni. apply write_cases in Hin.
    destruct Hin as [_ [_ [rel [ch [Hv [_ [[Hp _]|Hp]]]]]]].
    - exfalso. exact (Hni rel Hp).
    - exists rel, ch. split; assumption.
  Qed.

  (* stems of page files of a visited directory *)
  Lemma in_cmake_stems : forall ch fn bytes,
    In (F fn bytes) ch -> is_cmake_name fn = true -> In (stem fn) (cmake_stems ch).
  Proof.
    intros ch fn bytes Hin Hc. unfold cmake_stems. apply in_map. apply filter_In. split; [|exact Hc].
    apply in_file_entries in Hin. apply (in_map fst) in Hin. exact Hin.
  Qed.

  Lemma no_index_page_sub : forall ch nm sub,
    no_index_page ch = true -> In (D nm sub) ch -> no_index_page sub = true.
  Proof.
    intros ch nm sub H Hin. unfold no_index_page in H. apply andb_true_iff in H.
    destruct H as [_ H]. rewrite forallb_forall in H. apply (H _ Hin).
  Qed.

  Lemma visited_no_index : forall rel0 ch0 rel ch,
    visited rel0 ch0 rel ch -> no_index_page ch0 = true -> no_index_page ch = true.
  Proof.
    intros rel0 ch0 rel ch Hv. induction Hv as [rel ch|rel ch nm sub rel' ch' _ Hin _ _ IH]; intros H.
    - exact H.
    - apply IH. eapply no_index_page_sub; eassumption.
  Qed.

  Lemma rst_name_index : forall fn, rst_name fn = index_rst -> stem fn = index_stem.
  Proof.
    intros fn H. unfold rst_name in H.
    change index_rst with (index_stem ++ s".rst") in H. apply app_inv_tail in H. exact H.
  Qed.

  Lemma page_not_index : forall ch fn bytes,
    no_index_page ch = true -> In (F fn bytes) ch -> is_cmake_name fn = true ->
    rst_name fn <> index_rst.
  Proof.
    intros ch fn bytes Hn Hin Hc E. apply rst_name_index in E.
    unfold no_index_page in Hn. apply andb_true_iff in Hn. destruct Hn as [Hn _].
    apply negb_true_iff in Hn.
    assert (Hm : mem_str index_stem (cmake_stems ch) = true).
    { apply mem_str_in. rewrite <- E. eapply in_cmake_stems; eassumption. }
    congruence.
  Qed.

  (* W3 *)
  Theorem index_content : forall base top rel text,
    no_index_page top = true ->
    In (AWrite (rel ++ [index_rst]) text) (document st hdrs docfn excl base (KDir top)) ->
    exists ch, visited [] top rel ch /\ dir_processed rel ch = true
               /\ text = index_of (run_prefix base) rel ch.
  Proof.
    intros base top rel text Hni Hin. apply write_cases in Hin.
    destruct Hin as [_ [_ [rel' [ch [Hv [Hp [[Hpp Ht]|Hpg]]]]]]].
    - apply app_inj_tail in Hpp. destruct Hpp as [Hr _]. subst rel'.
      exists ch. repeat split; assumption.
    - exfalso. destruct Hpg as [fn [bytes [title [modname [H1 [H2 [H3 [H4 _]]]]]]]].
      apply app_inj_tail in H4. destruct H4 as [_ H4].
      eapply page_not_index; [eapply visited_no_index; eassumption|exact H1|exact H3|].
      symmetry. exact H4.
  Qed.
  (* ---------------- W9: excluded directories are not descended ---------------- *)

  (* no non-empty prefix of d is an excluded directory *)
  Definition clear_path (d : list str) : Prop :=
    forall pre x suf, d = pre ++ x :: suf -> excl (pre ++ [x]) true = false.

  Lemma clear_path_snoc : forall d nm,
    clear_path d -> excl (d ++ [nm]) true = false -> clear_path (d ++ [nm]).
  Proof.
    intros d nm Hc He pre x suf E.
    destruct suf as [|y suf'] using rev_ind.
    - apply app_inj_tail in E. destruct E as [E1 E2]. subst. exact He.
    - clear IHsuf'. change (pre ++ x :: suf' ++ [y]) with (pre ++ (x :: suf') ++ [y]) in E.
      rewrite app_assoc in E. apply app_inj_tail in E. destruct E as [E1 E2].
      apply (Hc pre x suf'). exact E1.
  Qed.

  Lemma keep_dir_not_excluded : forall rel nm sub,
    keepd rel (D nm sub) = true -> excl (rel ++ [nm]) true = false.
  Proof.
    intros rel nm sub H. unfold keep_dir in H. apply andb_true_iff in H.
    destruct H as [H _]. apply negb_true_iff in H. exact H.
  Qed.

  Lemma visited_clear : forall top rel ch, visited [] top rel ch -> clear_path rel.
  Proof.
    intros top rel ch Hv.
    refine (visited_snoc_ind [] top (fun r _ => clear_path r) _ _ rel ch Hv).
    - intros pre x suf E. destruct pre; discriminate E.
    - intros r c nm sub _ Hc _ _ Hk. apply clear_path_snoc; [exact Hc|].
      eapply keep_dir_not_excluded; exact Hk.
  Qed.

  Theorem excluded_dir_not_descended : forall base top rel nm,
    excl (rel ++ [nm]) true = true ->
    (forall p q, In p (write_paths (document st hdrs docfn excl base (KDir top))) ->
                 q <> [] -> p <> rel ++ nm :: q)
    /\ (forall p q, In p (mkdirs (document st hdrs docfn excl base (KDir top))) ->
                    p <> rel ++ nm :: q).
  Proof.
    intros base top rel nm He. split.
    - intros p q Hin Hq E. apply in_write_paths in Hin. destruct Hin as [text Hin].
      apply write_cases in Hin. destruct Hin as [_ [_ [rel' [ch [Hv [_ Hc]]]]]].
      assert (Hp : exists x, p = rel' ++ [x]).
      { destruct Hc as [[Hp _]|[fn [bytes [title [modname [_ [_ [_ [Hp _]]]]]]]]];
          eexists; exact Hp. }
      destruct Hp as [x Hp]. rewrite Hp in E. clear Hp.
      destruct (exists_last Hq) as [q' [y Hq']]. rewrite Hq' in E. clear Hq'.
      change (rel ++ nm :: q' ++ [y]) with (rel ++ (nm :: q') ++ [y]) in E.
      rewrite app_assoc in E. apply app_inj_tail in E. destruct E as [E _].
      apply visited_clear in Hv. rewrite (Hv rel nm q' E) in He. discriminate He.
    - intros p q Hin E. apply in_mkdirs in Hin. apply mkdir_cases in Hin.
      destruct Hin as [_ [Hp|[ch [Hv _]]]].
      + rewrite Hp in E. destruct rel; discriminate E.
      + apply visited_clear in Hv. rewrite (Hv rel nm q E) in He. discriminate He.
  Qed.

  (* ---------------- what is written (all files succeed) ---------------- *)

  Lemma index_written : all_ok -> ws_out st = true -> excl [] true = false ->
    forall base top rel ch, visited [] top rel ch -> dir_processed rel ch = true ->
    In (AWrite (rel ++ [index_rst]) (index_of (run_prefix base) rel ch))
       (document st hdrs docfn excl base (KDir top)).
  Proof.
    intros Hok Ho He base top rel ch Hv Hp. rewrite document_dir_ok by assumption.
    apply in_raw_iff. exists rel, ch. split; [exact Hv|]. apply in_visit_dir.
    split; [exact Hp|]. left. split; [exact Ho|]. right. reflexivity.
  Qed.

  Lemma page_written : all_ok -> ws_out st = true -> excl [] true = false ->
    forall base top rel ch fn bytes, visited [] top rel ch -> dir_processed rel ch = true ->
    In (F fn bytes) ch -> excl (rel ++ [fn]) false = false -> is_cmake_name fn = true ->
    exists text, In (AWrite (rel ++ [rst_name fn]) text) (document st hdrs docfn excl base (KDir top)).
  Proof.
    intros Hok Ho He base top rel ch fn bytes Hv Hp Hin Hne Hc.
    destruct (doc_actions_ok Hok (Some (run_prefix base)) (rel_string (rel ++ [fn])) rel fn bytes)
      as [text [_ E]].
    exists text. rewrite document_dir_ok by assumption.
    apply in_raw_iff. exists rel, ch. split; [exact Hv|]. apply in_visit_dir.
    split; [exact Hp|]. right. exists fn, bytes. repeat split; try assumption.
    rewrite E, Ho. right. left. reflexivity.
  Qed.

  (* ---------------- C14: toctrees closed and complete ---------------- *)

  Lemma in_subdirs_of : forall rel ch sub,
    In sub (subdirs_of rel ch) <-> exists sch, In (D sub sch) ch /\ keepd rel (D sub sch) = true.
  Proof.
    intros rel ch sub. unfold subdirs_of. split.
    - intros H. apply (Permutation_in _ (sort_by_perm _ _)) in H.
      apply in_map_iff in H. destruct H as [n [Hn H]]. apply filter_In in H.
      destruct H as [H1 H2]. destruct n as [fn c|nm sch]; [discriminate H2|].
      cbn [node_name] in Hn. subst nm. exists sch. split; assumption.
    - intros [sch [H1 H2]]. apply (Permutation_in _ (Permutation_sym (sort_by_perm _ _))).
      apply in_map_iff. exists (D sub sch). split; [reflexivity|].
      apply filter_In. split; assumption.
  Qed.

  Lemma in_files_of : forall rel ch f,
    In f (files_of rel ch) <-> exists bytes, In (F f bytes) ch /\ excl (rel ++ [f]) false = false.
  Proof.
    intros rel ch f. unfold files_of. rewrite in_map_iff. split.
    - intros [[fn bytes] [E H]]. cbn [fst] in E. subst fn. apply in_sorted_files in H.
      exists bytes. exact H.
    - intros [bytes H]. exists (f, bytes). split; [reflexivity|]. apply in_sorted_files. exact H.
  Qed.

  (* W4, consequence *)
  Theorem toctree_closed_dirs : all_ok -> ws_out st = true -> excl [] true = false ->
    forall base top rel ch sub, visited [] top rel ch -> In sub (toctree_dirs rel ch) ->
    In (rel ++ [sub; index_rst]) (write_paths (document st hdrs docfn excl base (KDir top))).
  Proof.
    intros Hok Ho He base top rel ch sub Hv Hin. unfold toctree_dirs in Hin.
    destruct (ws_recursive st) eqn:Hrec; [|destruct Hin].
    apply in_subdirs_of in Hin. destruct Hin as [sch [H1 H2]].
    apply in_write_paths. exists (index_of (run_prefix base) (rel ++ [sub]) sch).
    change (rel ++ [sub; index_rst]) with (rel ++ [sub] ++ [index_rst]). rewrite app_assoc.
    apply index_written; try assumption.
    - eapply visited_snoc; eassumption.
    - apply keep_dir_processed. exact H2.
  Qed.

  Theorem toctree_closed_files : all_ok -> ws_out st = true -> excl [] true = false ->
    forall base top rel ch f, visited [] top rel ch -> dir_processed rel ch = true ->
    In f (toctree_files rel ch) ->
    In (rel ++ [rst_name f]) (write_paths (document st hdrs docfn excl base (KDir top))).
  Proof.
    intros Hok Ho He base top rel ch f Hv Hp Hin. unfold toctree_files in Hin.
    apply filter_In in Hin. destruct Hin as [Hin Hc]. apply in_files_of in Hin.
    destruct Hin as [bytes [H1 H2]]. apply in_write_paths.
    eapply page_written; eassumption.
  Qed.

  (* W5 *)
  Lemma visited_index_reachable : all_ok -> ws_out st = true -> excl [] true = false ->
    forall base top, dir_processed [] top = true ->
    forall rel ch, visited [] top rel ch ->
    dir_processed rel ch = true
    /\ reachable (run_prefix base) (document st hdrs docfn excl base (KDir top)) (rel ++ [index_rst]).
  Proof.
    intros Hok Ho He base top Hp rel ch Hv.
    apply (visited_snoc_ind [] top
             (fun r c => dir_processed r c = true
                         /\ reachable (run_prefix base) (document st hdrs docfn excl base (KDir top))
                                      (r ++ [index_rst]))); [| |exact Hv].
    - split; [exact Hp|]. eapply reach_top.
      apply (index_written Hok Ho He base top [] top); [constructor|exact Hp].
    - intros r c nm sub Hv' [Hp' Hr] Hrec Hin Hk. split; [apply keep_dir_processed; exact Hk|].
      rewrite <- app_assoc. apply (reach_sub _ _ r c nm); [exact Hr| |].
      + apply index_written; assumption.
      + unfold toctree_dirs. rewrite Hrec. apply in_subdirs_of. exists sub. split; assumption.
  Qed.

  Theorem all_written_reachable : all_ok -> ws_out st = true -> excl [] true = false ->
    forall base top, dir_processed [] top = true ->
    forall p, In p (write_paths (document st hdrs docfn excl base (KDir top))) ->
    reachable (run_prefix base) (document st hdrs docfn excl base (KDir top)) p.
  Proof.
    intros Hok Ho He base top Hp p Hin. apply in_write_paths in Hin. destruct Hin as [text Hin].
    apply write_cases in Hin. destruct Hin as [_ [_ [rel [ch [Hv [Hpr Hc]]]]]].
    destruct (visited_index_reachable Hok Ho He base top Hp rel ch Hv) as [_ Hr].
    destruct Hc as [[Hpp _]|[fn [bytes [title [modname [H1 [H2 [H3 [H4 _]]]]]]]]].
    - subst p. exact Hr.
    - subst p. apply (reach_page _ _ rel ch fn); [exact Hr| |].
      + apply index_written; assumption.
      + unfold toctree_files. apply filter_In. split; [|exact H3].
        apply in_files_of. exists bytes. split; assumption.
  Qed.

  (* W5 for recursive runs: no hypothesis about the input directory (F23 repaired) *)
  Theorem all_written_reachable_recursive : all_ok -> ws_out st = true -> excl [] true = false ->
    ws_recursive st = true ->
    forall base top p, In p (write_paths (document st hdrs docfn excl base (KDir top))) ->
    reachable (run_prefix base) (document st hdrs docfn excl base (KDir top)) p.
  Proof.
    intros Hok Ho He Hrec base top p Hin.
    apply all_written_reachable; try assumption.
    apply dir_processed_recursive. exact Hrec.
  Qed.

  (* W5 without any hypothesis about the input directory: when it is not processed the run is
     not recursive and writes nothing at all *)
  Lemma unprocessed_top_writes_nothing : forall base top,
    dir_processed [] top = false -> document st hdrs docfn excl base (KDir top) = [].
  Proof.
    intros base top Hp. rewrite document_dir. destruct (excl [] true); [reflexivity|].
    unfold raw_acts. rewrite visit_dir_eq, Hp. cbn [snd app].
    unfold dir_processed in Hp. apply orb_false_iff in Hp. destruct Hp as [_ Hrec].
    rewrite Hrec. reflexivity.
  Qed.

  Theorem all_written_reachable_always : all_ok -> ws_out st = true -> excl [] true = false ->
    forall base top p, In p (write_paths (document st hdrs docfn excl base (KDir top))) ->
    reachable (run_prefix base) (document st hdrs docfn excl base (KDir top)) p.
  Proof.
    intros Hok Ho He base top p Hin. destruct (dir_processed [] top) eqn:Hp.
    - apply all_written_reachable; assumption.
    - rewrite (unprocessed_top_writes_nothing base top Hp) in Hin. destruct Hin.
  Qed.

  (* the top index.rst of a processed input directory is written whatever happens to the files:
     it precedes every page, so no abort can cut it *)
  Lemma top_index_written : ws_out st = true -> excl [] true = false ->
    forall base top, dir_processed [] top = true ->
    In (AWrite [index_rst] (index_of (run_prefix base) [] top))
       (document st hdrs docfn excl base (KDir top)).
  Proof.
    intros Ho He base top Hp. rewrite document_dir, He. unfold raw_acts.
    rewrite visit_dir_eq, Hp. cbn [snd]. rewrite Ho. cbn [app cut_at_abort].
    right. left. reflexivity.
  Qed.

  Theorem top_index_always_written_recursive : ws_out st = true -> ws_recursive st = true ->
    excl [] true = false -> forall base children,
    In (AWrite [index_rst] (index_of (run_prefix base) [] children))
       (document st hdrs docfn excl base (KDir children)).
  Proof.
    intros Ho Hrec He base children. apply top_index_written; try assumption.
    apply dir_processed_recursive. exact Hrec.
  Qed.

  (* snoc-inversion of visited: a visited directory below the top has a visited parent *)
  Lemma visited_parent : forall rel0 ch0 rel' ch',
    visited rel0 ch0 rel' ch' ->
    (rel' = rel0 /\ ch' = ch0)
    \/ exists rel ch nm, visited rel0 ch0 rel ch /\ ws_recursive st = true /\ In (D nm ch') ch
                         /\ keepd rel (D nm ch') = true /\ rel' = rel ++ [nm].
  Proof.
    intros rel0 ch0 rel' ch' Hv.
    apply (visited_snoc_ind rel0 ch0
             (fun r' c' => (r' = rel0 /\ c' = ch0)
                \/ exists rel ch nm, visited rel0 ch0 rel ch /\ ws_recursive st = true
                     /\ In (D nm c') ch /\ keepd rel (D nm c') = true /\ r' = rel ++ [nm]));
      [| |exact Hv].
    - left. split; reflexivity.
    - intros r c nm sub Hv' _ Hrec Hin Hk. right. exists r, c, nm. repeat split; assumption.
  Qed.

  (* W5, link form: every written path except the top index is an entry of a written index *)
  Theorem toctree_complete : all_ok -> ws_out st = true -> excl [] true = false ->
    forall base top, dir_processed [] top = true ->
    forall p, In p (write_paths (document st hdrs docfn excl base (KDir top))) ->
    p = [index_rst]
    \/ exists rel ch,
         visited [] top rel ch
         /\ In (AWrite (rel ++ [index_rst]) (index_of (run_prefix base) rel ch))
               (document st hdrs docfn excl base (KDir top))
         /\ ((exists sub, In sub (toctree_dirs rel ch) /\ p = rel ++ [sub; index_rst])
             \/ (exists f, In f (toctree_files rel ch) /\ p = rel ++ [rst_name f])).
  Proof.
    intros Hok Ho He base top Hp p Hin. apply in_write_paths in Hin. destruct Hin as [text Hin].
    apply write_cases in Hin. destruct Hin as [_ [_ [rel [ch [Hv [Hpr Hc]]]]]].
    destruct Hc as [[Hpp _]|[fn [bytes [title [modname [H1 [H2 [H3 [H4 _]]]]]]]]].
    - destruct (visited_parent _ _ _ _ Hv) as [[Hr _]|[r [c [nm [Hv' [Hrec [Hin' [Hk Hr]]]]]]]].
      + left. subst. reflexivity.
      + right. exists r, c. split; [exact Hv'|].
        destruct (visited_index_reachable Hok Ho He base top Hp r c Hv') as [Hpc _].
        split; [apply index_written; assumption|].
        left. exists nm. split.
        * unfold toctree_dirs. rewrite Hrec. apply in_subdirs_of. exists ch. split; assumption.
        * subst. rewrite <- app_assoc. reflexivity.
    - right. exists rel, ch. split; [exact Hv|]. split; [apply index_written; assumption|].
      right. exists fn. split; [|exact H4].
      unfold toctree_files. apply filter_In. split; [|exact H3].
      apply in_files_of. exists bytes. split; assumption.
  Qed.

  (* ---------------- W8 (direct form): pages come from non-excluded files ---------------- *)

  Theorem written_page_from_nonexcluded : forall base top p,
    In p (write_paths (document st hdrs docfn excl base (KDir top))) ->
    (exists rel ch, visited [] top rel ch /\ p = rel ++ [index_rst])
    \/ (exists rel ch fn bytes, visited [] top rel ch /\ In (F fn bytes) ch
                                /\ excl (rel ++ [fn]) false = false /\ is_cmake_name fn = true
                                /\ p = rel ++ [rst_name fn]).
  Proof.
    intros base top p Hin. apply in_write_paths in Hin. destruct Hin as [text Hin].
    apply write_cases in Hin. destruct Hin as [_ [_ [rel [ch [Hv [Hpr Hc]]]]]].
    destruct Hc as [[Hpp _]|[fn [bytes [title [modname [H1 [H2 [H3 [H4 _]]]]]]]]].
    - left. exists rel, ch. split; assumption.
    - right. exists rel, ch, fn, bytes. repeat split; assumption.
  Qed.
  (* ---------------- W12: components of output paths ---------------- *)

  Lemma visited_names : forall rel0 ch0 rel ch,
    visited rel0 ch0 rel ch ->
    exists q, rel = rel0 ++ q
              /\ (forall c, In c q -> In c (tree_dir_names ch0))
              /\ (forall fn bytes, In (F fn bytes) ch -> In fn (tree_file_names ch0)).
  Proof.
    intros rel0 ch0 rel ch Hv.
    induction Hv as [rel ch|rel ch nm sub rel' ch' _ Hin _ _ [q [Hq [Hd Hf]]]].
    - exists []. split; [rewrite app_nil_r; reflexivity|]. split; [intros c []|].
      intros fn bytes Hin. unfold tree_file_names. apply in_flat_map.
      exists (F fn bytes). split; [exact Hin|left; reflexivity].
    - exists (nm :: q). split; [rewrite Hq, <- app_assoc; reflexivity|]. split.
      + intros c [Hc|Hc]; unfold tree_dir_names; apply in_flat_map; exists (D nm sub);
          (split; [exact Hin|]); cbn [node_dir_names].
        * left. exact Hc.
        * right. apply Hd. exact Hc.
      + intros fn bytes Hfn. unfold tree_file_names. apply in_flat_map. exists (D nm sub).
        split; [exact Hin|]. cbn [node_file_names]. eapply Hf. exact Hfn.
  Qed.

  Theorem write_components_from_tree : forall base top p,
    In p (write_paths (document st hdrs docfn excl base (KDir top))
          ++ mkdirs (document st hdrs docfn excl base (KDir top))) ->
    forall c, In c p -> component_from_tree top c.
  Proof.
    intros base top p Hin c Hc. apply in_app_iff in Hin. destruct Hin as [Hin|Hin].
    - apply in_write_paths in Hin. destruct Hin as [text Hin]. apply write_cases in Hin.
      destruct Hin as [_ [_ [rel [ch [Hv [_ Hcase]]]]]].
      destruct (visited_names _ _ _ _ Hv) as [q [Hq [Hd Hf]]]. cbn [app] in Hq. subst q.
      destruct Hcase as [[Hp _]|[fn [bytes [title [modname [H1 [_ [_ [Hp _]]]]]]]]]; subst p;
        apply in_app_iff in Hc; destruct Hc as [Hc|[Hc|[]]].
      + left. apply Hd. exact Hc.
      + right. right. symmetry. exact Hc.
      + left. apply Hd. exact Hc.
      + right. left. exists fn. split; [eapply Hf; exact H1|symmetry; exact Hc].
    - apply in_mkdirs in Hin. apply mkdir_cases in Hin. destruct Hin as [_ [Hp|[ch [Hv _]]]].
      + subst p. destruct Hc.
      + destruct (visited_names _ _ _ _ Hv) as [q [Hq [Hd _]]]. cbn [app] in Hq. subst q.
        left. apply Hd. exact Hc.
  Qed.

  (* ---------------- W14: pages of one directory in sorted order ---------------- *)

  Lemma page_paths_sorted_files : forall rel (l : list (str * list N)),
    flat_map (page_paths rel) l
    = map (fun f => rel ++ [rst_name f]) (filter is_cmake_name (map fst l)).
  Proof.
    intros rel l. induction l as [|f r IH]; [reflexivity|].
    cbn [flat_map map filter]. unfold page_paths at 1.
    destruct (is_cmake_name (fst f)); cbn [map app]; rewrite IH; reflexivity.
  Qed.

  Theorem files_sorted_within_dir : all_ok -> ws_out st = true -> forall prefix rel ch,
    write_paths (snd (vdir prefix rel ch))
    = (if dir_processed rel ch
       then (rel ++ [index_rst]) :: map (fun f => rel ++ [rst_name f]) (toctree_files rel ch)
       else [])
    /\ StronglySorted (fun a b => str_leb a b = true) (toctree_files rel ch).
  Proof.
    intros Hok Ho prefix rel ch. split.
    - rewrite write_paths_visit_dir by assumption. destruct (dir_processed rel ch); [|reflexivity].
      rewrite page_paths_sorted_files. reflexivity.
    - unfold toctree_files, files_of.
      assert (Hs := sort_by_sorted fst (nonexcl_files rel ch)).
      induction Hs as [|a l Hl IH Ha]; [constructor|].
      cbn [map filter]. destruct (is_cmake_name (fst a)); [|exact IH].
      constructor; [exact IH|].
      rewrite Forall_forall in Ha |- *. intros x Hx. apply filter_In in Hx. destruct Hx as [Hx _].
      apply in_map_iff in Hx. destruct Hx as [y [Ey Hy]]. subst x. apply Ha. exact Hy.
  Qed.
  (* ---------------- stem is a prefix of the name ---------------- *)

  Lemma mem_in : forall c l, mem c l = true <-> In c l.
  Proof.
    intros c l. induction l as [|x r IH]; cbn [mem In].
    - split; [discriminate|intros []].
    - rewrite orb_true_iff, IH, N.eqb_eq. split; intros [H|H]; auto.
  Qed.

  Lemma split_on_nonempty : forall c x, split_on c x <> [].
  Proof.
    intros c x. destruct x as [|a r]; cbn [split_on]; [discriminate|].
    destruct (N.eqb a c); [discriminate|]. destruct (split_on c r); discriminate.
  Qed.

  Lemma join_split_on : forall c x, join [c] (split_on c x) = x.
  Proof.
    intros c x. induction x as [|a r IH]; [reflexivity|].
    cbn [split_on]. destruct (N.eqb_spec a c) as [E|E].
    - subst a. cbn [join]. destruct (split_on c r) as [|h t] eqn:Es.
      + exfalso. exact (split_on_nonempty c r Es).
      + rewrite IH. reflexivity.
    - destruct (split_on c r) as [|h t] eqn:Es.
      + exfalso. exact (split_on_nonempty c r Es).
      + cbn [join] in IH |- *. destruct t as [|h' t']; rewrite <- IH; reflexivity.
  Qed.

  Lemma join_drop_last_prefix : forall sep (l : list str),
    exists t, join sep l = join sep (drop_last l) ++ t.
  Proof.
    intros sep l. induction l as [|x r IH]; [exists []; reflexivity|].
    destruct r as [|y r'].
    - exists x. reflexivity.
    - destruct IH as [t Ht].
      change (drop_last (x :: y :: r')) with (x :: drop_last (y :: r')).
      change (join sep (x :: y :: r')) with (x ++ sep ++ join sep (y :: r')).
      rewrite Ht. destruct (drop_last (y :: r')) as [|z w].
      + exists (sep ++ t). reflexivity.
      + exists t. change (join sep (x :: z :: w)) with (x ++ sep ++ join sep (z :: w)).
        rewrite <- !app_assoc. reflexivity.
  Qed.

  Lemma stem_prefix : forall fn, exists t, fn = stem fn ++ t.
  Proof.
    intros fn. unfold stem.
    destruct (join_drop_last_prefix [dot] (split_on dot fn)) as [t Ht].
    rewrite join_split_on in Ht. exists t. exact Ht.
  Qed.

  Lemma name_ok_rst_name : forall fn, name_ok fn = true -> name_ok (rst_name fn) = true.
  Proof.
    intros fn H. unfold name_ok in H |- *.
    apply andb_true_iff in H. destruct H as [H _]. apply andb_true_iff in H. destruct H as [H _].
    apply negb_true_iff in H.
    assert (H1 : mem slash (rst_name fn) = false).
    { destruct (mem slash (rst_name fn)) eqn:E; [|reflexivity].
      apply mem_in in E. unfold rst_name in E. apply in_app_iff in E. destruct E as [E|E].
      - destruct (stem_prefix fn) as [t Ht].
        assert (Hm : mem slash fn = true).
        { apply mem_in. rewrite Ht. apply in_app_iff. left. exact E. }
        congruence.
      - exfalso. cbn in E. unfold slash in E.
        destruct E as [E|[E|[E|[E|[]]]]]; discriminate E. }
    rewrite H1. cbn [negb andb].
    assert (H2 : str_eqb (rst_name fn) dotdot = false).
    { destruct (str_eqb (rst_name fn) dotdot) eqn:E; [|reflexivity].
      apply str_eqb_eq in E. apply (f_equal (@length _)) in E. unfold rst_name in E.
      rewrite app_length in E. cbn in E. lia. }
    assert (H3 : str_eqb (rst_name fn) [] = false).
    { destruct (str_eqb (rst_name fn) []) eqn:E; [|reflexivity].
      apply str_eqb_eq in E. apply (f_equal (@length _)) in E. unfold rst_name in E.
      rewrite app_length in E. cbn in E. lia. }
    rewrite H2, H3. reflexivity.
  Qed.

  (* W12, corollary: under names_ok no component can leave the output directory *)
  Corollary writes_stay_below : forall base top, names_ok top = true -> forall p,
    In p (write_paths (document st hdrs docfn excl base (KDir top))
          ++ mkdirs (document st hdrs docfn excl base (KDir top))) ->
    forall c, In c p -> name_ok c = true.
  Proof.
    intros base top Hn p Hin c Hc. unfold names_ok in Hn. rewrite forallb_forall in Hn.
    destruct (write_components_from_tree base top p Hin c Hc) as [H|[[fn [Hfn H]]|H]].
    - apply Hn. apply in_app_iff. left. exact H.
    - subst c. apply name_ok_rst_name. apply Hn. apply in_app_iff. right. exact Hfn.
    - subst c. reflexivity.
  Qed.
  (* W12 for a single input file: the only page is <stem>.rst directly in the output directory *)
  Theorem file_run_paths : forall base content,
    (forall p, In p (write_paths (document st hdrs docfn excl base (KFile content))) ->
               p = [rst_name base])
    /\ (forall p, In p (mkdirs (document st hdrs docfn excl base (KFile content))) -> p = []).
  Proof.
    intros base content. unfold document. destruct (excl [] false); [split; intros p []|].
    split; intros p Hin.
    - apply in_write_paths in Hin. destruct Hin as [t Hin]. apply cut_at_abort_in in Hin.
      apply in_app_iff in Hin. destruct Hin as [Hin|Hin].
      + destruct (ws_out st); [destruct Hin as [Hin|[]]; discriminate Hin|destruct Hin].
      + apply in_doc_actions_write in Hin. destruct Hin as [_ [Hp _]]. exact Hp.
    - apply in_mkdirs in Hin. apply cut_at_abort_in in Hin.
      apply in_app_iff in Hin. destruct Hin as [Hin|Hin].
      + destruct (ws_out st); [|destruct Hin]. destruct Hin as [Hin|[]]. inversion Hin. reflexivity.
      + apply in_doc_actions_mkdirs in Hin. destruct Hin as [_ Hp]. exact Hp.
  Qed.
End WalkFacts.

(* ==== MAIN THEOREMS ====
   sorting      str_leb_refl str_leb_total str_leb_antisym str_leb_trans
                sort_by_perm sort_by_sorted sort_by_perm_eq
   cut          cut_at_abort_id cut_at_abort_spec cut_at_abort_stop_last
   C13  W1      writes_exact writes_exact_in writes_exact_nonrecursive expected_sub_paths
        W2      write_cases page_content
   C14  W3      index_content index_of_entries
        W4      keep_dir_processed toctree_closed_dirs toctree_closed_files
        W5      toctree_complete all_written_reachable all_written_reachable_recursive
                all_written_reachable_always unprocessed_top_writes_nothing
                top_index_written top_index_always_written_recursive dir_processed_recursive
   C15  W7      excluded_input_no_output
        W8      written_page_from_nonexcluded   (tree form: WalkFacts2.excluded_file_not_written)
        W9      excluded_dir_not_descended
   C18  W11     no_output_dir_no_writes
        W12     write_components_from_tree writes_stay_below file_run_paths
        W14     files_sorted_within_dir
   C06  W15     failed_file_aborts failed_file_aborts_run nothing_after_abort
   W1b W6 W10 W13, all concrete examples and the refuted statements are in WalkFacts2.v *)
Print Assumptions str_leb_total.
Print Assumptions str_leb_antisym.
Print Assumptions str_leb_trans.
Print Assumptions sort_by_perm.
Print Assumptions sort_by_sorted.
Print Assumptions sort_by_perm_eq.
Print Assumptions cut_at_abort_id.
Print Assumptions cut_at_abort_spec.
Print Assumptions writes_exact.
Print Assumptions writes_exact_in.
Print Assumptions write_cases.
Print Assumptions page_content.
Print Assumptions index_content.
Print Assumptions keep_dir_processed.
Print Assumptions toctree_closed_dirs.
Print Assumptions toctree_closed_files.
Print Assumptions toctree_complete.
Print Assumptions all_written_reachable.
Print Assumptions all_written_reachable_recursive.
Print Assumptions all_written_reachable_always.
Print Assumptions unprocessed_top_writes_nothing.
Print Assumptions top_index_written.
Print Assumptions top_index_always_written_recursive.
Print Assumptions excluded_input_no_output.
Print Assumptions written_page_from_nonexcluded.
Print Assumptions excluded_dir_not_descended.
Print Assumptions no_output_dir_no_writes.
Print Assumptions write_components_from_tree.
Print Assumptions writes_stay_below.
Print Assumptions file_run_paths.
Print Assumptions files_sorted_within_dir.
Print Assumptions failed_file_aborts.
Print Assumptions failed_file_aborts_run.
Print Assumptions nothing_after_abort.
