(* Proofs/StrFacts.v -- lemmas; see DESIGN.md section 7 *)
