(* Proofs/FsFacts.v -- property C18 on the file-system model of Spec/FsSpec.v: a run only
   touches the paths its actions name; written paths hold the last content written; files
   are never deleted or truncated; and, combined with Proofs/WalkFacts.v, what a directory
   run can touch at all. *)
From Coq Require Import String List NArith Bool Arith Lia Permutation.
From CMinx Require Import Base.Str Model.Writer Model.Path Model.Naming Model.Pipeline Model.Walk
     Spec.FsSpec Proofs.WalkFacts Proofs.WalkFacts2.
Import ListNotations.

(* ---- spec ---- *)
(* fs, fobj, apply_action, apply_run, prefixb, is_prefix_or_eq, last_write: Spec/FsSpec.v;
   write_paths, writes, mkdirs, component_from_tree, name_ok, names_ok: Proofs/WalkFacts.v *)

(* some component of the path is not an acceptable name (contains a slash, is [..] or empty) *)
Definition has_bad_component (p : list str) : bool := existsb (fun c => negb (name_ok c)) p.

(* ---- helpers ---- *)

Lemma strs_eqb_eq : forall a b, strs_eqb a b = true <-> a = b.
Proof.
  induction a as [|x a IH]; intros b; destruct b as [|y b]; cbn [strs_eqb].
  - split; reflexivity.
  - split; discriminate.
  - split; discriminate.
  - rewrite andb_true_iff, IH, WalkFacts.str_eqb_eq. split.
    + intros [H1 H2]. subst. reflexivity.
    + intros H. inversion H. split; reflexivity.
Qed.

Lemma strs_eqb_refl : forall a, strs_eqb a a = true.
Proof. intros a. apply strs_eqb_eq. reflexivity. Qed.

Lemma strs_eqb_neq : forall a b, a <> b -> strs_eqb a b = false.
Proof.
  intros a b H. destruct (strs_eqb a b) eqn:E; [|reflexivity].
  apply strs_eqb_eq in E. contradiction.
Qed.

Lemma prefixb_spec : forall p q, prefixb p q = true <-> is_prefix_or_eq p q.
Proof.
  unfold is_prefix_or_eq.
  induction p as [|x p IH]; intros q.
  - cbn [prefixb]. split; [intros _; exists q; reflexivity|reflexivity].
  - destruct q as [|y q]; cbn [prefixb].
    + split; [discriminate|]. intros [r Hr]. discriminate Hr.
    + rewrite andb_true_iff, IH, WalkFacts.str_eqb_eq. split.
      * intros [Hx [r Hr]]. subst. exists r. reflexivity.
      * intros [r Hr]. cbn [app] in Hr. inversion Hr. split; [reflexivity|exists r; reflexivity].
Qed.

Lemma prefixb_false : forall p q, ~ is_prefix_or_eq p q -> prefixb p q = false.
Proof.
  intros p q H. destruct (prefixb p q) eqn:E; [|reflexivity].
  apply prefixb_spec in E. contradiction.
Qed.

Lemma apply_run_cons : forall f a r, apply_run f (a :: r) = apply_run (apply_action f a) r.
Proof. reflexivity. Qed.

Lemma apply_run_app : forall f a b, apply_run f (a ++ b) = apply_run (apply_run f a) b.
Proof. intros f a b. unfold apply_run. apply fold_left_app. Qed.

Lemma last_write_none : forall p acts, last_write p acts = None <-> ~ In p (write_paths acts).
Proof.
  intros p acts. induction acts as [|a r IH]; cbn [last_write].
  - split; [intros _ []|reflexivity].
  - change (write_paths (a :: r))
      with ((match a with AWrite q _ => [q] | _ => [] end) ++ write_paths r).
    destruct (last_write p r) as [c|] eqn:E.
    + split; [discriminate|]. intros H. exfalso.
      assert (Hn : ~ In p (write_paths r)).
      { intros Hin. apply H. apply in_app_iff. right. exact Hin. }
      apply IH in Hn. discriminate Hn.
    + assert (Hn : ~ In p (write_paths r)) by (apply IH; reflexivity).
      destruct a as [q|q c|c|o|]; cbn [app]; try (split; [intros _; exact Hn|reflexivity]).
      destruct (strs_eqb p q) eqn:Epq.
      * apply strs_eqb_eq in Epq. subst q. split; [discriminate|].
        intros H. exfalso. apply H. left. reflexivity.
      * split; [|reflexivity]. intros _ [H|H]; [|exact (Hn H)].
        subst q. rewrite strs_eqb_refl in Epq. discriminate Epq.
Qed.

Lemma last_write_some_in : forall p acts c, last_write p acts = Some c -> In (p, c) (writes acts).
Proof.
  intros p acts. induction acts as [|a r IH]; intros c H; cbn [last_write] in H; [discriminate H|].
  change (writes (a :: r))
    with ((match a with AWrite q t => [(q, t)] | _ => [] end) ++ writes r).
  apply in_app_iff.
  destruct (last_write p r) as [c'|] eqn:E.
  - right. apply IH. exact H.
  - destruct a as [q|q t|t|o|]; try discriminate H.
    destruct (strs_eqb p q) eqn:Epq; [|discriminate H].
    apply strs_eqb_eq in Epq. subst q. inversion H. subst t. left. left. reflexivity.
Qed.

Lemma last_write_unique : forall acts p c,
  NoDup (write_paths acts) -> In (p, c) (writes acts) -> last_write p acts = Some c.
Proof.
  induction acts as [|a r IH]; intros p c Hnd Hin; [destruct Hin|].
  change (write_paths (a :: r))
    with ((match a with AWrite q _ => [q] | _ => [] end) ++ write_paths r) in Hnd.
  change (writes (a :: r))
    with ((match a with AWrite q t => [(q, t)] | _ => [] end) ++ writes r) in Hin.
  cbn [last_write].
  destruct a as [q|q t|t|o|]; cbn [app] in Hnd, Hin;
    try (rewrite (IH p c Hnd Hin); reflexivity).
  inversion Hnd as [|q' l' Hq Hnd']; subst.
  destruct Hin as [Hin|Hin].
  - inversion Hin. subst q t.
    assert (E : last_write p r = None) by (apply last_write_none; exact Hq).
    rewrite E, strs_eqb_refl. reflexivity.
  - rewrite (IH p c Hnd' Hin). reflexivity.
Qed.

(* ================================================================== *)
(* F1: a path that no action names keeps what was there                *)
(* ================================================================== *)

Theorem unrelated_paths_untouched : forall acts fs0 p,
  ~ In p (write_paths acts) ->
  (forall q, In q (mkdirs acts) -> ~ is_prefix_or_eq p q) ->
  apply_run fs0 acts p = fs0 p.
Proof.
  induction acts as [|a r IH]; intros fs0 p Hw Hm; [reflexivity|].
  rewrite apply_run_cons.
  change (write_paths (a :: r))
    with ((match a with AWrite q _ => [q] | _ => [] end) ++ write_paths r) in Hw.
  assert (Hm' : forall q, In q ((match a with AMkDirs q => [q] | _ => [] end) ++ mkdirs r)
                          -> ~ is_prefix_or_eq p q) by exact Hm.
  rewrite IH.
  - destruct a as [q|q c|c|o|]; cbn [apply_action]; try reflexivity.
    + rewrite prefixb_false; [reflexivity|]. apply Hm'. left. reflexivity.
    + rewrite strs_eqb_neq; [reflexivity|]. intros E. apply Hw. left. symmetry. exact E.
  - intros Hin. apply Hw. apply in_app_iff. right. exact Hin.
  - intros q Hq. apply Hm'. apply in_app_iff. right. exact Hq.
Qed.

(* ================================================================== *)
(* F3: files are never deleted                                         *)
(* ================================================================== *)

Lemma file_kept_unless_written : forall acts fs0 p c,
  fs0 p = Some (FFile c) -> ~ In p (write_paths acts) -> apply_run fs0 acts p = Some (FFile c).
Proof.
  induction acts as [|a r IH]; intros fs0 p c H0 Hw; [exact H0|].
  rewrite apply_run_cons.
  change (write_paths (a :: r))
    with ((match a with AWrite q _ => [q] | _ => [] end) ++ write_paths r) in Hw.
  apply IH.
  - destruct a as [q|q t|t|o|]; cbn [apply_action]; try exact H0.
    + destruct (prefixb p q); [rewrite H0; reflexivity|exact H0].
    + rewrite strs_eqb_neq; [exact H0|]. intros E. apply Hw. left. symmetry. exact E.
  - intros Hin. apply Hw. apply in_app_iff. right. exact Hin.
Qed.

Theorem files_never_deleted : forall acts fs0 p c,
  fs0 p = Some (FFile c) ->
  (exists c', apply_run fs0 acts p = Some (FFile c'))
  /\ (~ In p (write_paths acts) -> apply_run fs0 acts p = Some (FFile c)).
Proof.
  intros acts fs0 p c H0. split.
  - revert fs0 c H0. induction acts as [|a r IH]; intros fs0 c H0; [exists c; exact H0|].
    rewrite apply_run_cons.
    destruct a as [q|q t|t|o|]; cbn [apply_action]; try (apply (IH fs0 c H0)).
    + apply (IH _ c). destruct (prefixb p q); [rewrite H0; reflexivity|exact H0].
    + destruct (strs_eqb p q) eqn:E.
      * apply (IH _ t). rewrite E. reflexivity.
      * apply (IH _ c). rewrite E. exact H0.
  - apply file_kept_unless_written. exact H0.
Qed.

(* directories are never removed either (they may be replaced by a written file only if the
   run writes to that very path) *)
Theorem dirs_never_deleted : forall acts fs0 p,
  fs0 p = Some FDir -> ~ In p (write_paths acts) -> apply_run fs0 acts p = Some FDir.
Proof.
  induction acts as [|a r IH]; intros fs0 p H0 Hw; [exact H0|].
  rewrite apply_run_cons.
  change (write_paths (a :: r))
    with ((match a with AWrite q _ => [q] | _ => [] end) ++ write_paths r) in Hw.
  apply IH.
  - destruct a as [q|q t|t|o|]; cbn [apply_action]; try exact H0.
    + destruct (prefixb p q); [rewrite H0; reflexivity|exact H0].
    + rewrite strs_eqb_neq; [exact H0|]. intros E. apply Hw. left. symmetry. exact E.
  - intros Hin. apply Hw. apply in_app_iff. right. exact Hin.
Qed.

(* ================================================================== *)
(* F2: a written path holds the last content written to it              *)
(* ================================================================== *)

Lemma apply_run_last_write : forall acts fs0 p c,
  last_write p acts = Some c -> apply_run fs0 acts p = Some (FFile c).
Proof.
  induction acts as [|a r IH]; intros fs0 p c H; cbn [last_write] in H; [discriminate H|].
  rewrite apply_run_cons.
  destruct (last_write p r) as [c'|] eqn:E.
  - inversion H. subst c'. apply IH. exact E.
  - destruct a as [q|q t|t|o|]; try discriminate H.
    destruct (strs_eqb p q) eqn:Epq; [|discriminate H]. inversion H. subst t.
    apply file_kept_unless_written.
    + cbn [apply_action]. rewrite Epq. reflexivity.
    + apply last_write_none. exact E.
Qed.

Theorem written_path_has_last_content : forall acts fs0 p,
  In p (write_paths acts) ->
  exists c, last_write p acts = Some c
            /\ In (p, c) (writes acts)
            /\ apply_run fs0 acts p = Some (FFile c).
Proof.
  intros acts fs0 p Hin.
  destruct (last_write p acts) as [c|] eqn:E.
  - exists c. split; [reflexivity|]. split; [apply last_write_some_in; exact E|].
    apply apply_run_last_write. exact E.
  - exfalso. apply last_write_none in E. exact (E Hin).
Qed.

(* the last write, positionally: nothing after it writes to p *)
Theorem last_write_split : forall acts p c,
  last_write p acts = Some c <->
  exists l1 l2, acts = l1 ++ AWrite p c :: l2 /\ ~ In p (write_paths l2).
Proof.
  intros acts p c. split.
  - revert c. induction acts as [|a r IH]; intros c H; cbn [last_write] in H; [discriminate H|].
    destruct (last_write p r) as [c'|] eqn:E.
    + inversion H. subst c'. destruct (IH c eq_refl) as [l1 [l2 [Hr Hn]]].
      exists (a :: l1), l2. split; [rewrite Hr; reflexivity|exact Hn].
    + destruct a as [q|q t|t|o|]; try discriminate H.
      destruct (strs_eqb p q) eqn:Epq; [|discriminate H]. inversion H. subst t.
      apply strs_eqb_eq in Epq. subst q.
      exists [], r. split; [reflexivity|]. apply last_write_none. exact E.
  - intros [l1 [l2 [Hr Hn]]]. subst acts.
    induction l1 as [|a l1 IH].
    + cbn [app last_write]. apply last_write_none in Hn. rewrite Hn, strs_eqb_refl. reflexivity.
    + cbn [app last_write]. rewrite IH. reflexivity.
Qed.

Theorem written_once_has_that_content : forall acts fs0 p c,
  NoDup (write_paths acts) -> In (p, c) (writes acts) ->
  apply_run fs0 acts p = Some (FFile c).
Proof.
  intros acts fs0 p c Hnd Hin. apply apply_run_last_write.
  apply last_write_unique; assumption.
Qed.

(* ================================================================== *)
(* F4: a whole directory run                                           *)
(* ================================================================== *)

Section DirRun.
  Variable st : wsettings.
  Variable hdrs : list str.
  Variable docfn : str -> str -> list N -> outcome.
  Variable excl : list str -> bool -> bool.

  Local Notation run base top := (document st hdrs docfn excl base (KDir top)).

  (* a path with a component that does not come from the tree is untouched *)
  Theorem dir_run_foreign_path_untouched : forall base top fs0 p,
    (exists c, In c p /\ ~ component_from_tree top c) ->
    apply_run fs0 (run base top) p = fs0 p.
  Proof.
    intros base top fs0 p [c [Hc Hnot]]. apply unrelated_paths_untouched.
    - intros Hin. apply Hnot.
      apply (write_components_from_tree st hdrs docfn excl base top p); [|exact Hc].
      apply in_app_iff. left. exact Hin.
    - intros q Hq [r Hr]. apply Hnot.
      apply (write_components_from_tree st hdrs docfn excl base top q).
      + apply in_app_iff. right. exact Hq.
      + rewrite Hr. apply in_app_iff. left. exact Hc.
  Qed.

  (* with acceptable names in the tree, no path with a slash / dotdot / empty component is
     touched: nothing outside the output directory can be reached *)
  Theorem dir_run_bad_path_untouched : forall base top fs0 p,
    names_ok top = true -> has_bad_component p = true ->
    apply_run fs0 (run base top) p = fs0 p.
  Proof.
    intros base top fs0 p Hn Hb. unfold has_bad_component in Hb.
    apply existsb_exists in Hb. destruct Hb as [c [Hc Hbad]]. apply negb_true_iff in Hbad.
    apply unrelated_paths_untouched.
    - intros Hin.
      assert (H : name_ok c = true).
      { apply (writes_stay_below st hdrs docfn excl base top Hn p); [|exact Hc].
        apply in_app_iff. left. exact Hin. }
      congruence.
    - intros q Hq [r Hr].
      assert (H : name_ok c = true).
      { apply (writes_stay_below st hdrs docfn excl base top Hn q).
        - apply in_app_iff. right. exact Hq.
        - rewrite Hr. apply in_app_iff. left. exact Hc. }
      congruence.
  Qed.

  (* a pre-existing file whose path is not one of the written paths keeps its content *)
  Theorem dir_run_stale_file_kept : forall base top fs0 p c,
    fs0 p = Some (FFile c) -> ~ In p (write_paths (run base top)) ->
    apply_run fs0 (run base top) p = Some (FFile c).
  Proof. intros base top fs0 p c H0 Hn. apply file_kept_unless_written; assumption. Qed.

  (* the same against the expected page list of WalkFacts (every file documents, output
     directory configured, input directory not excluded) *)
  Theorem dir_run_unexpected_file_kept :
    ws_out st = true -> WalkFacts.all_ok docfn -> excl [] true = false ->
    forall base top fs0 p c,
    fs0 p = Some (FFile c) -> ~ In p (WalkFacts.expected_paths st excl [] top) ->
    apply_run fs0 (run base top) p = Some (FFile c).
  Proof.
    intros Ho Hok He base top fs0 p c H0 Hn. apply file_kept_unless_written; [exact H0|].
    intros Hin. apply Hn.
    apply (writes_exact_in st hdrs docfn excl Ho Hok He base top p). exact Hin.
  Qed.

  (* and every expected page holds exactly the text of its one write *)
  Theorem dir_run_expected_file_content :
    ws_out st = true -> WalkFacts.all_ok docfn -> excl [] true = false ->
    forall base top fs0 p, tree_ok top = true ->
    In p (WalkFacts.expected_paths st excl [] top) ->
    exists c, In (p, c) (writes (run base top))
              /\ apply_run fs0 (run base top) p = Some (FFile c).
  Proof.
    intros Ho Hok He base top fs0 p Ht Hin.
    apply (writes_exact_in st hdrs docfn excl Ho Hok He base top p) in Hin.
    rewrite write_paths_writes in Hin. apply in_map_iff in Hin.
    destruct Hin as [[p' c] [Hp Hin]]. cbn [fst] in Hp. subst p'.
    exists c. split; [exact Hin|].
    apply written_once_has_that_content; [|exact Hin].
    apply (write_paths_nodup st hdrs docfn excl Ho Hok He base top Ht).
  Qed.

  (* without an output directory a run (of any input kind) leaves the file system alone *)
  Theorem no_output_dir_fs_unchanged : ws_out st = false -> forall base kind fs0 p,
    apply_run fs0 (document st hdrs docfn excl base kind) p = fs0 p.
  Proof.
    intros Ho base kind fs0 p.
    destruct (no_output_dir_no_writes st hdrs docfn excl Ho base kind) as [Hw Hm].
    apply unrelated_paths_untouched.
    - rewrite Hw. intros [].
    - rewrite Hm. intros q [].
  Qed.
End DirRun.

(* ================================================================== *)
(* non-vacuity                                                         *)
(* ================================================================== *)

(* a small hand-made run *)
Definition acts_small : list action :=
  [AMkDirs []; AWrite [s"index.rst"] (s"I1"); AMkDirs [s"sub"; s"deep"];
   AWrite [s"sub"; s"a.rst"] (s"A1"); APrint (s"x"); AWrite [s"sub"; s"a.rst"] (s"A2")].
Definition fs_small : fs := fun p =>
  if strs_eqb p [s"old"; s"stale.rst"] then Some (FFile (s"STALE"))
  else if strs_eqb p [s"old"] then Some FDir
  else if strs_eqb p [s"sub"] then Some (FFile (s"a file where a directory is wanted"))
  else if strs_eqb p [s"index.rst"] then Some (FFile (s"I0"))
  else None.

Example small_run_ex :
  (* untouched *)
  apply_run fs_small acts_small [s"old"; s"stale.rst"] = Some (FFile (s"STALE"))
  /\ apply_run fs_small acts_small [s"old"] = Some FDir
  /\ apply_run fs_small acts_small [s"nothing"] = None
  (* overwritten, last content wins *)
  /\ apply_run fs_small acts_small [s"index.rst"] = Some (FFile (s"I1"))
  /\ apply_run fs_small acts_small [s"sub"; s"a.rst"] = Some (FFile (s"A2"))
  /\ last_write [s"sub"; s"a.rst"] acts_small = Some (s"A2")
  (* makedirs: creates missing directories, keeps an existing file *)
  /\ apply_run fs_small acts_small [] = Some FDir
  /\ apply_run fs_small acts_small [s"sub"; s"deep"] = Some FDir
  /\ apply_run fs_small acts_small [s"sub"] = Some (FFile (s"a file where a directory is wanted"))
  (* hypotheses of F1 for the stale path *)
  /\ ~ In [s"old"; s"stale.rst"] (write_paths acts_small)
  /\ (forall q, In q (mkdirs acts_small) -> ~ is_prefix_or_eq [s"old"; s"stale.rst"] q).
Proof.
  repeat split; try (vm_compute; reflexivity).
  - intros H. cbn in H. destruct H as [H|[H|[H|[]]]]; discriminate H.
  - intros q Hq Hp. apply prefixb_spec in Hp.
    cbn in Hq. destruct Hq as [Hq|[Hq|[]]]; subst q; vm_compute in Hp; discriminate Hp.
Qed.

(* a directory run of the model (the example tree of WalkFacts2) on a file system that already
   holds a stale page, a file with a dotdot component and an old version of a page *)
Definition fs_ex : fs := fun p =>
  if strs_eqb p [s"old"; s"stale.rst"] then Some (FFile (s"STALE"))
  else if strs_eqb p [dotdot; s"escape.rst"] then Some (FFile (s"OUTSIDE"))
  else if strs_eqb p [s"index.rst"] then Some (FFile (s"old index"))
  else None.

Example dir_run_ex :
  names_ok top_ex = true /\ tree_ok top_ex = true
  /\ length (write_paths run_ex) = 10
  /\ has_bad_component [dotdot; s"escape.rst"] = true
  /\ apply_run fs_ex run_ex [s"old"; s"stale.rst"] = Some (FFile (s"STALE"))
  /\ apply_run fs_ex run_ex [dotdot; s"escape.rst"] = Some (FFile (s"OUTSIDE"))
  /\ apply_run fs_ex run_ex [s"index.rst"] <> Some (FFile (s"old index"))
  /\ (exists c, apply_run fs_ex run_ex [s"index.rst"] = Some (FFile c)
                /\ In ([s"index.rst"], c) (writes run_ex))
  /\ apply_run fs_ex run_ex [] = Some FDir
  /\ ~ component_from_tree top_ex (s"old").
Proof.
  assert (Hw : exists c, last_write [s"index.rst"] run_ex = Some c).
  { destruct (last_write [s"index.rst"] run_ex) as [c|] eqn:E; [exists c; reflexivity|].
    exfalso. vm_compute in E. discriminate E. }
  destruct Hw as [c Hc].
  assert (Hrun := apply_run_last_write run_ex fs_ex _ _ Hc).
  repeat split; try (vm_compute; reflexivity).
  - vm_compute. intros H. discriminate H.
  - exists c. split; [exact Hrun|]. apply last_write_some_in. exact Hc.
  - intros [H|[[fn [Hfn H]]|H]].
    + vm_compute in H. repeat (destruct H as [H|H]; [discriminate H|]). exact H.
    + apply (f_equal (@rev _)) in H. unfold rst_name in H. rewrite rev_app_distr in H.
      vm_compute in H. discriminate H.
    + vm_compute in H. discriminate H.
Qed.

(* ==== MAIN THEOREMS ====
   unrelated_paths_untouched        (F1)
   written_path_has_last_content, last_write_split, written_once_has_that_content   (F2)
   files_never_deleted, dirs_never_deleted                                           (F3)
   dir_run_foreign_path_untouched, dir_run_bad_path_untouched, dir_run_stale_file_kept,
   dir_run_unexpected_file_kept, dir_run_expected_file_content,
   no_output_dir_fs_unchanged                                                        (F4)
   small_run_ex, dir_run_ex                                                          (non-vacuity) *)
Print Assumptions unrelated_paths_untouched.
Print Assumptions written_path_has_last_content.
Print Assumptions last_write_split.
Print Assumptions written_once_has_that_content.
Print Assumptions files_never_deleted.
Print Assumptions dirs_never_deleted.
Print Assumptions dir_run_foreign_path_untouched.
Print Assumptions dir_run_bad_path_untouched.
Print Assumptions dir_run_stale_file_kept.
Print Assumptions dir_run_unexpected_file_kept.
Print Assumptions dir_run_expected_file_content.
Print Assumptions no_output_dir_fs_unchanged.
Print Assumptions small_run_ex.
Print Assumptions dir_run_ex.
