(* Proofs/SpecLinks.v -- small links between model functions and the spec functions of
   Spec/EntrySpec.v that are used by several property files. *)
From Coq Require Import String List NArith Bool Arith.
From CMinx Require Import Base.Str Model.Lexer Model.Parser Model.Aggregator Spec.EntrySpec.
Import ListNotations.

(* the model's rendering of an argument is the spec's: as written, groups with single spaces *)
Lemma arg_written_shown : forall a, arg_written a = arg_shown a.
Proof.
  fix IH 1. intros [k t | l]; cbn [arg_written arg_shown]; [reflexivity|].
  assert (H : map arg_written l = map arg_shown l).
  { revert l. fix IHl 1. intros [|x r]; cbn [map]; [reflexivity|].
    rewrite (IH x), (IHl r). reflexivity. }
  rewrite H. reflexivity.
Qed.

Theorem generic_args_as_written : forall c, map arg_written (c_args c) = generic_args c.
Proof.
  intros c. unfold generic_args. apply map_ext. exact arg_written_shown.
Qed.

Print Assumptions generic_args_as_written.
