(* Proofs/SourceMatch.v -- the hand-written model EQUALS the translated Python source.

   How the tie works.  On every verification run translators/py2coq.py reads the CURRENT
   Python source of CMinx with the ast module and regenerates Gen/PySource.v: for each of a
   fixed list of small pure functions of rstwriter.py, aggregator.py and documentation_types.py
   a Gallina definition that is the mechanical, statement-by-statement rendering of the Python
   function body over the combinators of Base/PySem.v (one combinator per Python construct:
   py_for / py_for_break for loops with the assigned locals threaded as state, py_range,
   py_index_str, py_list_last, py_slice_from, py_lstrip, py_join, ...).  The model functions of
   Model/Writer.v, Model/DocTypes.v and Model/Aggregator.v stay hand-written.  This file proves,
   once and for all and for ALL arguments, that each generated function is equal to the model
   function that the other proofs of this development talk about.

   Consequently, when somebody edits one of these Python functions, either
     - the translator leaves its subset and stops with an error naming the AST node, or
     - Gen/PySource.v changes and the corresponding  <name>_matches_source  theorem below no
       longer compiles (the equality it states has become false),
   and the build reports the broken obligation.  The theorems are closed (no axioms).

   Python raises IndexError where the combinators are total (x[-1] of an empty list); the only
   such place reachable with the arguments quantified here is lines[-1] in clean_doc_lines for
   lines = [], excluded by the hypothesis  lines <> []  (its only caller passes the result of
   str.split, which is never empty).

   Part D covers the process_* methods of DocumentationAggregator that do not depend on object
   aliasing: the ANTLR contexts are Model.Parser.cmd / arg (a fixed vocabulary, see Base/PySem.v),
   self.documented is a list of Model.DocTypes.entry (the documentation classes are entry
   constructors), a Python int that may be negative (name_index = -1) is a Z, and the one aliasing
   assignment self.documented_awaiting_function_def = test_doc is the position of the appended
   entry (the model's AwTop idx). *)
From Coq Require Import String List NArith ZArith Bool Arith Lia.
From CMinx Require Import Base.Str Base.PySem Model.Writer Model.DocTypes Model.Lexer Model.Parser Model.Aggregator Model.Naming Model.Pipeline Gen.PySource.
Import ListNotations.

(* ---- spec ---- *)
(* the model's boolean list kind as the translated enum ListType *)
Definition list_type_of (enumerated : bool) : PySource.ListType :=
  if enumerated then PySource.ListType_ENUMERATED else PySource.ListType_BULLETED.
(* the model's vartype as the translated enum VarType *)
Definition var_type_of (t : vartype) : PySource.VarType :=
  match t with
  | VString => PySource.VarType_STRING
  | VList => PySource.VarType_LIST
  | VUnset => PySource.VarType_UNSET
  end.
(* the documented list of an aggregator step that may crash *)
Definition result_docs (r : result agg) : option (list entry) :=
  match r with Ok st => Some (documented st) | Crash => None end.
(* Python's name_index (an int, -1 = no NAME keyword seen) for the model's option nat *)
Definition name_index_of (i : option nat) : Z :=
  match i with None => (-1)%Z | Some k => Z.of_nat k end.
(* module doccomments only occur first in the documented list (what the aggregator produces:
   enterDocumented_module is the first listener event of a file) *)
Definition modules_only_first (docs : list entry) : bool :=
  forallb (fun e => negb (py_is_module_entry e)) (tl docs).
(* the document w with the element e appended to the top-level writer *)
Definition w_add (w : wstate) (e : elem) : wstate :=
  {| w_title := w_title w; w_body := w_body w ++ [e] |}.

(* ------------------------------------------------------------------ *)
(* generic facts about the loop combinators                            *)

(* a loop that appends the same string once per element *)
Lemma py_for_const_append :
  forall (A : Type) (x : str) (xs : list A) (acc : str),
    py_for xs (fun a _ => a ++ x) acc = acc ++ repeat_str (length xs) x.
Proof.
  intros A x xs. unfold py_for. induction xs as [|y r IH]; intros acc.
  - cbn [fold_left length repeat_str]. rewrite app_nil_r. reflexivity.
  - cbn [fold_left length repeat_str]. rewrite IH. rewrite <- app_assoc. reflexivity.
Qed.

Lemma py_range_0 : forall n, py_range 0 n = seq 0 n.
Proof. intros n. unfold py_range. rewrite Nat.sub_0_r. reflexivity. Qed.

Lemma str_eqb_single : forall a b : char, str_eqb [a] [b] = N.eqb a b.
Proof. intros a b. cbn [str_eqb]. apply andb_true_r. Qed.

Lemma nth_error_app_len : forall (A : Type) (pre : list A) x r,
  nth_error (pre ++ x :: r) (length pre) = Some x.
Proof.
  intros A pre x r. induction pre as [|p pre IH]; cbn [app length nth_error]; auto.
Qed.

Lemma nth_app_len : forall (A : Type) (d : A) (pre : list A) x r,
  nth (length pre) (pre ++ x :: r) d = x.
Proof.
  intros A d pre x r. induction pre as [|p pre IH]; cbn [app length nth]; auto.
Qed.

Lemma last_opt_snoc : forall (A : Type) (l : list A) x, last_opt (l ++ [x]) = Some x.
Proof.
  intros A l x. induction l as [|a r IH].
  - reflexivity.
  - cbn [app last_opt]. destruct (r ++ [x]) eqn:E.
    + destruct r; discriminate E.
    + exact IH.
Qed.

Lemma update_last_snoc : forall (A : Type) (f : A -> A) (l : list A) x,
  update_last f (l ++ [x]) = l ++ [f x].
Proof.
  intros A f l x. unfold update_last. rewrite rev_app_distr. cbn [rev app].
  rewrite rev_involutive. reflexivity.
Qed.

(* xs[-1] = f(xs[-1])  is  update_last f *)
Lemma set_last_of_last : forall (A : Type) (d : A) (f : A -> A) (l : list A),
  py_set_last l (f (py_list_last d l)) = update_last f l.
Proof.
  intros A d f l. destruct l as [|a r] using rev_ind.
  - reflexivity.
  - unfold py_set_last, py_list_last. rewrite last_opt_snoc.
    rewrite !update_last_snoc. reflexivity.
Qed.

(* ------------------------------------------------------------------ *)
(* A. rstwriter.py                                                     *)

Lemma repeat_three_spaces : forall n, repeat_str n (s"   ") = spaces (indent_unit * n).
Proof.
  induction n as [|n IH].
  - reflexivity.
  - replace (indent_unit * S n) with (3 + indent_unit * n) by (unfold indent_unit; lia).
    cbn [repeat_str]. rewrite IH. reflexivity.
Qed.

(* get_indents(num) *)
Theorem get_indents_matches_source :
  forall n, indent n = PySource.get_indents n.
Proof.
  intros n. unfold PySource.get_indents.
  rewrite (py_for_const_append nat (s"   ") (py_range 0 n) []).
  rewrite py_range_0, seq_length. cbn [app].
  unfold indent. symmetry. apply repeat_three_spaces.
Qed.

(* interpreted_text(role, text) *)
Theorem interpreted_text_matches_source :
  forall role text, DocTypes.interpreted_text role text = PySource.interpreted_text role text.
Proof. reflexivity. Qed.

(* Paragraph.build_text_string; fields: text, prefix *)
Theorem para_text_matches_source :
  forall d t, para_text d t = PySource.Paragraph_build_text_string t (indent d).
Proof. reflexivity. Qed.

(* Field.build_field_string; fields: field_name, field_text, indent *)
Theorem field_text_matches_source :
  forall d n t, field_text d n t = PySource.Field_build_field_string n t (indent d).
Proof. reflexivity. Qed.

(* DocTest.build_doctest_string; fields: test_line, expected_output, indent *)
Theorem doctest_text_matches_source :
  forall d l x, doctest_text d l x = PySource.DocTest_build_doctest_string l x (indent d).
Proof. reflexivity. Qed.

(* the enumerated loop, over indices, against the structural recursion of the model *)
Lemma enum_loop : forall d items pre,
  concat (map (fun i => indent d ++ py_str_of_nat (i + 1) ++ (s". ")
                        ++ py_list_index ([] : str) (pre ++ items) i ++ [nl])
              (seq (length pre) (length items)))
  = enum_items d (S (length pre)) items.
Proof.
  intros d items. induction items as [|x r IH]; intros pre.
  - reflexivity.
  - cbn [length seq map concat enum_items].
    unfold py_list_index at 1. rewrite nth_app_len.
    replace (length pre + 1) with (S (length pre)) by lia.
    unfold py_str_of_nat at 1.
    replace (pre ++ x :: r) with ((pre ++ [x]) ++ r) by (rewrite <- app_assoc; reflexivity).
    replace (S (length pre)) with (length (pre ++ [x])) by (rewrite app_length; cbn [length]; lia).
    rewrite IH. rewrite <- !app_assoc. reflexivity.
Qed.

Lemma bullet_loop : forall d items,
  concat (map (fun item => indent d ++ (s"* ") ++ item ++ [nl]) items) = bullet_items d items.
Proof.
  intros d items. induction items as [|x r IH].
  - reflexivity.
  - cbn [map concat bullet_items]. rewrite IH. rewrite <- !app_assoc. reflexivity.
Qed.

(* RSTList.build_list_string; fields: items, list_type, indent.  The Python function raises
   ValueError for a list_type that is neither member of ListType: the translation returns
   option, and with the two-valued type ListType the raise is unreachable (Some always). *)
Theorem list_text_matches_source :
  forall d enumerated items,
    Some (list_text d enumerated items)
    = PySource.RSTList_build_list_string items (list_type_of enumerated) (indent d).
Proof.
  intros d enumerated items. unfold PySource.RSTList_build_list_string, list_text.
  destruct enumerated; cbn [list_type_of PySource.ListType_eqb].
  - f_equal.
    rewrite (py_for_concat nat
               (fun i => indent d ++ py_str_of_nat (i + 1) ++ (s". ")
                         ++ py_list_index ([] : str) items i ++ [nl])).
    rewrite py_range_0. unfold py_len.
    pose proof (enum_loop d items []) as Hloop. cbn [app length] in Hloop.
    apply f_equal. symmetry. exact Hloop.
  - f_equal.
    rewrite (py_for_concat str (fun item => indent d ++ (s"* ") ++ item ++ [nl])).
    apply f_equal. symmetry. exact (bullet_loop d items).
Qed.

Corollary enumerated_list_matches_source :
  forall d items,
    Some (list_text d true items)
    = PySource.RSTList_build_list_string items PySource.ListType_ENUMERATED (indent d).
Proof. intros d items. exact (list_text_matches_source d true items). Qed.

Corollary bulleted_list_matches_source :
  forall d items,
    Some (list_text d false items)
    = PySource.RSTList_build_list_string items PySource.ListType_BULLETED (indent d).
Proof. intros d items. exact (list_text_matches_source d false items). Qed.

(* the raise statement of RSTList.build_list_string is dead code for a ListType value *)
Theorem list_string_never_raises :
  forall items lt ind, PySource.RSTList_build_list_string items lt ind <> None.
Proof.
  intros items lt ind. unfold PySource.RSTList_build_list_string.
  destruct lt; cbn [PySource.ListType_eqb]; discriminate.
Qed.

(* Heading.build_heading_string; fields: title, header_char *)
Theorem heading_text_matches_source :
  forall c title, heading_text c title = PySource.Heading_build_heading_string title c.
Proof.
  intros c title. unfold PySource.Heading_build_heading_string.
  rewrite (py_for_const_append str c (py_chars title) []).
  unfold py_chars. rewrite map_length. reflexivity.
Qed.

(* Directive.format_arguments; field: arguments *)
Theorem format_arguments_matches_source :
  forall args, join (s",") args = PySource.Directive_format_arguments args.
Proof. reflexivity. Qed.

(* DirectiveHeading.build_heading_string; fields: title, indent, args
   (Directive.build_heading passes format_arguments() as args) *)
Theorem dir_heading_matches_source :
  forall d name args,
    dir_heading d name args
    = PySource.DirectiveHeading_build_heading_string name (indent d)
        (PySource.Directive_format_arguments args).
Proof. reflexivity. Qed.

(* Option.build_option_string; fields: name, value, indent *)
Theorem option_text_matches_source :
  forall d n v, option_text d (n, v) = PySource.Option_build_option_string n v (indent d).
Proof. reflexivity. Qed.

(* ------------------------------------------------------------------ *)
(* B. aggregator.py: DocumentationAggregator.clean_doc_lines           *)

(* the counting loop
       for i in range(0, len(x)):
           if x[i] != '#': n = n + 1
           else: break                                                   *)
Lemma count_loop : forall rest pre n0,
  py_for_break (seq (length pre) (length rest))
    (fun n i => if py_str_ne (py_index_str (pre ++ rest) i) (s"#")
                then (n + 1, false) else (n, true)) n0
  = n0 + length (take_while (fun c => negb (c =? 35)%N) rest).
Proof.
  intros rest. induction rest as [|c r IH]; intros pre n0.
  - cbn [length seq py_for_break take_while]. lia.
  - cbn [length seq py_for_break take_while].
    unfold py_index_str at 1. rewrite nth_error_app_len.
    unfold py_str_ne at 1. change (s"#") with [35%N]. rewrite str_eqb_single.
    destruct (c =? 35)%N eqn:E; cbn [negb].
    + cbn [length]. lia.
    + replace (pre ++ c :: r) with ((pre ++ [c]) ++ r) by (rewrite <- app_assoc; reflexivity).
      replace (S (length pre)) with (length (pre ++ [c])) by (rewrite app_length; cbn [length]; lia).
      rewrite IH. cbn [length]. lia.
Qed.

(* the body of the second loop computes Model.Aggregator.clean_line *)
Lemma clean_line_body : forall n line,
  (let cleaned_line := py_slice_from line n in
   let cleaned_line := py_lstrip cleaned_line (s"#[]") in
   if py_truth cleaned_line && py_str_eq (py_index_str cleaned_line 0) (s" ")
   then py_slice_from cleaned_line 1 else cleaned_line)
  = clean_line n line.
Proof.
  intros n line. cbv zeta. unfold clean_line, py_slice_from, py_lstrip.
  change (s"#[]") with doc_lstrip_set.
  destruct (lstrip_set doc_lstrip_set (skipn n line)) as [|a r].
  - reflexivity.
  - cbn [py_truth andb py_index_str nth_error skipn].
    unfold py_str_eq. change (s" ") with [32%N]. rewrite str_eqb_single. reflexivity.
Qed.

(* removing one leading newline *)
Lemma drop_leading_newline : forall doc : str,
  (if py_startswith doc [10%N] then py_slice_from doc 1 else doc)
  = match doc with a :: r => if (a =? 10)%N then r else doc | [] => [] end.
Proof.
  intros doc. destruct doc as [|a r].
  - reflexivity.
  - unfold py_startswith, py_slice_from. cbn [startswith skipn].
    rewrite andb_true_r, N.eqb_sym. reflexivity.
Qed.

(* the equality holds for every list, including the empty one (where both sides are the empty
   string while Python raises IndexError at lines[-1]) *)
Lemma clean_doc_lines_matches_total :
  forall lines, clean_doc_lines lines = PySource.DocumentationAggregator_clean_doc_lines lines.
Proof.
  intros lines. unfold PySource.DocumentationAggregator_clean_doc_lines, clean_doc_lines.
  cbv zeta.
  (* first loop *)
  rewrite py_range_0. unfold py_len.
  assert (Hlast : py_list_last ([] : str) lines
                  = match last_opt lines with Some l => l | None => [] end) by reflexivity.
  rewrite Hlast. clear Hlast.
  set (lastl := match last_opt lines with Some l => l | None => [] end).
  pose proof (count_loop lastl [] 0) as Hc. cbn [app length plus] in Hc. rewrite Hc. clear Hc.
  set (num_spaces := length (take_while (fun c => negb (c =? 35)%N) lastl)).
  (* second loop *)
  rewrite (py_for_ext _ _ lines _ (fun a x => py_append a (clean_line num_spaces x)))
    by (intros st x; f_equal; exact (clean_line_body num_spaces x)).
  rewrite py_for_append_map. cbn [app].
  (* the last line *)
  rewrite (set_last_of_last str [] (fun x => py_rstrip x (s"#]"))).
  change (fun x => py_rstrip x (s"#]")) with (rstrip_set doc_rstrip_set).
  (* join and the leading newline *)
  unfold py_join. symmetry. apply drop_leading_newline.
Qed.

(* DocumentationAggregator.clean_doc_lines(lines); the hypothesis excludes the IndexError *)
Theorem clean_doc_lines_matches_source :
  forall lines, lines <> [] ->
    clean_doc_lines lines = PySource.DocumentationAggregator_clean_doc_lines lines.
Proof. intros lines _. apply clean_doc_lines_matches_total. Qed.

(* non-vacuity: a doccomment as the lexer delivers it, split at newlines *)
Example clean_doc_lines_matches_source_nonvacuous :
  let lines := [s"#[["; s"  # Adds two numbers."; s"  #"; s"  # :param a: first"; s"  #]]"] in
  lines <> []
  /\ PySource.DocumentationAggregator_clean_doc_lines lines
     = s"Adds two numbers." ++ [nl] ++ [nl] ++ s":param a: first" ++ [nl].
Proof. split; [discriminate | vm_compute; reflexivity]. Qed.

(* clean_doc_text is how the aggregator calls it: split never returns [] *)
Lemma split_on_nonempty : forall c x, split_on c x <> [].
Proof.
  intros c x. destruct x as [|a r]; cbn [split_on].
  - discriminate.
  - destruct (a =? c)%N; [discriminate|]. destruct (split_on c r); discriminate.
Qed.

Theorem clean_doc_text_matches_source :
  forall text,
    clean_doc_text text = PySource.DocumentationAggregator_clean_doc_lines (py_split text [nl]).
Proof.
  intros text. unfold clean_doc_text. apply clean_doc_lines_matches_source. apply split_on_nonempty.
Qed.

(* ------------------------------------------------------------------ *)
(* C. documentation_types.py: the process(self, writer) methods        *)

(* The translated process methods thread the RST document (a wstate) and call the writer state
   machine of Model/Writer.v through the py_w_* combinators.  The theorems say: run on ANY
   existing top-level document w with writer = the top-level handle [], a process method appends
   exactly the one element that Model.DocTypes.render_entry (resp. render_attribute) gives. *)

Lemma update_nth_snoc : forall (A : Type) (b : list A) (x y : A),
  update_nth (length b) (fun _ => y) (b ++ [x]) = b ++ [y].
Proof.
  intros A b x y. induction b as [|a r IH]; cbn [app length update_nth].
  - reflexivity.
  - rewrite IH. reflexivity.
Qed.

Lemma upd_in_body_last : forall f b x,
  upd_in_body [] (length b) f (b ++ [x])
  = match f x with Some x' => Some (b ++ [x']) | None => None end.
Proof.
  intros f b x. cbn [upd_in_body]. rewrite nth_error_app_len.
  destruct (f x) as [x'|]; [|reflexivity]. rewrite update_nth_snoc. reflexivity.
Qed.

Lemma find_in_body_last : forall b x lvl d,
  find_in_body [] (length b) lvl d (b ++ [x]) = Some (x, lvl, d).
Proof. intros b x lvl d. cbn [find_in_body]. rewrite nth_error_app_len. reflexivity. Qed.

(* d = writer.directive(name, args...)  on the top-level writer *)
Lemma w_directive_top : forall t b name args,
  py_w_directive {| w_title := t; w_body := b |} [] name args
  = ({| w_title := t; w_body := b ++ [Dir name args [] []] |}, [length b]).
Proof. reflexivity. Qed.

(* d.text(txt)  for the directive d that is the last child of the top-level writer *)
Lemma w_text_last : forall t b n a o c txt,
  py_w_text {| w_title := t; w_body := b ++ [Dir n a o c] |} [length b] txt
  = {| w_title := t; w_body := b ++ [Dir n a o (c ++ [Para txt])] |}.
Proof.
  intros t b n a o c txt. unfold py_w_text, wstep, upd_node. cbn [w_body w_title].
  rewrite upd_in_body_last. reflexivity.
Qed.

(* d.option(k, v) *)
Lemma w_option_last : forall t b n a o c k v,
  py_w_option {| w_title := t; w_body := b ++ [Dir n a o c] |} [length b] k v
  = {| w_title := t; w_body := b ++ [Dir n a (o ++ [(k, v)]) c] |}.
Proof.
  intros t b n a o c k v. unfold py_w_option, wstep, upd_node. cbn [w_body w_title].
  rewrite upd_in_body_last. reflexivity.
Qed.

(* d.field(k, v) *)
Lemma w_field_last : forall t b n a o c k v,
  py_w_field {| w_title := t; w_body := b ++ [Dir n a o c] |} [length b] k v
  = {| w_title := t; w_body := b ++ [Dir n a o (c ++ [Field k v])] |}.
Proof.
  intros t b n a o c k v. unfold py_w_field, wstep, upd_node. cbn [w_body w_title].
  rewrite upd_in_body_last. reflexivity.
Qed.

(* note.text(txt)  for the directive note that is the last child of the last child *)
Lemma w_text_last2 : forall t b n a o c n2 a2 o2 c2 txt,
  py_w_text {| w_title := t; w_body := b ++ [Dir n a o (c ++ [Dir n2 a2 o2 c2])] |}
            [length b; length c] txt
  = {| w_title := t; w_body := b ++ [Dir n a o (c ++ [Dir n2 a2 o2 (c2 ++ [Para txt])])] |}.
Proof.
  intros t b n a o c n2 a2 o2 c2 txt. unfold py_w_text, wstep, upd_node. cbn [w_body w_title].
  cbn [upd_in_body]. rewrite nth_error_app_len.
  change (match nth_error (c ++ [Dir n2 a2 o2 c2]) (length c) with
          | Some e => match append_child (Para txt) e with
                      | Some e' => Some (update_nth (length c) (fun _ => e') (c ++ [Dir n2 a2 o2 c2]))
                      | None => None
                      end
          | None => None
          end)
    with (upd_in_body [] (length c) (append_child (Para txt)) (c ++ [Dir n2 a2 o2 c2])).
  rewrite upd_in_body_last. cbn [append_child]. rewrite update_nth_snoc. reflexivity.
Qed.

(* d.directive(name, args...) *)
Lemma w_directive_last : forall t b n a o c name args,
  py_w_directive {| w_title := t; w_body := b ++ [Dir n a o c] |} [length b] name args
  = ({| w_title := t; w_body := b ++ [Dir n a o (c ++ [Dir name args [] []])] |},
     [length b; length c]).
Proof.
  intros t b n a o c name args.
  unfold py_w_directive, wstep, upd_node, count_at, node_at. cbn [w_body w_title].
  rewrite find_in_body_last, upd_in_body_last. reflexivity.
Qed.

Ltac run_writer :=
  repeat (first [ rewrite w_directive_top | rewrite w_directive_last
                | rewrite w_text_last | rewrite w_text_last2 | rewrite w_option_last
                | rewrite w_field_last ];
          cbv iota beta).

(* FunctionDocumentation.process; fields: name, doc, params, has_kwargs.  The second component
   is the new value of self.params: Python appends to the object's own list through the alias
   param_list, so the translation returns it as well. *)
Theorem function_process_matches_source :
  forall w name doc params kw,
    PySource.FunctionDocumentation_process w [] name doc params kw
    = (w_add w (render_entry (EFunction false name doc params kw)),
       if kw then params ++ [kwargs_lit] else params).
Proof.
  intros [t b] name doc params kw. unfold PySource.FunctionDocumentation_process, w_add.
  destruct kw; cbv zeta; run_writer; reflexivity.
Qed.

(* MacroDocumentation.process *)
Theorem macro_process_matches_source :
  forall w name doc params kw,
    PySource.MacroDocumentation_process w [] name doc params kw
    = (w_add w (render_entry (EFunction true name doc params kw)),
       if kw then params ++ [kwargs_lit] else params).
Proof.
  intros [t b] name doc params kw. unfold PySource.MacroDocumentation_process, w_add.
  destruct kw; cbv zeta; run_writer; reflexivity.
Qed.

(* VariableDocumentation.process; fields: name, doc, type, value.  self.type is annotated
   Union[VarType, str]; for a VarType member the method succeeds ... *)
Theorem variable_process_matches_source :
  forall w name doc ty value,
    PySource.VariableDocumentation_process w [] name doc (inl (var_type_of ty)) value
    = Some (w_add w (render_entry (EVariable name doc ty value))).
Proof.
  intros [t b] name doc ty value. unfold PySource.VariableDocumentation_process, w_add.
  destruct ty; destruct value as [v|];
    cbn [var_type_of py_union_is PySource.VarType_eqb]; cbv zeta; run_writer; reflexivity.
Qed.

(* ... and for a str it reaches the raise ValueError statement *)
Theorem variable_process_raises_on_str :
  forall w name doc x value,
    PySource.VariableDocumentation_process w [] name doc (inr x) value = None.
Proof.
  intros [t b] name doc x value. unfold PySource.VariableDocumentation_process.
  cbv zeta; run_writer; reflexivity.
Qed.

(* OptionDocumentation.process; fields: name, doc, type, value, help_text.  The aggregator
   constructs every OptionDocumentation with type = the str bool (process_option), which is
   what the model's EOption renders; hence the fixed third field *)
Theorem option_process_matches_source :
  forall w name doc value help,
    PySource.OptionDocumentation_process w [] name doc (inr (s"bool")) value help
    = w_add w (render_entry (EOption name doc value help)).
Proof.
  intros [t b] name doc value help. unfold PySource.OptionDocumentation_process, w_add.
  destruct value as [v|]; cbv zeta; run_writer; reflexivity.
Qed.

(* GenericCommandDocumentation.process; fields: name, doc, params *)
Theorem generic_process_matches_source :
  forall w name doc params,
    PySource.GenericCommandDocumentation_process w [] name doc params
    = w_add w (render_entry (EGeneric name doc params)).
Proof.
  intros [t b] name doc params. unfold PySource.GenericCommandDocumentation_process, w_add.
  cbv zeta; run_writer; reflexivity.
Qed.

(* CTestDocumentation.process; fields: name, doc, params *)
Theorem ctest_process_matches_source :
  forall w name doc params,
    PySource.CTestDocumentation_process w [] name doc params
    = w_add w (render_entry (ECTest name doc params)).
Proof.
  intros [t b] name doc params. unfold PySource.CTestDocumentation_process, w_add.
  cbv zeta; run_writer; reflexivity.
Qed.

(* TestDocumentation.process; fields read: name, doc, expect_fail (params and is_macro are
   not rendered) *)
Theorem test_process_matches_source :
  forall w name doc xf params is_macro,
    PySource.TestDocumentation_process w [] name doc xf
    = w_add w (render_entry (ETest false name doc xf params is_macro)).
Proof.
  intros [t b] name doc xf params is_macro. unfold PySource.TestDocumentation_process, w_add.
  cbv zeta; run_writer; reflexivity.
Qed.

(* SectionDocumentation.process *)
Theorem section_process_matches_source :
  forall w name doc xf params is_macro,
    PySource.SectionDocumentation_process w [] name doc xf
    = w_add w (render_entry (ETest true name doc xf params is_macro)).
Proof.
  intros [t b] name doc xf params is_macro. unfold PySource.SectionDocumentation_process, w_add.
  cbv zeta; run_writer; reflexivity.
Qed.

(* the :param: / :type: loop of MethodDocumentation.process against Model.DocTypes.method_fields;
   mf_body is the loop body as the translator renders it (P = self.params, T = self.param_types,
   h = the handle d) *)
Definition mf_body (doc : str) (P T : list str) (h : handle) (world : wstate) (i : nat)
  : wstate * bool :=
  if py_int_ge i (py_len P) then (world, true)
  else
    (let world :=
       if negb (py_in_str ((s":param ") ++ py_list_index ([] : str) P i ++ (s":")) doc)
       then py_w_field world h ((s"param ") ++ py_list_index ([] : str) P i) ([] : str)
       else world in
     let world :=
       if negb (py_in_str ((s":type ") ++ py_list_index ([] : str) P i ++ (s":")) doc)
       then py_w_field world h ((s"type ") ++ py_list_index ([] : str) P i)
              (py_list_index ([] : str) T i)
       else world in
     (world, false)).

Lemma method_fields_loop : forall doc types params pt pp t b n a o c,
  length pt = length pp ->
  py_for_break (seq (length pt) (length types))
    (mf_body doc (pp ++ params) (pt ++ types) [length b])
    {| w_title := t; w_body := b ++ [Dir n a o c] |}
  = {| w_title := t; w_body := b ++ [Dir n a o (c ++ method_fields doc types params)] |}.
Proof.
  intros doc types. induction types as [|ty ts IH]; intros params pt pp t b n a o c Hlen.
  - cbn [length seq py_for_break method_fields]. rewrite app_nil_r. reflexivity.
  - cbn [length seq py_for_break]. unfold mf_body at 1. unfold py_int_ge, py_len.
    destruct params as [|p ps].
    + rewrite app_nil_r, <- Hlen, Nat.leb_refl. cbn [method_fields]. rewrite app_nil_r. reflexivity.
    + assert (Hlt : Nat.leb (length (pp ++ p :: ps)) (length pt) = false).
      { apply Nat.leb_gt. rewrite app_length. cbn [length]. lia. }
      rewrite Hlt. cbv zeta. unfold py_list_index.
      rewrite (nth_app_len str [] pt ty ts).
      rewrite Hlen. rewrite (nth_app_len str [] pp p ps). rewrite <- Hlen.
      unfold py_in_str. cbn [method_fields].
      replace (pp ++ p :: ps) with ((pp ++ [p]) ++ ps) by (rewrite <- app_assoc; reflexivity).
      replace (pt ++ ty :: ts) with ((pt ++ [ty]) ++ ts) by (rewrite <- app_assoc; reflexivity).
      replace (S (length pt)) with (length (pt ++ [ty])) by (rewrite app_length; cbn [length]; lia).
      assert (Hlen' : length (pt ++ [ty]) = length (pp ++ [p])).
      { rewrite !app_length. cbn [length]. lia. }
      destruct (contains ((s":param ") ++ p ++ (s":")) doc);
        destruct (contains ((s":type ") ++ p ++ (s":")) doc); cbn [negb app];
        rewrite ?w_field_last; rewrite (IH ps _ _ _ _ _ _ _ _ Hlen');
        rewrite <- ?app_assoc; reflexivity.
Qed.

(* MethodDocumentation.process; fields read: name, doc, param_types, params, is_macro *)
Theorem method_process_matches_source :
  forall w m,
    PySource.MethodDocumentation_process w [] (m_name m) (m_doc m) (m_types m) (m_params m) (m_macro m)
    = w_add w (render_method m).
Proof.
  intros [t b] m. unfold PySource.MethodDocumentation_process, w_add, render_method.
  cbv zeta. rewrite py_range_0. unfold py_len at 1.
  destruct (m_macro m); run_writer.
  - etransitivity.
    + exact (method_fields_loop (m_doc m) (m_types m) (m_params m) [] [] t b _ _ _ _ eq_refl).
    + cbn [app]. rewrite <- !app_assoc. reflexivity.
  - etransitivity.
    + exact (method_fields_loop (m_doc m) (m_types m) (m_params m) [] [] t b _ _ _ _ eq_refl).
    + cbn [app]. reflexivity.
Qed.

(* AttributeDocumentation.process; fields: name, doc, default_value (None = no default) *)
Theorem attribute_process_matches_source :
  forall w a,
    PySource.AttributeDocumentation_process w [] (a_name a) (a_doc a) (a_default a)
    = w_add w (render_attribute a).
Proof.
  intros [t b] a. unfold PySource.AttributeDocumentation_process, w_add, render_attribute.
  destruct (a_default a) as [v|]; cbv zeta; run_writer; reflexivity.
Qed.

(* ModuleDocumentation.process; fields: name, doc.  The model's EModule carries a str doc
   (the aggregator never passes None) *)
Theorem module_process_matches_source :
  forall w name doc,
    PySource.ModuleDocumentation_process w [] name (Some doc)
    = w_add w (render_entry (EModule name doc)).
Proof.
  intros [t b] name doc. unfold PySource.ModuleDocumentation_process, w_add.
  destruct doc as [|c r]; cbv zeta; run_writer; reflexivity.
Qed.

(* ... and for doc = None the method writes the bare directive, like an empty doc *)
Theorem module_process_none :
  forall w name,
    PySource.ModuleDocumentation_process w [] name None
    = w_add w (render_entry (EModule name [])).
Proof.
  intros [t b] name. unfold PySource.ModuleDocumentation_process, w_add.
  cbv zeta; run_writer; reflexivity.
Qed.

(* a process method run on a fresh top-level writer leaves exactly the rendered entry *)
Corollary function_process_on_fresh_writer :
  forall title name doc params kw,
    w_body (fst (PySource.FunctionDocumentation_process (winit title) [] name doc params kw))
    = [render_entry (EFunction false name doc params kw)].
Proof. intros. rewrite function_process_matches_source. reflexivity. Qed.

(* ------------------------------------------------------------------ *)
(* D. aggregator.py: the alias-free process_* methods                  *)

(* A Command_invocationContext is a Model.Parser.cmd, an argument context a Model.Parser.arg
   (vocabulary in Base/PySem.v).  The methods read and extend self.documented; the translated
   functions take its value and return the new one, and the theorems state that this is the
   documented component of the model's step (the model additionally threads the ghost origins
   list, which has no Python counterpart). *)

Lemma arg_depth_in : forall l x,
  In x l -> py_arg_depth x <= fold_right (fun y m => Nat.max (py_arg_depth y) m) 0 l.
Proof.
  intros l x. induction l as [|y r IH]; intros Hin.
  - destruct Hin.
  - cbn [fold_right]. destruct Hin as [->|Hin].
    + apply Nat.le_max_l.
    + etransitivity; [apply IH; exact Hin | apply Nat.le_max_r].
Qed.

(* the unrolled recursion of _argument_text computes arg_written when the fuel exceeds the depth *)
Lemma argument_text_fuel : forall n a,
  py_arg_depth a < n ->
  py_fuel_fix n
    (fun rec a =>
       if py_is_compound a
       then ((s"(") ++ py_join (s" ") (py_listcomp (fun val => rec val) (py_argument_children a)))
            ++ (s")")
       else py_get_text a) ([] : str) a
  = arg_written a.
Proof.
  induction n as [|n IH]; intros a Hd.
  - lia.
  - cbn [py_fuel_fix]. destruct a as [k t|l].
    + reflexivity.
    + cbn [py_is_compound py_argument_children arg_written]. unfold py_listcomp, py_join.
      rewrite (map_ext_in _ arg_written).
      * rewrite <- app_assoc. reflexivity.
      * intros x Hin. apply IH. cbn [py_arg_depth] in Hd.
        pose proof (arg_depth_in l x Hin) as Hle. lia.
Qed.

(* DocumentationAggregator._argument_text(arg) *)
Theorem argument_text_matches_source :
  forall a, arg_written a = PySource.DocumentationAggregator__argument_text a.
Proof.
  intros a. unfold PySource.DocumentationAggregator__argument_text, py_arg_rec.
  symmetry. apply argument_text_fuel. lia.
Qed.

(* DocumentationAggregator.process_generic_command(command_name, ctx, docstring) *)
Theorem process_generic_matches_source :
  forall command c doc docd st,
    documented (process_generic command c doc docd st)
    = PySource.DocumentationAggregator_process_generic_command command c doc (documented st).
Proof.
  intros command c doc docd st.
  unfold PySource.DocumentationAggregator_process_generic_command, process_generic, append.
  cbn [documented]. unfold py_append, py_listcomp, py_cmd_argument_children.
  rewrite (map_ext _ _ argument_text_matches_source). reflexivity.
Qed.

(* ctx.single_argument() with getText() on each element is the model's singles *)
Lemma singles_as_texts : forall c, singles c = map py_get_text (py_single_arguments c).
Proof.
  intros c. unfold singles, py_single_arguments. induction (c_args c) as [|a r IH].
  - reflexivity.
  - destruct a as [k t|l]; cbn [singles_of filter py_is_compound negb map py_get_text arg_text].
    + rewrite IH. reflexivity.
    + exact IH.
Qed.

Lemma last_opt_cons2 : forall (A : Type) (a b : A) r, last_opt (a :: b :: r) = last_opt (b :: r).
Proof. reflexivity. Qed.

(* the quote-pair stripping of process_set is the model's unquote *)
Lemma unquote_as_source : forall v,
  unquote v
  = Some (if py_int_ge (py_len v) 2 && py_str_eq (py_index_str v 0) (s"""")
             && py_str_eq (py_last_str v) (s"""")
          then py_slice_drop_last (py_slice_from v 1) else v).
Proof.
  intros v. unfold unquote. destruct v as [|a r].
  - reflexivity.
  - destruct r as [|b r'].
    + cbn [py_len length py_int_ge Nat.leb andb last_opt].
      destruct (a =? 34)%N; reflexivity.
    + unfold py_int_ge, py_len. cbn [length Nat.leb andb py_index_str nth_error].
      unfold py_str_eq. change (s"""") with [34%N]. rewrite str_eqb_single.
      destruct (a =? 34)%N eqn:Ea; cbn [andb]; [|reflexivity].
      unfold py_last_str. rewrite last_opt_cons2.
      destruct (last_opt (b :: r')) as [z|] eqn:El.
      * rewrite str_eqb_single. destruct (z =? 34)%N; reflexivity.
      * reflexivity.
Qed.

Lemma three_or_more_is_list : forall n,
  py_zint_gt (py_zint_sub (py_zint_of_int (S (S (S n)))) (py_zint_of_int 1)) (py_zint_of_int 1) = true.
Proof.
  intros n. unfold py_zint_gt, py_zint_sub, py_zint_of_int. apply Z.ltb_lt. lia.
Qed.

(* DocumentationAggregator.process_set(ctx, docstring): the model step never crashes and its
   documented list is the translated function's result *)
Theorem process_set_matches_source :
  forall c doc docd st,
    result_docs (process_set c doc docd st)
    = Some (PySource.DocumentationAggregator_process_set c doc (documented st)).
Proof.
  intros c doc docd st. unfold process_set, PySource.DocumentationAggregator_process_set.
  rewrite singles_as_texts.
  destruct (py_single_arguments c) as [|a0 [|a1 [|a2 r]]].
  - reflexivity.
  - reflexivity.
  - cbn [map]. rewrite unquote_as_source. reflexivity.
  - cbv zeta. unfold py_len. cbn [length]. rewrite three_or_more_is_list.
    reflexivity.
Qed.

Corollary process_set_never_crashes :
  forall c doc docd st, exists st',
    process_set c doc docd st = Ok st'
    /\ documented st' = PySource.DocumentationAggregator_process_set c doc (documented st).
Proof.
  intros c doc docd st. pose proof (process_set_matches_source c doc docd st) as H.
  destruct (process_set c doc docd st) as [st'|]; cbn [result_docs] in H.
  - exists st'. split; [reflexivity|]. congruence.
  - discriminate H.
Qed.

(* DocumentationAggregator.process_option(ctx, docstring) *)
Theorem process_option_matches_source :
  forall c doc docd st,
    documented (process_option c doc docd st)
    = PySource.DocumentationAggregator_process_option c doc (documented st).
Proof.
  intros c doc docd st. unfold process_option, PySource.DocumentationAggregator_process_option.
  rewrite singles_as_texts.
  destruct (py_single_arguments c) as [|a0 [|a1 [|a2 [|a3 r]]]]; reflexivity.
Qed.

(* ---- process_add_test ---- *)

(* the NAME loop of process_add_test as the translator renders it: params = the texts, exitv = the
   function result at the return statement of the except IndexError handler *)
Definition at_body (params : list str) (R : Type) (exitv : R)
  : str * Z -> nat -> (str * Z) + R :=
  fun '(name, name_index) i =>
    let param := py_list_index ([] : str) params i in
    if py_str_eq param (s"NAME") then
      (if py_int_lt (i + 1) (py_len params) then
         (let name := py_list_index ([] : str) params (i + 1) in
          let name_index := (py_zint_of_int i) in
          inl (name, name_index))
       else inr exitv)
    else inl (name, name_index).

Lemma nth_app_len_succ : forall (A : Type) (d : A) (pre : list A) x y r,
  nth (length pre + 1) (pre ++ x :: y :: r) d = y.
Proof.
  intros A d pre x y r. induction pre as [|p pre IH]; cbn [app length nth plus]; auto.
Qed.

Lemma add_test_loop : forall (R : Type) (exitv : R) rest pre name idx,
  py_for_ret (seq (length pre) (length rest)) (at_body (pre ++ rest) R exitv)
             (name, name_index_of idx)
  = match scan_name_idx rest (length pre) (idx, name) with
    | None => inr exitv
    | Some (idx', name') => inl (name', name_index_of idx')
    end.
Proof.
  intros R exitv rest. induction rest as [|p r IH]; intros pre name idx.
  - reflexivity.
  - assert (IH' : forall name' idx',
              py_for_ret (seq (S (length pre)) (length r)) (at_body (pre ++ p :: r) R exitv)
                         (name', name_index_of idx')
              = match scan_name_idx r (S (length pre)) (idx', name') with
                | None => inr exitv
                | Some (i2, n2) => inl (n2, name_index_of i2)
                end).
    { intros name' idx'. specialize (IH (pre ++ [p]) name' idx').
      rewrite app_length, <- app_assoc in IH. cbn [length app] in IH.
      rewrite Nat.add_1_r in IH. exact IH. }
    cbn [length seq py_for_ret scan_name_idx]. unfold at_body at 1. cbv zeta.
    unfold py_list_index at 1. rewrite nth_app_len.
    unfold py_str_eq. change (s"NAME") with kw_name.
    destruct (str_eqb p kw_name).
    + unfold py_int_lt, py_len. rewrite app_length. cbn [length].
      destruct r as [|n r'].
      * cbn [length]. replace (length pre + 1 <? length pre + 1) with false
          by (symmetry; apply Nat.ltb_irrefl). reflexivity.
      * cbn [length]. replace (length pre + 1 <? length pre + S (S (length r'))) with true
          by (symmetry; apply Nat.ltb_lt; lia).
        unfold py_list_index. rewrite nth_app_len_succ.
        change (py_zint_of_int (length pre)) with (name_index_of (Some (length pre))).
        apply IH'.
    + apply IH'.
Qed.

(* everything at or after position a is kept by a filter that accepts all those positions *)
Lemma enumerate_keep_all : forall (A : Type) (P : nat -> bool) (ps : list A) a,
  (forall i, a <= i -> P i = true) ->
  map (fun '(i, p) => p) (filter (fun '(i, p) => P i) (combine (seq a (length ps)) ps)) = ps.
Proof.
  intros A P ps. induction ps as [|x r IH]; intros a Hall.
  - reflexivity.
  - cbn [length seq combine filter]. rewrite (Hall a) by lia. cbn [map].
    f_equal. apply IH. intros i Hi. apply Hall. lia.
Qed.

(* dropping the positions k and k+1 *)
Lemma enumerate_drop_pair : forall (A : Type) (P : nat -> bool) k,
  P k = false -> P (S k) = false ->
  (forall i, i < k -> P i = true) -> (forall i, S k < i -> P i = true) ->
  forall d (ps : list A) a, k = a + d ->
    map (fun '(i, p) => p) (filter (fun '(i, p) => P i) (combine (seq a (length ps)) ps))
    = firstn d ps ++ skipn (d + 2) ps.
Proof.
  intros A P k Hk Hk1 Hlo Hhi. induction d as [|d IH]; intros ps a Ha.
  - replace a with k by lia. destruct ps as [|x [|y r]].
    + reflexivity.
    + cbn [length seq combine filter]. rewrite Hk. reflexivity.
    + cbn [length seq combine filter]. rewrite Hk, Hk1. cbn [firstn app plus skipn].
      apply enumerate_keep_all. intros i Hi. apply Hhi. lia.
  - destruct ps as [|x r].
    + reflexivity.
    + cbn [length seq combine filter]. rewrite (Hlo a) by lia.
      cbn [map firstn app plus skipn]. f_equal. apply IH. lia.
Qed.

(* the by-position comprehension of process_add_test is the model's drop_name_pair *)
Lemma drop_name_pair_as_source : forall idx ps,
  py_listcomp_if
    (fun '(i, p) =>
       (py_zint_lt (name_index_of idx) (py_zint_of_int 0)
        || negb (py_zint_eq (py_zint_of_int i) (name_index_of idx)
                 || py_zint_eq (py_zint_of_int i)
                      (py_zint_add (name_index_of idx) (py_zint_of_int 1)))))
    (fun '(i, p) => p) (py_enumerate ps)
  = drop_name_pair idx ps.
Proof.
  intros idx ps. unfold py_listcomp_if, py_enumerate, drop_name_pair.
  destruct idx as [k|]; cbn [name_index_of].
  - set (P := fun i : nat =>
                py_zint_lt (Z.of_nat k) (py_zint_of_int 0)
                || negb (py_zint_eq (py_zint_of_int i) (Z.of_nat k)
                         || py_zint_eq (py_zint_of_int i)
                              (py_zint_add (Z.of_nat k) (py_zint_of_int 1)))).
    assert (HP : forall i, P i = negb ((i =? k) || (i =? S k))).
    { intros i. unfold P, py_zint_lt, py_zint_eq, py_zint_add, py_zint_of_int.
      replace (Z.of_nat k <? Z.of_nat 0)%Z with false by (symmetry; apply Z.ltb_ge; lia).
      cbn [orb]. f_equal. f_equal.
      - destruct (Nat.eqb_spec i k) as [->|Hne]; [apply Z.eqb_refl | apply Z.eqb_neq; lia].
      - destruct (Nat.eqb_spec i (S k)) as [->|Hne]; [apply Z.eqb_eq; lia | apply Z.eqb_neq; lia]. }
    change (map (fun '(i, p) => p)
              (filter (fun '(i, p) => P i) (combine (seq 0 (length ps)) ps))
            = firstn k ps ++ skipn (k + 2) ps).
    apply (enumerate_drop_pair str P k).
    + rewrite HP, Nat.eqb_refl. reflexivity.
    + rewrite HP, Nat.eqb_refl, orb_true_r. reflexivity.
    + intros i Hi. rewrite HP.
      destruct (Nat.eqb_spec i k); [lia|]. destruct (Nat.eqb_spec i (S k)); [lia|]. reflexivity.
    + intros i Hi. rewrite HP.
      destruct (Nat.eqb_spec i k); [lia|]. destruct (Nat.eqb_spec i (S k)); [lia|]. reflexivity.
    + reflexivity.
  - change (map (fun '(i, p) => p)
              (filter (fun '(i, p) => (fun _ : nat => true) i) (combine (seq 0 (length ps)) ps))
            = ps).
    apply enumerate_keep_all. reflexivity.
Qed.

(* DocumentationAggregator.process_add_test(ctx, docstring).  name_index is an int with the
   sentinel -1 in Python and an integer Z in the translation; the model's option nat is related
   to it by name_index_of *)
Theorem process_add_test_matches_source :
  forall c doc docd st,
    documented (process_add_test c doc docd st)
    = PySource.DocumentationAggregator_process_add_test c doc (documented st).
Proof.
  intros c doc docd st. unfold process_add_test, PySource.DocumentationAggregator_process_add_test.
  rewrite singles_as_texts. cbv zeta. unfold py_listcomp at 1 2 3 4 5.
  set (ps := map py_get_text (py_single_arguments c)).
  unfold py_int_lt at 1, py_len at 1.
  destruct (length ps <? 2) eqn:Hshort.
  - reflexivity.
  - rewrite py_range_0. unfold py_len at 1.
    pose proof (add_test_loop (list entry) (documented st) ps [] [] None) as Hloop.
    cbn [app length] in Hloop.
    match goal with
    | |- _ = match ?X with inl _ => _ | inr _ => _ end =>
        change X with (py_for_ret (seq 0 (length ps)) (at_body ps (list entry) (documented st))
                         (([] : str), name_index_of None))
    end.
    rewrite Hloop. clear Hloop.
    destruct (scan_name_idx ps 0 (None, [])) as [[idx name]|] eqn:E1.
    + try match goal with
          | |- context [scan_name_idx ?a ?b ?c] =>
              assert (E2 : scan_name_idx a b c = Some (idx, name)) by exact E1; rewrite E2
          end.
      unfold append. cbn [documented]. cbv beta iota. unfold py_append.
      do 3 f_equal. symmetry. exact (drop_name_pair_as_source idx ps).
    + try match goal with
          | |- context [scan_name_idx ?a ?b ?c] =>
              assert (E2 : scan_name_idx a b c = None) by exact E1; rewrite E2
          end.
      reflexivity.
Qed.


(* ---- process_ct_add_test / process_ct_add_section ---- *)

Lemma str_eqb_true : forall a b : str, str_eqb a b = true -> a = b.
Proof.
  induction a as [|x a IH]; intros b H; destruct b as [|y b]; cbn [str_eqb] in H;
    try discriminate H.
  - reflexivity.
  - apply andb_prop in H. destruct H as [Hx Ha]. apply N.eqb_eq in Hx. subst y.
    f_equal. apply IH. exact Ha.
Qed.

(* the NAME / EXPECTFAIL loop of process_ct_add_test and process_ct_add_section as the translator
   renders it *)
Definition ct_body (params : list str) (R : Type) (exitv : R)
  : str * bool -> nat -> (str * bool) + R :=
  fun '(name, expect_fail) i =>
    let param := py_list_index ([] : str) params i in
    if py_str_eq param (s"NAME") then
      (if py_int_lt (i + 1) (py_len params) then
         (let name := py_list_index ([] : str) params (i + 1) in
          let expect_fail := if py_str_eq param (s"EXPECTFAIL") then true else expect_fail in
          inl (name, expect_fail))
       else inr exitv)
    else
      (let expect_fail := if py_str_eq param (s"EXPECTFAIL") then true else expect_fail in
       inl (name, expect_fail)).

Lemma ct_loop : forall (R : Type) (exitv : R) rest pre name xf,
  py_for_ret (seq (length pre) (length rest)) (ct_body (pre ++ rest) R exitv) (name, xf)
  = match scan_name rest name with
    | None => inr exitv
    | Some name' => inl (name', xf || has_expectfail rest)
    end.
Proof.
  intros R exitv rest. induction rest as [|p r IH]; intros pre name xf.
  - cbn [length seq py_for_ret scan_name has_expectfail existsb]. rewrite orb_false_r. reflexivity.
  - assert (IH' : forall name' xf',
              py_for_ret (seq (S (length pre)) (length r)) (ct_body (pre ++ p :: r) R exitv)
                         (name', xf')
              = match scan_name r name' with
                | None => inr exitv
                | Some n2 => inl (n2, xf' || has_expectfail r)
                end).
    { intros name' xf'. specialize (IH (pre ++ [p]) name' xf').
      rewrite app_length, <- app_assoc in IH. cbn [length app] in IH.
      rewrite Nat.add_1_r in IH. exact IH. }
    cbn [length seq py_for_ret scan_name]. unfold ct_body at 1. cbv zeta.
    unfold py_list_index. rewrite !nth_app_len.
    unfold py_str_eq. change (s"NAME") with kw_name. change (s"EXPECTFAIL") with kw_expectfail.
    unfold has_expectfail. cbn [existsb]. fold (has_expectfail r).
    destruct (str_eqb p kw_name) eqn:Ename.
    + apply str_eqb_true in Ename. subst p.
      change (str_eqb kw_name kw_expectfail) with false. cbn [orb].
      unfold py_int_lt, py_len. rewrite app_length. cbn [length].
      destruct r as [|n r'].
      * cbn [length]. replace (length pre + 1 <? length pre + 1) with false
          by (symmetry; apply Nat.ltb_irrefl). reflexivity.
      * cbn [length]. replace (length pre + 1 <? length pre + S (S (length r'))) with true
          by (symmetry; apply Nat.ltb_lt; lia).
        rewrite nth_app_len_succ. apply IH'.
    + rewrite IH'. destruct (scan_name r name) as [n2|]; [|reflexivity].
      destruct (str_eqb p kw_expectfail); cbn [orb].
      * rewrite orb_true_r. reflexivity.
      * reflexivity.
Qed.

Ltac ct_process_proof :=
      intros c doc docd st; unfold process_test;
      rewrite singles_as_texts; cbv zeta; unfold py_listcomp;
      set (ps := map py_get_text (py_single_arguments c));
      unfold py_int_lt at 1, py_len at 1;
      destruct (length ps <? 2) eqn:Hshort;
      [ reflexivity
      | rewrite py_range_0; unfold py_len at 1;
        pose proof (ct_loop (list entry * await) (documented st, awaiting st) ps [] [] false) as Hloop;
        cbn [app length] in Hloop;
        match goal with
        | |- _ = match ?X with inl _ => _ | inr _ => _ end =>
            change X with (py_for_ret (seq 0 (length ps))
                             (ct_body ps (list entry * await) (documented st, awaiting st))
                             (([] : str), false))
        end;
        rewrite Hloop; clear Hloop;
        destruct (scan_name ps []) as [name|] eqn:E1;
        [ try match goal with
              | |- context [scan_name ?a ?b] =>
                  assert (E2 : scan_name a b = Some name) by exact E1; rewrite E2
              end; reflexivity
        | try match goal with
              | |- context [scan_name ?a ?b] =>
                  assert (E2 : scan_name a b = None) by exact E1; rewrite E2
              end; reflexivity ] ].

(* DocumentationAggregator.process_ct_add_test(ctx, docstring): the documented list and the
   awaiting slot.  self.documented_awaiting_function_def = test_doc aliases the object just
   appended; the translation records its position in self.documented, the model's AwTop idx *)
Theorem process_ct_add_test_matches_source :
  forall c doc docd st,
    (documented (process_test false c doc docd st), awaiting (process_test false c doc docd st))
    = PySource.DocumentationAggregator_process_ct_add_test c doc (documented st) (awaiting st).
Proof. unfold PySource.DocumentationAggregator_process_ct_add_test. ct_process_proof. Qed.

(* DocumentationAggregator.process_ct_add_section(ctx, docstring) *)
Theorem process_ct_add_section_matches_source :
  forall c doc docd st,
    (documented (process_test true c doc docd st), awaiting (process_test true c doc docd st))
    = PySource.DocumentationAggregator_process_ct_add_section c doc (documented st) (awaiting st).
Proof. unfold PySource.DocumentationAggregator_process_ct_add_section. ct_process_proof. Qed.

(* ------------------------------------------------------------------ *)
(* E. enterDocumented_module, Documenter.process_docs, the names of document_single_file *)

(* DocumentationAggregator.enterDocumented_module(ctx); the Documented_moduleContext is the text
   of its Module_docstring token *)
Theorem module_entry_matches_source :
  forall text docs,
    docs ++ [module_entry text]
    = PySource.DocumentationAggregator_enterDocumented_module text docs.
Proof.
  intros text docs. unfold PySource.DocumentationAggregator_enterDocumented_module, module_entry.
  cbv zeta. unfold clean_doc_text. rewrite <- clean_doc_lines_matches_total.
  unfold py_append. f_equal. f_equal.
  change (py_split text [10%N]) with (split_on nl text).
  change (py_split (clean_doc_lines (split_on nl text)) [10%N])
    with (split_on nl (clean_doc_lines (split_on nl text))).
  destruct (split_on nl (clean_doc_lines (split_on nl text))) as [|l r]; reflexivity.
Qed.

(* ---- Documenter.process_docs: the decision part ---- *)

Lemma refs_where_none : forall (p : entry -> bool) xs a,
  forallb (fun e => negb (p e)) xs = true ->
  map fst (filter (fun ie => p (snd ie)) (combine (seq a (length xs)) xs)) = [].
Proof.
  intros p xs. induction xs as [|x r IH]; intros a H.
  - reflexivity.
  - cbn [forallb] in H. apply andb_prop in H. destruct H as [Hx Hr].
    cbn [length seq combine filter snd]. apply negb_true_iff in Hx. rewrite Hx. apply IH. exact Hr.
Qed.

(* Documenter.process_docs(docs) up to (not including) its final loop
       for doc in docs: doc.process(self.writer)
   computes the entries that get rendered and the writer's title: Pipeline.finalize.
   Fields: module_name, and the title of self.writer.  The hypothesis is the shape of every list
   the aggregator produces; without it the Python code also renames module entries further down
   the list, which finalize does not model. *)
Theorem process_docs_matches_source :
  forall title module_name docs,
    modules_only_first docs = true ->
    PySource.Documenter_process_docs docs module_name title
    = (snd (finalize title module_name docs), fst (finalize title module_name docs)).
Proof.
  intros title module_name docs Hm. unfold PySource.Documenter_process_docs, py_refs_where.
  unfold modules_only_first in Hm.
  destruct docs as [|e rest].
  - reflexivity.
  - cbn [tl] in Hm. pose proof (refs_where_none py_is_module_entry rest 1 Hm) as Hnone.
    destruct e; cbn [length seq combine filter snd py_is_module_entry map fst];
      rewrite Hnone; try reflexivity.
    (* the list starts with a module entry *)
    cbv zeta. destruct name as [|c n]; reflexivity.
Qed.

Example process_docs_matches_source_nonvacuous :
  modules_only_first [EModule (s"m") (s"doc"); EGeneric (s"f") [] []] = true
  /\ PySource.Documenter_process_docs [EModule (s"m") (s"doc"); EGeneric (s"f") [] []] (s"file") (s"t")
     = ([EModule (s"m") (s"doc"); EGeneric (s"f") [] []], s"m")
  /\ PySource.Documenter_process_docs [EGeneric (s"f") [] []] (s"file") (s"t")
     = ([EModule (s"file") []; EGeneric (s"f") [] []], s"t").
Proof. repeat split; vm_compute; reflexivity. Qed.

(* the hypothesis cannot be dropped: a second module entry further down changes the title in
   Python (and in the translation) but not in finalize *)
Example process_docs_needs_modules_first :
  PySource.Documenter_process_docs [EModule (s"a") []; EModule (s"b") []] (s"file") (s"t")
  <> (snd (finalize (s"t") (s"file") [EModule (s"a") []; EModule (s"b") []]),
      fst (finalize (s"t") (s"file") [EModule (s"a") []; EModule (s"b") []])).
Proof. vm_compute. discriminate. Qed.

(* ---- document_single_file: title and module name ---- *)

(* the part of document_single_file from  prefix = settings.rst.prefix  to the last assignment of
   module_name, as a function of the settings it reads and of the three library calls
   os.path.isdir(root), os.path.relpath(file, root), os.path.basename(file) *)
Theorem single_file_names_match_source :
  forall prefix sep isdir relpath basename ext_titles ext_modules,
    PySource.document_single_file_names prefix sep isdir relpath basename ext_titles ext_modules
    = header_and_module prefix sep ext_titles ext_modules (if isdir then relpath else basename).
Proof.
  intros prefix sep isdir relpath basename et em.
  unfold PySource.document_single_file_names, header_and_module, prefixed, py_re_sub_cmake_ext, py_str_eq.
  cbv zeta.
  destruct isdir; destruct prefix as [p|]; destruct et; destruct em; cbn [negb];
    try reflexivity;
    match goal with
    | |- context [str_eqb ?a ?b] => destruct (str_eqb a b); rewrite <- ?app_assoc; reflexivity
    end.
Qed.

Corollary single_file_names_in_tree :
  forall prefix sep relpath basename ext_titles ext_modules,
    PySource.document_single_file_names prefix sep true relpath basename ext_titles ext_modules
    = header_and_module prefix sep ext_titles ext_modules relpath.
Proof. intros. apply single_file_names_match_source. Qed.

Corollary single_file_names_outside_tree :
  forall prefix sep relpath basename ext_titles ext_modules,
    PySource.document_single_file_names prefix sep false relpath basename ext_titles ext_modules
    = header_and_module prefix sep ext_titles ext_modules basename.
Proof. intros. apply single_file_names_match_source. Qed.

(* ==== MAIN THEOREMS ====
   A. rstwriter.py
     get_indents_matches_source        interpreted_text_matches_source
     para_text_matches_source          field_text_matches_source
     doctest_text_matches_source       list_text_matches_source
     enumerated_list_matches_source    bulleted_list_matches_source
     list_string_never_raises          heading_text_matches_source
     format_arguments_matches_source   dir_heading_matches_source
     option_text_matches_source
   B. aggregator.py
     clean_doc_lines_matches_source    clean_doc_lines_matches_total
     clean_doc_text_matches_source
   C. documentation_types.py
     function_process_matches_source   macro_process_matches_source
     variable_process_matches_source   variable_process_raises_on_str
     option_process_matches_source     method_process_matches_source
     generic_process_matches_source    ctest_process_matches_source
     test_process_matches_source       section_process_matches_source
     attribute_process_matches_source  module_process_matches_source
     module_process_none
   D. aggregator.py, the alias-free process_* methods
     argument_text_matches_source      process_generic_matches_source
     process_set_matches_source        process_set_never_crashes
     process_option_matches_source     process_add_test_matches_source
     process_ct_add_test_matches_source  process_ct_add_section_matches_source
   E. enterDocumented_module, Documenter.process_docs, document_single_file
     module_entry_matches_source       process_docs_matches_source
     single_file_names_match_source    single_file_names_in_tree
     single_file_names_outside_tree *)
Print Assumptions get_indents_matches_source.
Print Assumptions interpreted_text_matches_source.
Print Assumptions para_text_matches_source.
Print Assumptions field_text_matches_source.
Print Assumptions doctest_text_matches_source.
Print Assumptions list_text_matches_source.
Print Assumptions enumerated_list_matches_source.
Print Assumptions bulleted_list_matches_source.
Print Assumptions list_string_never_raises.
Print Assumptions heading_text_matches_source.
Print Assumptions format_arguments_matches_source.
Print Assumptions dir_heading_matches_source.
Print Assumptions option_text_matches_source.
Print Assumptions clean_doc_lines_matches_source.
Print Assumptions clean_doc_lines_matches_total.
Print Assumptions clean_doc_text_matches_source.
Print Assumptions function_process_matches_source.
Print Assumptions macro_process_matches_source.
Print Assumptions variable_process_matches_source.
Print Assumptions variable_process_raises_on_str.
Print Assumptions option_process_matches_source.
Print Assumptions method_process_matches_source.
Print Assumptions generic_process_matches_source.
Print Assumptions ctest_process_matches_source.
Print Assumptions test_process_matches_source.
Print Assumptions section_process_matches_source.
Print Assumptions attribute_process_matches_source.
Print Assumptions module_process_matches_source.
Print Assumptions module_process_none.
Print Assumptions argument_text_matches_source.
Print Assumptions process_generic_matches_source.
Print Assumptions process_set_matches_source.
Print Assumptions process_set_never_crashes.
Print Assumptions process_option_matches_source.
Print Assumptions process_add_test_matches_source.
Print Assumptions process_ct_add_test_matches_source.
Print Assumptions process_ct_add_section_matches_source.
Print Assumptions module_entry_matches_source.
Print Assumptions process_docs_matches_source.
Print Assumptions single_file_names_match_source.
Print Assumptions single_file_names_in_tree.
Print Assumptions single_file_names_outside_tree.
