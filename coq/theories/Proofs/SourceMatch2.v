(* Proofs/SourceMatch2.v -- batch 4 of the source tie: the STATEFUL methods of DocumentationAggregator
   (aggregator.py) as regenerated from the current Python source by translators/py2coq.py into
   Gen/PySource.v, proved equal to the hand-written model Model/Aggregator.v for ALL inputs.

   Representation of the Python object graph (mechanical, see the header of Gen/PySource.v and the
   batch-4 part of Base/PySem.v):
     self.documented                      list entry                  = documented st
     self.definition_command_stack        list (option nat * bool)    = py_def_stack (def_stack st)
        a DefinitionCommand(documentation, should_document) record is the pair of its fields, the
        documentation object is its POSITION in self.documented; Python appends at the end, the
        model keeps the top first, hence rev; the model's frame Some i is DefinitionCommand(doc i, True)
        and None is DefinitionCommand(None, False)
     self.documented_classes_stack        list (option nat)           = py_class_stack (class_stack st)
     self.documented_awaiting_function_def   Aggregator.await         = awaiting st
     self.settings                        py_settings                 = settings_of fl trigger strip_fn strip_mac strip_mem
        (options looked up by name; re.sub(option, '', x) is the model's strip function)
   origins is a ghost field of the model; so are m_docd / a_docd inside class entries, which no Python
   object has: documented lists that contain methods / attributes are compared with same_docs
   (equality after setting these two ghost fields to false everywhere).

   When somebody edits one of these methods, the regenerated definition changes and the theorem below
   no longer compiles, or the translator stops, naming the AST node. *)
From Coq Require Import String List NArith ZArith Bool Arith Lia.
From CMinx Require Import Base.Str Base.PySem Model.Writer Model.DocTypes Model.Lexer Model.Parser Model.Aggregator Gen.PySource Proofs.SourceMatch.
Import ListNotations.

(* ---- spec ---- *)
(* a frame of the model's definition stack as the Python DefinitionCommand record *)
Definition py_def_frame (d : option nat) : option nat * bool :=
  match d with Some i => (Some i, true) | None => (None, false) end.
(* the model's stacks (top first) as the Python lists (top last) *)
Definition py_def_stack (ds : list (option nat)) : list (option nat * bool) := rev (map py_def_frame ds).
Definition py_class_stack (cs : list (option nat)) : list (option nat) := rev cs.
(* the model's parameters as the settings object, options by name *)
Definition settings_of (fl : flags) (trigger : str) (strip_fn strip_mac strip_mem : str -> str) : py_settings :=
  {| py_setting_str := fun k =>
       if str_eqb k (s"input.kwargs_doc_trigger_string") then trigger else [];
     py_setting_bool := fun k =>
       if str_eqb k (s"input.include_undocumented_function") then inc_function fl
       else if str_eqb k (s"input.include_undocumented_macro") then inc_macro fl
       else if str_eqb k (s"input.include_undocumented_cpp_class") then inc_cpp_class fl
       else if str_eqb k (s"input.include_undocumented_cpp_attr") then inc_cpp_attr fl
       else if str_eqb k (s"input.include_undocumented_cpp_constructor") then inc_cpp_constructor fl
       else if str_eqb k (s"input.include_undocumented_cpp_member") then inc_cpp_member fl
       else if str_eqb k (s"input.include_undocumented_ct_add_test") then inc_ct_add_test fl
       else if str_eqb k (s"input.include_undocumented_ct_add_section") then inc_ct_add_section fl
       else if str_eqb k (s"input.include_undocumented_add_test") then inc_add_test fl
       else if str_eqb k (s"input.include_undocumented_option") then inc_option fl
       else false;
     py_setting_re_sub := fun k =>
       if str_eqb k (s"input.function_parameter_name_strip_regex") then strip_fn
       else if str_eqb k (s"input.macro_parameter_name_strip_regex") then strip_mac
       else if str_eqb k (s"input.member_parameter_name_strip_regex") then strip_mem
       else fun x => x |}.
(* the outcome of a model step that may crash *)
Definition result_map {A B : Type} (f : A -> B) (r : result A) : option B :=
  match r with Ok a => Some (f a) | Crash => None end.
(* erasing the ghost fields inside class entries *)
Definition unghost_method (m : method) : method :=
  {| m_name := m_name m; m_doc := m_doc m; m_parent := m_parent m; m_types := m_types m;
     m_params := m_params m; m_ctor := m_ctor m; m_macro := m_macro m; m_docd := false |}.
Definition unghost_attr (a : attribute) : attribute :=
  {| a_name := a_name a; a_doc := a_doc a; a_parent := a_parent a; a_default := a_default a;
     a_docd := false |}.
Definition unghost (e : entry) : entry :=
  match e with
  | EClass n d su inner ct me at_ =>
      EClass n d su inner (map unghost_method ct) (map unghost_method me) (map unghost_attr at_)
  | _ => e
  end.
Definition same_docs (a b : list entry) : Prop := map unghost a = map unghost b.
(* the parts of the aggregator state a method leaves alone *)
Definition same_stacks (a b : agg) : Prop :=
  class_stack a = class_stack b /\ def_stack a = def_stack b /\ awaiting a = awaiting b.

(* ------------------------------------------------------------------ *)
(* generic facts                                                       *)

Lemma last_opt_rev_cons : forall (A : Type) (x : A) l, last_opt (rev (x :: l)) = Some x.
Proof. intros A x l. cbn [rev]. apply last_opt_snoc. Qed.

Lemma py_list_last_rev_cons : forall (A : Type) (d x : A) l, py_list_last d (rev (x :: l)) = x.
Proof. intros A d x l. unfold py_list_last. rewrite last_opt_rev_cons. reflexivity. Qed.

Lemma rev_cons_length_pos : forall (A : Type) (x : A) l, py_int_gt (py_len (rev (x :: l))) 0 = true.
Proof.
  intros A x l. unfold py_int_gt, py_len. rewrite rev_length. reflexivity.
Qed.

Lemma update_nth_ext_at : forall (A : Type) (d : A) (f g : A -> A) l n,
  f (nth n l d) = g (nth n l d) -> update_nth n f l = update_nth n g l.
Proof.
  intros A d f g l. induction l as [|x r IH]; intros n H.
  - destruct n; reflexivity.
  - destruct n as [|k]; cbn [update_nth nth] in *.
    + rewrite H. reflexivity.
    + rewrite (IH k H). reflexivity.
Qed.

Lemma update_nth_id_at : forall (A : Type) (d : A) (f : A -> A) l n,
  f (nth n l d) = nth n l d -> update_nth n f l = l.
Proof.
  intros A d f l. induction l as [|x r IH]; intros n H.
  - destruct n; reflexivity.
  - destruct n as [|k]; cbn [update_nth nth] in *.
    + rewrite H. reflexivity.
    + rewrite (IH k H). reflexivity.
Qed.

Lemma update_nth_ext : forall (A : Type) (f g : A -> A) l n,
  (forall x, f x = g x) -> update_nth n f l = update_nth n g l.
Proof.
  intros A f g l. induction l as [|x r IH]; intros n H.
  - destruct n; reflexivity.
  - destruct n as [|k]; cbn [update_nth].
    + rewrite H. reflexivity.
    + rewrite (IH k H). reflexivity.
Qed.

Lemma map_update_nth : forall (A B : Type) (h : A -> B) (f : A -> A) (g : B -> B) l n,
  (forall x, h (f x) = g (h x)) -> map h (update_nth n f l) = update_nth n g (map h l).
Proof.
  intros A B h f g l. induction l as [|x r IH]; intros n H.
  - destruct n; reflexivity.
  - destruct n as [|k]; cbn [update_nth map].
    + rewrite H. reflexivity.
    + rewrite (IH k H). reflexivity.
Qed.

(* ------------------------------------------------------------------ *)
(* 1. process_function / process_macro                                 *)

Definition def_view (st : agg) : list entry * list (option nat * bool) :=
  (documented st, py_def_stack (def_stack st)).

Lemma process_def_as_source :
  forall (is_macro : bool) trigger strip_fn strip_mac (strip : str -> str) c doc docd st,
    strip = (if is_macro then strip_mac else strip_fn) ->
    result_map def_view (process_def trigger strip_fn strip_mac is_macro c doc docd st)
    = (let def_params := py_listcomp (fun param => param) (py_single_arguments c) in
       if py_int_lt (py_len def_params) 1 then None
       else
         let params := py_listcomp (fun p => strip (py_get_text p)) (py_slice_from def_params 1) in
         let name := py_get_text (py_list_index py_no_arg def_params 0) in
         let kw := py_in_str trigger doc in
         let e := EFunction is_macro name doc params kw in
         let idx := py_len (documented st) in
         Some (py_append (documented st) e, py_append (py_def_stack (def_stack st)) (Some idx, true))).
Proof.
  intros is_macro trigger strip_fn strip_mac strip c doc docd st Hs.
  unfold process_def. rewrite singles_as_texts. cbv zeta.
  unfold py_listcomp. rewrite map_id.
  destruct (py_single_arguments c) as [|a0 r].
  - reflexivity.
  - cbn [map py_len length py_int_lt Nat.ltb Nat.leb result_map].
    unfold def_view, append, with_def_stack. cbn [documented def_stack].
    unfold py_def_stack, py_append, py_slice_from, py_list_index, py_in_str, py_len.
    cbn [map rev skipn nth py_def_frame]. rewrite map_map. subst strip. reflexivity.
Qed.

(* DocumentationAggregator.process_function(ctx, docstring): same raise / no-raise outcome, and the
   same documented list and definition stack *)
Theorem process_function_matches_source :
  forall fl trigger strip_fn strip_mac strip_mem c doc docd st,
    result_map def_view (process_def trigger strip_fn strip_mac false c doc docd st)
    = PySource.DocumentationAggregator_process_function c doc
        (settings_of fl trigger strip_fn strip_mac strip_mem)
        (documented st) (py_def_stack (def_stack st)).
Proof.
  intros fl trigger strip_fn strip_mac strip_mem c doc docd st.
  rewrite (process_def_as_source false trigger strip_fn strip_mac strip_fn c doc docd st eq_refl).
  reflexivity.
Qed.

(* DocumentationAggregator.process_macro(ctx, docstring) *)
Theorem process_macro_matches_source :
  forall fl trigger strip_fn strip_mac strip_mem c doc docd st,
    result_map def_view (process_def trigger strip_fn strip_mac true c doc docd st)
    = PySource.DocumentationAggregator_process_macro c doc
        (settings_of fl trigger strip_fn strip_mac strip_mem)
        (documented st) (py_def_stack (def_stack st)).
Proof.
  intros fl trigger strip_fn strip_mac strip_mem c doc docd st.
  rewrite (process_def_as_source true trigger strip_fn strip_mac strip_mac c doc docd st eq_refl).
  reflexivity.
Qed.

(* the fields these two methods do not assign are unchanged in the model, the ghost origin is noted *)
Theorem process_def_frame :
  forall trigger strip_fn strip_mac is_macro c doc docd st st',
    process_def trigger strip_fn strip_mac is_macro c doc docd st = Ok st' ->
    class_stack st' = class_stack st /\ awaiting st' = awaiting st
    /\ origins st' = origins st ++ [docd].
Proof.
  intros trigger strip_fn strip_mac is_macro c doc docd st st' H. unfold process_def in H.
  destruct (singles c) as [|name ps]; [discriminate H|].
  injection H as H. subst st'. repeat split.
Qed.

(* ------------------------------------------------------------------ *)
(* 2. process_cmake_parse_arguments                                    *)

Lemma set_kwargs_as_source : forall e,
  set_kwargs e = (if py_is_command_definition_entry e then py_entry_set_has_kwargs true e else e).
Proof. intros e. destruct e; reflexivity. Qed.

(* DocumentationAggregator.process_cmake_parse_arguments(ctx, docstring): the documented list (the
   FunctionDocumentation object on top of the definition stack is mutated through the stack) *)
Theorem process_cmake_parse_arguments_matches_source :
  forall c doc st,
    documented (process_cpa st)
    = PySource.DocumentationAggregator_process_cmake_parse_arguments c doc
        (documented st) (py_def_stack (def_stack st)).
Proof.
  intros c doc st. unfold process_cpa, PySource.DocumentationAggregator_process_cmake_parse_arguments.
  destruct (def_stack st) as [|[idx|] ds].
  - reflexivity.
  - unfold py_def_stack. cbn [map]. rewrite rev_cons_length_pos, py_list_last_rev_cons.
    cbn [py_def_frame fst snd andb py_optref_test py_optref_update with_docs documented].
    unfold py_deref.
    destruct (py_is_command_definition_entry (nth idx (documented st) py_no_entry)) eqn:E.
    + apply (update_nth_ext_at _ py_no_entry). rewrite set_kwargs_as_source, E. reflexivity.
    + apply (update_nth_id_at _ py_no_entry). rewrite set_kwargs_as_source, E. reflexivity.
  - unfold py_def_stack. cbn [map]. rewrite rev_cons_length_pos, py_list_last_rev_cons.
    reflexivity.
Qed.

Theorem process_cpa_frame :
  forall st, same_stacks (process_cpa st) st /\ origins (process_cpa st) = origins st.
Proof.
  intros st. unfold process_cpa, same_stacks.
  destruct (def_stack st) as [|[idx|] ds] eqn:E; cbn; rewrite ?E; repeat split.
Qed.

(* ---- examples ---- *)
Definition ex_settings : py_settings :=
  settings_of default_flags (s":param **kwargs:") (fun x => x) (fun x => x) (fun x => x).
Definition ex_cmd (name : str) (args : list str) : cmd :=
  {| c_name := name; c_args := map (fun a => ASingle TIdent a) args |}.

Example process_function_example :
  PySource.DocumentationAggregator_process_function
    (ex_cmd (s"function") [s"say"; s"a"; s"b"]) (s"Says it.") ex_settings
    [EModule (s"m") []] [(None, false)]
  = Some ([EModule (s"m") []; EFunction false (s"say") (s"Says it.") [s"a"; s"b"] false],
          [(None, false); (Some 1, true)]).
Proof. vm_compute. reflexivity. Qed.

Example process_function_example_raise :
  PySource.DocumentationAggregator_process_function
    (ex_cmd (s"function") []) (s"Says it.") ex_settings [] [] = None
  /\ process_def (s":param **kwargs:") (fun x => x) (fun x => x) false (ex_cmd (s"function") []) (s"Says it.")
       true agg_init = Crash.
Proof. split; vm_compute; reflexivity. Qed.

Example process_macro_example :
  PySource.DocumentationAggregator_process_macro
    (ex_cmd (s"macro") [s"m"; s"x"]) (s"Doc :param **kwargs: more") ex_settings [] []
  = Some ([EFunction true (s"m") (s"Doc :param **kwargs: more") [s"x"] true], [(Some 0, true)]).
Proof. vm_compute. reflexivity. Qed.

Example process_cmake_parse_arguments_example :
  PySource.DocumentationAggregator_process_cmake_parse_arguments
    (ex_cmd (s"cmake_parse_arguments") [s"P"]) []
    [EFunction false (s"f") [] [] false; EFunction true (s"g") [] [s"x"] false]
    [(Some 0, true); (Some 1, true)]
  = [EFunction false (s"f") [] [] false; EFunction true (s"g") [] [s"x"] true].
Proof. vm_compute. reflexivity. Qed.

(* inside an undocumented definition (frame (None, False)) nothing changes *)
Example process_cmake_parse_arguments_example_undocumented :
  PySource.DocumentationAggregator_process_cmake_parse_arguments
    (ex_cmd (s"cmake_parse_arguments") [s"P"]) []
    [EFunction false (s"f") [] [] false] [(Some 0, true); (None, false)]
  = [EFunction false (s"f") [] [] false].
Proof. vm_compute. reflexivity. Qed.

(* ------------------------------------------------------------------ *)
(* 3. process_cpp_class / process_cpp_attr / process_cpp_member / process_cpp_constructor *)

Lemma map_update_nth_same : forall (A B : Type) (h : A -> B) (f g : A -> A) l n,
  (forall x, h (f x) = h (g x)) -> map h (update_nth n f l) = map h (update_nth n g l).
Proof.
  intros A B h f g l. induction l as [|x r IH]; intros n H.
  - destruct n; reflexivity.
  - destruct n as [|k]; cbn [update_nth map].
    + rewrite H. reflexivity.
    + rewrite (IH k H). reflexivity.
Qed.

Lemma singles_length : forall c, length (singles c) = py_len (py_single_arguments c).
Proof. intros c. rewrite singles_as_texts. apply map_length. Qed.

Lemma skipn_as_source : forall (ps : list str),
  skipn 2 ps = (if py_int_gt (py_len ps) 2 then py_slice_from ps 2 else []).
Proof. intros ps. destruct ps as [|a [|b [|c0 r]]]; reflexivity. Qed.

Lemma nth_error_as_source : forall (ps : list str),
  nth_error ps 2 = (if py_int_gt (py_len ps) 2 then Some (py_list_index ([] : str) ps 2) else None).
Proof. intros ps. destruct ps as [|a [|b [|c0 r]]]; reflexivity. Qed.

(* DocumentationAggregator.process_cpp_class(ctx, docstring): the documented list (the new class is also
   registered as inner class of the class on top of the stack, through the stack) and the class stack *)
Theorem process_cpp_class_matches_source :
  forall c doc docd st,
    (documented (process_class c doc docd st), py_class_stack (class_stack (process_class c doc docd st)))
    = PySource.DocumentationAggregator_process_cpp_class c doc
        (documented st) (py_class_stack (class_stack st)).
Proof.
  intros c doc docd st. unfold process_class, PySource.DocumentationAggregator_process_cpp_class.
  rewrite singles_as_texts. unfold py_listcomp.
  destruct (py_single_arguments c) as [|a0 r].
  - reflexivity.
  - cbn [map py_len length py_int_lt Nat.ltb Nat.leb py_list_index nth py_slice_from skipn]. cbv zeta.
    destruct (class_stack st) as [|[cidx|] cs] eqn:Ecs.
    + cbn [append with_class_stack with_docs documented class_stack]. rewrite Ecs. reflexivity.
    + unfold py_class_stack at 2 3 4. rewrite rev_cons_length_pos, py_list_last_rev_cons.
      cbn [py_is_not_none py_is_none negb andb py_optref_update].
      cbn [append with_class_stack with_docs documented class_stack]. rewrite Ecs.
      reflexivity.
    + unfold py_class_stack at 2 3 4. rewrite rev_cons_length_pos, py_list_last_rev_cons.
      cbn [py_is_not_none py_is_none negb andb].
      cbn [append with_class_stack with_docs documented class_stack]. rewrite Ecs. reflexivity.
Qed.

Theorem process_class_frame :
  forall c doc docd st,
    def_stack (process_class c doc docd st) = def_stack st
    /\ awaiting (process_class c doc docd st) = awaiting st.
Proof.
  intros c doc docd st. unfold process_class. destruct (singles c) as [|name supers].
  - split; reflexivity.
  - destruct (class_stack st) as [|[cidx|] cs]; split; reflexivity.
Qed.

(* DocumentationAggregator.process_cpp_attr(ctx, docstring): the class on top of the class stack gets the
   attribute (up to the ghost field a_docd) *)
Theorem process_cpp_attr_matches_source :
  forall c doc docd st,
    same_docs (documented (process_attr c doc docd st))
      (PySource.DocumentationAggregator_process_cpp_attr c doc
         (documented st) (py_class_stack (class_stack st))).
Proof.
  intros c doc docd st. unfold same_docs, process_attr, PySource.DocumentationAggregator_process_cpp_attr.
  rewrite singles_length. unfold py_int_lt.
  destruct (Nat.ltb (py_len (py_single_arguments c)) 2) eqn:El; [reflexivity|].
  cbv zeta. rewrite singles_as_texts. unfold py_listcomp.
  destruct (class_stack st) as [|[cidx|] cs] eqn:Ecs.
  - reflexivity.
  - unfold py_class_stack.
    assert (Hle : py_int_le (py_len (rev (Some cidx :: cs))) 0 = false).
    { unfold py_int_le, py_len. rewrite rev_length. reflexivity. }
    rewrite Hle, py_list_last_rev_cons. cbn [with_docs documented]. unfold py_ref_update.
    apply map_update_nth_same. intros e. rewrite nth_error_as_source.
    destruct e; try reflexivity. cbn [add_attr py_entry_add_attribute unghost].
    rewrite !map_app. reflexivity.
  - unfold py_class_stack.
    assert (Hle : py_int_le (py_len (rev (@None nat :: cs))) 0 = false).
    { unfold py_int_le, py_len. rewrite rev_length. reflexivity. }
    rewrite Hle, py_list_last_rev_cons. reflexivity.
Qed.

Theorem process_attr_frame :
  forall c doc docd st, same_stacks (process_attr c doc docd st) st.
Proof.
  intros c doc docd st. unfold process_attr, same_stacks.
  destruct (Nat.ltb (length (singles c)) 2); [repeat split|].
  destruct (class_stack st) as [|[cidx|] cs] eqn:E; cbn; rewrite ?E; repeat split.
Qed.

(* DocumentationAggregator.process_cpp_member(ctx, docstring, is_constructor): the class on top of the
   class stack gets the method (up to the ghost field m_docd), and the awaiting slot refers to it *)
Theorem process_cpp_member_matches_source :
  forall is_ctor c doc docd st,
    same_docs (documented (process_member is_ctor c doc docd st))
      (fst (PySource.DocumentationAggregator_process_cpp_member c doc is_ctor
              (documented st) (py_class_stack (class_stack st)) (awaiting st)))
    /\ awaiting (process_member is_ctor c doc docd st)
       = snd (PySource.DocumentationAggregator_process_cpp_member c doc is_ctor
                (documented st) (py_class_stack (class_stack st)) (awaiting st)).
Proof.
  intros is_ctor c doc docd st.
  unfold same_docs, process_member, PySource.DocumentationAggregator_process_cpp_member.
  rewrite singles_length. unfold py_int_lt.
  destruct (Nat.ltb (py_len (py_single_arguments c)) 2) eqn:El; [split; reflexivity|].
  cbv zeta. rewrite singles_as_texts. unfold py_listcomp.
  destruct (class_stack st) as [|[cidx|] cs] eqn:Ecs.
  - split; reflexivity.
  - unfold py_class_stack.
    assert (Hle : py_int_le (py_len (rev (Some cidx :: cs))) 0 = false).
    { unfold py_int_le, py_len. rewrite rev_length. reflexivity. }
    rewrite Hle, py_list_last_rev_cons. cbn [with_docs with_awaiting documented awaiting].
    unfold py_ref_update. rewrite <- skipn_as_source.
    destruct is_ctor; cbn [fst snd]; (split; [|reflexivity]);
      apply map_update_nth_same; intros e; destruct e; try reflexivity;
      cbn [add_method py_entry_add_constructor py_entry_add_member unghost];
      rewrite !map_app; reflexivity.
  - unfold py_class_stack.
    assert (Hle : py_int_le (py_len (rev (@None nat :: cs))) 0 = false).
    { unfold py_int_le, py_len. rewrite rev_length. reflexivity. }
    rewrite Hle, py_list_last_rev_cons. split; reflexivity.
Qed.

(* ... exactly (no erasure) for a declaration without doccomment *)
Theorem process_cpp_member_matches_source_undocumented :
  forall is_ctor c doc st,
    (documented (process_member is_ctor c doc false st), awaiting (process_member is_ctor c doc false st))
    = PySource.DocumentationAggregator_process_cpp_member c doc is_ctor
        (documented st) (py_class_stack (class_stack st)) (awaiting st).
Proof.
  intros is_ctor c doc st.
  unfold process_member, PySource.DocumentationAggregator_process_cpp_member.
  rewrite singles_length. unfold py_int_lt.
  destruct (Nat.ltb (py_len (py_single_arguments c)) 2) eqn:El; [reflexivity|].
  cbv zeta. rewrite singles_as_texts. unfold py_listcomp.
  destruct (class_stack st) as [|[cidx|] cs] eqn:Ecs.
  - reflexivity.
  - unfold py_class_stack.
    assert (Hle : py_int_le (py_len (rev (Some cidx :: cs))) 0 = false).
    { unfold py_int_le, py_len. rewrite rev_length. reflexivity. }
    rewrite Hle, py_list_last_rev_cons. cbn [with_docs with_awaiting documented awaiting].
    unfold py_ref_update. rewrite <- skipn_as_source.
    destruct is_ctor; (f_equal; apply update_nth_ext; intros e; destruct e; reflexivity).
  - unfold py_class_stack.
    assert (Hle : py_int_le (py_len (rev (@None nat :: cs))) 0 = false).
    { unfold py_int_le, py_len. rewrite rev_length. reflexivity. }
    rewrite Hle, py_list_last_rev_cons. reflexivity.
Qed.

(* DocumentationAggregator.process_cpp_constructor(ctx, docstring): the call of process_cpp_member with
   is_constructor=True *)
Theorem process_cpp_constructor_matches_source :
  forall c doc docd st,
    same_docs (documented (process_member true c doc docd st))
      (fst (PySource.DocumentationAggregator_process_cpp_constructor c doc
              (documented st) (py_class_stack (class_stack st)) (awaiting st)))
    /\ awaiting (process_member true c doc docd st)
       = snd (PySource.DocumentationAggregator_process_cpp_constructor c doc
                (documented st) (py_class_stack (class_stack st)) (awaiting st)).
Proof.
  intros c doc docd st. unfold PySource.DocumentationAggregator_process_cpp_constructor.
  pose proof (process_cpp_member_matches_source true c doc docd st) as H.
  destruct (PySource.DocumentationAggregator_process_cpp_member c doc true (documented st)
              (py_class_stack (class_stack st)) (awaiting st)) as [d a].
  exact H.
Qed.

Theorem process_member_frame :
  forall is_ctor c doc docd st,
    class_stack (process_member is_ctor c doc docd st) = class_stack st
    /\ def_stack (process_member is_ctor c doc docd st) = def_stack st.
Proof.
  intros is_ctor c doc docd st. unfold process_member.
  destruct (Nat.ltb (length (singles c)) 2); [split; reflexivity|].
  destruct (class_stack st) as [|[cidx|] cs] eqn:E; cbn; rewrite ?E; split; reflexivity.
Qed.

(* ---- examples ---- *)
Definition ex_class : entry := EClass (s"Outer") (s"doc") [] [] [] [] [].

Example process_cpp_class_example :
  PySource.DocumentationAggregator_process_cpp_class
    (ex_cmd (s"cpp_class") [s"Inner"; s"Base"]) (s"An inner class.") [EModule (s"m") []; ex_class] [Some 1]
  = ([EModule (s"m") []; EClass (s"Outer") (s"doc") [] [s"Inner"] [] [] [];
      EClass (s"Inner") (s"An inner class.") [s"Base"] [] [] [] []],
     [Some 1; Some 2]).
Proof. vm_compute. reflexivity. Qed.

Example process_cpp_attr_example :
  PySource.DocumentationAggregator_process_cpp_attr
    (ex_cmd (s"cpp_attr") [s"Outer"; s"color"; s"red"]) (s"The color.") [ex_class] [None; Some 0]
  = [EClass (s"Outer") (s"doc") [] [] [] []
       [{| a_name := s"color"; a_doc := s"The color."; a_parent := s"Outer"; a_default := Some (s"red");
           a_docd := false |}]].
Proof. vm_compute. reflexivity. Qed.

Example process_cpp_member_example :
  PySource.DocumentationAggregator_process_cpp_member
    (ex_cmd (s"cpp_member") [s"run"; s"Outer"; s"int"; s"str"]) (s"Runs.") false
    [EModule (s"m") []; ex_class] [Some 1] AwNone
  = ([EModule (s"m") [];
      EClass (s"Outer") (s"doc") [] [] []
        [{| m_name := s"run"; m_doc := s"Runs."; m_parent := s"Outer"; m_types := [s"int"; s"str"];
            m_params := []; m_ctor := false; m_macro := false; m_docd := false |}] []],
     AwMethod 1 false).
Proof. vm_compute. reflexivity. Qed.

(* a member of an undocumented class (None on the class stack) is dropped *)
Example process_cpp_member_example_undocumented_class :
  PySource.DocumentationAggregator_process_cpp_member
    (ex_cmd (s"cpp_member") [s"run"; s"Outer"]) (s"Runs.") false [ex_class] [Some 0; None] (AwTop 7)
  = ([ex_class], AwTop 7).
Proof. vm_compute. reflexivity. Qed.

Example process_cpp_constructor_example :
  PySource.DocumentationAggregator_process_cpp_constructor
    (ex_cmd (s"cpp_constructor") [s"CTOR"; s"Outer"]) (s"Makes one.") [ex_class] [Some 0] AwNone
  = ([EClass (s"Outer") (s"doc") [] []
        [{| m_name := s"CTOR"; m_doc := s"Makes one."; m_parent := s"Outer"; m_types := [];
            m_params := []; m_ctor := true; m_macro := false; m_docd := false |}] [] []],
     AwMethod 0 true).
Proof. vm_compute. reflexivity. Qed.

(* ... and process_cpp_attr exactly, for a declaration without doccomment *)
Theorem process_cpp_attr_matches_source_undocumented :
  forall c doc st,
    documented (process_attr c doc false st)
    = PySource.DocumentationAggregator_process_cpp_attr c doc
        (documented st) (py_class_stack (class_stack st)).
Proof.
  intros c doc st. unfold process_attr, PySource.DocumentationAggregator_process_cpp_attr.
  rewrite singles_length. unfold py_int_lt.
  destruct (Nat.ltb (py_len (py_single_arguments c)) 2) eqn:El; [reflexivity|].
  cbv zeta. rewrite singles_as_texts. unfold py_listcomp.
  destruct (class_stack st) as [|[cidx|] cs] eqn:Ecs.
  - reflexivity.
  - unfold py_class_stack.
    assert (Hle : py_int_le (py_len (rev (Some cidx :: cs))) 0 = false).
    { unfold py_int_le, py_len. rewrite rev_length. reflexivity. }
    rewrite Hle, py_list_last_rev_cons. cbn [with_docs documented]. unfold py_ref_update.
    apply update_nth_ext. intros e. rewrite nth_error_as_source. destruct e; reflexivity.
  - unfold py_class_stack.
    assert (Hle : py_int_le (py_len (rev (@None nat :: cs))) 0 = false).
    { unfold py_int_le, py_len. rewrite rev_length. reflexivity. }
    rewrite Hle, py_list_last_rev_cons. reflexivity.
Qed.

(* ------------------------------------------------------------------ *)
(* 4. enterCommand_invocation                                          *)

(* the four mutable fields of the aggregator, as the Python values *)
Definition full_view (st : agg)
  : list (option nat) * list entry * await * list (option nat * bool) :=
  (py_class_stack (class_stack st), documented st, awaiting st, py_def_stack (def_stack st)).

Lemma drop_last_snoc : forall (A : Type) (l : list A) x, drop_last (l ++ [x]) = l.
Proof.
  intros A l x. induction l as [|a r IH].
  - reflexivity.
  - cbn [app drop_last]. destruct (r ++ [x]) eqn:E.
    + destruct r; discriminate E.
    + rewrite IH. reflexivity.
Qed.

Lemma py_pop_rev_cons : forall (A : Type) (x : A) l, py_pop (rev (x :: l)) = Some (rev l).
Proof.
  intros A x l. cbn [rev]. unfold py_pop. destruct (rev l ++ [x]) eqn:E.
  - destruct (rev l); discriminate E.
  - rewrite <- E. rewrite drop_last_snoc. reflexivity.
Qed.

Lemma update_nth_compose : forall (A : Type) (f g : A -> A) l n,
  update_nth n g (update_nth n f l) = update_nth n (fun x => g (f x)) l.
Proof.
  intros A f g l. induction l as [|x r IH]; intros n.
  - destruct n; reflexivity.
  - destruct n as [|k]; cbn [update_nth].
    + reflexivity.
    + rewrite IH. reflexivity.
Qed.

Lemma update_last_compose : forall (A : Type) (f g : A -> A) l,
  update_last g (update_last f l) = update_last (fun x => g (f x)) l.
Proof.
  intros A f g l. destruct l as [|a r] using rev_ind.
  - reflexivity.
  - rewrite !update_last_snoc. reflexivity.
Qed.

Lemma update_last_ext : forall (A : Type) (f g : A -> A) l,
  (forall x, f x = g x) -> update_last f l = update_last g l.
Proof.
  intros A f g l H. destruct l as [|a r] using rev_ind.
  - reflexivity.
  - rewrite !update_last_snoc, H. reflexivity.
Qed.

Lemma update_nth_same : forall (A : Type) (f : A -> A) l n,
  (forall x, f x = x) -> update_nth n f l = l.
Proof.
  intros A f l. induction l as [|x r IH]; intros n H.
  - destruct n; reflexivity.
  - destruct n as [|k]; cbn [update_nth].
    + rewrite H. reflexivity.
    + rewrite IH by exact H. reflexivity.
Qed.

Lemma update_last_same : forall (A : Type) (f : A -> A) l,
  (forall x, f x = x) -> update_last f l = l.
Proof.
  intros A f l H. destruct l as [|a r] using rev_ind.
  - reflexivity.
  - rewrite update_last_snoc, H. reflexivity.
Qed.

(* the model's one-step update of the awaiting object is the two Python statements *)
Lemma upd_awaiting_as_source : forall aw m extra docs,
  upd_awaiting_entry aw m extra docs
  = py_await_update
      (py_await_update docs aw (py_entry_set_is_macro m) (py_method_set_is_macro m))
      aw (py_entry_extend_params extra) (py_method_extend_params extra).
Proof.
  intros aw m extra docs. destruct aw as [|idx|cidx is_ctor]; cbn [upd_awaiting_entry py_await_update].
  - reflexivity.
  - rewrite update_nth_compose. apply update_nth_ext. intros e. destruct e; reflexivity.
  - rewrite update_nth_compose. apply update_nth_ext. intros e. destruct e; try reflexivity.
    destruct is_ctor; rewrite update_last_compose; f_equal; apply update_last_ext; intros x;
      reflexivity.
Qed.

Lemma await_extend_nil : forall docs aw,
  py_await_update docs aw (py_entry_extend_params []) (py_method_extend_params []) = docs.
Proof.
  intros docs aw. destruct aw as [|idx|cidx is_ctor]; cbn [py_await_update].
  - reflexivity.
  - apply update_nth_same. intros e. destruct e; try reflexivity. cbn. rewrite app_nil_r. reflexivity.
  - apply update_nth_same. intros e. destruct e; try reflexivity.
    destruct is_ctor; f_equal; apply update_last_same; intros x; destruct x; cbn;
      unfold py_method_extend_params; cbn; rewrite app_nil_r; reflexivity.
Qed.

(* ---- what every processor leaves alone, in the full view ---- *)
Section Handlers.
  Variable trigger : str.
  Variables strip_fn strip_mac : str -> str.

  Lemma handler_def_view : forall is_macro c doc docd st,
    result_map full_view (process_def trigger strip_fn strip_mac is_macro c doc docd st)
    = match result_map def_view (process_def trigger strip_fn strip_mac is_macro c doc docd st) with
      | None => None
      | Some (d, ds) => Some (py_class_stack (class_stack st), d, awaiting st, ds)
      end.
  Proof.
    intros is_macro c doc docd st. unfold process_def. destruct (singles c) as [|name ps]; reflexivity.
  Qed.

  Lemma handler_test_view : forall sec c doc docd st,
    full_view (process_test sec c doc docd st)
    = (py_class_stack (class_stack st), documented (process_test sec c doc docd st),
       awaiting (process_test sec c doc docd st), py_def_stack (def_stack st)).
  Proof.
    intros sec c doc docd st. unfold process_test, full_view.
    destruct (length (singles c) <? 2); [reflexivity|].
    destruct (scan_name (singles c) []); reflexivity.
  Qed.

  Lemma handler_class_view : forall c doc docd st,
    full_view (process_class c doc docd st)
    = (py_class_stack (class_stack (process_class c doc docd st)),
       documented (process_class c doc docd st), awaiting st, py_def_stack (def_stack st)).
  Proof.
    intros c doc docd st. unfold full_view.
    destruct (process_class_frame c doc docd st) as [Hd Ha]. rewrite Hd, Ha. reflexivity.
  Qed.

  Lemma handler_member_view : forall is_ctor c doc docd st,
    full_view (process_member is_ctor c doc docd st)
    = (py_class_stack (class_stack st), documented (process_member is_ctor c doc docd st),
       awaiting (process_member is_ctor c doc docd st), py_def_stack (def_stack st)).
  Proof.
    intros is_ctor c doc docd st. unfold full_view.
    destruct (process_member_frame is_ctor c doc docd st) as [Hc Hd]. rewrite Hc, Hd. reflexivity.
  Qed.

  Lemma handler_attr_view : forall c doc docd st,
    full_view (process_attr c doc docd st)
    = (py_class_stack (class_stack st), documented (process_attr c doc docd st),
       awaiting st, py_def_stack (def_stack st)).
  Proof.
    intros c doc docd st. unfold full_view.
    destruct (process_attr_frame c doc docd st) as [Hc [Hd Ha]]. rewrite Hc, Hd, Ha. reflexivity.
  Qed.

  Lemma handler_add_test_view : forall c doc docd st,
    full_view (process_add_test c doc docd st)
    = (py_class_stack (class_stack st), documented (process_add_test c doc docd st),
       awaiting st, py_def_stack (def_stack st)).
  Proof.
    intros c doc docd st. unfold process_add_test, full_view.
    destruct (length (singles c) <? 2); [reflexivity|].
    destruct (scan_name_idx (singles c) 0 (None, [])) as [[idx name]|]; reflexivity.
  Qed.

  Lemma handler_option_view : forall c doc docd st,
    full_view (process_option c doc docd st)
    = (py_class_stack (class_stack st), documented (process_option c doc docd st),
       awaiting st, py_def_stack (def_stack st)).
  Proof.
    intros c doc docd st. unfold process_option, full_view.
    destruct (singles c) as [|a [|b [|d [|e r]]]]; reflexivity.
  Qed.
End Handlers.

Ltac eval_closed :=
  repeat match goal with
         | |- context [str_eqb ?a ?b] =>
             let v := eval vm_compute in (str_eqb a b) in
             match v with
             | true => change (str_eqb a b) with true
             | false => change (str_eqb a b) with false
             end
         end.

Lemma dir_names_as_table : forall command,
  py_in_list (s"process_" ++ command)
    [s"process_function"; s"process_macro"; s"process_cmake_parse_arguments"; s"process_ct_add_test";
     s"process_ct_add_section"; s"process_set"; s"process_cpp_class"; s"process_cpp_member";
     s"process_cpp_constructor"; s"process_cpp_attr"; s"process_add_test"; s"process_option";
     s"process_generic_command"]
  = mem_str command
      [s"function"; s"macro"; s"cmake_parse_arguments"; s"ct_add_test"; s"ct_add_section"; s"set";
       s"cpp_class"; s"cpp_member"; s"cpp_constructor"; s"cpp_attr"; s"add_test"; s"option";
       s"generic_command"].
Proof. intros command. reflexivity. Qed.

Lemma await_branch_as_source : forall aw m (P : list str) docs,
  upd_awaiting_entry aw m (if 2 <? length P then skipn 2 P else []) docs
  = (if py_int_gt (py_len P) 2
     then py_await_update (py_await_update docs aw (py_entry_set_is_macro m) (py_method_set_is_macro m))
            aw (py_entry_extend_params (py_slice_from P 2)) (py_method_extend_params (py_slice_from P 2))
     else py_await_update docs aw (py_entry_set_is_macro m) (py_method_set_is_macro m)).
Proof.
  intros aw m P docs. unfold py_int_gt, py_len, py_slice_from. rewrite upd_awaiting_as_source.
  destruct (2 <? length P); [reflexivity|]. apply await_extend_nil.
Qed.

Ltac crunch :=
  unfold handler_table, py_setting_dict_bool;
  cbn [lookup mem_str py_setting_bool settings_of include_flag];
  eval_closed; cbv beta iota; cbn [orb andb negb include_flag run_handler result_map].

Theorem enterCommand_invocation_matches_source :
  forall fl trigger strip_fn strip_mac strip_mem consumed c st,
    result_map full_view (enter_command fl trigger strip_fn strip_mac strip_mem consumed c st)
    = PySource.DocumentationAggregator_enterCommand_invocation c consumed
        (settings_of fl trigger strip_fn strip_mac strip_mem)
        (documented st) (py_class_stack (class_stack st)) (awaiting st) (py_def_stack (def_stack st)).
Proof.
  intros fl trigger strip_fn strip_mac strip_mem consumed c st.
  unfold enter_command, PySource.DocumentationAggregator_enterCommand_invocation.
  unfold py_lower_ascii, py_cmd_identifier. cbv zeta.
  rewrite dir_names_as_table.
  generalize (lower_ascii (c_name c)). intros command.
  unfold py_str_eq, py_str_ne, is_def_name.
  change (py_setting_bool (settings_of fl trigger strip_fn strip_mac strip_mem)
            (s"input.include_undocumented_cpp_class")) with (inc_cpp_class fl).
  destruct (str_eqb command (s"cpp_class") && negb (inc_cpp_class fl)) eqn:E1.
  { reflexivity. }
  destruct (str_eqb command (s"cpp_end_class")) eqn:E2.
  { destruct (class_stack st) as [|x cs] eqn:Ecs.
    - reflexivity.
    - unfold py_class_stack. rewrite py_pop_rev_cons. reflexivity. }
  destruct (str_eqb command (s"cmake_parse_arguments")) eqn:E3.
  { cbn [result_map]. rewrite <- process_cmake_parse_arguments_matches_source. unfold full_view.
    destruct (process_cpa_frame st) as [[Hc [Hd Ha]] _]. rewrite Hc, Hd, Ha. reflexivity. }
  assert (Hnn : match awaiting st with AwNone => false | _ => true end
                = py_await_is_not_none (awaiting st)) by (destruct (awaiting st); reflexivity).
  rewrite Hnn. clear Hnn.
  destruct ((str_eqb command (s"function") || str_eqb command (s"macro"))
            && py_await_is_not_none (awaiting st)) eqn:E4.
  { rewrite singles_as_texts. unfold py_listcomp.
    change (py_setting_re_sub (settings_of fl trigger strip_fn strip_mac strip_mem)
              (s"input.member_parameter_name_strip_regex")) with strip_mem.
    assert (HP : match awaiting st with
                 | AwMethod _ _ => map strip_mem (map py_get_text (py_single_arguments c))
                 | _ => map py_get_text (py_single_arguments c)
                 end
                 = (if py_await_is_method (awaiting st)
                    then map (fun p => strip_mem (py_get_text p)) (py_single_arguments c)
                    else map py_get_text (py_single_arguments c))).
    { destruct (awaiting st); cbn [py_await_is_method]; rewrite ?map_map; reflexivity. }
    rewrite HP. clear HP.
    set (P := if py_await_is_method (awaiting st)
              then map (fun p => strip_mem (py_get_text p)) (py_single_arguments c)
              else map py_get_text (py_single_arguments c)).
    destruct consumed; cbn [result_map]; unfold full_view, with_def_stack, with_awaiting, with_docs;
      cbn [documented class_stack def_stack awaiting]; rewrite await_branch_as_source; reflexivity. }
  destruct (str_eqb command (s"endfunction") || str_eqb command (s"endmacro")) eqn:E5.
  { destruct (def_stack st) as [|x ds] eqn:Eds.
    - reflexivity.
    - unfold py_def_stack. cbn [map]. rewrite py_pop_rev_cons. reflexivity. }
  destruct consumed.
  { cbn [negb]. rewrite !andb_false_r. reflexivity. }
  cbn [negb]. rewrite !andb_true_r.
  destruct (str_eqb command (s"set")) eqn:Eset.
  { reflexivity. }
  destruct (str_eqb command (s"generic_command")) eqn:Egen.
  { apply str_eqb_true in Egen. subst command. crunch. reflexivity. }
  cbn [negb andb].
  destruct (str_eqb command (s"function")) eqn:Hfunction.
  { apply str_eqb_true in Hfunction. subst command. crunch.
    destruct (inc_function fl); cbn [result_map]; [|reflexivity].
    rewrite handler_def_view, (process_function_matches_source fl trigger strip_fn strip_mac strip_mem).
    reflexivity. }
  destruct (str_eqb command (s"macro")) eqn:Hmacro.
  { apply str_eqb_true in Hmacro. subst command. crunch.
    destruct (inc_macro fl); cbn [result_map]; [|reflexivity].
    rewrite handler_def_view, (process_macro_matches_source fl trigger strip_fn strip_mac strip_mem).
    reflexivity. }
  destruct (str_eqb command (s"ct_add_test")) eqn:Htest.
  { apply str_eqb_true in Htest. subst command. crunch.
    destruct (inc_ct_add_test fl); cbn [result_map]; [|reflexivity].
    rewrite handler_test_view, <- (process_ct_add_test_matches_source c [] false st). reflexivity. }
  destruct (str_eqb command (s"ct_add_section")) eqn:Hsection.
  { apply str_eqb_true in Hsection. subst command. crunch.
    destruct (inc_ct_add_section fl); cbn [result_map]; [|reflexivity].
    rewrite handler_test_view, <- (process_ct_add_section_matches_source c [] false st). reflexivity. }
  destruct (str_eqb command (s"cpp_class")) eqn:Hclass.
  { apply str_eqb_true in Hclass. subst command.
    destruct (inc_cpp_class fl) eqn:Ei; [|vm_compute in E1; discriminate E1].
    crunch. rewrite Ei. cbn [result_map].
    rewrite handler_class_view, <- (process_cpp_class_matches_source c [] false st). reflexivity. }
  destruct (str_eqb command (s"cpp_member")) eqn:Hmember.
  { apply str_eqb_true in Hmember. subst command. crunch.
    destruct (inc_cpp_member fl); cbn [result_map]; [|reflexivity].
    rewrite handler_member_view, <- (process_cpp_member_matches_source_undocumented false c [] st).
    reflexivity. }
  destruct (str_eqb command (s"cpp_constructor")) eqn:Hctor.
  { apply str_eqb_true in Hctor. subst command. crunch.
    destruct (inc_cpp_constructor fl); cbn [result_map]; [|reflexivity].
    unfold PySource.DocumentationAggregator_process_cpp_constructor.
    rewrite handler_member_view, <- (process_cpp_member_matches_source_undocumented true c [] st).
    reflexivity. }
  destruct (str_eqb command (s"cpp_attr")) eqn:Hattr.
  { apply str_eqb_true in Hattr. subst command. crunch.
    destruct (inc_cpp_attr fl); cbn [result_map]; [|reflexivity].
    rewrite handler_attr_view, <- (process_cpp_attr_matches_source_undocumented c [] st). reflexivity. }
  destruct (str_eqb command (s"add_test")) eqn:Haddtest.
  { apply str_eqb_true in Haddtest. subst command. crunch.
    destruct (inc_add_test fl); cbn [result_map]; [|reflexivity].
    rewrite handler_add_test_view, <- (process_add_test_matches_source c [] false st). reflexivity. }
  destruct (str_eqb command (s"option")) eqn:Hoption.
  { apply str_eqb_true in Hoption. subst command. crunch.
    destruct (inc_option fl); cbn [result_map]; [|reflexivity].
    rewrite handler_option_view, <- (process_option_matches_source c [] false st). reflexivity. }
  (* no processor of that name *)
  unfold handler_table. cbn [lookup mem_str].
  rewrite Hfunction, Hmacro, E3, Htest, Hsection, Eset, Hclass, Hmember, Hctor, Hattr, Haddtest, Hoption, Egen.
  reflexivity.
Qed.

(* ---- examples ---- *)
Definition ex_method : method :=
  {| m_name := s"run"; m_doc := s"Runs."; m_parent := s"Outer"; m_types := [s"int"];
     m_params := []; m_ctor := false; m_macro := false; m_docd := true |}.
Definition ex_strip_settings : py_settings :=
  settings_of default_flags (s":param **kwargs:") (fun x => x) (fun x => x)
    (fun x => skipn 1 x).     (* member_parameter_name_strip_regex deletes the first character *)

(* the function() that follows a cpp_member(): the awaiting method gets the parameter names after the
   function name and the self parameter (stripped by the member regex), the slot is cleared, and the
   undocumented definition pushes the frame DefinitionCommand(None, False) *)
Example enterCommand_invocation_example_member :
  PySource.DocumentationAggregator_enterCommand_invocation
    (ex_cmd (s"FUNCTION") [s"_run"; s"_self"; s"_a"; s"_b"]) false ex_strip_settings
    [EModule (s"m") []; EClass (s"Outer") (s"doc") [] [] [] [ex_method] []] [Some 1] (AwMethod 1 false) []
  = Some ([Some 1],
          [EModule (s"m") [];
           EClass (s"Outer") (s"doc") [] [] []
             [{| m_name := s"run"; m_doc := s"Runs."; m_parent := s"Outer"; m_types := [s"int"];
                 m_params := [s"a"; s"b"]; m_ctor := false; m_macro := false; m_docd := true |}] []],
          AwNone, [(None, false)]).
Proof. vm_compute. reflexivity. Qed.

(* the macro() that follows a documented ct_add_test(): is_macro is set; the documented definition
   (ctx in self.consumed) pushes no second frame *)
Example enterCommand_invocation_example_test_macro :
  PySource.DocumentationAggregator_enterCommand_invocation
    (ex_cmd (s"macro") [s"t"; s"x"; s"y"; s"z"]) true ex_strip_settings
    [ETest false (s"t") (s"doc") false [] false] [] (AwTop 0) [(Some 7, true)]
  = Some ([], [ETest false (s"t") (s"doc") false [s"y"; s"z"] true], AwNone, [(Some 7, true)]).
Proof. vm_compute. reflexivity. Qed.

(* endfunction() / cpp_end_class() on an empty stack: IndexError in Python, Crash in the model *)
Example enterCommand_invocation_example_pop_empty :
  PySource.DocumentationAggregator_enterCommand_invocation
    (ex_cmd (s"endfunction") []) false ex_strip_settings [] [] AwNone [] = None
  /\ PySource.DocumentationAggregator_enterCommand_invocation
       (ex_cmd (s"cpp_end_class") []) false ex_strip_settings [] [] AwNone [] = None
  /\ enter_command default_flags [] (fun x => x) (fun x => x) (fun x => x) false
       (ex_cmd (s"endfunction") []) agg_init = Crash.
Proof. repeat split; vm_compute; reflexivity. Qed.

(* an undocumented function() with include_undocumented_function: the reflective dispatch reaches
   process_function *)
Example enterCommand_invocation_example_dispatch :
  PySource.DocumentationAggregator_enterCommand_invocation
    (ex_cmd (s"function") [s"f"; s"x"]) false ex_strip_settings [] [None] AwNone []
  = Some ([None], [EFunction false (s"f") [] [s"x"] false], AwNone, [(Some 0, true)]).
Proof. vm_compute. reflexivity. Qed.

(* ... and with the option switched off only the frame (None, False) is pushed *)
Example enterCommand_invocation_example_not_included :
  PySource.DocumentationAggregator_enterCommand_invocation
    (ex_cmd (s"function") [s"f"; s"x"]) false
    (settings_of {| inc_function := false; inc_macro := true; inc_cpp_class := true; inc_cpp_attr := true;
                    inc_cpp_constructor := true; inc_cpp_member := true; inc_ct_add_test := true;
                    inc_ct_add_section := true; inc_add_test := true; inc_option := true |}
                 [] (fun x => x) (fun x => x) (fun x => x))
    [] [] AwNone []
  = Some ([], [], AwNone, [(None, false)]).
Proof. vm_compute. reflexivity. Qed.

(* ------------------------------------------------------------------ *)
(* 5. enterDocumented_command                                          *)

(* the result tuple of the translated enterDocumented_command, for a model state *)
Definition doc_view (st : agg)
  : list entry * await * list (option nat * bool) * list (option nat) :=
  (documented st, awaiting st, py_def_stack (def_stack st), py_class_stack (class_stack st)).
(* ... up to the ghost fields inside class entries *)
Definition unghost_view (v : list entry * await * list (option nat * bool) * list (option nat))
  : list entry * await * list (option nat * bool) * list (option nat) :=
  let '(d, a, ds, cs) := v in (map unghost d, a, ds, cs).

Definition reorder_view (v : list (option nat) * list entry * await * list (option nat * bool))
  : list entry * await * list (option nat * bool) * list (option nat) :=
  let '(cs, d, a, ds) := v in (d, a, ds, cs).

Lemma doc_view_as_full : forall st, doc_view st = reorder_view (full_view st).
Proof. reflexivity. Qed.

Lemma result_map_compose : forall (A B C : Type) (f : A -> B) (g : B -> C) (r : result A),
  result_map (fun x => g (f x)) r = option_map g (result_map f r).
Proof. intros A B C f g r. destruct r; reflexivity. Qed.

Theorem enterDocumented_command_matches_source :
  forall fl trigger strip_fn strip_mac strip_mem doc_text c st,
    result_map (fun st' => unghost_view (doc_view st'))
      (enter_documented trigger strip_fn strip_mac doc_text c st)
    = option_map unghost_view
        (PySource.DocumentationAggregator_enterDocumented_command (doc_text, c)
           (settings_of fl trigger strip_fn strip_mac strip_mem)
           (documented st) (py_class_stack (class_stack st)) (awaiting st) (py_def_stack (def_stack st))).
Proof.
  intros fl trigger strip_fn strip_mac strip_mem doc_text c st.
  unfold enter_documented, PySource.DocumentationAggregator_enterDocumented_command.
  cbn [fst snd]. unfold py_lower_ascii, py_cmd_identifier. cbv zeta.
  rewrite dir_names_as_table, <- clean_doc_text_matches_source.
  generalize (clean_doc_text doc_text). intros doc.
  generalize (lower_ascii (c_name c)). intros command.
  unfold py_str_eq, py_str_ne.
  destruct (str_eqb command (s"generic_command")) eqn:Egen.
  { apply str_eqb_true in Egen. subst command. crunch.
    rewrite <- (process_generic_matches_source _ c doc true st). reflexivity. }
  cbn [negb andb].
  destruct (str_eqb command (s"function")) eqn:Hfunction.
  { apply str_eqb_true in Hfunction. subst command. crunch.
    rewrite result_map_compose. rewrite (result_map_compose _ _ _ full_view reorder_view).
    rewrite handler_def_view, (process_function_matches_source fl trigger strip_fn strip_mac strip_mem).
    destruct (PySource.DocumentationAggregator_process_function c doc
                (settings_of fl trigger strip_fn strip_mac strip_mem) (documented st)
                (py_def_stack (def_stack st))) as [[d ds]|]; reflexivity. }
  destruct (str_eqb command (s"macro")) eqn:Hmacro.
  { apply str_eqb_true in Hmacro. subst command. crunch.
    rewrite result_map_compose. rewrite (result_map_compose _ _ _ full_view reorder_view).
    rewrite handler_def_view, (process_macro_matches_source fl trigger strip_fn strip_mac strip_mem).
    destruct (PySource.DocumentationAggregator_process_macro c doc
                (settings_of fl trigger strip_fn strip_mac strip_mem) (documented st)
                (py_def_stack (def_stack st))) as [[d ds]|]; reflexivity. }
  destruct (str_eqb command (s"cmake_parse_arguments")) eqn:Hcpa.
  { apply str_eqb_true in Hcpa. subst command. crunch.
    rewrite <- process_cmake_parse_arguments_matches_source. unfold doc_view.
    destruct (process_cpa_frame st) as [[Hc [Hd Ha]] _]. rewrite Hc, Hd, Ha. reflexivity. }
  destruct (str_eqb command (s"ct_add_test")) eqn:Htest.
  { apply str_eqb_true in Htest. subst command. crunch.
    rewrite doc_view_as_full, handler_test_view, <- (process_ct_add_test_matches_source c doc true st).
    reflexivity. }
  destruct (str_eqb command (s"ct_add_section")) eqn:Hsection.
  { apply str_eqb_true in Hsection. subst command. crunch.
    rewrite doc_view_as_full, handler_test_view, <- (process_ct_add_section_matches_source c doc true st).
    reflexivity. }
  destruct (str_eqb command (s"set")) eqn:Hset.
  { apply str_eqb_true in Hset. subst command. crunch.
    destruct (process_set_never_crashes c doc true st) as [st' [Hs Hd]]. rewrite Hs. cbn [result_map].
    rewrite <- Hd. unfold doc_view. unfold process_set in Hs.
    assert (Hf : same_stacks st' st).
    { unfold same_stacks. destruct (singles c) as [|name [|v [|w r]]].
      - injection Hs as Hs; subst st'; repeat split.
      - injection Hs as Hs; subst st'; repeat split.
      - destruct (unquote v); [|discriminate Hs]. injection Hs as Hs; subst st'; repeat split.
      - injection Hs as Hs; subst st'; repeat split. }
    destruct Hf as [Hc [Hds Ha]]. rewrite Hc, Hds, Ha. reflexivity. }
  destruct (str_eqb command (s"cpp_class")) eqn:Hclass.
  { apply str_eqb_true in Hclass. subst command. crunch.
    rewrite doc_view_as_full, handler_class_view, <- (process_cpp_class_matches_source c doc true st).
    reflexivity. }
  destruct (str_eqb command (s"cpp_member")) eqn:Hmember.
  { apply str_eqb_true in Hmember. subst command. crunch.
    rewrite doc_view_as_full, handler_member_view.
    destruct (process_cpp_member_matches_source false c doc true st) as [H1 H2].
    destruct (PySource.DocumentationAggregator_process_cpp_member c doc false (documented st)
                (py_class_stack (class_stack st)) (awaiting st)) as [d a].
    cbn [fst snd] in H1, H2. unfold same_docs in H1.
    cbn [reorder_view unghost_view option_map]. rewrite H1, H2. reflexivity. }
  destruct (str_eqb command (s"cpp_constructor")) eqn:Hctor.
  { apply str_eqb_true in Hctor. subst command. crunch.
    rewrite doc_view_as_full, handler_member_view.
    destruct (process_cpp_constructor_matches_source c doc true st) as [H1 H2].
    destruct (PySource.DocumentationAggregator_process_cpp_constructor c doc (documented st)
                (py_class_stack (class_stack st)) (awaiting st)) as [d a].
    cbn [fst snd] in H1, H2. unfold same_docs in H1.
    cbn [reorder_view unghost_view option_map]. rewrite H1, H2. reflexivity. }
  destruct (str_eqb command (s"cpp_attr")) eqn:Hattr.
  { apply str_eqb_true in Hattr. subst command. crunch.
    rewrite doc_view_as_full, handler_attr_view.
    pose proof (process_cpp_attr_matches_source c doc true st) as H1. unfold same_docs in H1.
    cbn [reorder_view unghost_view option_map]. rewrite H1. reflexivity. }
  destruct (str_eqb command (s"add_test")) eqn:Haddtest.
  { apply str_eqb_true in Haddtest. subst command. crunch.
    rewrite doc_view_as_full, handler_add_test_view, <- (process_add_test_matches_source c doc true st).
    reflexivity. }
  destruct (str_eqb command (s"option")) eqn:Hoption.
  { apply str_eqb_true in Hoption. subst command. crunch.
    rewrite doc_view_as_full, handler_option_view, <- (process_option_matches_source c doc true st).
    reflexivity. }
  (* no processor of that name: process_generic_command *)
  unfold handler_table. cbn [lookup mem_str].
  rewrite Hfunction, Hmacro, Hcpa, Htest, Hsection, Hset, Hclass, Hmember, Hctor, Hattr, Haddtest, Hoption, Egen.
  cbn [orb result_map option_map]. rewrite <- (process_generic_matches_source command c doc true st).
  reflexivity.
Qed.

(* ---- examples ---- *)
(* a documented function(): the doccomment is cleaned, the command name lower-cased, process_function found
   by reflection; the result tuple is (documented, awaiting, definition stack, class stack) *)
Example enterDocumented_command_example_function :
  PySource.DocumentationAggregator_enterDocumented_command
    (s"#[[[" ++ [nl] ++ s"# Says it." ++ [nl] ++ s"# :param **kwargs: more" ++ [nl] ++ s"#]]",
     ex_cmd (s"Function") [s"say"; s"a"]) ex_settings [] [None] AwNone []
  = Some ([EFunction false (s"say") (s"Says it." ++ [nl] ++ s":param **kwargs: more" ++ [nl]) [s"a"] true],
          AwNone, [(Some 0, true)], [None]).
Proof. vm_compute. reflexivity. Qed.

(* a documented command without processor, and the command generic_command itself: process_generic_command *)
Example enterDocumented_command_example_generic :
  PySource.DocumentationAggregator_enterDocumented_command
    (s"#[[ lib ]]", ex_cmd (s"add_library") [s"x"; s"STATIC"]) ex_settings [] [] AwNone []
  = Some ([EGeneric (s"add_library") (s"lib ") [s"x"; s"STATIC"]], AwNone, [], [])
  /\ PySource.DocumentationAggregator_enterDocumented_command
       (s"#[[ g ]]", ex_cmd (s"generic_command") [s"x"]) ex_settings [] [] AwNone []
     = Some ([EGeneric (s"generic_command") (s"g ") [s"x"]], AwNone, [], []).
Proof. split; vm_compute; reflexivity. Qed.

(* a documented function() without arguments: CMakeSyntaxException goes through the except clause *)
Example enterDocumented_command_example_raise :
  PySource.DocumentationAggregator_enterDocumented_command
    (s"#[[ d ]]", ex_cmd (s"function") []) ex_settings [] [] AwNone [] = None.
Proof. vm_compute. reflexivity. Qed.

(* a documented cpp_member(): the method is stored in the class on top of the class stack *)
Example enterDocumented_command_example_member :
  PySource.DocumentationAggregator_enterDocumented_command
    (s"#[[ Runs. ]]", ex_cmd (s"cpp_member") [s"run"; s"Outer"]) ex_settings [ex_class] [Some 0] AwNone []
  = Some ([EClass (s"Outer") (s"doc") [] [] []
             [{| m_name := s"run"; m_doc := s"Runs. "; m_parent := s"Outer"; m_types := [];
                 m_params := []; m_ctor := false; m_macro := false; m_docd := false |}] []],
          AwMethod 0 false, [], [Some 0]).
Proof. vm_compute. reflexivity. Qed.

(* ==== MAIN THEOREMS ==== *)
(* process_function_matches_source, process_macro_matches_source, process_def_frame,
   process_cmake_parse_arguments_matches_source, process_cpa_frame,
   process_cpp_class_matches_source, process_class_frame,
   process_cpp_attr_matches_source, process_cpp_attr_matches_source_undocumented, process_attr_frame,
   process_cpp_member_matches_source, process_cpp_member_matches_source_undocumented,
   process_cpp_constructor_matches_source, process_member_frame,
   enterCommand_invocation_matches_source, enterDocumented_command_matches_source *)
Print Assumptions process_function_matches_source.
Print Assumptions process_macro_matches_source.
Print Assumptions process_def_frame.
Print Assumptions process_cmake_parse_arguments_matches_source.
Print Assumptions process_cpa_frame.
Print Assumptions process_cpp_class_matches_source.
Print Assumptions process_class_frame.
Print Assumptions process_cpp_attr_matches_source.
Print Assumptions process_cpp_attr_matches_source_undocumented.
Print Assumptions process_attr_frame.
Print Assumptions process_cpp_member_matches_source.
Print Assumptions process_cpp_member_matches_source_undocumented.
Print Assumptions process_cpp_constructor_matches_source.
Print Assumptions process_member_frame.
Print Assumptions enterCommand_invocation_matches_source.
Print Assumptions enterDocumented_command_matches_source.
