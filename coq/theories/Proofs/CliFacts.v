(* Proofs/CliFacts.v -- property C19, command-line part: the options may stand anywhere
   after the input.  The command line cminx_gen_rst builds,  dir [-r] extra... -o out,  gives
   the same settings source as the canonical order  dir -o out [-r] extra... .
   Generic lemmas over an arbitrary argparse table, then the instance for Gen/ConfigData.v. *)
From Coq Require Import String List NArith Bool Arith Lia.
From CMinx Require Import Base.Str Model.Path Model.Config Gen.ConfigData Proofs.ConfigFacts.
Import ListNotations.

(* ---- spec ---- *)

(* one well-formed use of an option: (dest, value) for store and append, dest for store_true *)
Inductive use :=
| UStore (d v : str)
| UFlag (d : str)
| UAppend (d v : str).

(* a token list read as a sequence of option uses of the table: a store/append flag followed
   by a value that does not start with a dash, or a store_true flag; None if it is not one *)
Fixpoint uses (tbl : list cli_arg) (toks : list str) : option (list use) :=
  match toks with
  | [] => Some []
  | t :: r =>
      match find_flag tbl t with
      | Some a =>
          match a_action a with
          | AStoreTrue => option_map (cons (UFlag (a_dest a))) (uses tbl r)
          | AStore =>
              match r with
              | v :: r' => if startswith (s"-") v then None
                           else option_map (cons (UStore (a_dest a) v)) (uses tbl r')
              | [] => None
              end
          | AAppend =>
              match r with
              | v :: r' => if startswith (s"-") v then None
                           else option_map (cons (UAppend (a_dest a) v)) (uses tbl r')
              | [] => None
              end
          | AVersion => None
          end
      | None => None
      end
  end.

Definition ustores (us : list use) : list (str * str) :=
  flat_map (fun u => match u with UStore d v => [(d, v)] | _ => [] end) us.
Definition uflags (us : list use) : list str :=
  flat_map (fun u => match u with UFlag d => [d] | _ => [] end) us.
Definition uappends (us : list use) : list (str * str) :=
  flat_map (fun u => match u with UAppend d v => [(d, v)] | _ => [] end) us.

(* C1: extra is a concatenation of well-formed option uses, none of them a store to the
   destination odest (for the table of CMinx: none of them is -o/--output) *)
Definition flag_pairs_ok (tbl : list cli_arg) (odest : str) (extra : list str) : bool :=
  match uses tbl extra with
  | Some us => negb (mem_str odest (map fst (ustores us)))
  | None => false
  end.

(* every option string of the table starts with a dash *)
Definition flags_dashed (tbl : list cli_arg) : bool :=
  forallb (fun a => forallb (startswith (s"-")) (a_flags a)) tbl.

(* what parsing a sequence of uses does to the accumulator *)
Definition after_uses (us : list use) (acc : parsed) : parsed :=
  {| p_stored := rev (ustores us) ++ p_stored acc;
     p_flags := p_flags acc ++ uflags us;
     p_appended := p_appended acc ++ uappends us;
     p_positional := p_positional acc |}.

Definition odest_cminx : str := s"output.directory".

(* ---- helpers ---- *)

Lemma after_uses_nil : forall acc, after_uses [] acc = acc.
Proof.
  intros acc. unfold after_uses. cbn [ustores uflags uappends flat_map rev app].
  rewrite !app_nil_r. destruct acc; reflexivity.
Qed.

Lemma after_uses_cons_store : forall d v us acc,
  after_uses (UStore d v :: us) acc
  = after_uses us {| p_stored := (d, v) :: p_stored acc; p_flags := p_flags acc;
                     p_appended := p_appended acc; p_positional := p_positional acc |}.
Proof.
  intros d v us acc. unfold after_uses.
  cbn [ustores uflags uappends flat_map app rev p_stored p_flags p_appended p_positional].
  rewrite <- app_assoc. reflexivity.
Qed.

Lemma after_uses_cons_flag : forall d us acc,
  after_uses (UFlag d :: us) acc
  = after_uses us {| p_stored := p_stored acc; p_flags := p_flags acc ++ [d];
                     p_appended := p_appended acc; p_positional := p_positional acc |}.
Proof.
  intros d us acc. unfold after_uses.
  cbn [ustores uflags uappends flat_map app rev p_stored p_flags p_appended p_positional].
  rewrite <- app_assoc. reflexivity.
Qed.

Lemma after_uses_cons_append : forall d v us acc,
  after_uses (UAppend d v :: us) acc
  = after_uses us {| p_stored := p_stored acc; p_flags := p_flags acc;
                     p_appended := p_appended acc ++ [(d, v)]; p_positional := p_positional acc |}.
Proof.
  intros d v us acc. unfold after_uses.
  cbn [ustores uflags uappends flat_map app rev p_stored p_flags p_appended p_positional].
  rewrite <- app_assoc. reflexivity.
Qed.

(* parse_go on a sequence of uses: succeeds whatever the positional state is *)
Lemma parse_go_uses_n : forall tbl n toks us, length toks <= n ->
  uses tbl toks = Some us ->
  forall pst acc, parse_go tbl toks pst acc = Some (after_uses us acc).
Proof.
  intros tbl n. induction n as [|n IH]; intros toks us Hlen Hu pst acc.
  - destruct toks as [|t r]; [|cbn [length] in Hlen; lia].
    cbn [uses] in Hu. inversion Hu. subst us. cbn [parse_go]. rewrite after_uses_nil. reflexivity.
  - destruct toks as [|t r].
    + cbn [uses] in Hu. inversion Hu. subst us. cbn [parse_go]. rewrite after_uses_nil. reflexivity.
    + cbn [length] in Hlen. cbn [uses] in Hu. cbn [parse_go].
      destruct (find_flag tbl t) as [a|]; [|discriminate Hu].
      destruct (a_action a).
      * (* store *)
        destruct r as [|v r']; [discriminate Hu|].
        destruct (startswith (s"-") v); [discriminate Hu|].
        destruct (uses tbl r') as [us'|] eqn:E; [|discriminate Hu].
        cbn [option_map] in Hu. inversion Hu. subst us.
        rewrite (IH r' us'); [|cbn [length] in Hlen; lia|exact E].
        rewrite after_uses_cons_store. reflexivity.
      * (* store_true *)
        destruct (uses tbl r) as [us'|] eqn:E; [|discriminate Hu].
        cbn [option_map] in Hu. inversion Hu. subst us.
        rewrite (IH r us'); [|lia|exact E].
        rewrite after_uses_cons_flag. reflexivity.
      * (* append *)
        destruct r as [|v r']; [discriminate Hu|].
        destruct (startswith (s"-") v); [discriminate Hu|].
        destruct (uses tbl r') as [us'|] eqn:E; [|discriminate Hu].
        cbn [option_map] in Hu. inversion Hu. subst us.
        rewrite (IH r' us'); [|cbn [length] in Hlen; lia|exact E].
        rewrite after_uses_cons_append. reflexivity.
      * discriminate Hu.
Qed.

Lemma parse_go_uses : forall tbl toks us, uses tbl toks = Some us ->
  forall pst acc, parse_go tbl toks pst acc = Some (after_uses us acc).
Proof. intros tbl toks us. apply (parse_go_uses_n tbl (length toks)). apply le_n. Qed.

(* uses of a concatenation *)
Lemma uses_app_n : forall tbl n a ua b, length a <= n ->
  uses tbl a = Some ua -> uses tbl (a ++ b) = option_map (app ua) (uses tbl b).
Proof.
  intros tbl n. induction n as [|n IH]; intros a ua b Hlen Hu.
  - destruct a as [|t r]; [|cbn [length] in Hlen; lia].
    cbn [uses] in Hu. inversion Hu. subst ua. cbn [app]. destruct (uses tbl b); reflexivity.
  - destruct a as [|t r].
    + cbn [uses] in Hu. inversion Hu. subst ua. cbn [app]. destruct (uses tbl b); reflexivity.
    + cbn [length] in Hlen. cbn [uses] in Hu. cbn [app uses].
      destruct (find_flag tbl t) as [x|]; [|discriminate Hu].
      destruct (a_action x).
      * destruct r as [|v r']; [discriminate Hu|]. cbn [app].
        destruct (startswith (s"-") v); [discriminate Hu|].
        destruct (uses tbl r') as [us'|] eqn:E; [|discriminate Hu].
        cbn [option_map] in Hu. inversion Hu. subst ua.
        rewrite (IH r' us' b); [|cbn [length] in Hlen; lia|exact E].
        destruct (uses tbl b); reflexivity.
      * destruct (uses tbl r) as [us'|] eqn:E; [|discriminate Hu].
        cbn [option_map] in Hu. inversion Hu. subst ua.
        rewrite (IH r us' b); [|lia|exact E].
        destruct (uses tbl b); reflexivity.
      * destruct r as [|v r']; [discriminate Hu|]. cbn [app].
        destruct (startswith (s"-") v); [discriminate Hu|].
        destruct (uses tbl r') as [us'|] eqn:E; [|discriminate Hu].
        cbn [option_map] in Hu. inversion Hu. subst ua.
        rewrite (IH r' us' b); [|cbn [length] in Hlen; lia|exact E].
        destruct (uses tbl b); reflexivity.
      * discriminate Hu.
Qed.

Lemma uses_app : forall tbl a ua b ub,
  uses tbl a = Some ua -> uses tbl b = Some ub -> uses tbl (a ++ b) = Some (ua ++ ub).
Proof.
  intros tbl a ua b ub Ha Hb. rewrite (uses_app_n tbl (length a) a ua b (le_n _) Ha), Hb.
  reflexivity.
Qed.

Lemma ustores_app : forall a b, ustores (a ++ b) = ustores a ++ ustores b.
Proof. intros a b. unfold ustores. apply flat_map_app. Qed.
Lemma uflags_app : forall a b, uflags (a ++ b) = uflags a ++ uflags b.
Proof. intros a b. unfold uflags. apply flat_map_app. Qed.
Lemma uappends_app : forall a b, uappends (a ++ b) = uappends a ++ uappends b.
Proof. intros a b. unfold uappends. apply flat_map_app. Qed.

(* a token without a leading dash is no option string *)
Lemma find_flag_nodash : forall tbl t, flags_dashed tbl = true ->
  startswith (s"-") t = false -> find_flag tbl t = None.
Proof.
  intros tbl t. induction tbl as [|a r IH]; intros Hd Ht; [reflexivity|].
  unfold flags_dashed in Hd. cbn [forallb] in Hd. apply andb_prop in Hd. destruct Hd as [Ha Hr].
  cbn [find_flag]. destruct (mem_str t (a_flags a)) eqn:E.
  - exfalso. apply mem_str_In in E. rewrite forallb_forall in Ha. apply Ha in E. congruence.
  - apply IH; assumption.
Qed.

(* ---- assoc ---- *)

Lemma assoc_app : forall (A : Type) k (x y : list (str * A)),
  assoc k (x ++ y) = match assoc k x with Some v => Some v | None => assoc k y end.
Proof.
  intros A k x y. induction x as [|[k' v] x IH]; [reflexivity|].
  cbn [app assoc]. destruct (str_eqb k k'); [reflexivity|exact IH].
Qed.

Lemma assoc_notin : forall (A : Type) k (l : list (str * A)), ~ In k (map fst l) -> assoc k l = None.
Proof.
  intros A k l. induction l as [|[k' v] l IH]; intros H; [reflexivity|].
  cbn [assoc]. destruct (str_eqb k k') eqn:E.
  - exfalso. apply str_eqb_eq in E. apply H. left. symmetry. exact E.
  - apply IH. intros Hin. apply H. right. exact Hin.
Qed.

Lemma assoc_cons_snoc : forall (A : Type) o (v : A) l, ~ In o (map fst l) ->
  forall k, assoc k ((o, v) :: l) = assoc k (l ++ [(o, v)]).
Proof.
  intros A o v l Hn k. rewrite assoc_app. cbn [assoc].
  destruct (str_eqb k o) eqn:E.
  - apply str_eqb_eq in E. subst k. rewrite (assoc_notin A o l Hn). reflexivity.
  - destruct (assoc k l); reflexivity.
Qed.

Definition ystr_pair (kv : str * str) : str * yval := (fst kv, YStr (snd kv)).

Lemma assoc_map_filter_other : forall k k0 (m : list (str * str)), str_eqb k k0 = false ->
  assoc k (map ystr_pair (filter (fun x => negb (str_eqb (fst x) k0)) m))
  = assoc k (map ystr_pair m).
Proof.
  intros k k0 m Hk. induction m as [|[k' v] m IH]; [reflexivity|].
  cbn [filter fst]. destruct (str_eqb k' k0) eqn:E; cbn [negb].
  - apply str_eqb_eq in E. subst k'. cbn [map ystr_pair fst snd assoc]. rewrite Hk. exact IH.
  - cbn [map ystr_pair fst snd assoc]. rewrite IH. reflexivity.
Qed.

(* the stored part of the namespace: the first pair of each dest, i.e. the last one given *)
Lemma assoc_stored : forall k (l : list (str * str)),
  assoc k (map ystr_pair (dedup_keep_first l)) = option_map YStr (assoc k l).
Proof.
  intros k l. induction l as [|[k' v] l IH]; [reflexivity|].
  unfold dedup_keep_first. cbn [fold_right]. fold (dedup_keep_first l).
  cbn [map ystr_pair fst snd assoc]. destruct (str_eqb k k') eqn:E; [reflexivity|].
  rewrite assoc_map_filter_other by exact E. exact IH.
Qed.

(* two namespaces with the same flags and appended values whose stored lists answer every
   lookup alike give sources that answer every lookup alike *)
Lemma args_source_assoc_eq : forall tbl A B,
  p_flags A = p_flags B -> p_appended A = p_appended B ->
  (forall k, assoc k (p_stored A) = assoc k (p_stored B)) ->
  forall k, assoc k (src_vals (args_source tbl A)) = assoc k (src_vals (args_source tbl B)).
Proof.
  intros tbl A B Hf Ha Hs k. unfold args_source. cbn [src_vals].
  rewrite Hf, Ha. rewrite !(assoc_app yval k).
  change (fun kv : str * str => (fst kv, YStr (snd kv))) with ystr_pair.
  rewrite !assoc_stored, Hs. reflexivity.
Qed.

(* ================================================================== *)
(* C2: positional first, then option uses                               *)
(* ================================================================== *)

Theorem parse_positional_first : forall tbl dir rest us,
  find_flag tbl dir = None -> startswith (s"-") dir = false ->
  uses tbl rest = Some us ->
  parse_args tbl (dir :: rest)
  = Some {| p_stored := rev (ustores us); p_flags := uflags us;
            p_appended := uappends us; p_positional := [dir] |}.
Proof.
  intros tbl dir rest us Hf Hd Hu. unfold parse_args. cbn [parse_go]. rewrite Hf, Hd.
  rewrite (parse_go_uses tbl rest us Hu). unfold after_uses, parsed_empty.
  cbn [p_stored p_flags p_appended p_positional app]. rewrite app_nil_r. reflexivity.
Qed.

(* ================================================================== *)
(* C3: the place of  -o out  does not matter (generic table)            *)
(* ================================================================== *)

Theorem cli_order_irrelevant_gen : forall tbl oflag ao dir mid out,
  find_flag tbl oflag = Some ao -> a_action ao = AStore ->
  find_flag tbl dir = None -> startswith (s"-") dir = false ->
  startswith (s"-") out = false ->
  flag_pairs_ok tbl (a_dest ao) mid = true ->
  exists A B,
    parse_args tbl (dir :: mid ++ [oflag; out]) = Some A
    /\ parse_args tbl ([dir; oflag; out] ++ mid) = Some B
    /\ p_positional A = [dir] /\ p_positional B = [dir]
    /\ p_flags A = p_flags B /\ p_appended A = p_appended B
    /\ (forall k, assoc k (p_stored A) = assoc k (p_stored B))
    /\ (forall k, assoc k (src_vals (args_source tbl A)) = assoc k (src_vals (args_source tbl B))).
Proof.
  intros tbl oflag ao dir mid out Ho Hact Hdir Hdd Hout Hmid.
  unfold flag_pairs_ok in Hmid. destruct (uses tbl mid) as [um|] eqn:Eu; [|discriminate Hmid].
  apply negb_true_iff in Hmid.
  assert (Hnotin : ~ In (a_dest ao) (map fst (rev (ustores um)))).
  { intros Hin. rewrite map_rev in Hin. apply in_rev in Hin.
    apply mem_str_In in Hin. congruence. }
  assert (Uo : uses tbl [oflag; out] = Some [UStore (a_dest ao) out]).
  { cbn [uses]. rewrite Ho, Hact, Hout. reflexivity. }
  assert (U1 : uses tbl (mid ++ [oflag; out]) = Some (um ++ [UStore (a_dest ao) out])).
  { apply uses_app; assumption. }
  assert (U2 : uses tbl ([oflag; out] ++ mid) = Some ([UStore (a_dest ao) out] ++ um)).
  { apply uses_app; assumption. }
  eexists. eexists.
  split; [apply (parse_positional_first tbl dir _ _ Hdir Hdd U1)|].
  split; [apply (parse_positional_first tbl dir _ _ Hdir Hdd U2)|].
  cbn [p_positional p_flags p_appended p_stored].
  split; [reflexivity|]. split; [reflexivity|].
  assert (Hfl : uflags (um ++ [UStore (a_dest ao) out]) = uflags ([UStore (a_dest ao) out] ++ um)).
  { rewrite !uflags_app. cbn [uflags flat_map app]. rewrite app_nil_r. reflexivity. }
  assert (Hap : uappends (um ++ [UStore (a_dest ao) out]) = uappends ([UStore (a_dest ao) out] ++ um)).
  { rewrite !uappends_app. cbn [uappends flat_map app]. rewrite app_nil_r. reflexivity. }
  assert (Hst : forall k, assoc k (rev (ustores (um ++ [UStore (a_dest ao) out])))
                          = assoc k (rev (ustores ([UStore (a_dest ao) out] ++ um)))).
  { intros k. rewrite !ustores_app, !rev_app_distr. cbn [ustores flat_map app rev].
    apply assoc_cons_snoc. exact Hnotin. }
  split; [exact Hfl|]. split; [exact Hap|]. split; [exact Hst|].
  apply args_source_assoc_eq; cbn [p_flags p_appended p_stored]; assumption.
Qed.

(* ================================================================== *)
(* C3 for the argparse table of CMinx                                   *)
(* ================================================================== *)

Lemma cli_table_dashed : flags_dashed cli_table = true.
Proof. vm_compute. reflexivity. Qed.

Lemma cli_table_o : exists ao, find_flag cli_table (s"-o") = Some ao
                               /\ a_action ao = AStore /\ a_dest ao = odest_cminx.
Proof. eexists. split; [vm_compute; reflexivity|]. split; reflexivity. Qed.

Lemma cli_table_r : uses cli_table [s"-r"] = Some [UFlag (s"input.recursive")].
Proof. vm_compute. reflexivity. Qed.

Theorem cli_order_irrelevant : forall dir r extra out,
  r = [] \/ r = [s"-r"] ->
  startswith (s"-") dir = false -> startswith (s"-") out = false ->
  flag_pairs_ok cli_table odest_cminx extra = true ->
  exists A B,
    parse_args cli_table (dir :: r ++ extra ++ [s"-o"; out]) = Some A
    /\ parse_args cli_table ([dir; s"-o"; out] ++ r ++ extra) = Some B
    /\ p_positional A = [dir] /\ p_positional B = [dir]
    /\ p_flags A = p_flags B /\ p_appended A = p_appended B
    /\ (forall k, assoc k (src_vals (args_source cli_table A))
                  = assoc k (src_vals (args_source cli_table B))).
Proof.
  intros dir r extra out Hr Hdir Hout Hextra.
  destruct cli_table_o as [ao [Ho [Hact Hdest]]].
  assert (Hmid : flag_pairs_ok cli_table (a_dest ao) (r ++ extra) = true).
  { rewrite Hdest. destruct Hr as [Hr|Hr]; subst r; [exact Hextra|].
    unfold flag_pairs_ok in Hextra |- *.
    destruct (uses cli_table extra) as [ue|] eqn:E; [|discriminate Hextra].
    rewrite (uses_app cli_table [s"-r"] _ extra ue cli_table_r E).
    rewrite ustores_app. exact Hextra. }
  destruct (cli_order_irrelevant_gen cli_table (s"-o") ao dir (r ++ extra) out Ho Hact
              (find_flag_nodash cli_table dir cli_table_dashed Hdir) Hdir Hout Hmid)
    as [A [B [HA [HB [PA [PB [Hf [Ha [_ Hs]]]]]]]]].
  exists A, B. rewrite <- app_assoc in HA.
  split; [exact HA|]. split; [exact HB|]. repeat split; assumption.
Qed.

(* ---- non-vacuity, and the restriction on extra is needed ---- *)

Example cli_order_ex :
  let extra := [s"-p"; s"pre"; s"-e"; s"b*"; s"--exclude"; s"a*"; s"-p"; s"fix"; s"--recursive"] in
  flag_pairs_ok cli_table odest_cminx extra = true
  /\ uses cli_table extra
     = Some [UStore (s"rst.prefix") (s"pre"); UAppend (s"input.exclude_filters") (s"b*");
             UAppend (s"input.exclude_filters") (s"a*"); UStore (s"rst.prefix") (s"fix");
             UFlag (s"input.recursive")]
  /\ option_map (fun p => src_vals (args_source cli_table p))
       (parse_args cli_table (s"src" :: [s"-r"] ++ extra ++ [s"-o"; s"out"]))
     = Some [(s"output.directory", YStr (s"out")); (s"rst.prefix", YStr (s"fix"));
             (s"input.recursive", YBool true);
             (s"input.exclude_filters", YList [YStr (s"b*"); YStr (s"a*")])]
  /\ option_map (fun p => src_vals (args_source cli_table p))
       (parse_args cli_table ([s"src"; s"-o"; s"out"] ++ [s"-r"] ++ extra))
     = Some [(s"rst.prefix", YStr (s"fix")); (s"output.directory", YStr (s"out"));
             (s"input.recursive", YBool true);
             (s"input.exclude_filters", YList [YStr (s"b*"); YStr (s"a*")])].
Proof. vm_compute. repeat split. Qed.

(* if extra itself carries -o, the two orders differ: the last -o wins *)
Example extra_with_o_differs :
  let extra := [s"-o"; s"other"] in
  flag_pairs_ok cli_table odest_cminx extra = false
  /\ option_map (fun p => assoc odest_cminx (src_vals (args_source cli_table p)))
       (parse_args cli_table (s"src" :: extra ++ [s"-o"; s"out"]))
     = Some (Some (YStr (s"out")))
  /\ option_map (fun p => assoc odest_cminx (src_vals (args_source cli_table p)))
       (parse_args cli_table ([s"src"; s"-o"; s"out"] ++ extra))
     = Some (Some (YStr (s"other"))).
Proof. vm_compute. repeat split. Qed.

(* a second positional after an option is a usage error: extra must consist of option uses *)
Example extra_positional_rejected :
  parse_args cli_table [s"src"; s"-r"; s"src2"; s"-o"; s"out"] = None
  /\ flag_pairs_ok cli_table odest_cminx [s"src2"] = false.
Proof. vm_compute. split; reflexivity. Qed.

(* ==== MAIN THEOREMS ====
   parse_go_uses, uses_app                      (generic lemmas over any table)
   parse_positional_first                       (C2)
   cli_order_irrelevant_gen                     (C3, any table)
   cli_order_irrelevant                         (C3, cli_table of Gen/ConfigData.v)
   cli_order_ex, extra_with_o_differs, extra_positional_rejected *)
Print Assumptions parse_go_uses.
Print Assumptions uses_app.
Print Assumptions parse_positional_first.
Print Assumptions cli_order_irrelevant_gen.
Print Assumptions cli_order_irrelevant.
Print Assumptions cli_order_ex.
Print Assumptions extra_with_o_differs.
Print Assumptions extra_positional_rejected.
