(* Proofs/RunFacts.v -- several inputs on one command line (Walk.run_inputs): each input's
   actions are a function of that input alone, and as long as no input aborts the run is the
   concatenation of the per-input runs (C17: documenting further files before or after, in the
   same run, never changes a generated file). *)
From Coq Require Import String List NArith Bool Arith.
From CMinx Require Import Base.Str Model.Pipeline Model.Walk Proofs.WalkFacts.
Import ListNotations.

Definition run_ok (acts : list action) : bool := negb (existsb is_stop acts).

Lemma existsb_stop_eq : forall acts,
  existsb (fun a => match a with AAbort _ | AExit255 => true | _ => false end) acts
  = existsb is_stop acts.
Proof.
  induction acts as [|a r IH]; [reflexivity|]. cbn [existsb]. rewrite IH.
  destruct a; reflexivity.
Qed.

Theorem run_inputs_concat : forall runs,
  forallb run_ok runs = true -> run_inputs runs = concat runs.
Proof.
  induction runs as [|acts r IH]; intros H; [reflexivity|].
  cbn [forallb] in H. apply andb_true_iff in H. destruct H as [Ha Hr].
  cbn [run_inputs concat]. rewrite existsb_stop_eq.
  unfold run_ok in Ha. apply negb_true_iff in Ha. rewrite Ha.
  rewrite (IH Hr). reflexivity.
Qed.

Lemma writes_app : forall a b, writes (a ++ b) = writes a ++ writes b.
Proof. intros a b. unfold writes. apply flat_map_app. Qed.

(* the pages an input contributes are the same alone and embedded between other inputs *)
Theorem per_input_independence : forall pre x post,
  forallb run_ok (pre ++ [x] ++ post) = true ->
  writes (run_inputs (pre ++ [x] ++ post))
  = writes (run_inputs pre) ++ writes (run_inputs [x]) ++ writes (run_inputs post).
Proof.
  intros pre x post H.
  assert (Hpre : forallb run_ok pre = true /\ run_ok x = true /\ forallb run_ok post = true).
  { rewrite forallb_app in H. apply andb_true_iff in H. destruct H as [H1 H2].
    cbn [app forallb] in H2. apply andb_true_iff in H2. destruct H2 as [H2 H3]. auto. }
  destruct Hpre as [H1 [H2 H3]].
  rewrite (run_inputs_concat _ H), (run_inputs_concat _ H1), (run_inputs_concat _ H3).
  rewrite (run_inputs_concat [x]) by (cbn [forallb]; rewrite H2; reflexivity).
  rewrite !concat_app. cbn [concat]. rewrite app_nil_r. rewrite !writes_app. reflexivity.
Qed.

Example per_input_independence_nonvacuous :
  forallb run_ok ([[AWrite [s"a.rst"] (s"A")]] ++ [[AMkDirs []; AWrite [s"b.rst"] (s"B")]] ++ [[APrint (s"c")]]) = true.
Proof. reflexivity. Qed.

(* an aborting input ends the run: nothing of the later inputs is written *)
Theorem abort_ends_run : forall acts rest,
  existsb is_stop acts = true -> run_inputs (acts :: rest) = acts.
Proof. intros acts rest H. cbn [run_inputs]. rewrite existsb_stop_eq, H. reflexivity. Qed.

(* ==== MAIN THEOREMS ==== *)
Print Assumptions run_inputs_concat.
Print Assumptions per_input_independence.
Print Assumptions abort_ends_run.
