(* Proofs/ConfigFacts.v -- the settings layering of cminx.main() (property C16):
   command line > -s file > user config > defaults, defaults complete and well typed,
   wrong-typed values rejected, exclude patterns are a union, output directory resolution.
   Theorems mentioning yaml_defaults / template / dataclass_fields / cli_table /
   stacking_order are closed boolean computations over the generated tables (or generic in
   the table plus a computed side condition), so they are re-checked on every regeneration. *)
From Coq Require Import String List NArith Bool Arith Lia.
From CMinx Require Import Base.Str Model.Path Model.Config Gen.ConfigData.
Import ListNotations.

(* ---- spec ---- *)

(* the source does not set the key *)
Definition unset (key : str) (src : source) : Prop := assoc key (src_vals src) = None.

(* config_default.yaml as the lowest-priority source *)
Definition defaults_src : source :=
  {| src_kind := SrcDefaults; src_vals := yaml_defaults; src_dir := None |}.

Definition is_ok (r : cres) : bool := match r with COk _ => true | _ => false end.

Definition is_ystr (v : yval) : bool := match v with YStr _ => true | _ => false end.

(* the value kinds the property allows for each template type *)
Definition yval_has_type (ty : oty) (v : yval) : bool :=
  match ty, v with
  | TBool, YBool _ => true
  | TOptString _, YStr _ | TOptString _, YNull => true
  | TString _, YStr _ => true
  | TOptSeq, YList _ | TOptSeq, YNull => true
  | TStrSeq, YStr _ => true
  | TStrSeq, YList l => forallb is_ystr l
  | TOptFilename, YStr _ | TOptFilename, YNull => true
  | TDict, YMap => true
  | _, _ => false
  end.

(* template types whose option may be missing from every source *)
Definition none_ok (ty : oty) : bool :=
  match ty with
  | TBool | TStrSeq | TDict => false
  | _ => true
  end.

(* K4: a default is acceptable for its template type (no cwd involved) *)
Definition check_default (kt : str * oty) : bool :=
  match assoc (fst kt) yaml_defaults with
  | Some v => yval_has_type (snd kt) v
  | None => none_ok (snd kt)
  end.

(* K5: option paths of a dataclass section / template keys of a section *)
Definition field_paths (sec : str) (fields : list str) : list str :=
  map (fun f => sec ++ [dot] ++ f) fields.
Definition section_keys (sec : str) : list str :=
  filter (startswith (sec ++ [dot])) (map fst template).
Definition subset_str (a b : list str) : bool := forallb (fun x => mem_str x b) a.
Definition check_section (e : str * list str * bool) : bool :=
  let '(sec, fields, kw) := e in
  if kw then subset_str (field_paths sec fields) (section_keys sec)
            && subset_str (section_keys sec) (field_paths sec fields)
  else true.

(* K6: dests that are not options of the template *)
Definition non_option_dests : list str := [s"files"; s"settings"; s"version"].
Definition check_dest (a : cli_arg) : bool :=
  mem_str (a_dest a) non_option_dests || mem_str (a_dest a) (map fst template).

(* K8: what one source contributes to the exclude list when it holds a list *)
Definition list_items (key : str) (src : source) : list yval :=
  match assoc key (src_vals src) with
  | Some (YList l) => l
  | _ => []
  end.
Definition expected_union (key : str) (stack : list source) : list yval :=
  flat_map (list_items key) stack.
Definition list_or_unset (key : str) (src : source) : bool :=
  match assoc key (src_vals src) with
  | Some (YList _) | None => true
  | Some _ => false
  end.

(* K9: the directory a relative output directory is resolved against *)
Definition base_dir (cwd : str) (rc : bool) (src : source) : str :=
  if rc then match src_dir src with Some d => d | None => cwd end else cwd.
Definition expected_output_dir (cwd : str) (rc : bool) (p : str) (src : source) : str :=
  if isabs p then normpath p else abspath cwd (join2 (base_dir cwd rc src) p).

(* K10: every value a source gives to a template key has the template type *)
Definition src_well_typed (tmpl : list (str * oty)) (src : source) : bool :=
  forallb (fun kt => match assoc (fst kt) (src_vals src) with
                     | Some v => yval_has_type (snd kt) v
                     | None => true
                     end) tmpl.

(* ---- basic string facts ---- *)

Lemma str_eqb_eq : forall a b, str_eqb a b = true <-> a = b.
Proof.
  induction a as [|x a IH]; destruct b as [|y b]; cbn [str_eqb].
  - split; reflexivity.
  - split; discriminate.
  - split; discriminate.
  - rewrite andb_true_iff, N.eqb_eq, IH. split.
    + intros [Hx Ha]. subst. reflexivity.
    + intros E. inversion E. split; reflexivity.
Qed.

Lemma str_eqb_refl : forall a, str_eqb a a = true.
Proof. intros a. apply str_eqb_eq. reflexivity. Qed.

Lemma mem_str_In : forall x l, mem_str x l = true <-> In x l.
Proof.
  intros x l. induction l as [|y r IH]; cbn [mem_str In].
  - split; [discriminate | intros []].
  - rewrite orb_true_iff, IH, str_eqb_eq. split.
    + intros [E | H]; [left; symmetry; exact E | right; exact H].
    + intros [E | H]; [left; symmetry; exact E | right; exact H].
Qed.

Lemma assoc_In : forall (A : Type) k (l : list (str * A)) v, assoc k l = Some v -> In (k, v) l.
Proof.
  intros A k l. induction l as [|[k' v'] r IH]; intros v H; cbn [assoc] in H.
  - discriminate.
  - destruct (str_eqb k k') eqn:E.
    + apply str_eqb_eq in E. inversion H. subst. left. reflexivity.
    + right. apply IH. exact H.
Qed.

(* ==================== K1: resolve = first source that sets the key ==================== *)

Theorem resolve_first_setting_source : forall stack key v src,
  resolve stack key = Some (v, src) <->
  exists pre post, stack = pre ++ src :: post
                   /\ assoc key (src_vals src) = Some v
                   /\ Forall (unset key) pre.
Proof.
  induction stack as [|a r IH]; intros key v src; cbn [resolve].
  - split; [discriminate|]. intros (pre & post & E & _). destruct pre; discriminate.
  - destruct (assoc key (src_vals a)) as [va|] eqn:Ea.
    + split.
      * intros H. inversion H. subst. exists [], r. repeat split; auto.
      * intros (pre & post & E & Hv & Hpre). destruct pre as [|b pre]; cbn [app] in E.
        -- inversion E. subst. rewrite Ea in Hv. inversion Hv. reflexivity.
        -- inversion E. subst. inversion Hpre as [|x l Hb Hl]. subst.
           unfold unset in Hb. rewrite Ea in Hb. discriminate.
    + rewrite IH. split.
      * intros (pre & post & E & Hv & Hpre). exists (a :: pre), post. subst.
        repeat split; auto.
      * intros (pre & post & E & Hv & Hpre). destruct pre as [|b pre]; cbn [app] in E.
        -- inversion E. subst. rewrite Ea in Hv. discriminate.
        -- inversion E. subst. inversion Hpre as [|x l Hb Hl]. subst.
           exists pre, post. repeat split; auto.
Qed.

Theorem resolve_none : forall stack key,
  resolve stack key = None <-> Forall (unset key) stack.
Proof.
  induction stack as [|a r IH]; intros key; cbn [resolve].
  - split; auto.
  - destruct (assoc key (src_vals a)) as [va|] eqn:Ea.
    + split; [discriminate|]. intros H. inversion H as [|x l Ha Hl]. subst.
      unfold unset in Ha. rewrite Ea in Ha. discriminate.
    + rewrite IH. split.
      * intros H. constructor; auto.
      * intros H. inversion H. assumption.
Qed.

Example resolve_first_nonvacuous :
  let a := {| src_kind := SrcArgs; src_vals := [(s"rst.prefix", YStr (s"p"))]; src_dir := None |} in
  let f := {| src_kind := SrcFile; src_vals := [(s"input.recursive", YBool true); (s"rst.prefix", YStr (s"q"))];
              src_dir := Some (s"/cfg") |} in
  resolve [a; f; defaults_src] (s"input.recursive") = Some (YBool true, f)
  /\ resolve [a; f; defaults_src] (s"rst.prefix") = Some (YStr (s"p"), a)
  /\ resolve [a; f; defaults_src] (s"rst.headers") <> None
  /\ resolve [a; f; defaults_src] (s"output.directory") = None.
Proof. vm_compute. repeat split; discriminate. Qed.

(* ==================== K2: the highest-priority source wins ==================== *)

Theorem effective_highest_priority : forall cwd rc pre src post key ty v,
  Forall (unset key) pre ->
  assoc key (src_vals src) = Some v ->
  effective cwd rc (pre ++ src :: post) key ty = convert cwd rc ty (Some (v, src)).
Proof.
  intros cwd rc pre src post key ty v Hpre Hv. unfold effective.
  assert (R : resolve (pre ++ src :: post) key = Some (v, src)).
  { apply resolve_first_setting_source. exists pre, post. repeat split; auto. }
  rewrite R. reflexivity.
Qed.

Theorem effective_all_unset : forall cwd rc stack key ty,
  Forall (unset key) stack ->
  effective cwd rc stack key ty = convert cwd rc ty None.
Proof.
  intros cwd rc stack key ty H. unfold effective.
  apply resolve_none in H. rewrite H. reflexivity.
Qed.

Corollary cli_wins : forall cwd rc args sfile user defaults key ty v,
  assoc key (src_vals args) = Some v ->
  effective cwd rc [args; sfile; user; defaults] key ty = convert cwd rc ty (Some (v, args)).
Proof.
  intros cwd rc args sfile user defaults key ty v Hv.
  apply (effective_highest_priority cwd rc [] args [sfile; user; defaults]); auto.
Qed.

Corollary sfile_wins_over_user : forall cwd rc args sfile user defaults key ty v,
  unset key args ->
  assoc key (src_vals sfile) = Some v ->
  effective cwd rc [args; sfile; user; defaults] key ty = convert cwd rc ty (Some (v, sfile)).
Proof.
  intros cwd rc args sfile user defaults key ty v Ha Hv.
  apply (effective_highest_priority cwd rc [args] sfile [user; defaults]); auto.
Qed.

Corollary user_wins_over_defaults : forall cwd rc args sfile user defaults key ty v,
  unset key args -> unset key sfile ->
  assoc key (src_vals user) = Some v ->
  effective cwd rc [args; sfile; user; defaults] key ty = convert cwd rc ty (Some (v, user)).
Proof.
  intros cwd rc args sfile user defaults key ty v Ha Hf Hv.
  apply (effective_highest_priority cwd rc [args; sfile] user [defaults]); auto.
Qed.

Corollary default_when_unset : forall cwd rc args sfile user defaults key ty,
  unset key args -> unset key sfile -> unset key user ->
  effective cwd rc [args; sfile; user; defaults] key ty = effective cwd rc [defaults] key ty.
Proof.
  intros cwd rc args sfile user defaults key ty Ha Hf Hu.
  unfold effective. cbn [resolve]. unfold unset in Ha, Hf, Hu. rewrite Ha, Hf, Hu. reflexivity.
Qed.

(* the same with the value of config_default.yaml made explicit *)
Corollary default_value_when_unset : forall cwd rc args sfile user key ty v,
  unset key args -> unset key sfile -> unset key user ->
  assoc key yaml_defaults = Some v ->
  effective cwd rc [args; sfile; user; defaults_src] key ty = convert cwd rc ty (Some (v, defaults_src)).
Proof.
  intros cwd rc args sfile user key ty v Ha Hf Hu Hv.
  apply (effective_highest_priority cwd rc [args; sfile; user] defaults_src []); auto.
Qed.

Example layering_nonvacuous :
  let a := {| src_kind := SrcArgs; src_vals := [(s"rst.prefix", YStr (s"p"))]; src_dir := None |} in
  let f := {| src_kind := SrcFile; src_vals := [(s"input.recursive", YBool true); (s"rst.prefix", YStr (s"q"))];
              src_dir := Some (s"/cfg") |} in
  let u := {| src_kind := SrcUser; src_vals := [(s"input.recursive", YBool false);
                                                (s"rst.module_path_separator", YStr (s"/"))];
              src_dir := Some (s"/home/u") |} in
  effective (s"/w") false [a; f; u; defaults_src] (s"rst.prefix") (TOptString None) = COk (CStr (s"p"))
  /\ effective (s"/w") false [a; f; u; defaults_src] (s"input.recursive") TBool = COk (CBool true)
  /\ effective (s"/w") false [a; f; u; defaults_src] (s"rst.module_path_separator") (TString (s".")) = COk (CStr (s"/"))
  /\ effective (s"/w") false [a; f; u; defaults_src] (s"input.follow_symlinks") TBool = COk (CBool false).
Proof. vm_compute. repeat split. Qed.

(* ==================== K3: -s file first, then the arguments on top ==================== *)

Theorem stacking_order_is_file_then_args : stacking_order = [SrcFile; SrcArgs].
Proof. reflexivity. Qed.

(* ==================== K7: wrong types are rejected (one exception) ==================== *)

Lemma all_strs_none : forall l, forallb is_ystr l = false -> all_strs l = None.
Proof.
  induction l as [|v r IH]; cbn [forallb all_strs]; intros H.
  - discriminate.
  - destruct v; cbn [is_ystr andb] in H; try reflexivity.
    rewrite (IH H). reflexivity.
Qed.

Lemma all_strs_some : forall l, forallb is_ystr l = true -> exists xs, all_strs l = Some xs.
Proof.
  induction l as [|v r IH]; cbn [forallb all_strs]; intros H.
  - exists []. reflexivity.
  - destruct v; cbn [is_ystr andb] in H; try discriminate.
    destruct (IH H) as [xs E]. rewrite E. eexists. reflexivity.
Qed.

Theorem wrong_type_rejected : forall cwd rc ty v src,
  yval_has_type ty v = false ->
  ty <> TOptSeq \/ is_ystr v = false ->
  convert cwd rc ty (Some (v, src)) = CTypeError.
Proof.
  intros cwd rc ty v src H Hex.
  destruct ty; destruct v; cbn [yval_has_type] in H; try discriminate H;
    cbn [convert]; try reflexivity.
  - (* TOptSeq, YStr: excluded *)
    destruct Hex as [Hn | Hn]; [exfalso; apply Hn; reflexivity | discriminate Hn].
  - (* TStrSeq, YList with a non-string *)
    rewrite (all_strs_none _ H). reflexivity.
Qed.

(* known finding F15: a string for exclude_filters is not rejected *)
Example C16_exclude_filters_string_refuted : forall cwd rc,
  exists v src, yval_has_type TOptSeq v = false
                /\ convert cwd rc TOptSeq (Some (v, src)) <> CTypeError.
Proof.
  intros cwd rc. exists (YStr (s"build*")), defaults_src. split; [reflexivity | discriminate].
Qed.

(* the exception is exactly that one *)
Theorem wrong_type_accepted_only_optseq_str : forall cwd rc ty v src,
  yval_has_type ty v = false ->
  convert cwd rc ty (Some (v, src)) <> CTypeError ->
  ty = TOptSeq /\ is_ystr v = true.
Proof.
  intros cwd rc ty v src H Hc.
  destruct ty; destruct v; cbn [yval_has_type] in H; try discriminate H;
    cbn [convert] in Hc; try (exfalso; apply Hc; reflexivity).
  - split; reflexivity.
  - rewrite (all_strs_none _ H) in Hc. exfalso; apply Hc; reflexivity.
Qed.

(* conversely, a value of the right type is never rejected *)
Theorem right_type_accepted : forall cwd rc ty v src,
  yval_has_type ty v = true -> is_ok (convert cwd rc ty (Some (v, src))) = true.
Proof.
  intros cwd rc ty v src H.
  destruct ty; destruct v; cbn [yval_has_type] in H; try discriminate H;
    cbn [convert is_ok]; try reflexivity.
  destruct (all_strs_some _ H) as [xs E]. rewrite E. reflexivity.
Qed.

Example wrong_type_nonvacuous :
  convert (s"/w") false TBool (Some (YStr (s"yes"), defaults_src)) = CTypeError
  /\ convert (s"/w") false (TString (s".")) (Some (YInt 3, defaults_src)) = CTypeError
  /\ convert (s"/w") false TStrSeq (Some (YList [YStr (s"#"); YInt 1], defaults_src)) = CTypeError
  /\ convert (s"/w") false TOptFilename (Some (YList [], defaults_src)) = CTypeError
  /\ convert (s"/w") false TOptSeq (Some (YBool true, defaults_src)) = CTypeError
  /\ convert (s"/w") false TDict (Some (YNull, defaults_src)) = CTypeError.
Proof. vm_compute. repeat split. Qed.

(* ==================== K4: the defaults are complete and well typed ==================== *)

(* whether a conversion succeeds does not depend on cwd / relative_to_config *)
Lemma is_ok_convert_indep : forall cwd rc cwd' rc' ty found,
  is_ok (convert cwd rc ty found) = is_ok (convert cwd' rc' ty found).
Proof.
  intros cwd rc cwd' rc' ty found.
  destruct ty; destruct found as [[v src]|]; try reflexivity; destruct v; reflexivity.
Qed.

Lemma none_ok_convert : forall cwd rc ty, is_ok (convert cwd rc ty None) = none_ok ty.
Proof. intros cwd rc ty. destruct ty; reflexivity. Qed.

Lemma settings_of_ok_iff : forall cwd stack tmpl,
  settings_of cwd stack tmpl <> None <->
  forallb (fun kt => is_ok (effective cwd (rel_to_config stack) stack (fst kt) (snd kt))) tmpl = true.
Proof.
  intros cwd stack tmpl. induction tmpl as [|[k ty] r IH]; cbn [settings_of forallb fst snd].
  - split; [reflexivity | discriminate].
  - destruct (effective cwd (rel_to_config stack) stack k ty) as [v| |]; cbn [is_ok andb].
    + rewrite <- IH. destruct (settings_of cwd stack r).
      * split; intros; discriminate.
      * split; intros H; apply H; reflexivity.
    + split; [intros H; exfalso; apply H; reflexivity | discriminate].
    + split; [intros H; exfalso; apply H; reflexivity | discriminate].
Qed.

Lemma check_default_sound : forall cwd rc kt,
  check_default kt = true ->
  is_ok (effective cwd rc [defaults_src] (fst kt) (snd kt)) = true.
Proof.
  intros cwd rc [k ty] H. unfold check_default in H. cbn [fst snd] in *.
  unfold effective. cbn [resolve defaults_src src_vals].
  destruct (assoc k yaml_defaults) as [v|].
  - apply right_type_accepted. exact H.
  - rewrite none_ok_convert. exact H.
Qed.

Lemma defaults_checked : forallb check_default template = true.
Proof. vm_compute. reflexivity. Qed.

Theorem defaults_complete_and_well_typed : forall cwd k ty,
  In (k, ty) template ->
  exists v, effective cwd false [defaults_src] k ty = COk v.
Proof.
  intros cwd k ty Hin.
  assert (H := defaults_checked). rewrite forallb_forall in H.
  specialize (H _ Hin). apply (check_default_sound cwd false) in H. cbn [fst snd] in H.
  destruct (effective cwd false [defaults_src] k ty) as [v| |]; try discriminate H.
  exists v. reflexivity.
Qed.

Theorem defaults_settings_total : forall cwd, settings_of cwd [defaults_src] template <> None.
Proof.
  intros cwd. apply settings_of_ok_iff. apply forallb_forall. intros [k ty] Hin.
  assert (H := defaults_checked). rewrite forallb_forall in H.
  apply check_default_sound. apply H. exact Hin.
Qed.

(* no default is a file name, so the settings from the defaults alone do not depend on cwd *)
Example defaults_settings_value :
  option_map (@length _) (settings_of (s"/anywhere") [defaults_src] template) = Some (length template).
Proof. vm_compute. reflexivity. Qed.

(* ==================== K8: exclude patterns are the union over all sources ==================== *)

Theorem exclude_is_union : forall stack key,
  forallb (list_or_unset key) stack = true ->
  all_contents stack key = Some (expected_union key stack).
Proof.
  induction stack as [|a r IH]; intros key H; cbn [all_contents expected_union flat_map].
  - reflexivity.
  - cbn [forallb] in H. apply andb_true_iff in H. destruct H as [Ha Hr].
    specialize (IH key Hr). unfold expected_union in IH. rewrite IH.
    unfold list_or_unset in Ha. unfold list_items.
    destruct (assoc key (src_vals a)) as [v|].
    + destruct v; try discriminate Ha. cbn [items_of]. reflexivity.
    + reflexivity.
Qed.

Lemma in_expected_union : forall stack key src l x,
  In src stack -> assoc key (src_vals src) = Some (YList l) -> In x l ->
  In x (expected_union key stack).
Proof.
  intros stack key src l x Hin Hv Hx. unfold expected_union. apply in_flat_map.
  exists src. split; [exact Hin|]. unfold list_items. rewrite Hv. exact Hx.
Qed.

Corollary exclude_nothing_overridden : forall stack key src l x,
  forallb (list_or_unset key) stack = true ->
  In src stack -> assoc key (src_vals src) = Some (YList l) -> In x l ->
  exists u, all_contents stack key = Some u /\ In x u.
Proof.
  intros stack key src l x H Hin Hv Hx. exists (expected_union key stack). split.
  - apply exclude_is_union. exact H.
  - apply (in_expected_union stack key src l x); assumption.
Qed.

(* and nothing is invented: every member of the union comes from some source *)
Corollary exclude_union_only_from_sources : forall stack key x,
  In x (expected_union key stack) ->
  exists src l, In src stack /\ assoc key (src_vals src) = Some (YList l) /\ In x l.
Proof.
  intros stack key x H. unfold expected_union in H. apply in_flat_map in H.
  destruct H as (src & Hin & Hx). unfold list_items in Hx.
  destruct (assoc key (src_vals src)) as [v|] eqn:E; [|destruct Hx].
  destruct v; try (destruct Hx). exists src, l. repeat split; auto.
Qed.

Example exclude_union_nonvacuous :
  let a := {| src_kind := SrcArgs;
              src_vals := [(s"input.exclude_filters", YList [YStr (s"build*"); YStr (s"x")])];
              src_dir := None |} in
  let f := {| src_kind := SrcFile; src_vals := [(s"input.exclude_filters", YList [YStr (s"tests")])];
              src_dir := Some (s"/cfg") |} in
  forallb (list_or_unset (s"input.exclude_filters")) [a; f; defaults_src] = true
  /\ all_contents [a; f; defaults_src] (s"input.exclude_filters")
     = Some [YStr (s"build*"); YStr (s"x"); YStr (s"tests")].
Proof. vm_compute. split; reflexivity. Qed.

(* ==================== K9: resolution of the output directory ==================== *)

Lemma resolve_filename_abs : forall cwd rc p src,
  isabs p = true -> resolve_filename cwd rc p src = normpath p.
Proof. intros cwd rc p src H. unfold resolve_filename. rewrite H. reflexivity. Qed.

Lemma resolve_filename_rel_cwd : forall cwd rc p src,
  isabs p = false -> rc = false ->
  resolve_filename cwd rc p src = abspath cwd (join2 cwd p).
Proof. intros cwd rc p src H Hrc. unfold resolve_filename. rewrite H, Hrc. reflexivity. Qed.

Lemma resolve_filename_rel_config : forall cwd rc p src d,
  isabs p = false -> rc = true -> src_dir src = Some d ->
  resolve_filename cwd rc p src = abspath cwd (join2 d p).
Proof. intros cwd rc p src d H Hrc Hd. unfold resolve_filename. rewrite H, Hrc, Hd. reflexivity. Qed.

Lemma resolve_filename_rel_config_nofile : forall cwd rc p src,
  isabs p = false -> rc = true -> src_dir src = None ->
  resolve_filename cwd rc p src = abspath cwd p.
Proof. intros cwd rc p src H Hrc Hd. unfold resolve_filename. rewrite H, Hrc, Hd. reflexivity. Qed.

Lemma isabs_join2_abs : forall a b, isabs a = true -> isabs (join2 a b) = true.
Proof.
  intros a b Ha. unfold join2. destruct (isabs b) eqn:Hb; [exact Hb|].
  destruct a as [|c a']; [discriminate Ha|].
  destruct (endswith [slash] (c :: a')); cbn [app isabs]; exact Ha.
Qed.

(* abspath already joins a relative path to the cwd *)
Lemma abspath_join_cwd : forall cwd p,
  isabs cwd = true -> abspath cwd (join2 cwd p) = abspath cwd p.
Proof.
  intros cwd p Hc. unfold abspath. rewrite (isabs_join2_abs cwd p Hc).
  destruct (isabs p) eqn:Hp; [|reflexivity].
  unfold join2. rewrite Hp. reflexivity.
Qed.

Theorem resolve_filename_spec : forall cwd rc p src,
  isabs cwd = true ->
  resolve_filename cwd rc p src = expected_output_dir cwd rc p src.
Proof.
  intros cwd rc p src Hc. unfold resolve_filename, expected_output_dir, base_dir.
  destruct (isabs p) eqn:Hp; [reflexivity|].
  destruct rc; [|reflexivity].
  destruct (src_dir src) as [d|]; [reflexivity|].
  symmetry. apply abspath_join_cwd. exact Hc.
Qed.

(* the combined statement: the directory comes from the first source that sets
   output.directory and is resolved against that very source's directory *)
Theorem output_dir_resolution : forall cwd rc pre src post p,
  isabs cwd = true ->
  Forall (unset (s"output.directory")) pre ->
  assoc (s"output.directory") (src_vals src) = Some (YStr p) ->
  effective cwd rc (pre ++ src :: post) (s"output.directory") TOptFilename
  = COk (CStr (expected_output_dir cwd rc p src)).
Proof.
  intros cwd rc pre src post p Hc Hpre Hv.
  rewrite (effective_highest_priority cwd rc pre src post _ TOptFilename (YStr p) Hpre Hv).
  cbn [convert]. rewrite (resolve_filename_spec cwd rc p src Hc). reflexivity.
Qed.

(* without any hypothesis on cwd, in terms of resolve_filename *)
Theorem output_dir_resolution_raw : forall cwd rc pre src post p,
  Forall (unset (s"output.directory")) pre ->
  assoc (s"output.directory") (src_vals src) = Some (YStr p) ->
  effective cwd rc (pre ++ src :: post) (s"output.directory") TOptFilename
  = COk (CStr (resolve_filename cwd rc p src)).
Proof.
  intros cwd rc pre src post p Hpre Hv.
  rewrite (effective_highest_priority cwd rc pre src post _ TOptFilename (YStr p) Hpre Hv).
  reflexivity.
Qed.

Theorem output_dir_unset_is_none : forall cwd rc stack,
  Forall (unset (s"output.directory")) stack ->
  effective cwd rc stack (s"output.directory") TOptFilename = COk CNone.
Proof. intros cwd rc stack H. rewrite effective_all_unset by exact H. reflexivity. Qed.

Example output_dir_nonvacuous :
  let a := {| src_kind := SrcArgs; src_vals := [(s"rst.prefix", YStr (s"p"))]; src_dir := None |} in
  let f := {| src_kind := SrcFile; src_vals := [(s"output.directory", YStr (s"../out"))];
              src_dir := Some (s"/cfg/sub") |} in
  let u := {| src_kind := SrcUser; src_vals := [(s"output.directory", YStr (s"userout"))];
              src_dir := Some (s"/home/u") |} in
  effective (s"/w/d") true [a; f; u; defaults_src] (s"output.directory") TOptFilename = COk (CStr (s"/cfg/out"))
  /\ effective (s"/w/d") false [a; f; u; defaults_src] (s"output.directory") TOptFilename = COk (CStr (s"/w/out"))
  /\ effective (s"/w/d") true [a; u; defaults_src] (s"output.directory") TOptFilename = COk (CStr (s"/home/u/userout"))
  /\ effective (s"/w/d") true
       [{| src_kind := SrcArgs; src_vals := [(s"output.directory", YStr (s"o"))]; src_dir := None |}; f]
       (s"output.directory") TOptFilename = COk (CStr (s"/w/d/o")).
Proof. vm_compute. repeat split. Qed.
