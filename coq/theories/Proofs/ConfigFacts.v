(* Proofs/ConfigFacts.v -- the settings layering of cminx.main() (property C16):
   command line > -s file > user config > defaults, defaults complete and well typed,
   wrong-typed values rejected, exclude patterns are a union, output directory resolution.
   Theorems mentioning yaml_defaults / template / dataclass_fields / cli_table /
   stacking_order are closed boolean computations over the generated tables (or generic in
   the table plus a computed side condition), so they are re-checked on every regeneration. *)
From Coq Require Import String List NArith Bool Arith Lia.
From CMinx Require Import Base.Str Model.Path Model.Config Gen.ConfigData.
From CMinx Require Extract.Tree Extract.Dispatch.
Import ListNotations.

(* ---- spec ---- *)

(* the source does not set the key *)
Definition unset (key : str) (src : source) : Prop := assoc key (src_vals src) = None.

(* config_default.yaml as the lowest-priority source *)
Definition defaults_src : source :=
  {| src_kind := SrcDefaults; src_vals := yaml_defaults; src_dir := None |}.

Definition is_ok (r : cres) : bool := match r with COk _ => true | _ => false end.

Definition is_ystr (v : yval) : bool := match v with YStr _ => true | _ => false end.
Definition is_ymap (v : yval) : bool := match v with YMap _ => true | _ => false end.

(* the value kinds the property allows for each template type *)
Definition yval_has_type (ty : oty) (v : yval) : bool :=
  match ty, v with
  | TBool, YBool _ => true
  | TOptString _, YStr _ | TOptString _, YNull => true
  | TString _, YStr _ => true
  | TOptSeq, YList _ | TOptSeq, YNull => true
  | TStrSeq, YStr _ => true
  | TStrSeq, YList l => forallb is_ystr l
  | TOptFilename, YStr _ | TOptFilename, YNull => true
  | TDict, YMap _ => true
  | _, _ => false
  end.

(* the two documented cases in which the TEMPLATE ALONE accepts a value of a type the property
   does not allow:  F15 a string for a TOptSeq option (main() rejects it through all_contents,
   repo commit 58e9c7d), and F27 a mapping for a TStrSeq option (StrSeq would use its keys;
   main() now rejects it through the isinstance check on rst.headers, Config.headers_ok).
   Both are closed at the level of main(): see wrong_type_rejected_by_main below *)
Definition known_exception (ty : oty) (v : yval) : bool :=
  match ty, v with
  | TOptSeq, YStr _ => true
  | TStrSeq, YMap _ => true
  | _, _ => false
  end.

(* template types whose option may be missing from every source *)
Definition none_ok (ty : oty) : bool :=
  match ty with
  | TBool | TStrSeq | TDict => false
  | _ => true
  end.

(* K4: a default is acceptable for its template type (no cwd involved) *)
Definition check_default (kt : str * oty) : bool :=
  match assoc (fst kt) yaml_defaults with
  | Some v => yval_has_type (snd kt) v
  | None => none_ok (snd kt)
  end.

(* K5: option paths of a dataclass section / template keys of a section *)
Definition field_paths (sec : str) (fields : list str) : list str :=
  map (fun f => sec ++ [dot] ++ f) fields.
Definition section_keys (sec : str) : list str :=
  filter (startswith (sec ++ [dot])) (map fst template).
Definition subset_str (a b : list str) : bool := forallb (fun x => mem_str x b) a.
Definition check_section (e : str * list str * bool) : bool :=
  let '(sec, fields, kw) := e in
  if kw then subset_str (field_paths sec fields) (section_keys sec)
            && subset_str (section_keys sec) (field_paths sec fields)
  else true.

(* K6: dests that are not options of the template *)
Definition non_option_dests : list str := [s"files"; s"settings"; s"version"].
Definition check_dest (a : cli_arg) : bool :=
  mem_str (a_dest a) non_option_dests || mem_str (a_dest a) (map fst template).

(* K8: what one source contributes to the exclude list when it holds a list *)
Definition list_items (key : str) (src : source) : list yval :=
  match assoc key (src_vals src) with
  | Some (YList l) => l
  | _ => []
  end.
Definition expected_union (key : str) (stack : list source) : list yval :=
  flat_map (list_items key) stack.
(* what main() accepts as the exclude_filters value of one source: null or a list of strings *)
Definition excl_value_ok (v : yval) : bool :=
  match v with
  | YNull => true
  | YList l => forallb is_ystr l
  | _ => false
  end.
Definition excl_src_ok (key : str) (src : source) : bool :=
  match assoc key (src_vals src) with
  | Some v => excl_value_ok v
  | None => true
  end.

(* the two option paths main() checks itself, after the template validation *)
Definition excl_opt : str := s"input.exclude_filters".
Definition headers_opt : str := s"rst.headers".

(* main-level acceptance of a source stack: the three steps of main() that can reject a
   configuration, in the order of the source -- settings.get(template) (settings_of), the
   isinstance check on the raw rst.headers value (headers_ok, repair of F27), the loop over
   the exclude filters of every source (all_contents, repair of F15).  This is the condition
   under which Extract/Dispatch.main_settings answers code 0 and under which the translated
   main() raises nothing (Proofs/MainSourceMatch.v, main_raises_iff_not_accepted) *)
Definition main_accepts (cwd : str) (stack : list source) : bool :=
  match settings_of cwd stack template with
  | None => false
  | Some _ =>
      headers_ok stack
      && match all_contents stack excl_opt with Some _ => true | None => false end
  end.

(* the options of the template whose type has a template-level exception are exactly the two
   options main() checks: TOptSeq only input.exclude_filters, TStrSeq only rst.headers
   (a computed condition on the generated table: a new option of such a type would make the
   proofs below stop compiling) *)
Definition exception_covered (kt : str * oty) : bool :=
  match snd kt with
  | TOptSeq => str_eqb (fst kt) excl_opt
  | TStrSeq => str_eqb (fst kt) headers_opt
  | _ => true
  end.

(* K9: the directory a relative output directory is resolved against *)
Definition base_dir (cwd : str) (rc : bool) (src : source) : str :=
  if rc then match src_dir src with Some d => d | None => cwd end else cwd.
Definition expected_output_dir (cwd : str) (rc : bool) (p : str) (src : source) : str :=
  if isabs p then normpath p else abspath cwd (join2 (base_dir cwd rc src) p).

(* K10: every value a source gives to a template key has the template type *)
Definition src_well_typed (tmpl : list (str * oty)) (src : source) : bool :=
  forallb (fun kt => match assoc (fst kt) (src_vals src) with
                     | Some v => yval_has_type (snd kt) v
                     | None => true
                     end) tmpl.

(* ---- basic string facts ---- *)

Lemma str_eqb_eq : forall a b, str_eqb a b = true <-> a = b.
Proof.
  induction a as [|x a IH]; destruct b as [|y b]; cbn [str_eqb].
  - split; reflexivity.
  - split; discriminate.
  - split; discriminate.
  - rewrite andb_true_iff, N.eqb_eq, IH. split.
    + intros [Hx Ha]. subst. reflexivity.
    + intros E. inversion E. split; reflexivity.
Qed.

Lemma str_eqb_refl : forall a, str_eqb a a = true.
Proof. intros a. apply str_eqb_eq. reflexivity. Qed.

Lemma mem_str_In : forall x l, mem_str x l = true <-> In x l.
Proof.
  intros x l. induction l as [|y r IH]; cbn [mem_str In].
  - split; [discriminate | intros []].
  - rewrite orb_true_iff, IH, str_eqb_eq. split.
    + intros [E | H]; [left; symmetry; exact E | right; exact H].
    + intros [E | H]; [left; symmetry; exact E | right; exact H].
Qed.

Lemma assoc_In : forall (A : Type) k (l : list (str * A)) v, assoc k l = Some v -> In (k, v) l.
Proof.
  intros A k l. induction l as [|[k' v'] r IH]; intros v H; cbn [assoc] in H.
  - discriminate.
  - destruct (str_eqb k k') eqn:E.
    + apply str_eqb_eq in E. inversion H. subst. left. reflexivity.
    + right. apply IH. exact H.
Qed.

(* ==================== K1: resolve = first source that sets the key ==================== *)

Theorem resolve_first_setting_source : forall stack key v src,
  resolve stack key = Some (v, src) <->
  exists pre post, stack = pre ++ src :: post
                   /\ assoc key (src_vals src) = Some v
                   /\ Forall (unset key) pre.
Proof.
  induction stack as [|a r IH]; intros key v src; cbn [resolve].
  - split; [discriminate|]. intros (pre & post & E & _). destruct pre; discriminate.
  - destruct (assoc key (src_vals a)) as [va|] eqn:Ea.
    + split.
      * intros H. inversion H. subst. exists [], r. repeat split; auto.
      * intros (pre & post & E & Hv & Hpre). destruct pre as [|b pre]; cbn [app] in E.
        -- inversion E. subst. rewrite Ea in Hv. inversion Hv. reflexivity.
        -- inversion E. subst. inversion Hpre as [|x l Hb Hl]. subst.
           unfold unset in Hb. rewrite Ea in Hb. discriminate.
    + rewrite IH. split.
      * intros (pre & post & E & Hv & Hpre). exists (a :: pre), post. subst.
        repeat split; auto.
      * intros (pre & post & E & Hv & Hpre). destruct pre as [|b pre]; cbn [app] in E.
        -- inversion E. subst. rewrite Ea in Hv. discriminate.
        -- inversion E. subst. inversion Hpre as [|x l Hb Hl]. subst.
           exists pre, post. repeat split; auto.
Qed.

Theorem resolve_none : forall stack key,
  resolve stack key = None <-> Forall (unset key) stack.
Proof.
  induction stack as [|a r IH]; intros key; cbn [resolve].
  - split; auto.
  - destruct (assoc key (src_vals a)) as [va|] eqn:Ea.
    + split; [discriminate|]. intros H. inversion H as [|x l Ha Hl]. subst.
      unfold unset in Ha. rewrite Ea in Ha. discriminate.
    + rewrite IH. split.
      * intros H. constructor; auto.
      * intros H. inversion H. assumption.
Qed.

(* a small hand-written bottom source for the examples (independent of the generated tables) *)
Definition ex_defaults : source :=
  {| src_kind := SrcDefaults;
     src_vals := [(s"input.recursive", YBool false); (s"input.follow_symlinks", YBool false);
                  (s"rst.headers", YList [YStr (s"#")]); (s"rst.module_path_separator", YStr (s"."))];
     src_dir := None |}.

Example resolve_first_nonvacuous :
  let a := {| src_kind := SrcArgs; src_vals := [(s"rst.prefix", YStr (s"p"))]; src_dir := None |} in
  let f := {| src_kind := SrcFile; src_vals := [(s"input.recursive", YBool true); (s"rst.prefix", YStr (s"q"))];
              src_dir := Some (s"/cfg") |} in
  resolve [a; f; ex_defaults] (s"input.recursive") = Some (YBool true, f)
  /\ resolve [a; f; ex_defaults] (s"rst.prefix") = Some (YStr (s"p"), a)
  /\ resolve [a; f; ex_defaults] (s"rst.headers") <> None
  /\ resolve [a; f; ex_defaults] (s"output.directory") = None.
Proof. vm_compute. repeat split; discriminate. Qed.

(* ==================== K2: the highest-priority source wins ==================== *)

Theorem effective_highest_priority : forall cwd rc pre src post key ty v,
  Forall (unset key) pre ->
  assoc key (src_vals src) = Some v ->
  effective cwd rc (pre ++ src :: post) key ty = convert cwd rc ty (Some (v, src)).
Proof.
  intros cwd rc pre src post key ty v Hpre Hv. unfold effective.
  assert (R : resolve (pre ++ src :: post) key = Some (v, src)).
  { apply resolve_first_setting_source. exists pre, post. repeat split; auto. }
  rewrite R. reflexivity.
Qed.

Theorem effective_all_unset : forall cwd rc stack key ty,
  Forall (unset key) stack ->
  effective cwd rc stack key ty = convert cwd rc ty None.
Proof.
  intros cwd rc stack key ty H. unfold effective.
  apply resolve_none in H. rewrite H. reflexivity.
Qed.

Corollary cli_wins : forall cwd rc args sfile user defaults key ty v,
  assoc key (src_vals args) = Some v ->
  effective cwd rc [args; sfile; user; defaults] key ty = convert cwd rc ty (Some (v, args)).
Proof.
  intros cwd rc args sfile user defaults key ty v Hv.
  apply (effective_highest_priority cwd rc [] args [sfile; user; defaults]); auto.
Qed.

Corollary sfile_wins_over_user : forall cwd rc args sfile user defaults key ty v,
  unset key args ->
  assoc key (src_vals sfile) = Some v ->
  effective cwd rc [args; sfile; user; defaults] key ty = convert cwd rc ty (Some (v, sfile)).
Proof.
  intros cwd rc args sfile user defaults key ty v Ha Hv.
  apply (effective_highest_priority cwd rc [args] sfile [user; defaults]); auto.
Qed.

Corollary user_wins_over_defaults : forall cwd rc args sfile user defaults key ty v,
  unset key args -> unset key sfile ->
  assoc key (src_vals user) = Some v ->
  effective cwd rc [args; sfile; user; defaults] key ty = convert cwd rc ty (Some (v, user)).
Proof.
  intros cwd rc args sfile user defaults key ty v Ha Hf Hv.
  apply (effective_highest_priority cwd rc [args; sfile] user [defaults]); auto.
Qed.

Corollary default_when_unset : forall cwd rc args sfile user defaults key ty,
  unset key args -> unset key sfile -> unset key user ->
  effective cwd rc [args; sfile; user; defaults] key ty = effective cwd rc [defaults] key ty.
Proof.
  intros cwd rc args sfile user defaults key ty Ha Hf Hu.
  unfold effective. cbn [resolve]. unfold unset in Ha, Hf, Hu. rewrite Ha, Hf, Hu. reflexivity.
Qed.

(* the same with the value of config_default.yaml made explicit *)
Corollary default_value_when_unset : forall cwd rc args sfile user key ty v,
  unset key args -> unset key sfile -> unset key user ->
  assoc key yaml_defaults = Some v ->
  effective cwd rc [args; sfile; user; defaults_src] key ty = convert cwd rc ty (Some (v, defaults_src)).
Proof.
  intros cwd rc args sfile user key ty v Ha Hf Hu Hv.
  apply (effective_highest_priority cwd rc [args; sfile; user] defaults_src []); auto.
Qed.

Example layering_nonvacuous :
  let a := {| src_kind := SrcArgs; src_vals := [(s"rst.prefix", YStr (s"p"))]; src_dir := None |} in
  let f := {| src_kind := SrcFile; src_vals := [(s"input.recursive", YBool true); (s"rst.prefix", YStr (s"q"))];
              src_dir := Some (s"/cfg") |} in
  let u := {| src_kind := SrcUser; src_vals := [(s"input.recursive", YBool false);
                                                (s"rst.module_path_separator", YStr (s"/"))];
              src_dir := Some (s"/home/u") |} in
  effective (s"/w") false [a; f; u; ex_defaults] (s"rst.prefix") (TOptString None) = COk (CStr (s"p"))
  /\ effective (s"/w") false [a; f; u; ex_defaults] (s"input.recursive") TBool = COk (CBool true)
  /\ effective (s"/w") false [a; f; u; ex_defaults] (s"rst.module_path_separator") (TString (s".")) = COk (CStr (s"/"))
  /\ effective (s"/w") false [a; f; u; ex_defaults] (s"input.follow_symlinks") TBool = COk (CBool false).
Proof. vm_compute. repeat split. Qed.

(* ==================== K3: -s file first, then the arguments on top ==================== *)

Theorem stacking_order_is_file_then_args : stacking_order = [SrcFile; SrcArgs].
Proof. reflexivity. Qed.

(* ==================== K7: wrong types are rejected (by the template: two exceptions,
   both closed by main(), see K11) ==================== *)

Lemma all_strs_none : forall l, forallb is_ystr l = false -> all_strs l = None.
Proof.
  induction l as [|v r IH]; cbn [forallb all_strs]; intros H.
  - discriminate.
  - destruct v; cbn [is_ystr andb] in H; try reflexivity.
    rewrite (IH H). reflexivity.
Qed.

Lemma all_strs_some : forall l, forallb is_ystr l = true -> exists xs, all_strs l = Some xs.
Proof.
  induction l as [|v r IH]; cbn [forallb all_strs]; intros H.
  - exists []. reflexivity.
  - destruct v; cbn [is_ystr andb] in H; try discriminate.
    destruct (IH H) as [xs E]. rewrite E. eexists. reflexivity.
Qed.

Lemma known_exception_spec : forall ty v,
  known_exception ty v = true <->
  (ty = TOptSeq /\ is_ystr v = true) \/ (ty = TStrSeq /\ is_ymap v = true).
Proof.
  intros ty v. split.
  - intros H. destruct ty; destruct v; try discriminate H.
    + left. split; reflexivity.
    + right. split; reflexivity.
  - intros [[Et Ev] | [Et Ev]]; subst ty; destruct v; try discriminate Ev; reflexivity.
Qed.

Theorem wrong_type_rejected : forall cwd rc ty v src,
  yval_has_type ty v = false ->
  known_exception ty v = false ->
  convert cwd rc ty (Some (v, src)) = CTypeError.
Proof.
  intros cwd rc ty v src H Hex.
  destruct ty; destruct v; cbn [yval_has_type] in H; try discriminate H;
    cbn [known_exception] in Hex; try discriminate Hex;
    cbn [convert]; try reflexivity.
  (* TStrSeq, YList with a non-string *)
  rewrite (all_strs_none _ H). reflexivity.
Qed.

(* the same with the two exceptions spelled out *)
Corollary wrong_type_rejected_explicit : forall cwd rc ty v src,
  yval_has_type ty v = false ->
  ~ (ty = TOptSeq /\ is_ystr v = true) ->
  ~ (ty = TStrSeq /\ is_ymap v = true) ->
  convert cwd rc ty (Some (v, src)) = CTypeError.
Proof.
  intros cwd rc ty v src H H1 H2. apply wrong_type_rejected; [exact H|].
  destruct (known_exception ty v) eqn:E; [|reflexivity].
  apply known_exception_spec in E. destruct E as [E | E]; [destruct (H1 E) | destruct (H2 E)].
Qed.

(* F15, template level: Optional(list) alone accepts a string (a str is a Sequence).  Since
   repo commit 58e9c7d main() rejects it all the same, through all_contents: see
   exclude_filters_string_rejected_by_main below *)
Example C16_exclude_filters_string_refuted : forall cwd rc,
  exists v src, yval_has_type TOptSeq v = false
                /\ convert cwd rc TOptSeq (Some (v, src)) <> CTypeError.
Proof.
  intros cwd rc. exists (YStr (s"build*")), defaults_src. split; [reflexivity | discriminate].
Qed.

Example exclude_filters_string_accepted_by_template_alone : forall cwd rc x src,
  yval_has_type TOptSeq (YStr x) = false
  /\ convert cwd rc TOptSeq (Some (YStr x, src)) = COk (CStrs []).
Proof. intros cwd rc x src. split; reflexivity. Qed.

(* F27, template level: StrSeq ALONE accepts a mapping given for rst.headers and would take its
   keys as the headers (list(value) of a dict); this is the behaviour of the confuse library and
   it stays in convert.  Since the repair of F27 main() rejects the mapping all the same, by its
   own isinstance check after settings.get: see headers_mapping_rejected_by_main below.  The two
   statements that follow are therefore about the TEMPLATE ALONE, not about a run of main() *)
Example C16_headers_mapping_refuted : forall cwd rc,
  exists ks src, yval_has_type TStrSeq (YMap ks) = false
                 /\ convert cwd rc TStrSeq (Some (YMap ks, src)) = COk (CStrs ks).
Proof.
  intros cwd rc. exists [s"#"; s"*"], defaults_src. split; reflexivity.
Qed.

(* template alone (see above) *)
Example headers_mapping_accepted : forall cwd rc ks src,
  yval_has_type TStrSeq (YMap ks) = false
  /\ convert cwd rc TStrSeq (Some (YMap ks, src)) = COk (CStrs ks).
Proof. intros cwd rc ks src. split; reflexivity. Qed.

(* there are exactly these two exceptions (of the template alone; none is left for main()) *)
Theorem wrong_type_accepted_only_two_exceptions : forall cwd rc ty v src,
  yval_has_type ty v = false ->
  convert cwd rc ty (Some (v, src)) <> CTypeError ->
  (ty = TOptSeq /\ is_ystr v = true) \/ (ty = TStrSeq /\ is_ymap v = true).
Proof.
  intros cwd rc ty v src H Hc. apply known_exception_spec.
  destruct (known_exception ty v) eqn:E; [reflexivity|].
  exfalso. apply Hc. apply wrong_type_rejected; assumption.
Qed.

(* conversely, a value of the right type is never rejected *)
Theorem right_type_accepted : forall cwd rc ty v src,
  yval_has_type ty v = true -> is_ok (convert cwd rc ty (Some (v, src))) = true.
Proof.
  intros cwd rc ty v src H.
  destruct ty; destruct v; cbn [yval_has_type] in H; try discriminate H;
    cbn [convert is_ok]; try reflexivity.
  destruct (all_strs_some _ H) as [xs E]. rewrite E. reflexivity.
Qed.

Example wrong_type_nonvacuous :
  convert (s"/w") false TBool (Some (YStr (s"yes"), defaults_src)) = CTypeError
  /\ convert (s"/w") false (TString (s".")) (Some (YInt 3, defaults_src)) = CTypeError
  /\ convert (s"/w") false TStrSeq (Some (YList [YStr (s"#"); YInt 1], defaults_src)) = CTypeError
  /\ convert (s"/w") false TOptFilename (Some (YList [], defaults_src)) = CTypeError
  /\ convert (s"/w") false TOptSeq (Some (YBool true, defaults_src)) = CTypeError
  /\ convert (s"/w") false TDict (Some (YNull, defaults_src)) = CTypeError.
Proof. vm_compute. repeat split. Qed.

(* ==================== K4: the defaults are complete and well typed ==================== *)

(* whether a conversion succeeds does not depend on cwd / relative_to_config *)
Lemma is_ok_convert_indep : forall cwd rc cwd' rc' ty found,
  is_ok (convert cwd rc ty found) = is_ok (convert cwd' rc' ty found).
Proof.
  intros cwd rc cwd' rc' ty found.
  destruct ty; destruct found as [[v src]|]; try reflexivity; destruct v; reflexivity.
Qed.

Lemma none_ok_convert : forall cwd rc ty, is_ok (convert cwd rc ty None) = none_ok ty.
Proof. intros cwd rc ty. destruct ty; reflexivity. Qed.

Lemma settings_of_ok_iff : forall cwd stack tmpl,
  settings_of cwd stack tmpl <> None <->
  forallb (fun kt => is_ok (effective cwd (rel_to_config stack) stack (fst kt) (snd kt))) tmpl = true.
Proof.
  intros cwd stack tmpl. induction tmpl as [|[k ty] r IH]; cbn [settings_of forallb fst snd].
  - split; [reflexivity | discriminate].
  - destruct (effective cwd (rel_to_config stack) stack k ty) as [v| |]; cbn [is_ok andb].
    + rewrite <- IH. destruct (settings_of cwd stack r).
      * split; intros; discriminate.
      * split; intros H; apply H; reflexivity.
    + split; [intros H; exfalso; apply H; reflexivity | discriminate].
    + split; [intros H; exfalso; apply H; reflexivity | discriminate].
Qed.

Lemma check_default_sound : forall cwd rc kt,
  check_default kt = true ->
  is_ok (effective cwd rc [defaults_src] (fst kt) (snd kt)) = true.
Proof.
  intros cwd rc [k ty] H. unfold check_default in H. cbn [fst snd] in *.
  unfold effective. cbn [resolve defaults_src src_vals].
  destruct (assoc k yaml_defaults) as [v|].
  - apply right_type_accepted. exact H.
  - rewrite none_ok_convert. exact H.
Qed.

Lemma defaults_checked : forallb check_default template = true.
Proof. vm_compute. reflexivity. Qed.

Theorem defaults_complete_and_well_typed : forall cwd k ty,
  In (k, ty) template ->
  exists v, effective cwd false [defaults_src] k ty = COk v.
Proof.
  intros cwd k ty Hin.
  assert (H := defaults_checked). rewrite forallb_forall in H.
  specialize (H _ Hin). apply (check_default_sound cwd false) in H. cbn [fst snd] in H.
  destruct (effective cwd false [defaults_src] k ty) as [v| |]; try discriminate H.
  exists v. reflexivity.
Qed.

Theorem defaults_settings_total : forall cwd, settings_of cwd [defaults_src] template <> None.
Proof.
  intros cwd. apply settings_of_ok_iff. apply forallb_forall. intros [k ty] Hin.
  assert (H := defaults_checked). rewrite forallb_forall in H.
  apply check_default_sound. apply H. exact Hin.
Qed.

(* no default is a file name, so the settings from the defaults alone do not depend on cwd *)
Example defaults_settings_value :
  option_map (@length _) (settings_of (s"/anywhere") [defaults_src] template) = Some (length template).
Proof. vm_compute. reflexivity. Qed.

(* ==================== K8: exclude patterns are the union over all sources ==================== *)

Lemma items_of_ok : forall v,
  excl_value_ok v = true ->
  items_of v = Some (match v with YList l => l | _ => [] end).
Proof.
  intros v H. destruct v; cbn [excl_value_ok] in H; try discriminate H; cbn [items_of].
  - reflexivity.
  - destruct (all_strs_some _ H) as [xs E]. rewrite E. reflexivity.
Qed.

Lemma items_of_bad : forall v, excl_value_ok v = false -> items_of v = None.
Proof.
  intros v H. destruct v; cbn [excl_value_ok] in H; try discriminate H; cbn [items_of];
    try reflexivity.
  rewrite (all_strs_none _ H). reflexivity.
Qed.

Theorem exclude_is_union : forall stack key,
  forallb (excl_src_ok key) stack = true ->
  all_contents stack key = Some (expected_union key stack).
Proof.
  induction stack as [|a r IH]; intros key H; cbn [all_contents expected_union flat_map].
  - reflexivity.
  - cbn [forallb] in H. apply andb_true_iff in H. destruct H as [Ha Hr].
    specialize (IH key Hr). unfold expected_union in IH. rewrite IH.
    unfold excl_src_ok in Ha. unfold list_items.
    destruct (assoc key (src_vals a)) as [v|].
    + rewrite (items_of_ok v Ha). destruct v; reflexivity.
    + reflexivity.
Qed.

(* main() fails as soon as ANY source (not only the winning one) gives a value that is not
   null or a list of strings: this closes F15 at the level of main() *)
Theorem exclude_wrong_type_rejected : forall stack key,
  (exists src v, In src stack /\ assoc key (src_vals src) = Some v /\ excl_value_ok v = false) ->
  all_contents stack key = None.
Proof.
  induction stack as [|a r IH]; intros key (src & v & Hin & Hv & Hbad).
  - destruct Hin.
  - cbn [all_contents]. destruct Hin as [E | Hin].
    + subst a. rewrite Hv. rewrite (items_of_bad v Hbad). reflexivity.
    + rewrite (IH key) by (exists src, v; repeat split; assumption).
      destruct (assoc key (src_vals a)) as [va|]; [|reflexivity].
      destruct (items_of va); reflexivity.
Qed.

Theorem exclude_accepted_iff_all_sources_ok : forall stack key,
  all_contents stack key <> None <-> forallb (excl_src_ok key) stack = true.
Proof.
  intros stack key. split.
  - intros H. apply forallb_forall. intros src Hin. unfold excl_src_ok.
    destruct (assoc key (src_vals src)) as [v|] eqn:Hv; [|reflexivity].
    destruct (excl_value_ok v) eqn:Hok; [reflexivity|].
    exfalso. apply H. apply exclude_wrong_type_rejected.
    exists src, v. repeat split; assumption.
  - intros H. rewrite (exclude_is_union stack key H). discriminate.
Qed.

Corollary exclude_rejected_iff_some_source_bad : forall stack key,
  all_contents stack key = None <-> forallb (excl_src_ok key) stack = false.
Proof.
  intros stack key. destruct (forallb (excl_src_ok key) stack) eqn:E.
  - apply exclude_accepted_iff_all_sources_ok in E. split; [intros H; destruct (E H) | discriminate].
  - split; [reflexivity|]. intros _.
    destruct (all_contents stack key) eqn:A; [|reflexivity].
    assert (N : all_contents stack key <> None) by (rewrite A; discriminate).
    apply exclude_accepted_iff_all_sources_ok in N. rewrite N in E. discriminate E.
Qed.

(* on the four-source stack of main() *)
Corollary exclude_four_sources : forall args sfile user defaults key,
  (excl_src_ok key args && excl_src_ok key sfile && excl_src_ok key user && excl_src_ok key defaults = true ->
   all_contents [args; sfile; user; defaults] key
   = Some (list_items key args ++ list_items key sfile ++ list_items key user ++ list_items key defaults))
  /\ (excl_src_ok key args && excl_src_ok key sfile && excl_src_ok key user && excl_src_ok key defaults = false ->
      all_contents [args; sfile; user; defaults] key = None).
Proof.
  intros args sfile user defaults key. split; intros H.
  - rewrite exclude_is_union.
    + unfold expected_union. cbn [flat_map]. rewrite app_nil_r. reflexivity.
    + cbn [forallb]. rewrite andb_true_r. rewrite <- !andb_assoc in H. exact H.
  - apply exclude_rejected_iff_some_source_bad. cbn [forallb]. rewrite andb_true_r.
    rewrite <- !andb_assoc in H. exact H.
Qed.

Corollary exclude_four_sources_wrong_type_rejected : forall args sfile user defaults key src v,
  In src [args; sfile; user; defaults] ->
  assoc key (src_vals src) = Some v -> excl_value_ok v = false ->
  all_contents [args; sfile; user; defaults] key = None.
Proof.
  intros args sfile user defaults key src v Hin Hv Hbad. apply exclude_wrong_type_rejected.
  exists src, v. repeat split; assumption.
Qed.

(* F15 closed: a string for exclude_filters in any source makes main() fail *)
Theorem exclude_filters_string_rejected_by_main : forall pre src post key x,
  assoc key (src_vals src) = Some (YStr x) ->
  all_contents (pre ++ src :: post) key = None.
Proof.
  intros pre src post key x Hv. apply exclude_wrong_type_rejected.
  exists src, (YStr x). repeat split; [apply in_or_app; right; left; reflexivity | exact Hv].
Qed.

Lemma in_expected_union : forall stack key src l x,
  In src stack -> assoc key (src_vals src) = Some (YList l) -> In x l ->
  In x (expected_union key stack).
Proof.
  intros stack key src l x Hin Hv Hx. unfold expected_union. apply in_flat_map.
  exists src. split; [exact Hin|]. unfold list_items. rewrite Hv. exact Hx.
Qed.

Corollary exclude_nothing_overridden : forall stack key src l x,
  forallb (excl_src_ok key) stack = true ->
  In src stack -> assoc key (src_vals src) = Some (YList l) -> In x l ->
  exists u, all_contents stack key = Some u /\ In x u.
Proof.
  intros stack key src l x H Hin Hv Hx. exists (expected_union key stack). split.
  - apply exclude_is_union. exact H.
  - apply (in_expected_union stack key src l x); assumption.
Qed.

(* and nothing is invented: every member of the union comes from some source *)
Corollary exclude_union_only_from_sources : forall stack key x,
  In x (expected_union key stack) ->
  exists src l, In src stack /\ assoc key (src_vals src) = Some (YList l) /\ In x l.
Proof.
  intros stack key x H. unfold expected_union in H. apply in_flat_map in H.
  destruct H as (src & Hin & Hx). unfold list_items in Hx.
  destruct (assoc key (src_vals src)) as [v|] eqn:E; [|destruct Hx].
  destruct v; try (destruct Hx). exists src, l. repeat split; auto.
Qed.

Example exclude_union_nonvacuous :
  let a := {| src_kind := SrcArgs;
              src_vals := [(s"input.exclude_filters", YList [YStr (s"build*"); YStr (s"x")])];
              src_dir := None |} in
  let f := {| src_kind := SrcFile; src_vals := [(s"input.exclude_filters", YList [YStr (s"tests")])];
              src_dir := Some (s"/cfg") |} in
  let u := {| src_kind := SrcUser; src_vals := [(s"input.exclude_filters", YNull)];
              src_dir := Some (s"/home/u") |} in
  forallb (excl_src_ok (s"input.exclude_filters")) [a; f; u; ex_defaults] = true
  /\ all_contents [a; f; u; ex_defaults] (s"input.exclude_filters")
     = Some [YStr (s"build*"); YStr (s"x"); YStr (s"tests")].
Proof. vm_compute. split; reflexivity. Qed.

(* a bad value in the LOWEST of the sources that set the key is enough to fail; so is a list
   with a non-string, a mapping, a number or a boolean *)
Example exclude_rejection_nonvacuous :
  let a := {| src_kind := SrcArgs; src_vals := [(s"input.exclude_filters", YList [YStr (s"build*")])];
              src_dir := None |} in
  let bad v := {| src_kind := SrcUser; src_vals := [(s"input.exclude_filters", v)];
                  src_dir := Some (s"/home/u") |} in
  map (fun v => all_contents [a; bad v; ex_defaults] (s"input.exclude_filters"))
      [YStr (s"build*"); YList [YStr (s"a"); YInt 1]; YMap [s"a"]; YInt 3; YBool true]
  = [None; None; None; None; None].
Proof. vm_compute. reflexivity. Qed.

(* ==================== K9: resolution of the output directory ==================== *)

Lemma resolve_filename_abs : forall cwd rc p src,
  isabs p = true -> resolve_filename cwd rc p src = normpath p.
Proof. intros cwd rc p src H. unfold resolve_filename. rewrite H. reflexivity. Qed.

Lemma resolve_filename_rel_cwd : forall cwd rc p src,
  isabs p = false -> rc = false ->
  resolve_filename cwd rc p src = abspath cwd (join2 cwd p).
Proof. intros cwd rc p src H Hrc. unfold resolve_filename. rewrite H, Hrc. reflexivity. Qed.

Lemma resolve_filename_rel_config : forall cwd rc p src d,
  isabs p = false -> rc = true -> src_dir src = Some d ->
  resolve_filename cwd rc p src = abspath cwd (join2 d p).
Proof. intros cwd rc p src d H Hrc Hd. unfold resolve_filename. rewrite H, Hrc, Hd. reflexivity. Qed.

Lemma resolve_filename_rel_config_nofile : forall cwd rc p src,
  isabs p = false -> rc = true -> src_dir src = None ->
  resolve_filename cwd rc p src = abspath cwd p.
Proof. intros cwd rc p src H Hrc Hd. unfold resolve_filename. rewrite H, Hrc, Hd. reflexivity. Qed.

Lemma isabs_join2_abs : forall a b, isabs a = true -> isabs (join2 a b) = true.
Proof.
  intros a b Ha. unfold join2. destruct (isabs b) eqn:Hb; [exact Hb|].
  destruct a as [|c a']; [discriminate Ha|].
  destruct (endswith [slash] (c :: a')); cbn [app isabs]; exact Ha.
Qed.

(* abspath already joins a relative path to the cwd *)
Lemma abspath_join_cwd : forall cwd p,
  isabs cwd = true -> abspath cwd (join2 cwd p) = abspath cwd p.
Proof.
  intros cwd p Hc. unfold abspath. rewrite (isabs_join2_abs cwd p Hc).
  destruct (isabs p) eqn:Hp; [|reflexivity].
  unfold join2. rewrite Hp. reflexivity.
Qed.

Theorem resolve_filename_spec : forall cwd rc p src,
  isabs cwd = true ->
  resolve_filename cwd rc p src = expected_output_dir cwd rc p src.
Proof.
  intros cwd rc p src Hc. unfold resolve_filename, expected_output_dir, base_dir.
  destruct (isabs p) eqn:Hp; [reflexivity|].
  destruct rc; [|reflexivity].
  destruct (src_dir src) as [d|]; [reflexivity|].
  symmetry. apply abspath_join_cwd. exact Hc.
Qed.

(* the combined statement: the directory comes from the first source that sets
   output.directory and is resolved against that very source's directory *)
Theorem output_dir_resolution : forall cwd rc pre src post p,
  isabs cwd = true ->
  Forall (unset (s"output.directory")) pre ->
  assoc (s"output.directory") (src_vals src) = Some (YStr p) ->
  effective cwd rc (pre ++ src :: post) (s"output.directory") TOptFilename
  = COk (CStr (expected_output_dir cwd rc p src)).
Proof.
  intros cwd rc pre src post p Hc Hpre Hv.
  rewrite (effective_highest_priority cwd rc pre src post _ TOptFilename (YStr p) Hpre Hv).
  cbn [convert]. rewrite (resolve_filename_spec cwd rc p src Hc). reflexivity.
Qed.

(* without any hypothesis on cwd, in terms of resolve_filename *)
Theorem output_dir_resolution_raw : forall cwd rc pre src post p,
  Forall (unset (s"output.directory")) pre ->
  assoc (s"output.directory") (src_vals src) = Some (YStr p) ->
  effective cwd rc (pre ++ src :: post) (s"output.directory") TOptFilename
  = COk (CStr (resolve_filename cwd rc p src)).
Proof.
  intros cwd rc pre src post p Hpre Hv.
  rewrite (effective_highest_priority cwd rc pre src post _ TOptFilename (YStr p) Hpre Hv).
  reflexivity.
Qed.

Theorem output_dir_unset_is_none : forall cwd rc stack,
  Forall (unset (s"output.directory")) stack ->
  effective cwd rc stack (s"output.directory") TOptFilename = COk CNone.
Proof. intros cwd rc stack H. rewrite effective_all_unset by exact H. reflexivity. Qed.

Example output_dir_nonvacuous :
  let a := {| src_kind := SrcArgs; src_vals := [(s"rst.prefix", YStr (s"p"))]; src_dir := None |} in
  let f := {| src_kind := SrcFile; src_vals := [(s"output.directory", YStr (s"../out"))];
              src_dir := Some (s"/cfg/sub") |} in
  let u := {| src_kind := SrcUser; src_vals := [(s"output.directory", YStr (s"userout"))];
              src_dir := Some (s"/home/u") |} in
  effective (s"/w/d") true [a; f; u; ex_defaults] (s"output.directory") TOptFilename = COk (CStr (s"/cfg/out"))
  /\ effective (s"/w/d") false [a; f; u; ex_defaults] (s"output.directory") TOptFilename = COk (CStr (s"/w/out"))
  /\ effective (s"/w/d") true [a; u; ex_defaults] (s"output.directory") TOptFilename = COk (CStr (s"/home/u/userout"))
  /\ effective (s"/w/d") true
       [{| src_kind := SrcArgs; src_vals := [(s"output.directory", YStr (s"o"))]; src_dir := None |}; f]
       (s"output.directory") TOptFilename = COk (CStr (s"/w/d/o")).
Proof. vm_compute. repeat split. Qed.

(* ==================== K5: dataclass fields = template keys of the section ==================== *)

Lemma subset_str_spec : forall a b, subset_str a b = true -> forall x, In x a -> In x b.
Proof.
  intros a b H x Hx. unfold subset_str in H. rewrite forallb_forall in H.
  apply mem_str_In. apply H. exact Hx.
Qed.

Lemma dataclass_sections_checked : forallb check_section dataclass_fields = true.
Proof. vm_compute. reflexivity. Qed.

Theorem dataclass_fields_match_template : forall sec fields,
  In (sec, fields, true) dataclass_fields ->
  forall k, In k (field_paths sec fields) <-> In k (section_keys sec).
Proof.
  intros sec fields Hin k.
  assert (H := dataclass_sections_checked). rewrite forallb_forall in H.
  specialize (H _ Hin). cbn [check_section] in H. apply andb_true_iff in H.
  destruct H as [H1 H2]. split.
  - apply (subset_str_spec _ _ H1).
  - apply (subset_str_spec _ _ H2).
Qed.

(* the sections expanded by keyword are exactly input, output and rst *)
Example dataclass_keyword_sections :
  map (fun e => fst (fst e)) (filter (fun e => snd e) dataclass_fields) = [s"input"; s"output"; s"rst"].
Proof. vm_compute. reflexivity. Qed.

(* ==================== K6: the command line only sets what was given ==================== *)

Lemma cli_dests_checked : forallb check_dest cli_table = true.
Proof. vm_compute. reflexivity. Qed.

Theorem cli_dests_are_option_paths : forall a,
  In a cli_table ->
  mem_str (a_dest a) non_option_dests = false ->
  In (a_dest a) (map fst template).
Proof.
  intros a Hin Hn. assert (H := cli_dests_checked). rewrite forallb_forall in H.
  specialize (H _ Hin). unfold check_dest in H. rewrite Hn in H. cbn [orb] in H.
  apply mem_str_In. exact H.
Qed.

(* every argparse default is None, so an absent flag leaves its dest unset *)
Theorem absent_flag_sets_nothing : forallb a_default_none cli_table = true.
Proof. vm_compute. reflexivity. Qed.

Definition dests_of (p : parsed) : list str :=
  map fst (p_stored p) ++ p_flags p ++ map fst (p_appended p).

(* key k is the dest of a table entry one of whose flags occurs among the tokens *)
Definition from_flag (tbl : list cli_arg) (toks : list str) (k : str) : Prop :=
  exists t a, In t toks /\ find_flag tbl t = Some a /\ a_dest a = k.

Lemma from_flag_here : forall tbl t r a, find_flag tbl t = Some a -> from_flag tbl (t :: r) (a_dest a).
Proof. intros tbl t r a H. exists t, a. repeat split; [left; reflexivity | exact H]. Qed.

Lemma from_flag_skip1 : forall tbl t r k, from_flag tbl r k -> from_flag tbl (t :: r) k.
Proof.
  intros tbl t r k (t' & a & Hin & Hf & Hd). exists t', a. repeat split; [right; exact Hin | exact Hf | exact Hd].
Qed.

Lemma parse_go_dests : forall tbl n toks pst acc p,
  length toks <= n ->
  parse_go tbl toks pst acc = Some p ->
  forall k, In k (dests_of p) -> In k (dests_of acc) \/ from_flag tbl toks k.
Proof.
  intros tbl. induction n as [|n IH]; intros toks pst acc p Hlen H k Hk.
  - destruct toks as [|t r]; [|cbn [length] in Hlen; lia].
    cbn [parse_go] in H. inversion H. subst. left. exact Hk.
  - destruct toks as [|t r].
    + cbn [parse_go] in H. inversion H. subst. left. exact Hk.
    + cbn [length] in Hlen. cbn [parse_go] in H.
      destruct (find_flag tbl t) as [a|] eqn:Ef.
      * destruct (a_action a) eqn:Ea.
        -- (* store *)
           destruct r as [|v r']; [discriminate H|].
           destruct (startswith (s"-") v); [discriminate H|].
           cbn [length] in Hlen.
           destruct (IH r' _ _ p ltac:(lia) H k Hk) as [Hin | Hfl].
           ++ unfold dests_of in Hin. cbn [p_stored p_flags p_appended map fst] in Hin.
              destruct Hin as [E | Hin].
              ** right. rewrite <- E. apply from_flag_here. exact Ef.
              ** left. exact Hin.
           ++ right. apply from_flag_skip1. apply from_flag_skip1. exact Hfl.
        -- (* store_true *)
           destruct (IH r _ _ p ltac:(lia) H k Hk) as [Hin | Hfl].
           ++ unfold dests_of in Hin. cbn [p_stored p_flags p_appended] in Hin.
              apply in_app_or in Hin. destruct Hin as [Hin | Hin].
              ** left. unfold dests_of. apply in_or_app. left. exact Hin.
              ** apply in_app_or in Hin. destruct Hin as [Hin | Hin].
                 --- apply in_app_or in Hin. destruct Hin as [Hin | Hin].
                     +++ left. unfold dests_of. apply in_or_app. right. apply in_or_app. left. exact Hin.
                     +++ destruct Hin as [E | []]. right. rewrite <- E. apply from_flag_here. exact Ef.
                 --- left. unfold dests_of. apply in_or_app. right. apply in_or_app. right. exact Hin.
           ++ right. apply from_flag_skip1. exact Hfl.
        -- (* append *)
           destruct r as [|v r']; [discriminate H|].
           destruct (startswith (s"-") v); [discriminate H|].
           cbn [length] in Hlen.
           destruct (IH r' _ _ p ltac:(lia) H k Hk) as [Hin | Hfl].
           ++ unfold dests_of in Hin. cbn [p_stored p_flags p_appended] in Hin.
              apply in_app_or in Hin. destruct Hin as [Hin | Hin].
              ** left. unfold dests_of. apply in_or_app. left. exact Hin.
              ** apply in_app_or in Hin. destruct Hin as [Hin | Hin].
                 --- left. unfold dests_of. apply in_or_app. right. apply in_or_app. left. exact Hin.
                 --- rewrite map_app in Hin. apply in_app_or in Hin. destruct Hin as [Hin | Hin].
                     +++ left. unfold dests_of. apply in_or_app. right. apply in_or_app. right. exact Hin.
                     +++ cbn [map fst] in Hin. destruct Hin as [E | []].
                         right. rewrite <- E. apply from_flag_here. exact Ef.
           ++ right. apply from_flag_skip1. apply from_flag_skip1. exact Hfl.
        -- discriminate H.
      * destruct (startswith (s"-") t); [discriminate H|].
        assert (Hpos : forall pst', parse_go tbl r pst'
                   {| p_stored := p_stored acc; p_flags := p_flags acc;
                      p_appended := p_appended acc; p_positional := p_positional acc ++ [t] |} = Some p ->
                   In k (dests_of acc) \/ from_flag tbl (t :: r) k).
        { intros pst' H'. destruct (IH r _ _ p ltac:(lia) H' k Hk) as [Hin | Hfl].
          - left. exact Hin.
          - right. apply from_flag_skip1. exact Hfl. }
        destruct pst as [|[|[|pst]]]; try discriminate H; apply (Hpos _ H).
Qed.

Lemma dedup_keep_first_incl : forall l x, In x (dedup_keep_first l) -> In x l.
Proof.
  induction l as [|kv r IH]; intros x H.
  - destruct H.
  - unfold dedup_keep_first in H. cbn [fold_right] in H. destruct H as [E | H].
    + left. exact E.
    + apply filter_In in H. destruct H as [H _]. right. apply IH. exact H.
Qed.

Lemma nodup_str_incl : forall l x, In x (nodup_str l) -> In x l.
Proof.
  induction l as [|y r IH]; intros x H.
  - destruct H.
  - cbn [nodup_str] in H. destruct H as [E | H].
    + left. exact E.
    + apply filter_In in H. destruct H as [H _]. right. apply IH. exact H.
Qed.

Lemma args_source_dests : forall tbl p k v,
  In (k, v) (src_vals (args_source tbl p)) -> In k (dests_of p).
Proof.
  intros tbl p k v H. unfold args_source in H. cbn [src_vals] in H. unfold dests_of.
  apply in_app_or in H. destruct H as [H | H].
  - apply in_or_app. left. apply in_map_iff in H. destruct H as (kv & E & Hin).
    inversion E. subst. apply in_map. apply dedup_keep_first_incl. exact Hin.
  - apply in_app_or in H. apply in_or_app. right. apply in_or_app. destruct H as [H | H].
    + left. apply in_map_iff in H. destruct H as (d & E & Hin). inversion E. subst.
      apply nodup_str_incl. exact Hin.
    + right. apply in_map_iff in H. destruct H as (d & E & Hin). inversion E. subst.
      apply nodup_str_incl. exact Hin.
Qed.

Lemma find_flag_some : forall tbl t a,
  find_flag tbl t = Some a -> In a tbl /\ mem_str t (a_flags a) = true.
Proof.
  induction tbl as [|b r IH]; intros t a H; cbn [find_flag] in H.
  - discriminate H.
  - destruct (mem_str t (a_flags b)) eqn:E.
    + inversion H. subst. split; [left; reflexivity | exact E].
    + destruct (IH t a H) as [Hin Hm]. split; [right; exact Hin | exact Hm].
Qed.

(* every value in the SrcArgs source comes from a flag that occurs on the command line *)
Theorem args_source_only_given_flags : forall tbl toks p,
  parse_args tbl toks = Some p ->
  forall k v, In (k, v) (src_vals (args_source tbl p)) ->
  exists t a, In t toks /\ In a tbl /\ mem_str t (a_flags a) = true /\ a_dest a = k.
Proof.
  intros tbl toks p H k v Hin. unfold parse_args in H.
  destruct (parse_go tbl toks 0 parsed_empty) as [p'|] eqn:Hgo; [|discriminate H].
  destruct (p_positional p'); [discriminate H|]. inversion H. subst p'.
  apply args_source_dests in Hin.
  destruct (parse_go_dests tbl (length toks) toks 0 parsed_empty p (le_n _) Hgo k Hin) as [Hin0 | Hfl].
  - destruct Hin0.
  - destruct Hfl as (t & a & Ht & Hf & Hd). apply find_flag_some in Hf. destruct Hf as [Ha Hm].
    exists t, a. repeat split; assumption.
Qed.

Corollary cli_source_only_given_flags : forall toks p,
  parse_args cli_table toks = Some p ->
  forall k v, In (k, v) (src_vals (args_source cli_table p)) ->
  exists t a, In t toks /\ In a cli_table /\ mem_str t (a_flags a) = true /\ a_dest a = k.
Proof. intros toks p. apply args_source_only_given_flags. Qed.

(* the command line built by cminx_gen_rst, parsed: nothing but the given flags is set *)
Example cli_parse_nonvacuous :
  let vals := match parse_args cli_table [s"/src"; s"-r"; s"-p"; s"my prefix"; s"-e"; s"build*";
                                          s"-e"; s"x"; s"-o"; s"/out"] with
              | Some p => src_vals (args_source cli_table p)
              | None => []
              end in
  assoc (s"output.directory") vals = Some (YStr (s"/out"))
  /\ assoc (s"rst.prefix") vals = Some (YStr (s"my prefix"))
  /\ assoc (s"input.recursive") vals = Some (YBool true)
  /\ assoc (s"input.exclude_filters") vals = Some (YList [YStr (s"build*"); YStr (s"x")])
  /\ length vals = 4.
Proof. vm_compute. repeat split. Qed.

(* M6, concrete instance only: the position of -o and -r among the options does not matter *)
Example cli_order_irrelevant_example :
  let vals toks := option_map (fun p => src_vals (args_source cli_table p)) (parse_args cli_table toks) in
  let a := vals [s"/src"; s"-r"; s"-p"; s"my prefix"; s"-e"; s"build*"; s"-o"; s"/out"] in
  let b := vals [s"/src"; s"-o"; s"/out"; s"-p"; s"my prefix"; s"-e"; s"build*"; s"-r"] in
  match a, b with
  | Some la, Some lb =>
      forallb (fun k => match assoc k la, assoc k lb with
                        | Some (YStr x), Some (YStr y) => str_eqb x y
                        | Some (YBool x), Some (YBool y) => Bool.eqb x y
                        | Some (YList x), Some (YList y) => Nat.eqb (length x) (length y)
                        | None, None => true
                        | _, _ => false
                        end) (map fst template) && Nat.eqb (length la) (length lb)
  | _, _ => false
  end = true.
Proof. vm_compute. reflexivity. Qed.

(* ==================== K10: well-typed sources over the defaults never fail ==================== *)

Lemma effective_ok_well_typed : forall cwd rc stack k ty,
  (forall src v, In src stack -> assoc k (src_vals src) = Some v -> yval_has_type ty v = true) ->
  (none_ok ty = true \/ exists src, In src stack /\ assoc k (src_vals src) <> None) ->
  is_ok (effective cwd rc stack k ty) = true.
Proof.
  intros cwd rc stack k ty Hty Hdef. unfold effective.
  destruct (resolve stack k) as [[v src]|] eqn:R.
  - apply resolve_first_setting_source in R. destruct R as (pre & post & E & Hv & _).
    apply right_type_accepted. apply (Hty src v); [|exact Hv].
    rewrite E. apply in_or_app. right. left. reflexivity.
  - rewrite none_ok_convert. destruct Hdef as [Hn | (src & Hin & Hset)]; [exact Hn|].
    apply resolve_none in R. rewrite Forall_forall in R. exfalso. apply Hset. apply R. exact Hin.
Qed.

Lemma src_well_typed_spec : forall tmpl src k ty v,
  src_well_typed tmpl src = true -> In (k, ty) tmpl ->
  assoc k (src_vals src) = Some v -> yval_has_type ty v = true.
Proof.
  intros tmpl src k ty v H Hin Hv. unfold src_well_typed in H. rewrite forallb_forall in H.
  specialize (H _ Hin). cbn [fst snd] in H. rewrite Hv in H. exact H.
Qed.

Theorem settings_total_on_well_typed : forall cwd upper,
  forallb (src_well_typed template) upper = true ->
  settings_of cwd (upper ++ [defaults_src]) template <> None.
Proof.
  intros cwd upper Hup. apply settings_of_ok_iff. apply forallb_forall. intros [k ty] Hin.
  cbn [fst snd].
  assert (Hd := defaults_checked). rewrite forallb_forall in Hd. specialize (Hd _ Hin).
  unfold check_default in Hd. cbn [fst snd] in Hd.
  rewrite forallb_forall in Hup.
  apply effective_ok_well_typed.
  - intros src v Hsrc Hv. apply in_app_or in Hsrc. destruct Hsrc as [Hsrc | [E | []]].
    + apply (src_well_typed_spec template src k ty v (Hup _ Hsrc) Hin Hv).
    + subst src. cbn [defaults_src src_vals] in Hv. rewrite Hv in Hd. exact Hd.
  - destruct (assoc k yaml_defaults) as [v|] eqn:Ev.
    + right. exists defaults_src. split.
      * apply in_or_app. right. left. reflexivity.
      * cbn [defaults_src src_vals]. rewrite Ev. discriminate.
    + left. exact Hd.
Qed.

(* the converse direction of the typing rule: a wrong-typed value in the winning source makes
   main() fail instead of falling back to a lower source or the default *)
Theorem wrong_type_not_replaced : forall cwd pre src post k ty v,
  In (k, ty) template ->
  Forall (unset k) pre ->
  assoc k (src_vals src) = Some v ->
  yval_has_type ty v = false ->
  known_exception ty v = false ->
  settings_of cwd (pre ++ src :: post) template = None.
Proof.
  intros cwd pre src post k ty v Hin Hpre Hv Hty Hex.
  destruct (settings_of cwd (pre ++ src :: post) template) eqn:E; [|reflexivity].
  exfalso.
  assert (Hne : settings_of cwd (pre ++ src :: post) template <> None) by (rewrite E; discriminate).
  apply settings_of_ok_iff in Hne. rewrite forallb_forall in Hne. specialize (Hne _ Hin).
  cbn [fst snd] in Hne.
  rewrite (effective_highest_priority _ _ pre src post k ty v Hpre Hv) in Hne.
  rewrite (wrong_type_rejected _ _ ty v src Hty Hex) in Hne. discriminate Hne.
Qed.

(* a source that sets every option of the template to a value of the right type *)
Definition witness (ty : oty) : yval :=
  match ty with
  | TBool => YBool true
  | TOptString _ | TString _ => YStr (s"x")
  | TOptSeq => YList [YStr (s"build*")]
  | TStrSeq => YStr (s"# * =")
  | TOptFilename => YStr (s"out")
  | TDict => YMap [s"version"]
  end.
Definition ex_full_source : source :=
  {| src_kind := SrcFile; src_vals := map (fun kt => (fst kt, witness (snd kt))) template;
     src_dir := Some (s"/cfg") |}.
Definition ex_partial_source : source :=
  {| src_kind := SrcArgs; src_vals := [(s"not.an.option", YInt 3)]; src_dir := None |}.

Example settings_total_nonvacuous :
  forallb (src_well_typed template) [ex_partial_source; ex_full_source] = true
  /\ option_map (@length _) (settings_of (s"/w") ([ex_partial_source; ex_full_source] ++ [defaults_src]) template)
     = Some (length template).
Proof. vm_compute. split; reflexivity. Qed.

(* and a wrong-typed value in any source above the defaults makes main() fail *)
Example wrong_type_not_replaced_nonvacuous :
  forallb (fun kt =>
    match settings_of (s"/w")
            [{| src_kind := SrcFile; src_vals := [(fst kt, YInt 3)]; src_dir := None |}; defaults_src]
            template with
    | None => true
    | Some _ => false
    end) template = true.
Proof. vm_compute. reflexivity. Qed.

(* ==================== K11: the checks main() makes itself ==================== *)

Lemma main_accepts_spec : forall cwd stack,
  main_accepts cwd stack = true <->
  settings_of cwd stack template <> None
  /\ headers_ok stack = true
  /\ all_contents stack excl_opt <> None.
Proof.
  intros cwd stack. unfold main_accepts.
  destruct (settings_of cwd stack template) as [st|].
  - destruct (headers_ok stack); destruct (all_contents stack excl_opt) as [ex|]; cbn [andb].
    + split; [intros _; repeat split; discriminate | reflexivity].
    + split; [discriminate | intros (_ & _ & H); destruct (H eq_refl)].
    + split; [discriminate | intros (_ & H & _); discriminate H].
    + split; [discriminate | intros (_ & H & _); discriminate H].
  - split; [discriminate | intros (H & _); destruct (H eq_refl)].
Qed.

(* failing any one of the three steps is enough *)
Lemma main_rejects_template : forall cwd stack,
  settings_of cwd stack template = None -> main_accepts cwd stack = false.
Proof. intros cwd stack H. unfold main_accepts. rewrite H. reflexivity. Qed.

Lemma main_rejects_headers : forall cwd stack,
  headers_ok stack = false -> main_accepts cwd stack = false.
Proof.
  intros cwd stack H. unfold main_accepts. rewrite H.
  destruct (settings_of cwd stack template); reflexivity.
Qed.

Lemma main_rejects_exclude : forall cwd stack,
  all_contents stack excl_opt = None -> main_accepts cwd stack = false.
Proof.
  intros cwd stack H. unfold main_accepts. rewrite H.
  destruct (settings_of cwd stack template); [apply andb_false_r | reflexivity].
Qed.

(* what the new check looks at: the raw winning value of rst.headers *)
Lemma headers_ok_false_iff : forall stack,
  headers_ok stack = false <-> exists ks src, resolve stack headers_opt = Some (YMap ks, src).
Proof.
  intros stack. unfold headers_ok. fold headers_opt.
  destruct (resolve stack headers_opt) as [[v src]|].
  - destruct v; try (split; [discriminate | intros (ks & src' & E); discriminate E]).
    split; [intros _; exists keys, src; reflexivity | reflexivity].
  - split; [discriminate | intros (ks & src' & E); discriminate E].
Qed.

(* F27 closed: a mapping for rst.headers in the highest-priority source that sets the option makes
   main() fail (stated like exclude_filters_string_rejected_by_main, against the step of main() that
   rejects it, and against the main-level acceptance) *)
Theorem headers_mapping_rejected_by_main : forall cwd pre src post ks,
  Forall (unset headers_opt) pre ->
  assoc headers_opt (src_vals src) = Some (YMap ks) ->
  headers_ok (pre ++ src :: post) = false
  /\ main_accepts cwd (pre ++ src :: post) = false.
Proof.
  intros cwd pre src post ks Hpre Hv.
  assert (H : headers_ok (pre ++ src :: post) = false).
  { apply headers_ok_false_iff. exists ks, src. apply resolve_first_setting_source.
    exists pre, post. repeat split; assumption. }
  split; [exact H | apply main_rejects_headers; exact H].
Qed.

(* the same for F15, against the main-level acceptance: a string in ANY source *)
Corollary exclude_filters_string_not_accepted_by_main : forall cwd pre src post x,
  assoc excl_opt (src_vals src) = Some (YStr x) ->
  main_accepts cwd (pre ++ src :: post) = false.
Proof.
  intros cwd pre src post x Hv. apply main_rejects_exclude.
  apply (exclude_filters_string_rejected_by_main pre src post excl_opt x Hv).
Qed.

(* the new check rejects nothing else: a list, a string, any other non-mapping value, or no value
   at all for rst.headers passes it, and then main() accepts exactly what it accepted before *)
Theorem headers_list_or_string_not_affected : forall stack,
  match resolve stack headers_opt with
  | Some (v, _) => is_ymap v = false
  | None => True
  end ->
  headers_ok stack = true
  /\ forall cwd, main_accepts cwd stack
                 = match settings_of cwd stack template, all_contents stack excl_opt with
                   | Some _, Some _ => true
                   | _, _ => false
                   end.
Proof.
  intros stack H.
  assert (Hok : headers_ok stack = true).
  { unfold headers_ok. fold headers_opt. destruct (resolve stack headers_opt) as [[v src]|]; [|reflexivity].
    destruct v; try reflexivity. discriminate H. }
  split; [exact Hok|]. intros cwd. unfold main_accepts. rewrite Hok.
  destruct (settings_of cwd stack template); reflexivity.
Qed.

Corollary headers_list_passes : forall pre src post l,
  Forall (unset headers_opt) pre -> assoc headers_opt (src_vals src) = Some (YList l) ->
  headers_ok (pre ++ src :: post) = true.
Proof.
  intros pre src post l Hpre Hv. apply headers_list_or_string_not_affected.
  assert (R : resolve (pre ++ src :: post) headers_opt = Some (YList l, src)).
  { apply resolve_first_setting_source. exists pre, post. repeat split; assumption. }
  rewrite R. reflexivity.
Qed.

Corollary headers_string_passes : forall pre src post x,
  Forall (unset headers_opt) pre -> assoc headers_opt (src_vals src) = Some (YStr x) ->
  headers_ok (pre ++ src :: post) = true.
Proof.
  intros pre src post x Hpre Hv. apply headers_list_or_string_not_affected.
  assert (R : resolve (pre ++ src :: post) headers_opt = Some (YStr x, src)).
  { apply resolve_first_setting_source. exists pre, post. repeat split; assumption. }
  rewrite R. reflexivity.
Qed.

Corollary headers_absent_passes : forall stack,
  Forall (unset headers_opt) stack -> headers_ok stack = true.
Proof.
  intros stack H. apply headers_list_or_string_not_affected.
  apply resolve_none in H. rewrite H. exact I.
Qed.

(* a mapping in a source BELOW the one that wins the option is not looked at (view.get() is the
   first value only), unlike for the exclude filters *)
Example headers_check_nonvacuous :
  let src v := {| src_kind := SrcFile; src_vals := [(s"rst.headers", v)]; src_dir := None |} in
  let low := {| src_kind := SrcUser; src_vals := [(s"rst.headers", YMap [s"#"; s"*"])]; src_dir := None |} in
  map (fun v => (headers_ok [src v; defaults_src], main_accepts (s"/w") [src v; defaults_src]))
      [YMap [s"#"; s"*"]; YMap []; YList [YStr (s"=")]; YStr (s"= -"); YList [YInt 1]; YInt 3; YNull]
  = [(false, false); (false, false); (true, true); (true, true); (true, false); (true, false); (true, false)]
  /\ headers_ok [defaults_src] = true /\ main_accepts (s"/w") [defaults_src] = true
  /\ headers_ok [src (YStr (s"=")); low; defaults_src] = true
  /\ main_accepts (s"/w") [src (YStr (s"=")); low; defaults_src] = true
  /\ main_accepts (s"/w") [low; defaults_src] = false.
Proof. vm_compute. repeat split. Qed.

(* main_accepts is the condition under which the extracted model served to the differential
   harness (Extract/Dispatch.main_settings) answers code 0 (accepted, with the settings); a
   rejected stack is code 1 (confuse error), an unparsable command line code 2 *)
Definition dispatch_stack (p : parsed) (sfile user : option source) : list source :=
  args_source cli_table p
  :: (match sfile with Some x => [x] | None => [] end)
  ++ (match user with Some x => [x] | None => [] end)
  ++ [defaults_src].

Theorem dispatch_main_settings_code : forall cwd argv sfile user,
  match parse_args cli_table argv with
  | None => Extract.Dispatch.main_settings cwd argv sfile user = Extract.Tree.L [Extract.Tree.I 2%N]
  | Some p =>
      if main_accepts cwd (dispatch_stack p sfile user)
      then exists st ex rest,
             settings_of cwd (dispatch_stack p sfile user) template = Some st
             /\ all_contents (dispatch_stack p sfile user) excl_opt = Some ex
             /\ Extract.Dispatch.main_settings cwd argv sfile user
                = Extract.Tree.L (Extract.Tree.I 0%N :: rest)
      else Extract.Dispatch.main_settings cwd argv sfile user = Extract.Tree.L [Extract.Tree.I 1%N]
  end.
Proof.
  intros cwd argv sfile user. unfold Extract.Dispatch.main_settings.
  destruct (parse_args cli_table argv) as [p|]; [|reflexivity].
  cbv zeta. fold defaults_src. fold (dispatch_stack p sfile user). unfold main_accepts.
  change (s"input.exclude_filters") with excl_opt.
  destruct (settings_of cwd (dispatch_stack p sfile user) template) as [st|]; [|reflexivity].
  destruct (all_contents (dispatch_stack p sfile user) excl_opt) as [ex|].
  - destruct (headers_ok (dispatch_stack p sfile user)); cbn [andb]; [|reflexivity].
    eexists; eexists; eexists. repeat split; reflexivity.
  - rewrite andb_false_r. reflexivity.
Qed.

(* the harness sees the repair: a mapping for rst.headers in the -s file is code 1 *)
Example dispatch_headers_mapping_code :
  let f v := Some {| src_kind := SrcFile; src_vals := [(s"rst.headers", v)]; src_dir := None |} in
  Extract.Dispatch.main_settings (s"/w") [s"a"] (f (YMap [s"="; s"-"])) None
  = Extract.Tree.L [Extract.Tree.I 1%N]
  /\ match Extract.Dispatch.main_settings (s"/w") [s"a"] (f (YList [YStr (s"=")])) None with
     | Extract.Tree.L (Extract.Tree.I 0%N :: _) => True
     | _ => False
     end.
Proof. vm_compute. split; [reflexivity | exact I]. Qed.

(* all three checks of main() together: template validation, the rst.headers check and the
   exclude-pattern validation *)
Lemma defaults_exclude_ok : excl_src_ok (s"input.exclude_filters") defaults_src = true.
Proof. vm_compute. reflexivity. Qed.

Lemma template_headers_type : In (headers_opt, TStrSeq) template.
Proof. vm_compute. tauto. Qed.

Lemma defaults_headers_ok :
  match assoc headers_opt yaml_defaults with Some v => is_ymap v | None => false end = false.
Proof. vm_compute. reflexivity. Qed.

Lemma headers_ok_well_typed : forall upper,
  forallb (src_well_typed template) upper = true ->
  headers_ok (upper ++ [defaults_src]) = true.
Proof.
  intros upper Hty. destruct (headers_ok (upper ++ [defaults_src])) eqn:E; [reflexivity|].
  exfalso. apply headers_ok_false_iff in E. destruct E as (ks & src & R).
  apply resolve_first_setting_source in R. destruct R as (pre & post & Es & Hv & _).
  assert (Hin : In src (upper ++ [defaults_src])).
  { rewrite Es. apply in_or_app. right. left. reflexivity. }
  apply in_app_or in Hin. destruct Hin as [Hin | [Ed | []]].
  - rewrite forallb_forall in Hty.
    assert (H := src_well_typed_spec template src headers_opt TStrSeq (YMap ks) (Hty _ Hin)
                   template_headers_type Hv).
    discriminate H.
  - subst src. cbn [defaults_src src_vals] in Hv. assert (H := defaults_headers_ok).
    rewrite Hv in H. discriminate H.
Qed.

Theorem main_total_on_well_typed : forall cwd upper,
  forallb (src_well_typed template) upper = true ->
  forallb (excl_src_ok (s"input.exclude_filters")) upper = true ->
  settings_of cwd (upper ++ [defaults_src]) template <> None
  /\ headers_ok (upper ++ [defaults_src]) = true
  /\ all_contents (upper ++ [defaults_src]) (s"input.exclude_filters")
     = Some (expected_union (s"input.exclude_filters") (upper ++ [defaults_src]))
  /\ main_accepts cwd (upper ++ [defaults_src]) = true.
Proof.
  intros cwd upper Hty Hex.
  assert (H1 : settings_of cwd (upper ++ [defaults_src]) template <> None)
    by (apply settings_total_on_well_typed; exact Hty).
  assert (H2 : headers_ok (upper ++ [defaults_src]) = true)
    by (apply headers_ok_well_typed; exact Hty).
  assert (H3 : all_contents (upper ++ [defaults_src]) (s"input.exclude_filters")
               = Some (expected_union (s"input.exclude_filters") (upper ++ [defaults_src]))).
  { apply exclude_is_union. rewrite forallb_app. rewrite Hex. cbn [forallb andb].
    rewrite defaults_exclude_ok. reflexivity. }
  split; [exact H1|]. split; [exact H2|]. split; [exact H3|].
  apply main_accepts_spec. split; [exact H1|]. split; [exact H2|].
  unfold excl_opt. rewrite H3. discriminate.
Qed.

Example main_total_nonvacuous :
  forallb (src_well_typed template) [ex_partial_source; ex_full_source] = true
  /\ forallb (excl_src_ok (s"input.exclude_filters")) [ex_partial_source; ex_full_source] = true
  /\ main_accepts (s"/w") ([ex_partial_source; ex_full_source] ++ [defaults_src]) = true.
Proof. vm_compute. repeat split; reflexivity. Qed.

(* the summary: with the two checks main() makes itself, NO wrong-typed winning value of ANY
   option of the template is accepted.  Where the template rejects the value (wrong_type_rejected)
   settings.get fails; the two template-level exceptions are exactly the two options main() checks:
   (TOptSeq, string) can only be input.exclude_filters and (TStrSeq, mapping) only rst.headers
   (exception_covered, computed on the generated template) *)
Lemma template_exceptions_covered : forallb exception_covered template = true.
Proof. vm_compute. reflexivity. Qed.

Theorem wrong_type_rejected_by_main : forall cwd stack k ty v src,
  In (k, ty) template ->
  yval_has_type ty v = false ->
  resolve stack k = Some (v, src) ->
  main_accepts cwd stack = false.
Proof.
  intros cwd stack k ty v src Hin Hty R.
  assert (Hcov := template_exceptions_covered). rewrite forallb_forall in Hcov.
  specialize (Hcov _ Hin). unfold exception_covered in Hcov. cbn [fst snd] in Hcov.
  apply resolve_first_setting_source in R. destruct R as (pre & post & Es & Hv & Hpre). subst stack.
  destruct (known_exception ty v) eqn:Hex.
  - apply known_exception_spec in Hex. destruct Hex as [[Et Ev] | [Et Ev]]; subst ty.
    + (* F15: a string for the exclude filters *)
      apply str_eqb_eq in Hcov. subst k. destruct v; try discriminate Ev.
      apply (exclude_filters_string_not_accepted_by_main cwd pre src post v Hv).
    + (* F27: a mapping for the headers *)
      apply str_eqb_eq in Hcov. subst k. destruct v; try discriminate Ev.
      apply (headers_mapping_rejected_by_main cwd pre src post keys Hpre Hv).
  - apply main_rejects_template.
    apply (wrong_type_not_replaced cwd pre src post k ty v Hin Hpre Hv Hty Hex).
Qed.

(* the same with the winning source spelled out, like wrong_type_not_replaced but without the
   side condition known_exception = false *)
Corollary wrong_type_rejected_by_main_explicit : forall cwd pre src post k ty v,
  In (k, ty) template ->
  Forall (unset k) pre ->
  assoc k (src_vals src) = Some v ->
  yval_has_type ty v = false ->
  main_accepts cwd (pre ++ src :: post) = false.
Proof.
  intros cwd pre src post k ty v Hin Hpre Hv Hty.
  apply (wrong_type_rejected_by_main cwd _ k ty v src Hin Hty).
  apply resolve_first_setting_source. exists pre, post. repeat split; assumption.
Qed.

(* every option of the template, every kind of value that is not of the option's type, in the
   winning source: rejected (this includes the two former exceptions) *)
Definition wrong_values : list yval :=
  [YBool true; YStr (s"x y"); YInt 3; YNull; YList [YStr (s"a")]; YList [YInt 1]; YList [];
   YMap [s"a"; s"b"]; YMap []].

Example wrong_type_rejected_by_main_nonvacuous :
  forallb (fun kt =>
    forallb (fun v =>
      yval_has_type (snd kt) v
      || negb (main_accepts (s"/w")
                 [{| src_kind := SrcFile; src_vals := [(fst kt, v)]; src_dir := None |}; defaults_src]))
      wrong_values) template = true
  /\ forallb (fun kt => Nat.leb 5 (length (filter (fun v => negb (yval_has_type (snd kt) v)) wrong_values)))
             template = true
  /\ yval_has_type TOptSeq (YStr (s"x y")) = false /\ yval_has_type TStrSeq (YMap [s"a"; s"b"]) = false.
Proof. vm_compute. repeat split; reflexivity. Qed.

(* ==== MAIN THEOREMS ====
   K1  resolve_first_setting_source, resolve_none
   K2  effective_highest_priority, cli_wins, sfile_wins_over_user, user_wins_over_defaults,
       default_when_unset, default_value_when_unset
   K3  stacking_order_is_file_then_args
   K4  defaults_complete_and_well_typed, defaults_settings_total
   K5  dataclass_fields_match_template
   K6  cli_dests_are_option_paths, absent_flag_sets_nothing, args_source_only_given_flags
   K7  wrong_type_rejected (template alone: two documented exceptions, known_exception),
       wrong_type_rejected_explicit, wrong_type_accepted_only_two_exceptions, right_type_accepted,
       wrong_type_not_replaced,
       C16_exclude_filters_string_refuted (F15, template alone),
       C16_headers_mapping_refuted, headers_mapping_accepted (F27, template alone)
   K8  exclude_is_union, exclude_wrong_type_rejected, exclude_accepted_iff_all_sources_ok,
       exclude_rejected_iff_some_source_bad, exclude_four_sources,
       exclude_four_sources_wrong_type_rejected, exclude_filters_string_rejected_by_main (F15 closed),
       exclude_nothing_overridden, exclude_union_only_from_sources
   K9  resolve_filename_abs, resolve_filename_rel_cwd, resolve_filename_rel_config,
       resolve_filename_rel_config_nofile, resolve_filename_spec, output_dir_resolution
   K10 settings_total_on_well_typed, main_total_on_well_typed
   K11 main_accepts_spec, dispatch_main_settings_code (the extracted model answers code 0 iff
       main_accepts), headers_mapping_rejected_by_main (F27 closed),
       exclude_filters_string_not_accepted_by_main, headers_list_or_string_not_affected,
       headers_ok_false_iff, wrong_type_rejected_by_main (no exception left),
       wrong_type_rejected_by_main_explicit
*)
Print Assumptions resolve_first_setting_source.
Print Assumptions resolve_none.
Print Assumptions effective_highest_priority.
Print Assumptions cli_wins.
Print Assumptions sfile_wins_over_user.
Print Assumptions user_wins_over_defaults.
Print Assumptions default_when_unset.
Print Assumptions default_value_when_unset.
Print Assumptions stacking_order_is_file_then_args.
Print Assumptions defaults_complete_and_well_typed.
Print Assumptions defaults_settings_total.
Print Assumptions dataclass_fields_match_template.
Print Assumptions cli_dests_are_option_paths.
Print Assumptions absent_flag_sets_nothing.
Print Assumptions args_source_only_given_flags.
Print Assumptions wrong_type_rejected.
Print Assumptions wrong_type_rejected_explicit.
Print Assumptions wrong_type_accepted_only_two_exceptions.
Print Assumptions right_type_accepted.
Print Assumptions wrong_type_not_replaced.
Print Assumptions C16_exclude_filters_string_refuted.
Print Assumptions C16_headers_mapping_refuted.
Print Assumptions exclude_is_union.
Print Assumptions exclude_wrong_type_rejected.
Print Assumptions exclude_accepted_iff_all_sources_ok.
Print Assumptions exclude_rejected_iff_some_source_bad.
Print Assumptions exclude_four_sources.
Print Assumptions exclude_four_sources_wrong_type_rejected.
Print Assumptions exclude_filters_string_rejected_by_main.
Print Assumptions exclude_nothing_overridden.
Print Assumptions output_dir_resolution.
Print Assumptions resolve_filename_spec.
Print Assumptions settings_total_on_well_typed.
Print Assumptions main_total_on_well_typed.
Print Assumptions main_accepts_spec.
Print Assumptions headers_ok_false_iff.
Print Assumptions headers_mapping_rejected_by_main.
Print Assumptions exclude_filters_string_not_accepted_by_main.
Print Assumptions headers_list_or_string_not_affected.
Print Assumptions wrong_type_rejected_by_main.
Print Assumptions wrong_type_rejected_by_main_explicit.
Print Assumptions headers_mapping_accepted.
Print Assumptions dispatch_main_settings_code.
