(* Proofs/GrammarPins.v -- the grammar and the generated lexer/parser that run NOW are the ones
   the hand-written Model/Lexer.v and Model/Parser.v were written from and validated against.
   Gen/GrammarSource.v is regenerated on every run (translators/grammar2coq.py);
   Proofs/GrammarBaseline.v is the frozen copy.  The second half ties the model's own tables (rule
   order, token numbering, skip set) to the grammar. *)
From Coq Require Import String List NArith Bool Arith.
From CMinx Require Import Base.Str Model.Lexer Gen.GrammarSource Proofs.GrammarBaseline.
Import ListNotations.

Fixpoint n_list_eqb (a b : list N) : bool :=
  match a, b with
  | [], [] => true
  | x :: a', y :: b' => N.eqb x y && n_list_eqb a' b'
  | _, _ => false
  end.

Lemma n_list_eqb_eq : forall a b, n_list_eqb a b = true -> a = b.
Proof.
  induction a as [|x a IH]; destruct b as [|y b]; cbn [n_list_eqb]; intros H;
    try reflexivity; try discriminate H.
  apply andb_true_iff in H. destruct H as [H1 H2]. apply N.eqb_eq in H1. subst y.
  f_equal. apply IH. exact H2.
Qed.

(* ---- the grammar text and the generated automata are unchanged ---- *)

Theorem g4_rules_unchanged : g4_rules = base_g4_rules.
Proof. reflexivity. Qed.

Theorem lexer_tables_unchanged :
  lexer_rule_names = base_lexer_rule_names
  /\ lexer_symbolic_names = base_lexer_symbolic_names
  /\ lexer_literal_names = base_lexer_literal_names.
Proof. repeat split; reflexivity. Qed.

Theorem lexer_atn_unchanged : lexer_atn = base_lexer_atn.
Proof. apply n_list_eqb_eq. vm_compute. reflexivity. Qed.

Theorem parser_unchanged : parser_rule_names = base_parser_rule_names /\ parser_atn = base_parser_atn.
Proof. split; [reflexivity | apply n_list_eqb_eq; vm_compute; reflexivity]. Qed.

(* ---- the code around the automata: listener dispatch and the parser package ---- *)

(* every parse-tree context class calls the listener method named after its rule, on entry and on exit *)
Theorem parser_dispatch_unchanged : parser_dispatch = base_parser_dispatch.
Proof. reflexivity. Qed.

(* the aggregator listens to exactly the four callbacks the model's agg_step composes:
   enterDocumented_command, enterCommand_invocation, enterDocumented_module, enterBracket_doccomment;
   it overrides no exit callback *)
Theorem aggregator_listener_methods_unchanged :
  aggregator_listener_methods
  = [s"enterDocumented_command"; s"enterCommand_invocation"; s"enterDocumented_module"; s"enterBracket_doccomment"].
Proof. reflexivity. Qed.

(* the generated lexer / parser / listener modules and the error listeners are, up to layout, comments and
   docstrings, the code the model was validated against *)
Theorem parser_package_unchanged : parser_package_digests = base_parser_package_digests.
Proof. reflexivity. Qed.

(* ---- the model's tables are the grammar's ---- *)

(* the ANTLR name of each token kind of the model *)
Definition kind_name (k : tk) : str :=
  match k with
  | TLParen => s"T__0" | TRParen => s"T__1"
  | TModuleDoc => s"Module_docstring" | TDocstring => s"Docstring"
  | TDocStart => s"Doccomment_start" | TBlockEnd => s"Blockcomment_end"
  | TIdent => s"Identifier" | TUnquoted => s"Unquoted_argument" | TEscape => s"Escape_sequence"
  | TQuoted => s"Quoted_argument" | TBracketArg => s"Bracket_argument"
  | TBracketComment => s"Bracket_comment" | TLineComment => s"Line_comment"
  | TNewline => s"Newline" | TSpace => s"Space"
  end.

Definition fragment_names : list str :=
  map (fun r => fst (fst r)) (filter (fun r => snd (fst r)) g4_rules).

(* the lexer rules that produce tokens, in the order ANTLR tries them *)
Definition token_rule_names : list str :=
  filter (fun n => negb (mem_str n fragment_names)) lexer_rule_names.

(* the model's rule list is exactly the token rules of the grammar, in the grammar's order:
   priority among equally long matches is therefore the grammar's *)
Theorem model_rules_are_grammar_rules : map (fun r => kind_name (fst r)) rules = token_rule_names.
Proof. reflexivity. Qed.

(* token type numbers: position in that list, counted from 1 *)
Theorem model_token_numbers :
  map (fun r => kind_id (fst r)) rules = seq 1 (length token_rule_names).
Proof. reflexivity. Qed.

(* the skipped kinds are the rules the grammar marks  -> skip *)
Definition g4_skipped : list str :=
  map (fun r => fst (fst r)) (filter (fun r => endswith (s"-> skip") (snd r)) g4_rules).

Theorem model_skip_set :
  map (fun r => kind_name (fst r)) (filter (fun r => skipped (fst r)) rules) = g4_skipped.
Proof. reflexivity. Qed.

(* the literal tokens *)
Theorem model_literals :
  lexer_literal_names = [s"<INVALID>"; s"'('"; s"')'"; [39%N] ++ doc_open ++ [39%N]; [39%N] ++ doc_close ++ [39%N]].
Proof. reflexivity. Qed.

(* ==== MAIN THEOREMS ==== *)
Print Assumptions g4_rules_unchanged.
Print Assumptions lexer_atn_unchanged.
Print Assumptions parser_unchanged.
Print Assumptions model_rules_are_grammar_rules.
Print Assumptions model_token_numbers.
Print Assumptions model_skip_set.
