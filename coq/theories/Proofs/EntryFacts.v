(* Proofs/EntryFacts.v -- lemmas; see DESIGN.md section 7 *)
