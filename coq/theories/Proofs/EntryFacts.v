(* Proofs/EntryFacts.v -- properties C10 and C11: what set / option / ct_add_test /
   ct_add_section / add_test entries contain, stated against the views of Spec/EntrySpec.v. *)
From Coq Require Import String List NArith Bool Arith Lia.
From CMinx Require Import Base.Str Model.Lexer Model.Parser Model.Writer Model.DocTypes
     Model.Aggregator Spec.EntrySpec.
Import ListNotations.

(* ---- spec ---- *)

Definition starts_dq (v : str) : bool :=
  match v with a :: _ => (a =? 34)%N | [] => false end.
Definition ends_dq (v : str) : bool :=
  match last_opt v with Some z => (z =? 34)%N | None => false end.

(* the text of a single argument as the lexer can produce it: non-empty; it starts with a
   double quote iff it ends with one; a quoted text has both quotes (length at least 2) *)
Definition arg_text_ok (v : str) : bool :=
  match v with [] => false | _ :: _ => true end
  && Bool.eqb (starts_dq v) (ends_dq v)
  && (negb (starts_dq v) || (2 <=? length v)).

(* the model's representation of the optional third argument of option() *)
Definition option_value (args : list str) : option str := nth_error args 2.

(* position of the first NAME keyword *)
Fixpoint name_pos (ps : list str) : nat :=
  match ps with
  | [] => 0
  | p :: r => if str_eqb p NAME then 0 else S (name_pos r)
  end.

(* ---- helpers ---- *)

Lemma str_eqb_sym : forall a b, str_eqb a b = str_eqb b a.
Proof.
  induction a as [|x a IH]; intros [|y b]; cbn [str_eqb]; try reflexivity.
  rewrite IH, N.eqb_sym. reflexivity.
Qed.

Lemma last_opt_app1 : forall (A : Type) (l : list A) (x : A), last_opt (l ++ [x]) = Some x.
Proof.
  intros A l x. induction l as [|a l IH]; [reflexivity|].
  cbn [app last_opt]. destruct (l ++ [x]) eqn:E.
  - destruct l; discriminate E.
  - exact IH.
Qed.

Lemma drop_last_app1 : forall (A : Type) (l : list A) (x : A), drop_last (l ++ [x]) = l.
Proof.
  intros A l x. induction l as [|a l IH]; [reflexivity|].
  cbn [app drop_last]. destruct (l ++ [x]) eqn:E.
  - destruct l; discriminate E.
  - rewrite IH. reflexivity.
Qed.

Lemma last_opt_none : forall (A : Type) (l : list A), last_opt l = None -> l = [].
Proof.
  intros A l. induction l as [|a l IH]; intros H; [reflexivity|].
  destruct l as [|b l']; [discriminate H|].
  change (last_opt (a :: b :: l')) with (last_opt (b :: l')) in H.
  discriminate (IH H).
Qed.

(* ---- N1: unquote ---- *)

Theorem unquote_quoted : forall body, unquote (dq :: body ++ [dq]) = Some body.
Proof.
  intros body. unfold unquote. change (dq =? 34)%N with true. cbn iota.
  rewrite last_opt_app1. change (dq =? 34)%N with true. cbn iota.
  rewrite drop_last_app1. reflexivity.
Qed.

(* the model's unquote is the spec's value_as_written, for every text *)
Theorem unquote_spec : forall v, unquote v = Some (value_as_written v).
Proof.
  intros [|a r]; [reflexivity|].
  unfold unquote, value_as_written.
  destruct (a =? 34)%N; [|reflexivity].
  destruct (last_opt r) as [z|]; [|reflexivity].
  destruct (z =? 34)%N; reflexivity.
Qed.

Example unquote_spec_nonvacuous :
  unquote (s"""a b\""") = Some (s"a b\") /\ unquote (s"""""") = Some []
  /\ unquote (s"abc") = Some (s"abc").
Proof. vm_compute. repeat split. Qed.

(* a quote at one end only is not a surrounding pair: the text stays as written *)
Example unquote_half_quoted :
  unquote (s"""ab") = Some (s"""ab") /\ unquote (s"a\""") = Some (s"a\""") /\ unquote [dq] = Some [dq].
Proof. vm_compute. repeat split. Qed.

(* ---- N2: set ---- *)

Theorem process_set_spec : forall c doc docd st,
  process_set c doc docd st =
  match set_view (singles c) with
  | None => Ok st
  | Some (n, ty, v) => Ok (append (EVariable n doc ty v) docd st)
  end.
Proof.
  intros c doc docd st. unfold process_set, set_view.
  destruct (singles c) as [|name vals]; [reflexivity|].
  destruct vals as [|v vals]; [reflexivity|].
  destruct vals as [|w vals]; [|reflexivity].
  rewrite (unquote_spec v). reflexivity.
Qed.

(* the three shapes, spelled out *)
Corollary set_view_shapes : forall n v w vals,
  set_view [n] = Some (n, VUnset, None)
  /\ set_view [n; dq :: v ++ [dq]] = Some (n, VString, Some v)
  /\ set_view (n :: v :: w :: vals) = Some (n, VList, Some (join (s" ") (v :: w :: vals))).
Proof.
  intros n v w vals. repeat split.
  unfold set_view, value_as_written. change (dq =? 34)%N with true. cbn iota.
  rewrite last_opt_app1. change (dq =? 34)%N with true. cbn iota.
  rewrite drop_last_app1. reflexivity.
Qed.

Example process_set_nonvacuous :
  let c := {| c_name := s"set"; c_args := [ASingle TIdent (s"X"); ASingle TQuoted (s"""a;b c""")] |} in
  forallb arg_text_ok (singles c) = true
  /\ set_view (singles c) = Some (s"X", VString, Some (s"a;b c")).
Proof. vm_compute. split; reflexivity. Qed.

Theorem render_variable_fields : forall n doc ty v,
  render_entry (EVariable n doc ty v) =
  Dir (s"data") [n] []
      [Para doc;
       Field (s"Default value") (match v with Some x => x | None => s"None" end);
       Field (s"type") (match ty with VString => s"str" | VList => s"list" | VUnset => s"UNSET" end)].
Proof. intros n doc ty v. destruct ty; reflexivity. Qed.

(* ---- N3: option ---- *)

Theorem process_option_spec : forall c doc docd st,
  process_option c doc docd st =
  match option_view (singles c) with
  | None => st
  | Some (n, h, _) => append (EOption n doc (option_value (singles c)) h) docd st
  end.
Proof.
  intros c doc docd st. unfold process_option, option_view, option_value.
  destruct (singles c) as [|a [|b [|v [|w r]]]]; reflexivity.
Qed.

Theorem render_option_default : forall args n h v doc,
  option_view args = Some (n, h, v) ->
  render_entry (EOption n doc (option_value args) h) =
  Dir (s"data") [n] []
      [Dir (s"note") [] [] [Para option_note];
       Para doc;
       Field (s"Help text") h;
       Field (s"Default value") v;
       Field (s"type") (s"bool")].
Proof.
  intros args n h v doc H. unfold option_view in H.
  destruct args as [|a [|b [|x [|w r]]]]; try discriminate H;
    injection H as <- <- <-; reflexivity.
Qed.

Example option_view_off : option_view [s"BUILD_X"; s"""help"""] = Some (s"BUILD_X", s"""help""", s"OFF").
Proof. reflexivity. Qed.

(* ---- N4: the NAME scan ---- *)

Lemma scan_name_none : forall ps acc, count_str NAME ps = 0 -> scan_name ps acc = Some acc.
Proof.
  induction ps as [|p r IH]; intros acc H; [reflexivity|].
  cbn [count_str] in H. cbn [scan_name]. change kw_name with NAME.
  rewrite str_eqb_sym. destruct (str_eqb NAME p); [discriminate H|].
  apply IH. exact H.
Qed.

Theorem scan_name_spec : forall ps acc, one_name ps = true -> scan_name ps acc = name_after ps.
Proof.
  unfold one_name. induction ps as [|p r IH]; intros acc H; [discriminate H|].
  cbn [count_str] in H. cbn [scan_name name_after]. change kw_name with NAME.
  rewrite (str_eqb_sym NAME p) in H. destruct (str_eqb p NAME).
  - destruct r as [|n r']; [reflexivity|].
    apply scan_name_none. apply Nat.eqb_eq in H. cbn [Nat.add] in H. lia.
  - apply IH. exact H.
Qed.

Theorem has_expectfail_spec : forall ps, has_expectfail ps = mem_str EXPECTFAIL ps.
Proof.
  unfold has_expectfail. induction ps as [|p r IH]; [reflexivity|].
  cbn [existsb mem_str]. rewrite IH. change kw_expectfail with EXPECTFAIL.
  rewrite str_eqb_sym. reflexivity.
Qed.

(* None iff NAME is the last argument *)
Lemma name_after_none_iff : forall ps, one_name ps = true ->
  (name_after ps = None <-> last_opt ps = Some NAME).
Proof.
  unfold one_name. induction ps as [|p r IH]; intros H; [discriminate H|].
  cbn [count_str] in H. cbn [name_after]. rewrite (str_eqb_sym NAME p) in H.
  destruct (str_eqb p NAME) eqn:E.
  - destruct r as [|n r'].
    + cbn [last_opt]. split; intros _; [|reflexivity]. f_equal.
      clear H. revert E. generalize NAME. induction p as [|x p IHp]; intros [|y q] E;
        try discriminate E; [reflexivity|].
      cbn [str_eqb] in E. apply andb_prop in E. destruct E as [E1 E2].
      apply N.eqb_eq in E1. subst y. f_equal. apply IHp. exact E2.
    + split; [discriminate|]. intros Hl. exfalso.
      change (last_opt (p :: n :: r')) with (last_opt (n :: r')) in Hl.
      apply Nat.eqb_eq in H. cbn [Nat.add] in H.
      assert (Hc : count_str NAME (n :: r') = 0) by lia.
      clear - Hl Hc. revert n Hl Hc. induction r' as [|m r'' IHr]; intros n Hl Hc.
      * cbn [last_opt] in Hl. injection Hl as ->. discriminate Hc.
      * change (last_opt (n :: m :: r'')) with (last_opt (m :: r'')) in Hl.
        apply (IHr m Hl). cbn [count_str] in Hc |- *. lia.
  - cbn [Nat.add] in H. destruct r as [|n r'].
    + discriminate H.
    + change (last_opt (p :: n :: r')) with (last_opt (n :: r')). apply IH. exact H.
Qed.

(* ---- N5: ct_add_test / ct_add_section ---- *)

Theorem process_test_spec : forall is_section c doc docd st,
  2 <= length (singles c) -> one_name (singles c) = true ->
  process_test is_section c doc docd st =
  match ct_view (singles c) with
  | Some (n, xf) =>
      with_awaiting (AwTop (length (documented st)))
        (append (ETest is_section n doc xf [] false) docd st)
  | None => st
  end.
Proof.
  intros is_section c doc docd st Hlen Hone. unfold process_test, ct_view.
  destruct (Nat.ltb_spec (length (singles c)) 2) as [Hlt|_]; [lia|].
  rewrite (scan_name_spec _ [] Hone), has_expectfail_spec.
  destruct (name_after (singles c)); reflexivity.
Qed.

Example process_test_nonvacuous :
  let ps := [s"EXPECTFAIL"; s"NAME"; s"t1"] in
  2 <= length ps /\ one_name ps = true /\ ct_view ps = Some (s"t1", true)
  /\ ct_view [s"x"; s"NAME"] = None.
Proof. vm_compute. repeat split; lia. Qed.

(* ---- N6: add_test ---- *)

Lemma scan_name_idx_none : forall ps i cur,
  count_str NAME ps = 0 -> scan_name_idx ps i cur = Some cur.
Proof.
  induction ps as [|p r IH]; intros i cur H; [reflexivity|].
  cbn [count_str] in H. cbn [scan_name_idx]. change kw_name with NAME.
  rewrite str_eqb_sym. destruct (str_eqb NAME p); [discriminate H|].
  apply IH. exact H.
Qed.

Lemma scan_name_idx_spec : forall ps i cur, one_name ps = true ->
  scan_name_idx ps i cur =
  match name_after ps with
  | Some n => Some (Some (i + name_pos ps), n)
  | None => None
  end.
Proof.
  unfold one_name. induction ps as [|p r IH]; intros i cur H; [discriminate H|].
  cbn [count_str] in H. cbn [scan_name_idx name_after name_pos]. change kw_name with NAME.
  rewrite (str_eqb_sym NAME p) in H. destruct (str_eqb p NAME).
  - destruct r as [|n r']; [reflexivity|].
    rewrite Nat.add_0_r. apply scan_name_idx_none.
    apply Nat.eqb_eq in H. cbn [Nat.add] in H. lia.
  - rewrite (IH (S i) cur H). destruct (name_after r); [|reflexivity].
    do 2 f_equal. f_equal. lia.
Qed.

(* removing positions name_pos and name_pos + 1 is other_args *)
Lemma drop_name_pair_spec : forall ps n, name_after ps = Some n ->
  drop_name_pair (Some (name_pos ps)) ps = other_args ps.
Proof.
  unfold drop_name_pair. induction ps as [|p r IH]; intros n H; [discriminate H|].
  cbn [name_after name_pos other_args] in H |- *. destruct (str_eqb p NAME).
  - destruct r as [|m r']; [discriminate H|]. reflexivity.
  - cbn [firstn Nat.add skipn app]. f_equal. apply (IH n H).
Qed.

Theorem process_add_test_spec : forall c doc docd st,
  2 <= length (singles c) -> one_name (singles c) = true ->
  process_add_test c doc docd st =
  match add_test_view (singles c) with
  | Some (n, others) => append (ECTest n doc others) docd st
  | None => st
  end.
Proof.
  intros c doc docd st Hlen Hone. unfold process_add_test, add_test_view.
  destruct (Nat.ltb_spec (length (singles c)) 2) as [Hlt|_]; [lia|].
  rewrite (scan_name_idx_spec _ 0 (None, []) Hone).
  destruct (name_after (singles c)) as [n|] eqn:E; [|reflexivity].
  cbn [Nat.add]. rewrite (drop_name_pair_spec _ n E). reflexivity.
Qed.

Definition mk_cmd (name : str) (ps : list str) : cmd :=
  {| c_name := name; c_args := map (ASingle TUnquoted) ps |}.

(* the test name occurring again among the other arguments stays *)
Example add_test_repeated_name :
  let ps := [s"NAME"; s"foo"; s"COMMAND"; s"foo"; s"--x"; s"foo"] in
  singles (mk_cmd (s"add_test") ps) = ps
  /\ 2 <= length ps /\ one_name ps = true
  /\ add_test_view ps = Some (s"foo", [s"COMMAND"; s"foo"; s"--x"; s"foo"])
  /\ documented (process_add_test (mk_cmd (s"add_test") ps) (s"d") true agg_init)
     = [ECTest (s"foo") (s"d") [s"COMMAND"; s"foo"; s"--x"; s"foo"]].
Proof. vm_compute. repeat split; lia. Qed.

(* NAME in the middle *)
Example add_test_name_in_middle :
  let ps := [s"COMMAND"; s"run"; s"NAME"; s"t"; s"run"] in
  one_name ps = true
  /\ documented (process_add_test (mk_cmd (s"add_test") ps) [] false agg_init)
     = [ECTest (s"t") [] [s"COMMAND"; s"run"; s"run"]].
Proof. vm_compute. split; reflexivity. Qed.

(* the length premise is implied: with exactly one NAME and fewer than two arguments the
   only argument is NAME itself, and no entry is made either way *)
Lemma one_name_short : forall ps, one_name ps = true -> length ps < 2 -> name_after ps = None.
Proof.
  intros [|p [|q r]] H Hl; [discriminate H| |cbn [length] in Hl; lia].
  unfold one_name in H. cbn [count_str] in H. cbn [name_after].
  rewrite str_eqb_sym. destruct (str_eqb NAME p); [reflexivity|discriminate H].
Qed.

Theorem process_test_spec_any_length : forall is_section c doc docd st,
  one_name (singles c) = true ->
  process_test is_section c doc docd st =
  match ct_view (singles c) with
  | Some (n, xf) =>
      with_awaiting (AwTop (length (documented st)))
        (append (ETest is_section n doc xf [] false) docd st)
  | None => st
  end.
Proof.
  intros is_section c doc docd st Hone.
  destruct (Nat.ltb_spec (length (singles c)) 2) as [Hlt|Hge].
  - unfold process_test, ct_view. rewrite (one_name_short _ Hone Hlt).
    destruct (Nat.ltb_spec (length (singles c)) 2) as [_|Hge]; [reflexivity|lia].
  - apply process_test_spec; assumption.
Qed.

Theorem process_add_test_spec_any_length : forall c doc docd st,
  one_name (singles c) = true ->
  process_add_test c doc docd st =
  match add_test_view (singles c) with
  | Some (n, others) => append (ECTest n doc others) docd st
  | None => st
  end.
Proof.
  intros c doc docd st Hone.
  destruct (Nat.ltb_spec (length (singles c)) 2) as [Hlt|Hge].
  - unfold process_add_test, add_test_view. rewrite (one_name_short _ Hone Hlt).
    destruct (Nat.ltb_spec (length (singles c)) 2) as [_|Hge]; [reflexivity|lia].
  - apply process_add_test_spec; assumption.
Qed.

(* ---- N7: rendering of test entries ---- *)

Theorem render_test_entry : forall sec n d xf ps mac,
  render_entry (ETest sec n d xf ps mac) =
  Dir (s"function") [n ++ s"(" ++ (if xf then EXPECTFAIL else []) ++ s")"] []
      [Dir (s"warning") [if sec then section_warning else test_warning] [] []; Para d].
Proof. reflexivity. Qed.

Theorem render_ctest_entry : forall n d ps,
  render_entry (ECTest n d ps) =
  Dir (s"function") [signature n ps] []
      [Dir (s"warning") [ctest_warning] [] []; Para d].
Proof. reflexivity. Qed.

Theorem warnings_distinct :
  str_eqb test_warning section_warning = false
  /\ str_eqb test_warning ctest_warning = false
  /\ str_eqb section_warning ctest_warning = false
  /\ str_eqb test_warning generic_warning = false
  /\ str_eqb section_warning generic_warning = false
  /\ str_eqb ctest_warning generic_warning = false.
Proof. vm_compute. repeat split. Qed.

(* ==== MAIN THEOREMS ====
   unquote_spec unquote_quoted process_set_spec set_view_shapes render_variable_fields
   process_option_spec render_option_default
   scan_name_spec has_expectfail_spec name_after_none_iff
   process_test_spec process_add_test_spec add_test_repeated_name
   process_test_spec_any_length process_add_test_spec_any_length
   render_test_entry render_ctest_entry warnings_distinct *)
Print Assumptions unquote_spec.
Print Assumptions unquote_quoted.
Print Assumptions process_set_spec.
Print Assumptions set_view_shapes.
Print Assumptions render_variable_fields.
Print Assumptions process_option_spec.
Print Assumptions render_option_default.
Print Assumptions scan_name_spec.
Print Assumptions has_expectfail_spec.
Print Assumptions name_after_none_iff.
Print Assumptions process_test_spec.
Print Assumptions process_add_test_spec.
Print Assumptions add_test_repeated_name.
Print Assumptions process_test_spec_any_length.
Print Assumptions process_add_test_spec_any_length.
Print Assumptions render_test_entry.
Print Assumptions render_ctest_entry.
Print Assumptions warnings_distinct.
