(* Proofs/GrammarFacts.v -- properties C05 / C06: every file that conforms to the reference
   grammar Spec/CMakeGrammar.v (written from cmake-language(7)) is lexed and parsed without
   error into the same command invocations with the same argument boundaries, under any
   spacing; accepted token sequences have balanced parentheses. *)
From Coq Require Import String List NArith Bool Arith Lia ZifyBool.
From CMinx Require Import Base.Str Model.Lexer Model.Parser Proofs.LexerFacts Proofs.ParserFacts
  Proofs.LayoutFacts Spec.CMakeGrammar.
Import ListNotations.


(* ---- spec ---- *)

(* an unquoted text that happens to be an identifier is an Identifier token *)
Definition kind_of_unquoted (t : str) : tk := if g_ident t then TIdent else TUnquoted.

(* a bracket argument whose whole text is also a sequence of unquoted elements is an
   Unquoted_argument token (same length, earlier rule); both are single_argument *)
Definition kind_of_bracket (n : nat) (b : str) : tk :=
  if g_unq_units (print_garg (GBracket n b)) then TUnquoted else TBracketArg.

Fixpoint tokens_of_arg (a : garg) : list token :=
  match a with
  | GUnquoted t => [(kind_of_unquoted t, t)]
  | GQuoted b => [(TQuoted, print_garg a)]
  | GBracket n b => [(kind_of_bracket n b, print_garg a)]
  | GParen l => (TLParen, [lpar]) :: flat_map tokens_of_arg l ++ [(TRParen, [rpar])]
  end.

Definition tokens_of_cmd (c : gcmd) : list token :=
  (TIdent, g_name c) :: (TLParen, [lpar]) :: flat_map tokens_of_arg (g_args c) ++ [(TRParen, [rpar])].

Definition tokens_of (a : gfile) : list token := flat_map tokens_of_cmd a.

Fixpoint arg_leaves (a : arg) : list str :=
  match a with
  | ASingle _ t => [t]
  | ACompound l => [lpar] :: flat_map arg_leaves l ++ [[rpar]]
  end.

Definition invocations_of_cfile (f : cfile) : list (str * list str) :=
  map (fun c => (c_name c, flat_map arg_leaves (c_args c))) (cmds_of f).

(* running parenthesis depth: never negative, zero at the end *)
Fixpoint depth_ok (ts : list token) (d : nat) : bool :=
  match ts with
  | [] => Nat.eqb d 0
  | (k, _) :: r =>
      match k with
      | TLParen => depth_ok r (S d)
      | TRParen => match d with O => false | S d' => depth_ok r d' end
      | _ => depth_ok r d
      end
  end.



(* ---- G5: balanced parentheses ---- *)

Definition st_depth (st : pstate) : nat :=
  match st with
  | PArgs _ _ stack _ => S (length stack)
  | _ => 0
  end.

Lemma parse_go_depth : forall ts st acc es,
  parse_go ts st acc = Some es -> depth_ok ts (st_depth st) = true.
Proof.
  induction ts as [|[k t] r IH]; intros st acc es H.
  - destruct st as [[d|] | doc name | doc name stack cur]; cbn [parse_go] in H; try discriminate; reflexivity.
  - destruct st as [doc | doc name | doc name stack cur].
    + destruct k; cbn [parse_go] in H; try discriminate; cbn [depth_ok st_depth];
        exact (IH _ _ _ H).
    + destruct k; cbn [parse_go] in H; try discriminate. cbn [depth_ok st_depth].
      exact (IH _ _ _ H).
    + destruct k; cbn [parse_go is_single_kind] in H; try discriminate; cbn [depth_ok st_depth].
      * exact (IH _ _ _ H).
      * destruct stack as [|up stack']; exact (IH _ _ _ H).
      * exact (IH _ _ _ H).
      * exact (IH _ _ _ H).
      * exact (IH _ _ _ H).
      * exact (IH _ _ _ H).
Qed.

(* an accepted token sequence has balanced parentheses *)
Theorem balanced_parens : forall ts f, parse ts = Some f -> depth_ok ts 0 = true.
Proof.
  intros ts f H.
  destruct (parse_cases ts) as [(t & r & -> & E) | (_ & E)]; rewrite E in H; clear E.
  - destruct (parse_go r (PTop None) []) as [es|] eqn:G; [|discriminate].
    cbn [depth_ok]. exact (parse_go_depth _ _ _ _ G).
  - destruct (parse_go ts (PTop None) []) as [es|] eqn:G; [|discriminate].
    exact (parse_go_depth _ _ _ _ G).
Qed.

Corollary unbalanced_parens_rejected : forall ts, depth_ok ts 0 = false -> parse ts = None.
Proof.
  intros ts H. destruct (parse ts) as [f|] eqn:P; [|reflexivity].
  apply balanced_parens in P. rewrite P in H. discriminate H.
Qed.

Example balanced_parens_ex :
  (exists ts f, lex (s"f(a (b) ())") = LexOk ts /\ parse ts = Some f /\ depth_ok ts 0 = true) /\
  (exists ts, lex (s"f(a (b)") = LexOk ts /\ depth_ok ts 0 = false /\ parse ts = None) /\
  (exists ts, lex (s"f(a))") = LexOk ts /\ depth_ok ts 0 = false /\ parse ts = None).
Proof.
  split; [|split].
  - do 2 eexists. repeat split; vm_compute; reflexivity.
  - eexists. repeat split; vm_compute; reflexivity.
  - eexists. repeat split; vm_compute; reflexivity.
Qed.

(* ---- the character classes of the reference grammar and of the lexer agree ---- *)

Lemma g_plain_unq (c : char) : g_plain c = is_unq_char c.
Proof. unfold g_plain, g_space, is_unq_char, is_sptab, is_eol. lia. Qed.

Lemma g_escapable_ok (c : char) : g_escapable c = esc_ok c.
Proof. unfold g_escapable, g_letter, g_digit, esc_ok, is_alnum, is_upper, is_lower, is_digit. lia. Qed.

Lemma g_ident_lexer (a : char) (r : str) :
  g_ident (a :: r) = is_ident_start a && forallb is_ident_char r.
Proof.
  reflexivity.
Qed.

(* what may follow an argument in the printed form *)
Definition arg_stop (rest : str) : Prop := exists c z, rest = c :: z /\ (c = sp \/ c = rpar).

Lemma arg_stop_facts (rest : str) :
  arg_stop rest ->
  unq_run rest = 0 /\ ident_delim rest = true /\
  exists c z, rest = c :: z /\ (c =? 91)%N = false /\ (c =? 61)%N = false /\ is_ident_char c = false.
Proof.
  intros (c & z & -> & [-> | ->]); (split; [reflexivity|]); (split; [reflexivity|]);
    eexists; eexists; repeat split; reflexivity.
Qed.

Lemma units_run (t : str) : g_unq_units t = true -> forall z, unq_run (t ++ z) = length t + unq_run z.
Proof.
  induction t as [| a | a b r IHr IHb] using str_ind2; intros H z.
  - reflexivity.
  - cbn [g_unq_units] in H. cbn [app length]. rewrite unq_run_cons.
    destruct (a =? 92)%N; [discriminate H|]. apply andb_true_iff in H. destruct H as [H _].
    rewrite g_plain_unq in H. rewrite H. lia.
  - change ((a :: b :: r) ++ z) with (a :: b :: (r ++ z)). rewrite unq_run_cons. cbn [length].
    cbn [g_unq_units] in H. destruct (a =? 92)%N.
    + apply andb_true_iff in H. destruct H as [Hb Hr]. rewrite g_escapable_ok in Hb. rewrite Hb.
      rewrite (IHr Hr z). lia.
    + apply andb_true_iff in H. destruct H as [Ha Hr]. rewrite g_plain_unq in Ha. rewrite Ha.
      change (b :: r ++ z) with ((b :: r) ++ z). rewrite (IHb Hr z). cbn [length]. lia.
Qed.

Lemma units_first (a : char) (r : str) :
  g_unq_units (a :: r) = true ->
  (a =? 40)%N = false /\ (a =? 41)%N = false /\ (a =? 35)%N = false /\ (a =? 34)%N = false /\
  is_sptab a = false /\ is_eol a = false /\ ((a =? 92)%N = true -> 2 <= length (a :: r)).
Proof.
  cbn [g_unq_units]. destruct (a =? 92)%N eqn:Ea.
  - intro H. apply N.eqb_eq in Ea. subst a. repeat split; try reflexivity.
    intros _. destruct r; [discriminate H | cbn [length]; lia].
  - intro H. apply andb_true_iff in H. destruct H as [H _].
    unfold g_plain, g_space in H. unfold is_sptab, is_eol. repeat split; first [lia | intro; discriminate].
Qed.

Lemma opener_none (t : str) (c : char) (z : str) :
  g_bracket_opener t = false -> (c =? 91)%N = false -> (c =? 61)%N = false ->
  m_bracket_arg (t ++ c :: z) = None.
Proof.
  intros Ho C91 C61. destruct t as [|a r].
  - cbn [app]. apply m_bracket_arg_no. exact C91.
  - cbn [app m_bracket_arg]. cbn [g_bracket_opener] in Ho.
    destruct (a =? 91)%N; [|reflexivity]. cbn [andb] in Ho.
    destruct (forallb (fun x : char => (x =? 61)%N) r) eqn:Fr.
    + rewrite (count_while_all_stop _ r c z Fr C61), skipn_exact, C91. reflexivity.
    + destruct (forallb_false_split _ r Fr) as (e1 & b & e5 & -> & F1 & Fb).
      rewrite <- app_assoc. cbn [app].
      rewrite (count_while_all_stop _ e1 b _ F1 Fb), skipn_exact.
      rewrite (drop_while_stop _ e1 b e5 F1 Fb) in Ho. rewrite Ho. reflexivity.
Qed.

Lemma better_ff_lt (a b : nat) : b < a -> better (a, false) (b, false) = true.
Proof. intro H. unfold better. cbn [fst snd]. apply orb_true_iff. left. apply Nat.ltb_lt. exact H. Qed.

Lemma better_ff_ge (a b : nat) : a <= b -> better (a, false) (b, false) = false.
Proof.
  intro H. unfold better. cbn [fst snd]. rewrite andb_false_r, orb_false_r.
  apply Nat.ltb_ge. exact H.
Qed.

(* -- unquoted arguments -- *)
Lemma best_unquoted_arg (t rest : str) :
  wf_unquoted t = true -> arg_stop rest ->
  best (t ++ rest) = Some (kind_of_unquoted t, length t).
Proof.
  intros Hw Hs. unfold wf_unquoted in Hw.
  apply andb_true_iff in Hw. destruct Hw as [Hw Hop]. apply andb_true_iff in Hw. destruct Hw as [Hne Hu].
  apply negb_true_iff in Hop.
  destruct t as [|a r]; [discriminate Hne|]. clear Hne.
  destruct (arg_stop_facts rest Hs) as (U0 & Dl & c & z & -> & C91 & C61 & Cic).
  unfold kind_of_unquoted. destruct (g_ident (a :: r)) eqn:Gi.
  - rewrite g_ident_lexer in Gi. apply andb_true_iff in Gi. destruct Gi as [Ha Hr].
    apply best_ident_delim; assumption.
  - destruct (units_first a r Hu) as (H40 & H41 & H35 & H34 & Hsp & Heol & H92).
    assert (MU : m_unquoted ((a :: r) ++ c :: z) = Some (S (length r))).
    { unfold m_unquoted. rewrite (units_run _ Hu), U0. cbn [length]. rewrite Nat.add_0_r. reflexivity. }
    assert (MB : m_bracket_arg ((a :: r) ++ c :: z) = None) by (apply opener_none; assumption).
    assert (MI : short_opt (m_identifier ((a :: r) ++ c :: z)) (length r)).
    { cbn [app m_identifier]. destruct (is_ident_start a) eqn:Ha; [|exact I]. cbn [short_opt].
      destruct (forallb is_ident_char r) eqn:Hr.
      - rewrite g_ident_lexer, Ha, Hr in Gi. discriminate Gi.
      - destruct (forallb_false_split _ r Hr) as (e1 & b & e5 & -> & F1 & Fb).
        rewrite <- app_assoc. cbn [app]. rewrite (count_while_all_stop _ e1 b _ F1 Fb).
        rewrite app_length. cbn [length]. clear - e1 e5. lia. }
    assert (ME : m_escape ((a :: r) ++ c :: z) = None \/
                 (m_escape ((a :: r) ++ c :: z) = Some 2 /\ 2 <= S (length r))).
    { destruct (a =? 92)%N eqn:Ea.
      - specialize (H92 eq_refl). cbn [length] in H92.
        destruct r as [|b r']; [cbn [length] in H92; lia|]. cbn [app m_escape]. rewrite Ea. cbn [andb].
        destruct (esc_ok b); [right; split; [reflexivity | cbn [length]; lia] | left; reflexivity].
      - left. cbn [app]. apply m_escape_no. exact Ea. }
    cbn [length]. revert MU MB MI ME. cbn [app]. intros MU MB MI ME.
    rewrite best_results. kill_rules. rewrite MU, MB.
    destruct (m_identifier (a :: r ++ c :: z)) as [ni|]; cbn [short_opt] in MI;
      destruct ME as [ME | [ME L2]]; rewrite ME; cbn [pick noeof].
    + rewrite (better_ff_lt (S (length r)) ni) by lia. reflexivity.
    + rewrite (better_ff_lt (S (length r)) ni) by lia. rewrite (better_ff_ge 2 (S (length r))) by lia.
      reflexivity.
    + reflexivity.
    + rewrite (better_ff_ge 2 (S (length r))) by lia. reflexivity.
Qed.

(* -- quoted arguments -- *)
Lemma quoted_body_wf (b : str) : wf_quoted b = true -> forall rest,
  quoted_body (b ++ dq :: rest) = Some (S (length b)).
Proof.
  induction b as [| a | a c r IHr IHc] using str_ind2; intros H rest.
  - reflexivity.
  - cbn [wf_quoted] in H. cbn [app length]. rewrite quoted_body_cons.
    destruct (a =? 34)%N; [discriminate H|]. destruct (a =? 92)%N; [discriminate H|]. reflexivity.
  - change ((a :: c :: r) ++ dq :: rest) with (a :: c :: (r ++ dq :: rest)).
    rewrite quoted_body_cons. cbn [wf_quoted] in H. cbn [length].
    destruct (a =? 34)%N; [discriminate H|]. destruct (a =? 92)%N.
    + apply andb_true_iff in H. destruct H as [Hc Hr]. rewrite g_escapable_ok in Hc. rewrite Hc.
      rewrite (IHr Hr rest). reflexivity.
    + change (c :: r ++ dq :: rest) with ((c :: r) ++ dq :: rest). rewrite (IHc H rest). reflexivity.
Qed.

Lemma best_quoted_arg (b rest : str) :
  wf_quoted b = true -> best (print_garg (GQuoted b) ++ rest) = Some (TQuoted, length (print_garg (GQuoted b))).
Proof.
  intro H. cbn [print_garg]. cbn [app]. rewrite <- app_assoc. cbn [app].
  rewrite best_dq, (quoted_body_wf b H rest). cbn [length]. rewrite app_length. cbn [length].
  f_equal. f_equal. lia.
Qed.


(* -- bracket arguments -- *)

Lemma find_sub_sw0 (pat x : str) : startswith pat x = true -> find_sub pat x = Some 0.
Proof. intro H. destruct x; cbn [find_sub]; rewrite H; reflexivity. Qed.

Lemma startswith_app_self (p z : str) : startswith p (p ++ z) = true.
Proof. induction p as [|a p IH]; [reflexivity|]. cbn [app startswith]. rewrite N.eqb_refl, IH. reflexivity. Qed.

Lemma find_close (pat dl : str) (lastc : char) :
  pat = dl ++ [lastc] -> forall b rest,
  contains pat (b ++ dl) = false -> find_sub pat (b ++ pat ++ rest) = Some (length b).
Proof.
  intros Ep b rest. induction b as [|a b IH]; intro H.
  - cbn [app length]. apply find_sub_sw0. apply startswith_app_self.
  - cbn [app contains] in H. apply orb_false_iff in H. destruct H as [H1 H2].
    cbn [app]. rewrite find_sub_cons.
    assert (E : startswith pat (a :: b ++ pat ++ rest) = false).
    { assert (X : a :: b ++ pat ++ rest = ((a :: b) ++ dl) ++ [lastc] ++ rest).
      { rewrite Ep, <- !app_assoc. reflexivity. }
      assert (Y : a :: b ++ dl = ((a :: b) ++ dl) ++ []) by (rewrite app_nil_r; reflexivity).
      rewrite X. rewrite Y in H1. rewrite <- H1. apply startswith_local.
      rewrite Ep, !app_length. cbn [length]. lia. }
    rewrite E, (IH H2). reflexivity.
Qed.

Lemma m_bracket_arg_print (n : nat) (b rest : str) :
  wf_bracket n b = true ->
  m_bracket_arg (print_garg (GBracket n b) ++ rest) = Some (length (print_garg (GBracket n b))).
Proof.
  intro H. unfold wf_bracket in H. apply negb_true_iff in H.
  cbn [print_garg]. unfold gopen. rewrite <- !app_assoc. cbn [app m_bracket_arg].
  change (lbr =? 91)%N with true. cbv iota.
  rewrite (count_while_all_stop _ (repeat eqc n) lbr _ (repeat_eq_all n) eq_refl).
  rewrite skipn_exact. change (lbr =? 91)%N with true. cbv iota. rewrite repeat_length.
  change (gclose n) with (bracket_close n) in *.
  rewrite (find_close (bracket_close n) (rbr :: repeat eqc n) rbr eq_refl b rest H).
  f_equal. cbn [length]. rewrite app_length, repeat_length. cbn [length].
  rewrite app_length, bracket_close_length. lia.
Qed.

Lemma units_false_run (t : str) : forall c z,
  g_unq_units t = false -> nobsl_end t = true -> unq_run (c :: z) = 0 ->
  unq_run (t ++ c :: z) < length t.
Proof.
  induction t as [| a | a b r IHr IHb] using str_ind2; intros c z H Hl Hc.
  - discriminate H.
  - cbn [g_unq_units] in H. cbn [app length]. rewrite unq_run_cons.
    destruct (a =? 92)%N eqn:Ea.
    + unfold nobsl_end in Hl. cbn [last] in Hl. rewrite Ea in Hl. discriminate Hl.
    + rewrite andb_true_r in H. rewrite g_plain_unq in H. rewrite H. lia.
  - change ((a :: b :: r) ++ c :: z) with (a :: b :: (r ++ c :: z)). rewrite unq_run_cons. cbn [length].
    cbn [g_unq_units] in H.
    assert (Hlr : r <> [] -> nobsl_end r = true).
    { intro Hr. unfold nobsl_end in *. destruct r; [contradiction | exact Hl]. }
    destruct (a =? 92)%N.
    + rewrite g_escapable_ok in H. destruct (esc_ok b); [|lia]. cbn [andb] in H.
      destruct r as [|r0 r1]; [discriminate H|].
      specialize (IHr c z H (Hlr ltac:(discriminate)) Hc). lia.
    + rewrite g_plain_unq in H. destruct (is_unq_char a); [|lia]. cbn [andb] in H.
      assert (Hlb : nobsl_end (b :: r) = true) by (unfold nobsl_end in *; exact Hl).
      change (b :: r ++ c :: z) with ((b :: r) ++ c :: z).
      specialize (IHb c z H Hlb Hc). cbn [length] in IHb. lia.
Qed.

Lemma best_bracket_arg (n : nat) (b rest : str) :
  wf_bracket n b = true -> arg_stop rest ->
  best (print_garg (GBracket n b) ++ rest) =
  Some (kind_of_bracket n b, length (print_garg (GBracket n b))).
Proof.
  intros Hw Hs. pose proof (m_bracket_arg_print n b rest Hw) as MB.
  destruct (arg_stop_facts rest Hs) as (U0 & _ & c & z & -> & _).
  unfold kind_of_bracket. set (T := print_garg (GBracket n b)) in *.
  assert (ET : exists T', T = lbr :: T' /\ nobsl_end T = true).
  { unfold T. cbn [print_garg]. unfold gopen, gclose. eexists. split.
    - cbn [app]. reflexivity.
    - unfold nobsl_end.
      assert (E : ([lbr] ++ repeat eqc n ++ [lbr]) ++ b ++ [rbr] ++ repeat eqc n ++ [rbr] =
                  (([lbr] ++ repeat eqc n ++ [lbr]) ++ b ++ [rbr] ++ repeat eqc n) ++ [rbr])
        by (rewrite <- !app_assoc; reflexivity).
      rewrite E, last_last. reflexivity. }
  destruct ET as (T' & ET & Hl).
  assert (MU : m_unquoted (T ++ c :: z) =
               if g_unq_units T then Some (length T)
               else m_unquoted (T ++ c :: z)) by (destruct (g_unq_units T) eqn:G; [|reflexivity];
               unfold m_unquoted; rewrite (units_run T G), U0, Nat.add_0_r, ET; reflexivity).
  assert (MU2 : g_unq_units T = false -> short_opt (m_unquoted (T ++ c :: z)) (length T - 1)).
  { intro G. pose proof (units_false_run T c z G Hl U0) as L. unfold m_unquoted.
    destruct (unq_run (T ++ c :: z)); cbn [short_opt]; [exact I | lia]. }
  revert MB MU MU2. rewrite ET. cbn [app]. intros MB MU MU2.
  rewrite best_results. kill_rules. rewrite MB.
  destruct (g_unq_units (lbr :: T')) eqn:G.
  - rewrite MU. cbn [pick noeof]. rewrite better_same. reflexivity.
  - specialize (MU2 eq_refl). destruct (m_unquoted (lbr :: T' ++ c :: z)) as [u|]; cbn [pick noeof short_opt] in *.
    + rewrite better_ff_lt by (cbn [length] in *; lia). reflexivity.
    + reflexivity.
Qed.

(* ---- G1: the printed file lexes to the expected tokens ---- *)

Lemma lex_sim_ok (a : lexres) (ts : list token) : lex_sim a (LexOk ts) -> a = LexOk ts.
Proof. destruct a as [p|p]; cbn [lex_sim]; intro H; [subst; reflexivity | contradiction]. Qed.

Lemma lex_piece_ok (u v : str) (k : tk) (ts : list token) :
  u <> [] -> best (u ++ v) = Some (k, length u) -> lex v = LexOk ts ->
  lex (u ++ v) = LexOk (if skipped k then ts else (k, u) :: ts).
Proof. intros Hu B Hv. rewrite (lex_first_piece u v k Hu B), Hv. reflexivity. Qed.

Lemma garg_ind2 (P : garg -> Prop) :
  (forall t, P (GUnquoted t)) -> (forall b, P (GQuoted b)) -> (forall n b, P (GBracket n b)) ->
  (forall l, Forall P l -> P (GParen l)) -> forall a, P a.
Proof.
  intros H1 H2 H3 H4. fix IH 1. intros [t | b | n b | l].
  - apply H1.
  - apply H2.
  - apply H3.
  - apply H4. induction l as [|a l IHl]; constructor; [apply IH | exact IHl].
Qed.

Definition arg_lexes (a : garg) : Prop :=
  wf_garg a = true -> forall rest ts, arg_stop rest -> lex rest = LexOk ts ->
  lex (print_garg a ++ rest) = LexOk (tokens_of_arg a ++ ts).

Lemma join_cons2 (sep x y : str) (r : list str) :
  join sep (x :: y :: r) = x ++ sep ++ join sep (y :: r).
Proof. reflexivity. Qed.

Lemma args_lex (l : list garg) :
  Forall arg_lexes l -> forallb wf_garg l = true -> forall r' ts,
  lex (rpar :: r') = LexOk ts ->
  lex (print_args l ++ rpar :: r') = LexOk (flat_map tokens_of_arg l ++ ts).
Proof.
  intro HF. induction HF as [|x l Hx _ IH]; intros Hw r' ts Hr.
  - exact Hr.
  - cbn [forallb] in Hw. apply andb_true_iff in Hw. destruct Hw as [Hwx Hwl].
    cbn [flat_map]. rewrite <- app_assoc. destruct l as [|y l''].
    + unfold print_args. cbn [map join flat_map app].
      apply (Hx Hwx); [|exact Hr]. exists rpar, r'. split; [reflexivity | right; reflexivity].
    + unfold print_args in *. cbn [map] in *. rewrite join_cons2, <- !app_assoc. cbn [app].
      apply (Hx Hwx); [exists sp; eexists; split; [reflexivity | left; reflexivity]|].
      apply lex_sim_ok. rewrite <- (IH Hwl r' ts Hr).
      apply (lex_leading_ws1 sp _ eq_refl).
Qed.

Lemma arg_lexes_all : forall a, arg_lexes a.
Proof.
  induction a as [t | b | n b | l HF] using garg_ind2; intros Hw rest ts Hs Hr; cbn [wf_garg] in Hw.
  - cbn [print_garg tokens_of_arg app].
    assert (Ht : t <> []) by (intro E; subst t; discriminate Hw).
    rewrite (lex_piece_ok t rest _ ts Ht (best_unquoted_arg t rest Hw Hs) Hr).
    unfold kind_of_unquoted. destruct (g_ident t); reflexivity.
  - cbn [tokens_of_arg app].
    assert (Hq : print_garg (GQuoted b) <> []) by (cbn [print_garg]; discriminate).
    rewrite (lex_piece_ok _ rest _ ts Hq (best_quoted_arg b rest Hw) Hr). reflexivity.
  - cbn [tokens_of_arg app].
    assert (Ht : print_garg (GBracket n b) <> []) by (cbn [print_garg]; unfold gopen; discriminate).
    rewrite (lex_piece_ok _ rest _ ts Ht (best_bracket_arg n b rest Hw Hs) Hr).
    unfold kind_of_bracket. destruct (g_unq_units _); reflexivity.
  - assert (Hrp : lex (rpar :: rest) = LexOk ((TRParen, [rpar]) :: ts)).
    { exact (lex_piece_ok [rpar] rest TRParen ts ltac:(discriminate) (best_rpar_any rest) Hr). }
    pose proof (args_lex l HF Hw rest _ Hrp) as HA.
    pose proof (lex_piece_ok [lpar] _ TLParen _ ltac:(discriminate) (best_lpar_any _) HA) as HP.
    cbn [skipped app] in HP.
    change (print_garg (GParen l)) with (lpar :: print_args l ++ [rpar]).
    change (tokens_of_arg (GParen l)) with ((TLParen, [lpar]) :: flat_map tokens_of_arg l ++ [(TRParen, [rpar])]).
    cbn [app]. rewrite <- !app_assoc. cbn [app]. exact HP.
Qed.

Lemma cmd_lexes (c : gcmd) (R : str) (ts : list token) :
  wf_gcmd c = true -> lex R = LexOk ts ->
  lex (print_gcmd c ++ R) = LexOk (tokens_of_cmd c ++ ts).
Proof.
  intros Hw HR. unfold wf_gcmd in Hw. apply andb_true_iff in Hw. destruct Hw as [Hn Ha].
  unfold print_gcmd, tokens_of_cmd. rewrite <- !app_assoc. cbn [app].
  assert (H1 : lex (nl :: R) = LexOk ts).
  { apply lex_sim_ok. rewrite <- HR. apply (lex_leading_ws1 nl R eq_refl). }
  assert (H2 : lex (rpar :: nl :: R) = LexOk ((TRParen, [rpar]) :: ts)).
  { exact (lex_piece_ok [rpar] _ TRParen ts ltac:(discriminate) (best_rpar_any _) H1). }
  pose proof (args_lex (g_args c) ltac:(apply Forall_forall; intros a _; apply arg_lexes_all) Ha _ _ H2) as H3.
  assert (H4 : lex (lpar :: print_args (g_args c) ++ rpar :: nl :: R) =
               LexOk ((TLParen, [lpar]) :: flat_map tokens_of_arg (g_args c) ++ (TRParen, [rpar]) :: ts)).
  { exact (lex_piece_ok [lpar] _ TLParen _ ltac:(discriminate) (best_lpar_any _) H3). }
  destruct (g_name c) as [|a r] eqn:En; [discriminate Hn|].
  rewrite g_ident_lexer in Hn. apply andb_true_iff in Hn. destruct Hn as [Hs Hr].
  pose proof (best_ident_delim a r (lpar :: print_args (g_args c) ++ rpar :: nl :: R) Hs Hr eq_refl) as B.
  rewrite (lex_piece_ok (a :: r) _ TIdent _ ltac:(discriminate) B H4). cbn [skipped].
  rewrite <- app_assoc. reflexivity.
Qed.

(* every well-formed file of the reference grammar is lexed into exactly its tokens *)
Theorem lex_print_gfile : forall a, wf_gfile a = true -> lex (print_gfile a) = LexOk (tokens_of a).
Proof.
  induction a as [|c a IH]; intro Hw; [reflexivity|].
  unfold wf_gfile in Hw. cbn [forallb] in Hw. apply andb_true_iff in Hw. destruct Hw as [Hc Ha].
  unfold print_gfile, tokens_of. cbn [map concat flat_map].
  apply cmd_lexes; [exact Hc | apply IH; exact Ha].
Qed.


(* ---- G2: the tokens parse to the same command invocations ---- *)

Fixpoint to_arg (a : garg) : arg :=
  match a with
  | GUnquoted t => ASingle (kind_of_unquoted t) t
  | GQuoted b => ASingle TQuoted (print_garg a)
  | GBracket n b => ASingle (kind_of_bracket n b) (print_garg a)
  | GParen l => ACompound (map to_arg l)
  end.

Definition to_cmd (c : gcmd) : cmd := {| c_name := g_name c; c_args := map to_arg (g_args c) |}.

Definition to_cfile (a : gfile) : cfile :=
  {| f_module := None; f_elems := map (fun c => ECmd (to_cmd c)) a |}.

Lemma tokens_unparse_arg : forall a, tokens_of_arg a = unparse_arg (to_arg a).
Proof.
  induction a as [t | b | n b | l HF] using garg_ind2; try reflexivity.
  cbn [tokens_of_arg to_arg unparse_arg]. f_equal. f_equal.
  induction HF as [|x l Hx _ IH]; [reflexivity|].
  cbn [flat_map map concat]. rewrite Hx, IH. reflexivity.
Qed.

Lemma tokens_unparse_args (l : list garg) :
  flat_map tokens_of_arg l = unparse_args (map to_arg l).
Proof.
  induction l as [|x l IH]; [reflexivity|].
  cbn [flat_map map]. rewrite unparse_args_cons, tokens_unparse_arg, IH. reflexivity.
Qed.

Lemma tokens_unparse (a : gfile) : tokens_of a = unparse_file (to_cfile a).
Proof.
  unfold unparse_file, to_cfile. cbn [f_module f_elems app].
  induction a as [|c a IH]; [reflexivity|].
  unfold tokens_of in *. cbn [flat_map map]. rewrite unparse_elems_cons, IH.
  cbn [unparse_elem]. unfold unparse_cmd, tokens_of_cmd, to_cmd. cbn [c_name c_args].
  rewrite tokens_unparse_args. reflexivity.
Qed.

Lemma kind_of_unquoted_single (t : str) : is_single_kind (kind_of_unquoted t) = true.
Proof. unfold kind_of_unquoted. destruct (g_ident t); reflexivity. Qed.

Lemma kind_of_bracket_single (n : nat) (b : str) : is_single_kind (kind_of_bracket n b) = true.
Proof. unfold kind_of_bracket. destruct (g_unq_units _); reflexivity. Qed.

Lemma wf_to_arg : forall a, wf_arg (to_arg a) = true.
Proof.
  induction a as [t | b | n b | l HF] using garg_ind2; cbn [to_arg wf_arg].
  - apply kind_of_unquoted_single.
  - reflexivity.
  - apply kind_of_bracket_single.
  - induction HF as [|x l Hx _ IH]; [reflexivity|]. cbn [map forallb]. rewrite Hx, IH. reflexivity.
Qed.

Lemma wf_to_cfile (a : gfile) : wf_file (to_cfile a) = true.
Proof.
  unfold wf_file, to_cfile. cbn [f_elems]. apply andb_true_iff. split.
  - induction a as [|c a IH]; [reflexivity|]. cbn [map forallb]. rewrite IH, andb_true_r.
    cbn [wf_elem]. unfold wf_cmd, to_cmd. cbn [c_args].
    induction (g_args c) as [|x l IHl]; [reflexivity|]. cbn [map forallb]. rewrite wf_to_arg, IHl. reflexivity.
  - induction a as [|c a IH]; [reflexivity|]. cbn [map no_dangling_cmd]. exact IH.
Qed.

Lemma leaves_to_arg : forall a, arg_leaves (to_arg a) = leaves a.
Proof.
  induction a as [t | b | n b | l HF] using garg_ind2; try reflexivity.
  cbn [to_arg arg_leaves leaves]. f_equal. f_equal.
  induction HF as [|x l Hx _ IH]; [reflexivity|]. cbn [map flat_map]. rewrite Hx, IH. reflexivity.
Qed.

Lemma invocations_to_cfile (a : gfile) : invocations_of_cfile (to_cfile a) = invocations a.
Proof.
  unfold invocations_of_cfile, invocations, cmds_of, to_cfile. cbn [f_elems].
  induction a as [|c a IH]; [reflexivity|].
  cbn [map flat_map cmds_of_elem app]. rewrite IH. f_equal. unfold to_cmd. cbn [c_name c_args].
  f_equal. induction (g_args c) as [|x l IHl]; [reflexivity|].
  cbn [map flat_map]. rewrite leaves_to_arg, IHl. reflexivity.
Qed.

(* holds for every reference file; the well-formedness is only needed for lexing *)
Lemma parse_tokens_of (a : gfile) :
  parse (tokens_of a) = Some (to_cfile a).
Proof. rewrite tokens_unparse. apply unparse_parse. apply wf_to_cfile. Qed.

Theorem parse_print_gfile : forall a, wf_gfile a = true ->
  exists f, parse (tokens_of a) = Some f /\ f_module f = None /\
            invocations_of_cfile f = invocations a.
Proof.
  intros a _. exists (to_cfile a). split; [apply parse_tokens_of|].
  split; [reflexivity | apply invocations_to_cfile].
Qed.

(* ---- G3 ---- *)

(* every file conforming to the reference grammar is processed without error, and CMinx sees
   the same command invocations with the same argument boundaries *)
Theorem valid_cmake_accepted : forall a, wf_gfile a = true ->
  exists ts f, lex (print_gfile a) = LexOk ts /\ parse ts = Some f /\
               invocations_of_cfile f = invocations a.
Proof.
  intros a Hw. destruct (parse_print_gfile a Hw) as (f & P & _ & I).
  exists (tokens_of a), f. split; [apply lex_print_gfile; exact Hw | split; assumption].
Qed.

(* ---- G4: any spacing ---- *)

Theorem valid_cmake_accepted_any_spacing : forall a, wf_gfile a = true ->
  exists ps, lex_all (print_gfile a) = LexOk ps /\
  forall lead gaps,
    forallb is_ws lead = true -> Forall (fun g => forallb is_ws g = true) gaps ->
    exists ts f, lex (lead ++ respace ps gaps) = LexOk ts /\ parse ts = Some f /\
                 invocations_of_cfile f = invocations a.
Proof.
  intros a Hw. pose proof (lex_print_gfile a Hw) as L.
  destruct (lex_visible _ _ L) as (ps & Hps & _ & _).
  exists ps. split; [exact Hps|]. intros lead gaps Hl Hg.
  destruct (parse_print_gfile a Hw) as (f & P & _ & I).
  exists (tokens_of a), f. split; [|split; assumption].
  apply lex_sim_ok. rewrite <- L. apply lex_respace_lead; assumption.
Qed.

(* ---- non-vacuity ---- *)

Definition ex_gfile : gfile :=
  [ {| g_name := s"set";
       g_args := [GUnquoted (s"x"); GUnquoted (s"a\;b\ c");
                  GQuoted (s"q \""z\"" \\ ;" ++ [bsl; nl] ++ s"w")] |};
    {| g_name := s"_if2";
       g_args := [GParen [GUnquoted (s"A"); GUnquoted (s"AND");
                          GParen [GUnquoted (s"NOT"); GQuoted (s"")]; GParen []];
                  GBracket 2 (s" x ]] ]=] y"); GBracket 0 (s"b"); GBracket 1 (s"");
                  GUnquoted (s"[=x]"); GUnquoted (s"a[[b]]")] |};
    {| g_name := s"f"; g_args := [] |} ].

Example valid_cmake_accepted_ex :
  wf_gfile ex_gfile = true /\
  length (tokens_of ex_gfile) = 27 /\
  lex (print_gfile ex_gfile) = LexOk (tokens_of ex_gfile) /\
  option_map invocations_of_cfile (parse (tokens_of ex_gfile)) = Some (invocations ex_gfile).
Proof. repeat split; vm_compute; reflexivity. Qed.

Definition ex_gaps2 : list str :=
  [[sp]; [nl; tab]; [sp]; []; [cr; nl]; [tab]; [sp; sp]; [nl]; [sp]; [nl]; [tab]; [sp]; [nl; nl]].

Example valid_cmake_accepted_any_spacing_ex :
  exists ps, lex_all (print_gfile ex_gfile) = LexOk ps /\
             Forall (fun g => forallb is_ws g = true) ex_gaps2 /\
             [nl; tab] ++ respace ps ex_gaps2 <> print_gfile ex_gfile /\
             lex ([nl; tab] ++ respace ps ex_gaps2) = LexOk (tokens_of ex_gfile).
Proof.
  eexists. split; [vm_compute; reflexivity|]. split; [repeat constructor|].
  split; [vm_compute; discriminate | vm_compute; reflexivity].
Qed.

(* the condition on bracket contents cannot be weakened to: the content does not contain the
   closing bracket -- the closing bracket may begin inside the content and end in the printed
   closer, and then the lexer (like CMake itself) ends the argument early *)
Example lex_print_bracket_weak_wf_refuted :
  let a := [ {| g_name := s"f"; g_args := [GBracket 0 (s"a ]")] |} ] in
  contains (gclose 0) (s"a ]") = false /\ wf_gfile a = false /\
  lex (print_gfile a) = LexOk [(TIdent, s"f"); (TLParen, s"("); (TBracketArg, s"[[a ]]");
                                (TUnquoted, s"]"); (TRParen, s")")] /\
  lex (print_gfile a) <> LexOk (tokens_of a).
Proof. repeat split; vm_compute; try reflexivity. discriminate. Qed.

(* finding: a bracket argument without layout or special characters is an Unquoted_argument
   token for CMinx (equal length, earlier lexer rule); the argument text is the same *)
Example bracket_as_unquoted :
  lex (s"f([[b]] [=[c d]=])") =
  LexOk [(TIdent, s"f"); (TLParen, s"("); (TUnquoted, s"[[b]]"); (TBracketArg, s"[=[c d]=]");
         (TRParen, s")")].
Proof. vm_compute. reflexivity. Qed.

(* ==== MAIN THEOREMS ====
   lex_print_gfile                   G1  a well-formed reference file lexes to exactly its tokens
   parse_print_gfile                 G2  the tokens parse to the same command invocations
   valid_cmake_accepted              G3  G1 + G2
   valid_cmake_accepted_any_spacing  G4  the same under any layout added at piece boundaries
   balanced_parens                   G5  accepted token sequences have balanced parentheses
   unbalanced_parens_rejected        G5  contrapositive
*)
Print Assumptions lex_print_gfile.
Print Assumptions parse_print_gfile.
Print Assumptions valid_cmake_accepted.
Print Assumptions valid_cmake_accepted_any_spacing.
Print Assumptions balanced_parens.
Print Assumptions unbalanced_parens_rejected.
