(* Proofs/CMakeFacts.v -- cminx_gen_rst (property C19): the function launches exactly the
   cminx executable with the input, -r iff the input is a directory, the extra arguments
   verbatim, -o output; a failing CMinx is fatal.  The function body gen_rst_def is
   regenerated from cmake/cminx.cmake on every run; the proofs evaluate it. *)
From Coq Require Import String List NArith ZArith Bool Arith Lia.
From CMinx Require Import Base.Str Model.CMakeLang Gen.CMinxCMake.
Import ListNotations.

(* ---- spec ---- *)

(* characters that have a meaning inside a CMake list: ; [ ] backslash *)
Definition plain_char (c : char) : bool :=
  negb ((c =? 59)%N || (c =? 91)%N || (c =? 93)%N || (c =? 92)%N).

(* an argument that survives the round trip through a CMake list variable *)
Definition arg_plain (x : str) : bool :=
  match x with [] => false | _ :: _ => forallb plain_char x end.

Definition not_kw (x : str) : bool := negb (is_kw x).

(* hypotheses of the main theorem *)
Definition args_ok (exe dir out : str) (extra : list str) : bool :=
  forallb arg_plain extra && forallb not_kw (exe :: dir :: out :: extra).

(* the expected command line *)
Definition expected_argv (isdir : str -> bool) (exe dir out : str) (extra : list str) : list str :=
  exe :: dir :: (if isdir dir then [s"-r"] else []) ++ extra ++ [s"-o"; out].

(* ---- M1: plain arguments survive a list variable ---- *)

Lemma split_list_go_plain : forall x rest cur,
  forallb plain_char x = true ->
  split_list_go (x ++ rest) 0 cur = split_list_go rest 0 (rev x ++ cur).
Proof.
  induction x as [|c x IH]; intros rest cur H.
  - reflexivity.
  - cbn [forallb] in H. apply andb_true_iff in H. destruct H as [Hc Hx].
    unfold plain_char in Hc. apply negb_true_iff in Hc.
    apply orb_false_iff in Hc. destruct Hc as [Hc H92].
    apply orb_false_iff in Hc. destruct Hc as [Hc H93].
    apply orb_false_iff in Hc. destruct Hc as [H59 H91].
    cbn [app split_list_go]. rewrite H92, H91, H93, H59. cbn [andb].
    rewrite IH by exact Hx. cbn [rev]. rewrite <- app_assoc. reflexivity.
Qed.

Lemma arg_plain_inv : forall x, arg_plain x = true -> x <> [] /\ forallb plain_char x = true.
Proof.
  intros x H. destruct x as [|c x]; [discriminate H|]. split; [discriminate | exact H].
Qed.

Lemma split_list_go_nil_cur : forall cur, cur <> [] -> split_list_go [] 0 cur = [rev cur].
Proof. intros cur H. destruct cur; [contradiction | reflexivity]. Qed.

Lemma rev_nonnil : forall (A : Type) (x : list A), x <> [] -> rev x <> [].
Proof.
  intros A x H E. apply H. rewrite <- (rev_involutive x). rewrite E. reflexivity.
Qed.

Theorem split_list_join : forall extra,
  forallb arg_plain extra = true -> split_list (join semi extra) = extra.
Proof.
  unfold split_list.
  induction extra as [|x r IH]; intros H.
  - reflexivity.
  - cbn [forallb] in H. apply andb_true_iff in H. destruct H as [Hx Hr].
    apply arg_plain_inv in Hx. destruct Hx as [Hne Hp].
    cbn [join]. destruct r as [|y r'].
    + assert (E := split_list_go_plain x [] [] Hp). rewrite !app_nil_r in E. rewrite E.
      rewrite split_list_go_nil_cur by (apply rev_nonnil; exact Hne).
      rewrite rev_involutive. reflexivity.
    + rewrite split_list_go_plain by exact Hp. rewrite app_nil_r.
      unfold semi. cbn [app split_list_go].
      change ((59 =? 92)%N) with false. change ((59 =? 91)%N) with false.
      change ((59 =? 93)%N) with false. change ((59 =? 59)%N) with true.
      cbn [andb Z.eqb].
      destruct (rev x) as [|c rx] eqn:Erx.
      * exfalso. apply (rev_nonnil _ x Hne). exact Erx.
      * rewrite <- Erx. rewrite rev_involutive. f_equal. apply IH. exact Hr.
Qed.

Corollary split_list_single : forall x, arg_plain x = true -> split_list x = [x].
Proof.
  intros x H. apply (split_list_join [x]). cbn [forallb]. rewrite H. reflexivity.
Qed.

Example split_list_join_nonvacuous :
  forallb arg_plain [s"-p"; s"my prefix"; s"-e"; s"build*"] = true
  /\ split_list (join semi [s"-p"; s"my prefix"; s"-e"; s"build*"])
     = [s"-p"; s"my prefix"; s"-e"; s"build*"].
Proof. vm_compute. split; reflexivity. Qed.

(* ---- M2: ARGC is a decimal numeral ---- *)

Definition is_digit (c : char) : bool := ((48 <=? c) && (c <=? 57))%N.

Lemma digit_char_is_digit : forall d, d < 10 -> is_digit (digit_char d) = true.
Proof.
  intros d H. unfold is_digit, digit_char. apply andb_true_iff. split; apply N.leb_le; lia.
Qed.

Lemma digit_char_value : forall d, (digit_char d - 48 = N.of_nat d)%N.
Proof. intros d. unfold digit_char. lia. Qed.

Lemma nat_of_digits_app : forall x y acc,
  nat_of_digits (x ++ y) acc =
  match nat_of_digits x acc with Some a => nat_of_digits y a | None => None end.
Proof.
  induction x as [|c x IH]; intros y acc; cbn [app nat_of_digits].
  - reflexivity.
  - destruct ((48 <=? c) && (c <=? 57))%N; [apply IH | reflexivity].
Qed.

Lemma dec_go_acc : forall fuel n acc, dec_go fuel n acc = dec_go fuel n [] ++ acc.
Proof.
  induction fuel as [|f IH]; intros n acc; cbn [dec_go].
  - reflexivity.
  - destruct (n / 10 =? 0).
    + reflexivity.
    + rewrite (IH (n / 10) (digit_char (n mod 10) :: acc)).
      rewrite (IH (n / 10) [digit_char (n mod 10)]).
      rewrite <- app_assoc. reflexivity.
Qed.

Lemma mod10_lt : forall n, n mod 10 < 10.
Proof. intros n. apply Nat.mod_upper_bound. discriminate. Qed.

Lemma nat_of_digits_dec_go : forall fuel n,
  n < fuel -> nat_of_digits (dec_go fuel n []) 0 = Some (N.of_nat n).
Proof.
  induction fuel as [|f IH]; intros n Hn; [lia|].
  cbn [dec_go].
  assert (Hd := mod10_lt n).
  assert (Hdig := digit_char_is_digit _ Hd). unfold is_digit in Hdig.
  assert (Hdiv : n = 10 * (n / 10) + n mod 10) by (apply Nat.div_mod; discriminate).
  destruct (n / 10 =? 0) eqn:E.
  - apply Nat.eqb_eq in E. cbn [nat_of_digits]. rewrite Hdig.
    rewrite digit_char_value. f_equal. rewrite E in Hdiv. lia.
  - apply Nat.eqb_neq in E. rewrite dec_go_acc. rewrite nat_of_digits_app.
    rewrite IH by lia. cbn [nat_of_digits]. rewrite Hdig.
    rewrite digit_char_value. f_equal. lia.
Qed.

Lemma dec_go_digits : forall fuel n acc,
  forallb is_digit acc = true -> forallb is_digit (dec_go fuel n acc) = true.
Proof.
  induction fuel as [|f IH]; intros n acc H; cbn [dec_go].
  - exact H.
  - assert (H' : forallb is_digit (digit_char (n mod 10) :: acc) = true).
    { cbn [forallb]. rewrite (digit_char_is_digit _ (mod10_lt n)). exact H. }
    destruct (n / 10 =? 0); [exact H' | apply IH; exact H'].
Qed.

Lemma dec_go_nonnil : forall fuel n acc, acc <> [] -> dec_go fuel n acc <> [].
Proof.
  induction fuel as [|f IH]; intros n acc H; cbn [dec_go].
  - exact H.
  - destruct (n / 10 =? 0); [discriminate | apply IH; discriminate].
Qed.

Lemma dec_of_nat_nonnil : forall n, dec_of_nat n <> [].
Proof.
  intros n. unfold dec_of_nat. cbn [dec_go].
  destruct (n / 10 =? 0); [discriminate | apply dec_go_nonnil; discriminate].
Qed.

Theorem parse_num_dec_of_nat : forall n, parse_num (dec_of_nat n) = Some (N.of_nat n).
Proof.
  intros n. unfold parse_num.
  destruct (dec_of_nat n) as [|c r] eqn:E.
  - exfalso. apply (dec_of_nat_nonnil n). exact E.
  - rewrite <- E. unfold dec_of_nat. apply nat_of_digits_dec_go. lia.
Qed.

Lemma is_digit_plain : forall c, is_digit c = true -> plain_char c = true.
Proof.
  intros c H. unfold is_digit in H. apply andb_true_iff in H. destruct H as [H1 H2].
  apply N.leb_le in H1. apply N.leb_le in H2. unfold plain_char.
  apply negb_true_iff.
  repeat (apply orb_false_iff; split); apply N.eqb_neq; lia.
Qed.

Lemma dec_of_nat_plain : forall n, arg_plain (dec_of_nat n) = true.
Proof.
  intros n. unfold arg_plain.
  destruct (dec_of_nat n) as [|c r] eqn:E.
  - exfalso. apply (dec_of_nat_nonnil n). exact E.
  - rewrite <- E. apply forallb_forall. intros c0 Hc0. apply is_digit_plain.
    assert (D : forallb is_digit (dec_of_nat n) = true).
    { unfold dec_of_nat. apply dec_go_digits. reflexivity. }
    rewrite forallb_forall in D. apply D. exact Hc0.
Qed.

Example parse_num_dec_examples :
  map (fun n => parse_num (dec_of_nat n)) [0; 7; 10; 42; 109; 2000]
  = map (fun n => Some (N.of_nat n)) [0; 7; 10; 42; 109; 2000].
Proof. vm_compute. reflexivity. Qed.

(* ---- M3: the launch performed by cminx_gen_rst ---- *)

Lemma join_single : forall sep (x : str), join sep [x] = x.
Proof. reflexivity. Qed.

Lemma join_cons_nonnil : forall sep x l, l <> [] -> join sep (x :: l) = x ++ sep ++ join sep l.
Proof. intros sep x l H. destruct l; [contradiction | reflexivity]. Qed.

Lemma split_list_cons_join : forall x l,
  arg_plain x = true -> forallb arg_plain l = true -> l <> [] ->
  split_list (x ++ semi ++ join semi l) = x :: l.
Proof.
  intros x l Hx Hl Hn. rewrite <- (join_cons_nonnil semi x l Hn).
  apply split_list_join. cbn [forallb]. rewrite Hx. exact Hl.
Qed.

Lemma split_list_dec : forall n, split_list (dec_of_nat n) = [dec_of_nat n].
Proof. intros n. apply split_list_single. apply dec_of_nat_plain. Qed.

Lemma argc_gt2_S : forall n, (2 <? N.of_nat (S (S (S n))))%N = true.
Proof. intros n. apply N.ltb_lt. lia. Qed.

Lemma take_command_cons : forall x r, is_kw x = false -> take_command (x :: r) = x :: take_command r.
Proof. intros x r H. cbn [take_command]. rewrite H. reflexivity. Qed.

Lemma take_command_stop : forall x r, is_kw x = true -> take_command (x :: r) = [].
Proof. intros x r H. cbn [take_command]. rewrite H. reflexivity. Qed.

Lemma take_command_app : forall l r, forallb not_kw l = true -> take_command (l ++ r) = l ++ take_command r.
Proof.
  induction l as [|x l IH]; intros r H.
  - reflexivity.
  - cbn [forallb] in H. apply andb_true_iff in H. destruct H as [Hx Hl].
    unfold not_kw in Hx. apply negb_true_iff in Hx.
    cbn [app]. rewrite take_command_cons by exact Hx. rewrite IH by exact Hl. reflexivity.
Qed.

Lemma fatal_mode_skip : forall x r, fatal_mode r = true -> fatal_mode (x :: r) = true.
Proof.
  intros x r H. destruct r as [|y r']; [discriminate H|].
  cbn [fatal_mode]. cbn [fatal_mode] in H. rewrite H. apply orb_true_r.
Qed.

Lemma fatal_mode_app : forall l r, fatal_mode r = true -> fatal_mode (l ++ r) = true.
Proof.
  induction l as [|x l IH]; intros r H; [exact H|].
  cbn [app]. apply fatal_mode_skip. apply IH. exact H.
Qed.

Ltac closed_term t :=
  match t with
  | context [?v] => is_var v; fail 1
  | _ => idtac
  end.

Ltac norm_literals :=
  repeat match goal with
  | |- context [of_string ?x] =>
      let r := eval vm_compute in (of_string x) in change (of_string x) with r
  end.

Ltac ev :=
  cbn [exec_body exec_stmt eval_args flat_map eval_arg eval_cond ca_quoted ca_frags expand
       map concat lookup_var set_var str_eqb N.eqb Pos.eqb andb app snd fst];
  rewrite ?app_nil_r, ?join_single.

(* evaluate closed subterms only *)
Ltac compute_closed :=
  repeat match goal with
  | |- context [split_list ?x] =>
      closed_term x; let r := eval vm_compute in (split_list x) in change (split_list x) with r
  | |- context [parse_num ?x] =>
      closed_term x; let r := eval vm_compute in (parse_num x) in change (parse_num x) with r
  | |- context [N.ltb ?x ?y] =>
      closed_term x; closed_term y;
      let r := eval vm_compute in (N.ltb x y) in change (N.ltb x y) with r
  end.

Ltac solve_kw :=
  first [ assumption | solve [vm_compute; reflexivity] ].

Ltac take_cmd :=
  repeat first
    [ rewrite take_command_cons by solve_kw
    | rewrite take_command_app by solve_kw
    | rewrite take_command_stop by solve_kw ].

Ltac fatal_true :=
  first [ solve [vm_compute; reflexivity]
        | apply fatal_mode_skip; fatal_true
        | apply fatal_mode_app; fatal_true ].

Lemma first_command_hit : forall c r,
  str_eqb c (s"COMMAND") = true -> first_command (c :: r) = Some (take_command r).
Proof. intros c r H. cbn [first_command]. rewrite H. reflexivity. Qed.

Ltac run :=
  repeat (progress (ev; cbn [length];
                    rewrite ?split_list_dec, ?parse_num_dec_of_nat, ?argc_gt2_S;
                    rewrite ?split_list_join by assumption;
                    compute_closed)).

Ltac finish Hexe :=
  rewrite Hexe; rewrite first_command_hit by (vm_compute; reflexivity); take_cmd;
  match goal with
  | |- context [fatal_mode ?w] => replace (fatal_mode w) with true by (symmetry; fatal_true)
  end;
  cbn [snd app]; rewrite <- ?app_assoc; reflexivity.

Ltac prefix_of t :=
  lazymatch t with
  | ?c :: ?r => let p := prefix_of r in constr:(c :: p)
  | _ => constr:(@nil char)
  end.

(* split_list (c1 :: .. :: cn :: semi ++ join semi l)  =  [c1; ..; cn] :: l *)
Ltac split_opts :=
  match goal with
  | |- context [split_list ?t] =>
      lazymatch t with
      | context [join semi ?l] =>
          let x := prefix_of t in
          replace (split_list t) with (x :: l)
            by (symmetry; apply (split_list_cons_join x l);
                solve [assumption | vm_compute; reflexivity])
      end
  end.

(* The proof evaluates the generated body statement by statement; only closed subterms are
   computed, the open ones are rewritten with M1/M2 and the keyword lemmas. *)
Theorem gen_rst_launch : forall isdir globals exe dir out extra,
  lookup_var globals (s"CMINX_EXECUTABLE") = exe ->
  args_ok exe dir out extra = true ->
  call isdir gen_rst_def globals (dir :: out :: extra)
  = [ (exe :: dir :: (if isdir dir then [s"-r"] else []) ++ extra ++ [s"-o"; out], true) ].
Proof.
  intros isdir globals exe dir out extra Hexe Hok.
  unfold args_ok in Hok. apply andb_true_iff in Hok. destruct Hok as [Hplain Hkw].
  cbn [forallb] in Hkw.
  apply andb_true_iff in Hkw. destruct Hkw as [Hkexe Hkw].
  apply andb_true_iff in Hkw. destruct Hkw as [Hkdir Hkw].
  apply andb_true_iff in Hkw. destruct Hkw as [Hkout Hkextra].
  unfold not_kw in Hkexe, Hkdir, Hkout.
  apply negb_true_iff in Hkexe. apply negb_true_iff in Hkdir. apply negb_true_iff in Hkout.
  unfold call.
  cbn [gen_rst_def fn_params fn_body bind_params length skipn].
  norm_literals.
  let k := eval vm_compute in (s"CMINX_EXECUTABLE") in change (lookup_var globals k = exe) in Hexe.
  destruct (isdir dir) eqn:Hd;
    (destruct extra as [|x0 xs];
     [| assert (Hnn : x0 :: xs <> []) by discriminate;
        assert (Hkextra' := Hkextra); cbn [forallb] in Hkextra';
        apply andb_true_iff in Hkextra'; destruct Hkextra' as [Hkx0 Hkxs];
        unfold not_kw in Hkx0; apply negb_true_iff in Hkx0]).
  - ev. rewrite Hd. run. finish Hexe.
  - ev. rewrite Hd. run. try split_opts. finish Hexe.
  - ev. rewrite Hd. run. finish Hexe.
  - ev. rewrite Hd. run. try split_opts. finish Hexe.
Qed.

Corollary gen_rst_launch_expected : forall isdir globals dir out extra,
  args_ok (lookup_var globals (s"CMINX_EXECUTABLE")) dir out extra = true ->
  call isdir gen_rst_def globals (dir :: out :: extra)
  = [ (expected_argv isdir (lookup_var globals (s"CMINX_EXECUTABLE")) dir out extra, true) ].
Proof.
  intros isdir globals dir out extra H. unfold expected_argv.
  apply gen_rst_launch; [reflexivity | exact H].
Qed.

(* the hypotheses are satisfiable; spaces and glob characters inside an argument are fine *)
Example gen_rst_launch_nonvacuous :
  let isd := fun p => str_eqb p (s"/src/cmake") in
  let globals := [(s"CMINX_EXECUTABLE", s"/venv/bin/cminx"); (s"_cgd_dir", s"shadowed");
                  (s"ARGN", s"shadowed"); (s"_cgr_cminx_options", s"shadowed")] in
  let extra := [s"-p"; s"my prefix"; s"-e"; s"build*"] in
  args_ok (s"/venv/bin/cminx") (s"/src/cmake") (s"/build/docs") extra = true
  /\ args_ok (s"/venv/bin/cminx") (s"/src/one.cmake") (s"/build/docs") [] = true
  /\ call isd gen_rst_def globals (s"/src/cmake" :: s"/build/docs" :: extra)
     = [([s"/venv/bin/cminx"; s"/src/cmake"; s"-r"; s"-p"; s"my prefix"; s"-e"; s"build*";
          s"-o"; s"/build/docs"], true)]
  /\ call isd gen_rst_def globals [s"/src/one.cmake"; s"/build/docs"]
     = [([s"/venv/bin/cminx"; s"/src/one.cmake"; s"-o"; s"/build/docs"], true)].
Proof. vm_compute. repeat split. Qed.

(* ---- M4: a failing CMinx is fatal ---- *)

Lemma after_launch_fatal : forall code, code <> 0%Z -> after_launch true code = CMFatal.
Proof.
  intros code H. unfold after_launch. apply Z.eqb_neq in H. rewrite H. reflexivity.
Qed.

Lemma after_launch_success : after_launch true 0 = CMDone.
Proof. reflexivity. Qed.

Theorem gen_rst_failure_is_fatal : forall isdir globals exe dir out extra,
  lookup_var globals (s"CMINX_EXECUTABLE") = exe ->
  args_ok exe dir out extra = true ->
  map snd (call isdir gen_rst_def globals (dir :: out :: extra)) = [true]
  /\ (forall argv fatal code,
        In (argv, fatal) (call isdir gen_rst_def globals (dir :: out :: extra)) ->
        after_launch fatal code = if (code =? 0)%Z then CMDone else CMFatal)
  /\ (forall code, code <> 0%Z -> after_launch true code = CMFatal)
  /\ after_launch true 0 = CMDone.
Proof.
  intros isdir globals exe dir out extra Hexe Hok.
  rewrite (gen_rst_launch isdir globals exe dir out extra Hexe Hok).
  split; [reflexivity|]. split; [|split; [exact after_launch_fatal | exact after_launch_success]].
  intros argv fatal code Hin. destruct Hin as [E | []]. inversion E. subst.
  unfold after_launch. destruct (code =? 0)%Z; reflexivity.
Qed.

(* ---- M5: documented limits: arguments that are not plain are not forwarded verbatim ---- *)

Definition ex_isd (p : str) : bool := str_eqb p (s"/src").
Definition ex_globals : env := [(s"CMINX_EXECUTABLE", s"cminx")].

(* an empty extra argument is dropped *)
Example gen_rst_list_flattening_refuted_empty :
  arg_plain [] = false
  /\ call ex_isd gen_rst_def ex_globals [s"/src"; s"/out"; s"-p"; []]
     = [([s"cminx"; s"/src"; s"-r"; s"-p"; s"-o"; s"/out"], true)]
  /\ [s"cminx"; s"/src"; s"-r"; s"-p"; s"-o"; s"/out"]
     <> expected_argv ex_isd (s"cminx") (s"/src") (s"/out") [s"-p"; []].
Proof. vm_compute. repeat split. discriminate. Qed.

(* an argument containing a semicolon is split in two *)
Example gen_rst_list_flattening_refuted_semicolon :
  arg_plain (s"a;b") = false
  /\ call ex_isd gen_rst_def ex_globals [s"/src"; s"/out"; s"-p"; s"a;b"]
     = [([s"cminx"; s"/src"; s"-r"; s"-p"; s"a"; s"b"; s"-o"; s"/out"], true)]
  /\ [s"cminx"; s"/src"; s"-r"; s"-p"; s"a"; s"b"; s"-o"; s"/out"]
     <> expected_argv ex_isd (s"cminx") (s"/src") (s"/out") [s"-p"; s"a;b"].
Proof. vm_compute. repeat split. discriminate. Qed.

(* so the plainness hypothesis of gen_rst_launch cannot be dropped *)
Example gen_rst_list_flattening_refuted :
  exists extra,
    forallb arg_plain extra = false
    /\ forallb not_kw (s"cminx" :: s"/src" :: s"/out" :: extra) = true
    /\ call ex_isd gen_rst_def ex_globals (s"/src" :: s"/out" :: extra)
       <> [(expected_argv ex_isd (s"cminx") (s"/src") (s"/out") extra, true)].
Proof.
  exists [s"-p"; s"a;b"]. split; [reflexivity|]. split; [reflexivity|].
  vm_compute. discriminate.
Qed.

(* an unbalanced bracket glues the following arguments together *)
Example gen_rst_list_flattening_refuted_bracket :
  arg_plain (s"a[") = false
  /\ call ex_isd gen_rst_def ex_globals [s"/src"; s"/out"; s"-e"; s"a["; s"-p"; s"x"]
     = [([s"cminx"; s"/src"; s"-r"; s"-e"; s"a[;-p;x"; s"-o"; s"/out"], true)].
Proof. vm_compute. repeat split. Qed.

(* an argument equal to an execute_process keyword ends the command line (here the output
   directory is lost), or starts a second command *)
Example gen_rst_keyword_argument_refuted :
  args_ok (s"cminx") (s"/src") (s"OUTPUT_QUIET") [] = false
  /\ call ex_isd gen_rst_def ex_globals [s"/src"; s"OUTPUT_QUIET"]
     = [([s"cminx"; s"/src"; s"-r"; s"-o"], true)]
  /\ args_ok (s"cminx") (s"/src") (s"/out") [s"COMMAND"; s"rm"] = false
  /\ call ex_isd gen_rst_def ex_globals [s"/src"; s"/out"; s"COMMAND"; s"rm"]
     = [([s"cminx"; s"/src"; s"-r"], true)].
Proof. vm_compute. repeat split. Qed.

(* ==== MAIN THEOREMS ====
   split_list_join              (M1)
   parse_num_dec_of_nat         (M2)
   gen_rst_launch               (M3)  gen_rst_launch_expected, gen_rst_launch_nonvacuous
   gen_rst_failure_is_fatal     (M4)
   gen_rst_list_flattening_refuted, gen_rst_list_flattening_refuted_empty / _semicolon / _bracket, gen_rst_keyword_argument_refuted (M5)
*)
Print Assumptions split_list_join.
Print Assumptions parse_num_dec_of_nat.
Print Assumptions gen_rst_launch.
Print Assumptions gen_rst_launch_expected.
Print Assumptions gen_rst_failure_is_fatal.
Print Assumptions gen_rst_list_flattening_refuted.
Print Assumptions gen_rst_list_flattening_refuted_empty.
Print Assumptions gen_rst_list_flattening_refuted_semicolon.
Print Assumptions gen_rst_keyword_argument_refuted.
