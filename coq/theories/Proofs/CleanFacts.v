(* Proofs/CleanFacts.v -- properties C01 and C04: the text of a doccomment reaches the entry
   and the rendered paragraph line for line; re-indentation does not matter; UTF-8 round trip. *)
From Coq Require Import String List NArith ZArith Bool Arith Lia ZifyBool ZifyN.
From CMinx Require Import Base.Str Model.Lexer Model.Parser Model.Writer Model.DocTypes
     Model.Aggregator Model.Pipeline.
Import ListNotations.

(* ---- spec ---- *)

Definition is_sptab' (c : char) : bool := (c =? 32)%N || (c =? 9)%N.

Definition doc_open_line : str := s"#[[[".
Definition doc_close_line : str := s"#]]".

(* a doccomment line with the leader: the hash alone for an empty line, else hash, space, text *)
Definition leader_line (l : str) : str :=
  match l with [] => [hash] | _ :: _ => hash :: sp :: l end.

(* the lines of a Docstring token: the token starts at the hash of the opening line; the
   following lines carry the block indentation ind *)
Definition canon_lines (ind : str) (L : list str) : list str :=
  doc_open_line :: map (fun l => ind ++ leader_line l) L ++ [ind ++ doc_close_line].

(* the expected documentation text: every line followed by a line break *)
Definition doc_of_lines (L : list str) : str :=
  match L with [] => [] | _ :: _ => join [nl] L ++ [nl] end.

(* a line without leader that the cleaning leaves alone: empty, or not starting with
   hash, bracket or space *)
Definition plain_line (l : str) : bool :=
  match l with [] => true | a :: _ => negb (mem a [hash; lbr; rbr; sp]) end.

Definition entry_doc (e : entry) : str :=
  match e with
  | EFunction _ _ d _ _ => d
  | EVariable _ d _ _ => d
  | EOption _ d _ _ => d
  | EGeneric _ d _ => d
  | ECTest _ d _ => d
  | ETest _ _ d _ _ _ => d
  | EClass _ d _ _ _ _ _ => d
  | EModule _ d => d
  end.

(* the texts of the direct Para children *)
Definition direct_paras (body : list elem) : list str :=
  flat_map (fun x => match x with Para t => [t] | _ => [] end) body.

Definition dir_body (e : elem) : list elem :=
  match e with Dir _ _ _ b => b | _ => [] end.

(* the direct paragraphs of a rendered entry, per constructor *)
Definition expected_paras (e : entry) : list str :=
  match e with
  | EClass _ d supers inner ctors members attrs =>
      (match supers with
       | [] => []
       | _ :: _ => [s"Bases: " ++ join (s", ") (map (fun x => s":class:`" ++ x ++ s"`") supers) ++ [nl]]
       end)
      ++ [d]
      ++ (match ctors with [] => [] | _ :: _ => [s"**Additional Constructors**"] end)
      ++ (match members with [] => [] | _ :: _ => [s"**Methods**"] end)
      ++ (match attrs with [] => [] | _ :: _ => [s"**Attributes**"] end)
      ++ (match inner with [] => [] | _ :: _ => [s"**Inner classes**"] end)
  | EModule _ [] => []
  | _ => [entry_doc e]
  end.

Definition last_doc (l : list entry) : option str := option_map entry_doc (last_opt l).

(* ---- helpers ---- *)

Lemma last_opt_app1 : forall (A : Type) (l : list A) (x : A), last_opt (l ++ [x]) = Some x.
Proof.
  intros A l x. induction l as [|a l IH]; [reflexivity|].
  cbn [app last_opt]. destruct (l ++ [x]) eqn:E.
  - destruct l; discriminate E.
  - exact IH.
Qed.

Lemma update_last_app1 : forall (A : Type) (f : A -> A) (l : list A) (x : A),
  update_last f (l ++ [x]) = l ++ [f x].
Proof.
  intros A f l x. unfold update_last. rewrite rev_app_distr. cbn [rev app].
  rewrite rev_involutive. reflexivity.
Qed.

Lemma skipn_app_exact : forall (A : Type) (x y : list A), skipn (length x) (x ++ y) = y.
Proof. intros A x y. induction x as [|a x IH]; [reflexivity|]. exact IH. Qed.

Lemma join_cons2 : forall sep (x y : str) r, join sep (x :: y :: r) = x ++ sep ++ join sep (y :: r).
Proof. reflexivity. Qed.

Lemma join_snoc : forall sep (L : list str) x,
  L <> [] -> join sep (L ++ [x]) = join sep L ++ sep ++ x.
Proof.
  intros sep L x. induction L as [|a L IH]; intros H; [contradiction H; reflexivity|].
  destruct L as [|b L'].
  - reflexivity.
  - change ((a :: b :: L') ++ [x]) with (a :: (b :: L') ++ [x]).
    change ((b :: L') ++ [x]) with (b :: L' ++ [x]) at 1.
    rewrite join_cons2. change (b :: L' ++ [x]) with ((b :: L') ++ [x]).
    rewrite IH by discriminate. rewrite join_cons2. rewrite <- !app_assoc. reflexivity.
Qed.

Lemma join_lines_snoc_empty : forall L : list str,
  join [nl] (L ++ [[]]) = doc_of_lines L.
Proof.
  intros [|a L]; [reflexivity|].
  rewrite join_snoc by discriminate. unfold doc_of_lines. rewrite app_nil_r. reflexivity.
Qed.

Lemma split_on_nonempty : forall c x, split_on c x <> [].
Proof.
  intros c x. destruct x as [|a r]; cbn [split_on]; [discriminate|].
  destruct (a =? c)%N; [discriminate|]. destruct (split_on c r); discriminate.
Qed.

Lemma split_on_app_sep : forall c x y,
  split_on c (x ++ c :: y) = split_on c x ++ split_on c y.
Proof.
  intros c x y. induction x as [|a x IH].
  - cbn [app split_on]. rewrite N.eqb_refl. reflexivity.
  - cbn [app split_on]. destruct (a =? c)%N.
    + rewrite IH. reflexivity.
    + rewrite IH. destruct (split_on c x) as [|h t] eqn:E.
      * exfalso. exact (split_on_nonempty c x E).
      * reflexivity.
Qed.

Lemma split_on_free : forall c x, ~ In c x -> split_on c x = [x].
Proof.
  intros c x. induction x as [|a x IH]; intros H; [reflexivity|].
  cbn [split_on]. destruct (N.eqb_spec a c) as [E|E].
  - exfalso. apply H. left. exact E.
  - rewrite IH; [reflexivity|]. intros Hin. apply H. right. exact Hin.
Qed.

Lemma split_on_join : forall c ls,
  ls <> [] -> Forall (fun l => ~ In c l) ls -> split_on c (join [c] ls) = ls.
Proof.
  intros c ls. induction ls as [|l ls IH]; intros Hne HF; [contradiction Hne; reflexivity|].
  inversion HF as [|l' ls' Hl HF']; subst.
  destruct ls as [|l2 ls2].
  - cbn [join]. apply split_on_free. exact Hl.
  - change (join [c] (l :: l2 :: ls2)) with (l ++ c :: join [c] (l2 :: ls2)).
    rewrite split_on_app_sep. rewrite (split_on_free c l Hl).
    rewrite IH; [reflexivity|discriminate|exact HF'].
Qed.

(* the pieces of a split do not contain the separator *)
Lemma split_on_pieces_free : forall c x, Forall (fun l => ~ In c l) (split_on c x).
Proof.
  intros c x. induction x as [|a x IH].
  - constructor; [intros []|constructor].
  - cbn [split_on]. destruct (N.eqb_spec a c) as [E|E].
    + constructor; [intros []|exact IH].
    + destruct (split_on c x) as [|h t]; [constructor; [|constructor]|].
      * intros [H|[]]. exact (E H).
      * inversion IH as [|h' t' Hh Ht]; subst. constructor; [|exact Ht].
        intros [H|H]; [exact (E H)|exact (Hh H)].
Qed.

Lemma sptab_not_in : forall (c : char) ind,
  is_sptab' c = false -> forallb is_sptab' ind = true -> ~ In c ind.
Proof.
  intros c ind Hc. induction ind as [|a ind IH]; intros H; [intros []|].
  cbn [forallb] in H. apply andb_prop in H. destruct H as [H1 H2].
  intros [E|Hin]; [subst a; rewrite Hc in H1; discriminate H1|exact (IH H2 Hin)].
Qed.

Lemma take_while_prefix : forall (p : char -> bool) x a r,
  forallb p x = true -> p a = false -> take_while p (x ++ a :: r) = x.
Proof.
  intros p x a r. induction x as [|b x IH]; intros H Ha.
  - cbn [app take_while]. rewrite Ha. reflexivity.
  - cbn [forallb] in H. apply andb_prop in H. destruct H as [H1 H2].
    cbn [app take_while]. rewrite H1, (IH H2 Ha). reflexivity.
Qed.

Lemma sptab_not_hash : forall ind, forallb is_sptab' ind = true ->
  forallb (fun c => negb (c =? 35)%N) ind = true.
Proof.
  induction ind as [|a ind IH]; intros H; [reflexivity|].
  cbn [forallb] in H |- *. apply andb_prop in H. destruct H as [H1 H2].
  rewrite (IH H2), andb_true_r. unfold is_sptab' in H1.
  destruct (N.eqb_spec a 35) as [E|E]; [subst a; discriminate H1|reflexivity].
Qed.

(* ---- E1: the canonical block ---- *)

Lemma clean_line_open : forall n, clean_line n doc_open_line = [].
Proof. intros n. destruct n as [|[|[|[|[|n]]]]]; reflexivity. Qed.

Lemma clean_line_close : forall ind, clean_line (length ind) (ind ++ doc_close_line) = [].
Proof. intros ind. unfold clean_line. rewrite skipn_app_exact. reflexivity. Qed.

(* every line content comes back unchanged *)
Lemma clean_line_leader : forall ind l, clean_line (length ind) (ind ++ leader_line l) = l.
Proof.
  intros ind l. unfold clean_line. rewrite skipn_app_exact.
  destruct l as [|a r]; reflexivity.
Qed.

(* a block whose opening line is arbitrary: used for the command and the module form *)
Lemma clean_doc_lines_frame : forall first ind L,
  forallb is_sptab' ind = true ->
  clean_doc_lines (first :: map (fun l => ind ++ leader_line l) L ++ [ind ++ doc_close_line])
  = let doc := join [nl] (clean_line (length ind) first :: L ++ [[]]) in
    match doc with
    | a :: r => if (a =? 10)%N then r else doc
    | [] => []
    end.
Proof.
  intros first ind L Hind. unfold clean_doc_lines.
  change (first :: map (fun l => ind ++ leader_line l) L ++ [ind ++ doc_close_line])
    with ((first :: map (fun l => ind ++ leader_line l) L) ++ [ind ++ doc_close_line]).
  rewrite last_opt_app1.
  set (n := length (take_while _ (ind ++ doc_close_line))).
  assert (Hn : n = length ind).
  { unfold n. f_equal. change doc_close_line with (35%N :: s"]]").
    apply take_while_prefix; [apply sptab_not_hash; exact Hind|reflexivity]. }
  clearbody n. subst n.
  rewrite map_app. cbn [map]. rewrite clean_line_close.
  change (clean_line (length ind) first
          :: map (clean_line (length ind)) (map (fun l => ind ++ leader_line l) L) ++ [[]])
    with ((clean_line (length ind) first
          :: map (clean_line (length ind)) (map (fun l => ind ++ leader_line l) L)) ++ [[]]).
  rewrite update_last_app1. rewrite map_map.
  rewrite (map_ext (fun l => clean_line (length ind) (ind ++ leader_line l)) (fun l => l)
             (clean_line_leader ind)).
  rewrite map_id. reflexivity.
Qed.

Theorem clean_canonical : forall ind L,
  forallb is_sptab' ind = true ->
  clean_doc_lines (canon_lines ind L)
  = match L with [] => [] | _ :: _ => join [nl] L ++ [nl] end.
Proof.
  intros ind L Hind. unfold canon_lines. rewrite (clean_doc_lines_frame _ ind L Hind).
  rewrite clean_line_open. cbv zeta.
  change ([] :: L ++ [[]]) with ([] :: (L ++ [[]])).
  destruct (L ++ [[]]) as [|x r] eqn:E; [destruct L; discriminate E|].
  rewrite join_cons2. cbn [app]. change (nl =? 10)%N with true. cbn iota.
  rewrite <- E. apply join_lines_snoc_empty.
Qed.

Definition nasty_lines : list str :=
  [s"#x"; s"]]"; s"  indented"; []; s"[["; [233; 8364; 128512]%N; [sp]; tab :: s"t"; s"# y"; s"end."].

Example clean_canonical_nonvacuous :
  forallb is_sptab' (s"  ") = true /\ forallb is_sptab' [tab] = true
  /\ clean_doc_lines (canon_lines (s"  ") nasty_lines) = join [nl] nasty_lines ++ [nl]
  /\ clean_doc_lines (canon_lines [tab] nasty_lines) = join [nl] nasty_lines ++ [nl]
  /\ nth 2 (canon_lines (s"  ") nasty_lines) [] = s"  # ]]"
  /\ nth 4 (canon_lines [tab] nasty_lines) [] = [tab; hash].
Proof. vm_compute. repeat split. Qed.

(* ---- E2: through clean_doc_text on the token text ---- *)

Lemma leader_line_free : forall l, ~ In nl l -> ~ In nl (leader_line l).
Proof.
  intros [|a r] H; cbn [leader_line]; intros Hin.
  - destruct Hin as [E|[]]. discriminate E.
  - destruct Hin as [E|[E|Hin]]; [discriminate E|discriminate E|exact (H Hin)].
Qed.

Lemma not_in_app : forall (c : char) x y, ~ In c x -> ~ In c y -> ~ In c (x ++ y).
Proof. intros c x y Hx Hy Hin. apply in_app_or in Hin. destruct Hin; auto. Qed.

Lemma canon_lines_free : forall ind L,
  forallb is_sptab' ind = true -> Forall (fun l => ~ In nl l) L ->
  Forall (fun l => ~ In nl l) (canon_lines ind L).
Proof.
  intros ind L Hind HL. pose proof (sptab_not_in nl ind eq_refl Hind) as Hi.
  unfold canon_lines. constructor.
  - vm_compute. intros H. repeat (destruct H as [H|H]; [discriminate H|]). exact H.
  - apply Forall_app. split.
    + induction HL as [|l L' Hl HL' IH]; [constructor|]. cbn [map]. constructor; [|exact IH].
      apply not_in_app; [exact Hi|apply leader_line_free; exact Hl].
    + constructor; [|constructor]. apply not_in_app; [exact Hi|].
      vm_compute. intros H. repeat (destruct H as [H|H]; [discriminate H|]). exact H.
Qed.

Theorem clean_text_canonical : forall ind L,
  forallb is_sptab' ind = true -> Forall (fun l => ~ In nl l) L ->
  clean_doc_text (join [nl] (canon_lines ind L))
  = match L with [] => [] | _ :: _ => join [nl] L ++ [nl] end.
Proof.
  intros ind L Hind HL. unfold clean_doc_text.
  rewrite split_on_join; [apply clean_canonical; exact Hind|discriminate|].
  apply canon_lines_free; assumption.
Qed.

Example clean_text_canonical_nonvacuous :
  Forall (fun l => ~ In nl l) [s"a"; []; s"  b"]
  /\ join [nl] (canon_lines (s" ") [s"a"; []; s"  b"])
     = s"#[[[" ++ [nl] ++ s" # a" ++ [nl] ++ s" #" ++ [nl] ++ s" #   b" ++ [nl] ++ s" #]]"
  /\ clean_doc_text (join [nl] (canon_lines (s" ") [s"a"; []; s"  b"]))
     = s"a" ++ [nl] ++ [nl] ++ s"  b" ++ [nl].
Proof.
  split; [|vm_compute; split; reflexivity].
  repeat constructor; vm_compute; intros H;
    repeat (destruct H as [H|H]; [discriminate H|]); exact H.
Qed.

(* ---- E3: property C04, uniform re-indentation ---- *)

Theorem reindent_invariance : forall ind1 ind2 L,
  forallb is_sptab' ind1 = true -> forallb is_sptab' ind2 = true ->
  clean_doc_lines (canon_lines ind1 L) = clean_doc_lines (canon_lines ind2 L).
Proof.
  intros ind1 ind2 L H1 H2. rewrite (clean_canonical ind1 L H1), (clean_canonical ind2 L H2).
  reflexivity.
Qed.

Theorem reindent_invariance_text : forall ind1 ind2 L,
  forallb is_sptab' ind1 = true -> forallb is_sptab' ind2 = true ->
  Forall (fun l => ~ In nl l) L ->
  clean_doc_text (join [nl] (canon_lines ind1 L)) = clean_doc_text (join [nl] (canon_lines ind2 L)).
Proof.
  intros ind1 ind2 L H1 H2 HL.
  rewrite (clean_text_canonical ind1 L H1 HL), (clean_text_canonical ind2 L H2 HL). reflexivity.
Qed.

(* ---- E4: lines without the leader ---- *)

Lemma clean_line_plain : forall l, plain_line l = true -> clean_line 0 l = l.
Proof.
  intros [|a r] H; [reflexivity|]. unfold plain_line in H. cbn [mem] in H.
  unfold clean_line. cbn [skipn]. unfold lstrip_set, doc_lstrip_set. cbn [drop_while mem].
  rewrite !negb_orb in H. apply andb_prop in H. destruct H as [H1 H].
  apply andb_prop in H. destruct H as [H2 H]. apply andb_prop in H. destruct H as [H3 H].
  apply andb_prop in H. destruct H as [H4 _].
  apply negb_true_iff in H1, H2, H3, H4. rewrite H1, H2, H3. cbn [orb].
  change 32%N with sp. rewrite H4. reflexivity.
Qed.

Theorem clean_leaderless : forall L,
  L <> [] -> forallb plain_line L = true ->
  clean_doc_lines (doc_open_line :: L ++ [doc_close_line]) = join [nl] L ++ [nl].
Proof.
  intros L Hne HL. unfold clean_doc_lines.
  change (doc_open_line :: L ++ [doc_close_line]) with ((doc_open_line :: L) ++ [doc_close_line]).
  rewrite last_opt_app1. change (length (take_while _ doc_close_line)) with 0.
  rewrite map_app. cbn [map]. change (clean_line 0 doc_open_line) with (@nil char).
  change (clean_line 0 doc_close_line) with (@nil char).
  change ([] :: map (clean_line 0) L ++ [[]]) with (([] :: map (clean_line 0) L) ++ [[]]).
  rewrite update_last_app1.
  assert (Hm : map (clean_line 0) L = L).
  { clear Hne. induction L as [|l L IH]; [reflexivity|].
    cbn [forallb] in HL. apply andb_prop in HL. destruct HL as [H1 H2].
    cbn [map]. rewrite (clean_line_plain l H1), (IH H2). reflexivity. }
  rewrite Hm. change (rstrip_set doc_rstrip_set []) with (@nil char).
  change (([] :: L) ++ [[]]) with ([] :: (L ++ [[]])).
  destruct (L ++ [[]]) as [|x r] eqn:E; [destruct L; discriminate E|].
  rewrite join_cons2. cbn [app]. change (nl =? 10)%N with true. cbn iota.
  rewrite <- E. rewrite join_lines_snoc_empty. destruct L; [contradiction Hne|]; reflexivity.
Qed.

Example clean_leaderless_nonvacuous :
  forallb plain_line [s"Text."; []; s"x [y] # z"; tab :: s"t"] = true
  /\ clean_doc_lines (doc_open_line :: [s"Text."; []; s"x [y] # z"; tab :: s"t"] ++ [doc_close_line])
     = join [nl] [s"Text."; []; s"x [y] # z"; tab :: s"t"] ++ [nl].
Proof. vm_compute. split; reflexivity. Qed.

(* without the leader the cleaning is not the identity: one leading space is taken from a
   line (so relative indentation between leaderless lines is not kept), and leading
   hash and bracket characters are taken *)
Example clean_leaderless_refuted :
  clean_doc_lines (doc_open_line :: [s"a"; s" b"; s"#c"; s"[d]"] ++ [doc_close_line])
  = join [nl] [s"a"; s"b"; s"c"; s"d]"] ++ [nl].
Proof. vm_compute. reflexivity. Qed.

(* ---- E6: the doc text sits once among the direct children of the entry directive ---- *)

Lemma direct_paras_app : forall a b, direct_paras (a ++ b) = direct_paras a ++ direct_paras b.
Proof. intros a b. unfold direct_paras. apply flat_map_app. Qed.

Lemma direct_paras_methods : forall l, direct_paras (map render_method l) = [].
Proof. induction l as [|m l IH]; [reflexivity|exact IH]. Qed.

Lemma direct_paras_attrs : forall l, direct_paras (map render_attribute l) = [].
Proof. induction l as [|m l IH]; [reflexivity|exact IH]. Qed.

Theorem doc_in_entry_once : forall e,
  direct_paras (dir_body (render_entry e)) = expected_paras e.
Proof.
  intros e. destruct e as [mac n d ps kw|n d ty v|n d v h|n d ps|n d ps|sec n d xf ps mac
                          |n d su inner ct me at_|n d].
  - cbn [render_entry dir_body]. destruct mac; reflexivity.
  - reflexivity.
  - reflexivity.
  - reflexivity.
  - reflexivity.
  - reflexivity.
  - cbn [render_entry dir_body expected_paras]. rewrite !direct_paras_app.
    f_equal; [destruct su; reflexivity|].
    f_equal. f_equal; [destruct ct as [|c0 ct']; [reflexivity|]|].
    { change (direct_paras (Para (s"**Additional Constructors**") :: map render_method (c0 :: ct')))
        with (s"**Additional Constructors**" :: direct_paras (map render_method (c0 :: ct'))).
      rewrite direct_paras_methods. reflexivity. }
    f_equal; [destruct me as [|m0 me']; [reflexivity|]|].
    { change (direct_paras (Para (s"**Methods**") :: map render_method (m0 :: me')))
        with (s"**Methods**" :: direct_paras (map render_method (m0 :: me'))).
      rewrite direct_paras_methods. reflexivity. }
    f_equal; [destruct at_ as [|a0 at']; [reflexivity|]|].
    { change (direct_paras (Para (s"**Attributes**") :: map render_attribute (a0 :: at')))
        with (s"**Attributes**" :: direct_paras (map render_attribute (a0 :: at'))).
      rewrite direct_paras_attrs. reflexivity. }
    destruct inner; reflexivity.
  - destruct d; reflexivity.
Qed.

(* for every constructor except a class: exactly the doc text, once (none for a module
   entry without text) *)
Corollary doc_in_entry_once_simple : forall e,
  (match e with EClass _ _ _ _ _ _ _ => false | _ => true end) = true ->
  direct_paras (dir_body (render_entry e))
  = match entry_doc e with [] => (match e with EModule _ _ => [] | _ => [[]] end) | d => [d] end.
Proof.
  intros e H. rewrite doc_in_entry_once. destruct e; try discriminate H;
    cbn [expected_paras entry_doc]; try (destruct doc; reflexivity).
Qed.

Lemma in_direct_paras : forall t body, In t (direct_paras body) -> In (Para t) body.
Proof.
  intros t body. induction body as [|x body IH]; intros H; [exact H|].
  unfold direct_paras in H. cbn [flat_map] in H. apply in_app_or in H. destruct H as [H|H].
  - destruct x; try contradiction H. destruct H as [E|[]]. subst. left. reflexivity.
  - right. apply IH. exact H.
Qed.

Theorem para_in_body : forall e, entry_doc e <> [] ->
  In (Para (entry_doc e)) (dir_body (render_entry e)).
Proof.
  intros e H. apply in_direct_paras. rewrite doc_in_entry_once.
  destruct e; cbn [expected_paras entry_doc] in *; try (left; reflexivity).
  - apply in_or_app. right. left. reflexivity.
  - destruct doc; [contradiction H; reflexivity|left; reflexivity].
Qed.

(* a direct child is rendered one level deeper, followed by a line break, inside the text
   of the directive *)
Theorem child_text_in_dir : forall hdrs lvl d name args opts body x,
  In x body ->
  exists pre post,
    elem_text hdrs lvl d (Dir name args opts body)
    = pre ++ elem_text hdrs 0 (S d) x ++ [nl] ++ post.
Proof.
  intros hdrs lvl d name args opts body x Hin.
  apply in_split in Hin. destruct Hin as [b1 [b2 E]]. subst body.
  cbn [elem_text]. rewrite map_app, concat_app. cbn [map concat].
  exists (dir_heading d name args ++ [nl]
          ++ concat (map (fun o => option_text (S d) o ++ [nl]) opts)
          ++ (match b1 ++ x :: b2 with [] => [] | _ :: _ => [nl] end)
          ++ concat (map (fun y => elem_text hdrs 0 (S d) y ++ [nl]) b1)).
  exists (concat (map (fun y => elem_text hdrs 0 (S d) y ++ [nl]) b2)).
  rewrite <- !app_assoc. reflexivity.
Qed.

(* Paragraph: the lines of the text, each behind the indentation *)
Lemma spaces_free : forall n, ~ In nl (spaces n).
Proof.
  induction n as [|n IH]; [intros []|]. intros [E|H]; [discriminate E|exact (IH H)].
Qed.

Theorem para_text_lines : forall d t,
  split_on nl (para_text d t) = map (fun l => indent d ++ l) (split_on nl t).
Proof.
  intros d t. unfold para_text. apply split_on_join.
  - destruct (split_on nl t) eqn:E; [destruct (split_on_nonempty nl t E)|discriminate].
  - pose proof (split_on_pieces_free nl t) as HF. induction HF as [|l ls Hl HF IH]; [constructor|].
    cbn [map]. constructor; [|exact IH]. apply not_in_app; [apply spaces_free|exact Hl].
Qed.

(* ---- enter_documented records the cleaned doccomment text ---- *)

Lemma last_doc_snoc : forall l e, last_doc (l ++ [e]) = Some (entry_doc e).
Proof. intros l e. unfold last_doc. rewrite last_opt_app1. reflexivity. Qed.

Lemma update_nth_length : forall (A : Type) (f : A -> A) l i, length (update_nth i f l) = length l.
Proof.
  intros A f l. induction l as [|x l IH]; intros i; [destruct i; reflexivity|].
  destruct i; cbn [update_nth length]; [reflexivity|]. rewrite IH. reflexivity.
Qed.

Lemma last_doc_update_nth : forall f l i,
  (forall e, entry_doc (f e) = entry_doc e) -> last_doc (update_nth i f l) = last_doc l.
Proof.
  intros f l. induction l as [|x l IH]; intros i Hf; [destruct i; reflexivity|].
  destruct i as [|i].
  - cbn [update_nth]. unfold last_doc. destruct l; [cbn; rewrite Hf; reflexivity|reflexivity].
  - cbn [update_nth]. specialize (IH i Hf). unfold last_doc in *.
    destruct l as [|y l']; [destruct i; reflexivity|].
    assert (Hne : update_nth i f (y :: l') <> []).
    { intros E. apply (f_equal (@length entry)) in E. rewrite update_nth_length in E. discriminate E. }
    destruct (update_nth i f (y :: l')) as [|z r] eqn:E; [contradiction Hne; reflexivity|].
    exact IH.
Qed.

Lemma add_inner_doc : forall n e, entry_doc (add_inner n e) = entry_doc e.
Proof. intros n e. destruct e; reflexivity. Qed.

(* the outcome of one handler: either the list keeps its length, or it grew by one and the
   newest entry carries doc *)
Definition records (doc : str) (st st' : agg) : Prop :=
  length (documented st') = length (documented st)
  \/ last_doc (documented st') = Some doc.

Lemma records_same : forall doc st, records doc st st.
Proof. intros. left. reflexivity. Qed.

Lemma records_append : forall e docd st doc, entry_doc e = doc -> records doc st (append e docd st).
Proof. intros e docd st doc H. right. cbn [append documented]. rewrite last_doc_snoc, H. reflexivity. Qed.

Lemma records_update : forall doc st i f,
  records doc st (with_docs (update_nth i f) st).
Proof. intros. left. cbn [with_docs documented]. apply update_nth_length. Qed.

Lemma run_handler_records : forall trigger sfn smac h c doc docd st st',
  run_handler trigger sfn smac h c doc docd st = Ok st' -> records doc st st'.
Proof.
  intros trigger sfn smac h c doc docd st st' H. destruct h; cbn [run_handler] in H.
  - unfold process_def in H. destruct (singles c) as [|n ps]; [discriminate H|].
    injection H as <-. right. cbn [with_def_stack append documented]. apply last_doc_snoc.
  - unfold process_def in H. destruct (singles c) as [|n ps]; [discriminate H|].
    injection H as <-. right. cbn [with_def_stack append documented]. apply last_doc_snoc.
  - injection H as <-. unfold process_cpa. destruct (def_stack st) as [|[idx|] ds];
      [apply records_same|apply records_update|apply records_same].
  - injection H as <-. unfold process_test. destruct (length (singles c) <? 2); [apply records_same|].
    destruct (scan_name (singles c) []); [|apply records_same].
    right. cbn [with_awaiting append documented]. apply last_doc_snoc.
  - injection H as <-. unfold process_test. destruct (length (singles c) <? 2); [apply records_same|].
    destruct (scan_name (singles c) []); [|apply records_same].
    right. cbn [with_awaiting append documented]. apply last_doc_snoc.
  - unfold process_set in H. destruct (singles c) as [|n [|v [|w vals]]].
    + injection H as <-. apply records_same.
    + injection H as <-. apply records_append. reflexivity.
    + destruct (unquote v); [|discriminate H]. injection H as <-. apply records_append. reflexivity.
    + injection H as <-. apply records_append. reflexivity.
  - injection H as <-. unfold process_class. destruct (singles c) as [|n su]; [apply records_same|].
    right. destruct (class_stack st) as [|[cidx|] cs];
      cbn [with_class_stack with_docs append documented].
    + apply last_doc_snoc.
    + rewrite last_doc_update_nth by apply add_inner_doc. apply last_doc_snoc.
    + apply last_doc_snoc.
  - injection H as <-. unfold process_member. destruct (length (singles c) <? 2); [apply records_same|].
    destruct (class_stack st) as [|[cidx|] cs]; [apply records_same| |apply records_same].
    left. cbn [with_awaiting with_docs documented]. apply update_nth_length.
  - injection H as <-. unfold process_member. destruct (length (singles c) <? 2); [apply records_same|].
    destruct (class_stack st) as [|[cidx|] cs]; [apply records_same| |apply records_same].
    left. cbn [with_awaiting with_docs documented]. apply update_nth_length.
  - injection H as <-. unfold process_attr. destruct (length (singles c) <? 2); [apply records_same|].
    destruct (class_stack st) as [|[cidx|] cs]; [apply records_same| |apply records_same].
    apply records_update.
  - injection H as <-. unfold process_add_test. destruct (length (singles c) <? 2); [apply records_same|].
    destruct (scan_name_idx (singles c) 0 (None, [])) as [[idx n]|]; [|apply records_same].
    apply records_append. reflexivity.
  - injection H as <-. unfold process_option.
    destruct (singles c) as [|a [|b [|v [|w r]]]]; try apply records_same;
      apply records_append; reflexivity.
Qed.

Theorem enter_documented_doc : forall trigger sfn smac d c st st',
  enter_documented trigger sfn smac d c st = Ok st' ->
  length (documented st') <> length (documented st) ->
  exists e, last_opt (documented st') = Some e /\ entry_doc e = clean_doc_text d.
Proof.
  intros trigger sfn smac d c st st' H Hlen. unfold enter_documented in H.
  assert (R : records (clean_doc_text d) st st').
  { destruct (lookup (lower_ascii (c_name c)) handler_table) as [h|].
    - exact (run_handler_records _ _ _ _ _ _ _ _ _ H).
    - injection H as <-. unfold process_generic. apply records_append. reflexivity. }
  destruct R as [R|R]; [contradiction (Hlen R)|].
  unfold last_doc in R. destruct (last_opt (documented st')) as [e|]; [|discriminate R].
  exists e. split; [reflexivity|]. injection R as R. exact R.
Qed.

(* members and attributes: the text is stored in m_doc / a_doc of the new last member *)
Lemma nth_error_update_nth : forall (A : Type) (f : A -> A) l i x,
  nth_error l i = Some x -> nth_error (update_nth i f l) i = Some (f x).
Proof.
  intros A f l. induction l as [|y l IH]; intros i x H; [destruct i; discriminate H|].
  destruct i as [|i]; cbn [nth_error update_nth] in *; [injection H as ->; reflexivity|].
  apply IH. exact H.
Qed.

Theorem process_member_doc : forall is_ctor c doc docd st cidx cs n d su inner ct me at_,
  2 <= length (singles c) -> class_stack st = Some cidx :: cs ->
  nth_error (documented st) cidx = Some (EClass n d su inner ct me at_) ->
  exists m, m_doc m = doc /\
    nth_error (documented (process_member is_ctor c doc docd st)) cidx
    = Some (if is_ctor then EClass n d su inner (ct ++ [m]) me at_
            else EClass n d su inner ct (me ++ [m]) at_).
Proof.
  intros is_ctor c doc docd st cidx cs n d su inner ct me at_ Hlen Hcs Hnth.
  unfold process_member. destruct (Nat.ltb_spec (length (singles c)) 2) as [Hlt|_]; [lia|].
  rewrite Hcs. cbn [with_awaiting with_docs documented].
  eexists. split; [|rewrite (nth_error_update_nth _ _ _ _ _ Hnth); cbn [add_method]; destruct is_ctor; reflexivity].
  reflexivity.
Qed.

Theorem process_attr_doc : forall c doc docd st cidx cs n d su inner ct me at_,
  2 <= length (singles c) -> class_stack st = Some cidx :: cs ->
  nth_error (documented st) cidx = Some (EClass n d su inner ct me at_) ->
  exists a, a_doc a = doc /\
    nth_error (documented (process_attr c doc docd st)) cidx
    = Some (EClass n d su inner ct me (at_ ++ [a])).
Proof.
  intros c doc docd st cidx cs n d su inner ct me at_ Hlen Hcs Hnth.
  unfold process_attr. destruct (Nat.ltb_spec (length (singles c)) 2) as [Hlt|_]; [lia|].
  rewrite Hcs. cbn [with_docs documented].
  eexists. split; [|rewrite (nth_error_update_nth _ _ _ _ _ Hnth); cbn [add_attr]; reflexivity].
  reflexivity.
Qed.

(* C01 for a documented command with a canonical doccomment: the entry's doc is the lines,
   and its rendering contains, as a direct child of the entry's directive, the paragraph
   whose lines are exactly the doccomment lines behind one indentation unit, in order *)
Theorem canonical_doc_lines_in_output : forall trigger sfn smac ind L c st st',
  forallb is_sptab' ind = true -> L <> [] -> Forall (fun l => ~ In nl l) L ->
  enter_documented trigger sfn smac (join [nl] (canon_lines ind L)) c st = Ok st' ->
  length (documented st') <> length (documented st) ->
  exists e, last_opt (documented st') = Some e
    /\ entry_doc e = join [nl] L ++ [nl]
    /\ In (Para (entry_doc e)) (dir_body (render_entry e))
    /\ split_on nl (para_text 1 (entry_doc e)) = map (fun l => indent 1 ++ l) (L ++ [[]])
    /\ (forall hdrs, exists name args opts body pre post,
          render_entry e = Dir name args opts body
          /\ elem_text hdrs 0 0 (render_entry e)
             = pre ++ para_text 1 (entry_doc e) ++ [nl] ++ post).
Proof.
  intros trigger sfn smac ind L c st st' Hind Hne HL H Hlen.
  destruct (enter_documented_doc _ _ _ _ _ _ _ H Hlen) as [e [He Hd]].
  rewrite (clean_text_canonical ind L Hind HL) in Hd.
  assert (Hd' : entry_doc e = join [nl] L ++ [nl]) by (destruct L; [contradiction Hne; reflexivity|exact Hd]).
  assert (Hnz : entry_doc e <> []) by (rewrite Hd'; destruct (join [nl] L); discriminate).
  exists e. split; [exact He|]. split; [exact Hd'|]. split; [exact (para_in_body e Hnz)|]. split.
  - rewrite para_text_lines, Hd'. f_equal.
    assert (E : join [nl] L ++ [nl] = join [nl] (L ++ [[]])).
    { rewrite join_lines_snoc_empty. destruct L; [contradiction Hne|]; reflexivity. }
    rewrite E. apply split_on_join; [destruct L; discriminate|].
    apply Forall_app. split; [exact HL|]. constructor; [intros []|constructor].
  - intros hdrs. pose proof (para_in_body e Hnz) as Hin.
    destruct (render_entry e) as [t|fn ft|en it|l x|name args opts body|t b] eqn:Er;
      try contradiction Hin.
    cbn [dir_body] in Hin.
    destruct (child_text_in_dir hdrs 0 0 name args opts body _ Hin) as [pre [post E]].
    exists name, args, opts, body, pre, post. split; [reflexivity|exact E].
Qed.

Example canonical_doc_lines_in_output_nonvacuous :
  let c := {| c_name := s"function"; c_args := [ASingle TIdent (s"f"); ASingle TIdent (s"x")] |} in
  let d := join [nl] (canon_lines (s"  ") [s"Line 1"; []; s"  code"]) in
  exists st', enter_documented (s"KW") (fun x => x) (fun x => x) d c agg_init = Ok st'
    /\ documented st' = [EFunction false (s"f") (s"Line 1" ++ [nl] ++ [nl] ++ s"  code" ++ [nl]) [s"x"] false].
Proof. eexists. vm_compute. split; reflexivity. Qed.

(* ---- E5: the module doccomment ---- *)

Definition module_open (name : str) : str := s"#[[[ @module " ++ name.

Definition module_lines (name : str) (L : list str) : list str :=
  module_open name :: map leader_line L ++ [doc_close_line].

Lemma startswith_app : forall p x, startswith p (p ++ x) = true.
Proof.
  induction p as [|a p IH]; intros x; [reflexivity|].
  cbn [app startswith]. rewrite N.eqb_refl. apply IH.
Qed.

Lemma replace_go_skip : forall old new pre x,
  replace_go old new (length pre) (pre ++ x) = replace_go old new 0 x.
Proof.
  intros old new pre x. induction pre as [|a pre IH]; [reflexivity|].
  cbn [length app replace_go]. exact IH.
Qed.

Lemma replace_all_prefix : forall old new x,
  old <> [] -> replace_all old new (old ++ x) = new ++ replace_all old new x.
Proof.
  intros [|a old] new x H; [contradiction H; reflexivity|].
  unfold replace_all. change ((a :: old) ++ x) with (a :: (old ++ x)).
  cbn [replace_go]. change (a :: old ++ x) with ((a :: old) ++ x). rewrite startswith_app.
  replace (length (a :: old) - 1) with (length old) by (cbn [length]; lia).
  rewrite replace_go_skip. reflexivity.
Qed.

Lemma replace_all_absent : forall old new x, contains old x = false -> replace_all old new x = x.
Proof.
  intros old new x. unfold replace_all. induction x as [|a r IH]; intros H; [reflexivity|].
  cbn [contains] in H. apply orb_false_elim in H. destruct H as [H1 H2].
  cbn [replace_go]. rewrite H1, (IH H2). reflexivity.
Qed.

Theorem module_entry_canonical : forall name L,
  ~ In nl name -> strip_ws name = name -> contains module_kw name = false ->
  Forall (fun l => ~ In nl l) L ->
  module_entry (join [nl] (module_lines name L))
  = EModule name (match L with [] => [] | _ :: _ => join [nl] L ++ [nl] end).
Proof.
  intros name L Hnl Hstrip Hkw HL. unfold module_entry.
  assert (Hfree : Forall (fun l => ~ In nl l) (module_lines name L)).
  { unfold module_lines. constructor.
    - unfold module_open. apply not_in_app; [|exact Hnl].
      vm_compute. intros H. repeat (destruct H as [H|H]; [discriminate H|]). exact H.
    - apply Forall_app. split.
      + induction HL as [|l L' Hl HL' IH]; [constructor|]. cbn [map]. constructor; [|exact IH].
        apply leader_line_free. exact Hl.
      + constructor; [|constructor].
        vm_compute. intros H. repeat (destruct H as [H|H]; [discriminate H|]). exact H. }
  unfold clean_doc_text. rewrite split_on_join; [|unfold module_lines; discriminate|exact Hfree].
  unfold module_lines.
  assert (Hc : clean_doc_lines (module_open name :: map leader_line L ++ [doc_close_line])
               = let doc := join [nl] ((s"@module " ++ name) :: L ++ [[]]) in
                 match doc with a :: r => if (a =? 10)%N then r else doc | [] => [] end).
  { exact (clean_doc_lines_frame (module_open name) [] L eq_refl). }
  rewrite Hc. clear Hc. cbv zeta.
  change ((s"@module " ++ name) :: L ++ [[]]) with ((s"@module " ++ name) :: (L ++ [[]])).
  assert (Hj : join [nl] ((s"@module " ++ name) :: (L ++ [[]]))
               = 64%N :: (s"module " ++ name) ++ [nl] ++ join [nl] (L ++ [[]])).
  { destruct (L ++ [[]]) as [|x r] eqn:E; [destruct L; discriminate E|]. reflexivity. }
  rewrite Hj. change (64 =? 10)%N with false. cbn iota. rewrite <- Hj.
  rewrite split_on_join.
  - cbn [tl]. rewrite join_lines_snoc_empty. f_equal.
    change (s"@module " ++ name) with (module_kw ++ (sp :: name)).
    rewrite replace_all_prefix by discriminate. cbn [app].
    rewrite replace_all_absent.
    + unfold strip_ws. cbn [drop_while]. change (py_isspace sp) with true. cbn iota. exact Hstrip.
    + cbn [contains]. rewrite Hkw. reflexivity.
  - discriminate.
  - constructor.
    + apply not_in_app; [|exact Hnl].
      vm_compute. intros H. repeat (destruct H as [H|H]; [discriminate H|]). exact H.
    + apply Forall_app. split; [exact HL|]. constructor; [intros []|constructor].
Qed.

Example module_entry_canonical_nonvacuous :
  ~ In nl (s"my.mod") /\ strip_ws (s"my.mod") = s"my.mod" /\ contains module_kw (s"my.mod") = false
  /\ join [nl] (module_lines (s"my.mod") [s"hello"; []; s" x"])
     = s"#[[[ @module my.mod" ++ [nl] ++ s"# hello" ++ [nl] ++ s"#" ++ [nl] ++ s"#  x" ++ [nl] ++ s"#]]"
  /\ module_entry (join [nl] (module_lines (s"my.mod") [s"hello"; []; s" x"]))
     = EModule (s"my.mod") (s"hello" ++ [nl] ++ [nl] ++ s" x" ++ [nl]).
Proof.
  split; [vm_compute; intros H; repeat (destruct H as [H|H]; [discriminate H|]); exact H|].
  vm_compute. repeat split.
Qed.

(* the hypotheses on the name matter: the keyword inside the name is deleted, outer
   white space is stripped *)
Example module_entry_name_needs_hyps :
  module_entry (join [nl] (module_lines (s"a@moduleb") [s"x"])) = EModule (s"ab") (s"x" ++ [nl])
  /\ module_entry (join [nl] (module_lines (s"a ") [s"x"])) = EModule (s"a") (s"x" ++ [nl]).
Proof. vm_compute. split; reflexivity. Qed.

(* ---- E7: UTF-8 ---- *)

Local Ltac Zify.zify_post_hook ::= Z.div_mod_to_equations.

Section Utf8.
Local Open Scope N_scope.

Lemma enc_range1 : forall c, c < 128 -> (c <? 128) = true.
Proof. intros c H. lia. Qed.

Lemma enc_range2 : forall c, 128 <= c -> c < 2048 ->
  (192 + c / 64 <? 128) = false
  /\ ((194 <=? 192 + c / 64) && (192 + c / 64 <=? 223)) = true
  /\ is_cont (128 + c mod 64) = true
  /\ (192 + c / 64 - 192) * 64 + cont_bits (128 + c mod 64) = c.
Proof. intros c H1 H2. unfold is_cont, cont_bits. repeat split; lia. Qed.

Lemma enc_range3 : forall c, 2048 <= c -> c < 65536 -> (c < 55296 \/ 57343 < c) ->
  let b0 := 224 + c / 4096 in
  let b1 := 128 + (c / 64) mod 64 in
  let b2 := 128 + c mod 64 in
  (b0 <? 128) = false
  /\ ((194 <=? b0) && (b0 <=? 223)) = false
  /\ ((224 <=? b0) && (b0 <=? 239)) = true
  /\ (((if b0 =? 224 then 160 else 128) <=? b1) && (b1 <=? (if b0 =? 237 then 159 else 191))) = true
  /\ is_cont b2 = true
  /\ (b0 - 224) * 4096 + cont_bits b1 * 64 + cont_bits b2 = c.
Proof.
  intros c H1 H2 H3 b0 b1 b2. unfold is_cont, cont_bits. subst b0 b1 b2.
  split; [lia|]. split; [lia|]. split; [lia|]. split.
  - destruct (N.eqb_spec (224 + c / 4096) 224) as [E|E];
      destruct (N.eqb_spec (224 + c / 4096) 237) as [E'|E']; lia.
  - split; lia.
Qed.

Lemma enc_range4 : forall c, 65536 <= c -> c < 1114112 ->
  let b0 := 240 + c / 262144 in
  let b1 := 128 + (c / 4096) mod 64 in
  let b2 := 128 + (c / 64) mod 64 in
  let b3 := 128 + c mod 64 in
  (b0 <? 128) = false
  /\ ((194 <=? b0) && (b0 <=? 223)) = false
  /\ ((224 <=? b0) && (b0 <=? 239)) = false
  /\ ((240 <=? b0) && (b0 <=? 244)) = true
  /\ (((if b0 =? 240 then 144 else 128) <=? b1) && (b1 <=? (if b0 =? 244 then 143 else 191))) = true
  /\ is_cont b2 = true /\ is_cont b3 = true
  /\ (b0 - 240) * 262144 + cont_bits b1 * 4096 + cont_bits b2 * 64 + cont_bits b3 = c.
Proof.
  intros c H1 H2 b0 b1 b2 b3. unfold is_cont, cont_bits. subst b0 b1 b2 b3.
  split; [lia|]. split; [lia|]. split; [lia|]. split; [lia|]. split.
  - destruct (N.eqb_spec (240 + c / 262144) 240) as [E|E];
      destruct (N.eqb_spec (240 + c / 262144) 244) as [E'|E']; lia.
  - split; [lia|]. split; lia.
Qed.

Lemma decode_encode_char : forall c rest,
  is_scalar c = true ->
  utf8_decode (utf8_encode_char c ++ rest) = option_map (cons c) (utf8_decode rest).
Proof.
  intros c rest Hs. unfold is_scalar in Hs. unfold utf8_encode_char.
  destruct (N.ltb_spec c 128) as [L1|L1].
  - cbn [app utf8_decode]. rewrite (enc_range1 c L1). reflexivity.
  - destruct (N.ltb_spec c 2048) as [L2|L2].
    + destruct (enc_range2 c L1 L2) as [A [B [C D]]].
      cbn [app utf8_decode]. rewrite A, B, C, D. reflexivity.
    + destruct (N.ltb_spec c 65536) as [L3|L3].
      * assert (Hsur : c < 55296 \/ 57343 < c) by lia.
        destruct (enc_range3 c L2 L3 Hsur) as [A [B [C [D [E F]]]]].
        cbn [app utf8_decode]. rewrite A, B, C. cbv zeta. rewrite D, E, F. reflexivity.
      * assert (L4 : c < 1114112) by lia.
        destruct (enc_range4 c L3 L4) as [A [B [C [D [E [F [G K]]]]]]].
        cbn [app utf8_decode]. rewrite A, B, C, D. cbv zeta. rewrite E, F, G, K. reflexivity.
Qed.

Theorem utf8_roundtrip : forall x,
  forallb is_scalar x = true -> utf8_decode (utf8_encode x) = Some x.
Proof.
  induction x as [|c x IH]; intros H; [reflexivity|].
  cbn [forallb] in H. apply andb_prop in H. destruct H as [H1 H2].
  unfold utf8_encode. cbn [flat_map]. rewrite (decode_encode_char c _ H1).
  change (flat_map utf8_encode_char x) with (utf8_encode x). rewrite (IH H2). reflexivity.
Qed.

Lemma decode_source_cases : forall bs,
  (exists r, bs = 239 :: 187 :: 191 :: r /\ decode_source bs = utf8_decode r)
  \/ decode_source bs = utf8_decode bs.
Proof.
  intros bs. unfold decode_source.
  destruct bs as [|b0 bs]; [right; reflexivity|].
  destruct b0 as [|p]; [right; reflexivity|].
  do 8 (try (destruct p as [p|p|]; try (right; reflexivity))).
  destruct bs as [|b1 bs]; [right; reflexivity|].
  destruct b1 as [|p]; [right; reflexivity|].
  do 8 (try (destruct p as [p|p|]; try (right; reflexivity))).
  destruct bs as [|b2 bs]; [right; reflexivity|].
  destruct b2 as [|p]; [right; reflexivity|].
  do 8 (try (destruct p as [p|p|]; try (right; reflexivity))).
  left. exists bs. split; reflexivity.
Qed.

Lemma decode_bom : forall r,
  utf8_decode (239 :: 187 :: 191 :: r) = option_map (cons 65279) (utf8_decode r).
Proof. intros r. reflexivity. Qed.

Definition no_leading_bom (x : str) : bool :=
  match x with c :: _ => negb (c =? 65279) | [] => true end.

(* without a byte-order mark the source text is decoded as it was encoded *)
Theorem decode_source_roundtrip : forall x,
  forallb is_scalar x = true -> no_leading_bom x = true ->
  decode_source (utf8_encode x) = Some x.
Proof.
  intros x Hs Hb. destruct (decode_source_cases (utf8_encode x)) as [[r [E _]]|E].
  - exfalso. pose proof (utf8_roundtrip x Hs) as R. rewrite E, decode_bom in R.
    destruct (utf8_decode r) as [y|]; [|discriminate R]. injection R as R. subst x.
    discriminate Hb.
  - rewrite E. apply utf8_roundtrip. exact Hs.
Qed.

(* exactly one byte-order mark in front is dropped *)
Theorem decode_source_bom : forall x,
  forallb is_scalar x = true ->
  decode_source (239 :: 187 :: 191 :: utf8_encode x) = Some x.
Proof. intros x Hs. change (decode_source (239 :: 187 :: 191 :: utf8_encode x)) with (utf8_decode (utf8_encode x)). apply utf8_roundtrip. exact Hs. Qed.

End Utf8.

Example utf8_roundtrip_nonvacuous :
  let x := [65; 233; 8364; 55295; 57344; 65279; 65536; 128512; 1114111; 127; 128; 2047; 2048]%N in
  forallb is_scalar x = true
  /\ utf8_encode [233; 8364; 128512]%N = [195; 169; 226; 130; 172; 240; 159; 152; 128]%N
  /\ decode_source (utf8_encode x) = Some x.
Proof. vm_compute. repeat split. Qed.

(* a lone surrogate is not a scalar value and does not survive *)
Example utf8_surrogate_refuted :
  is_scalar 55296%N = false /\ utf8_decode (utf8_encode [55296%N]) = None.
Proof. vm_compute. split; reflexivity. Qed.

(* a text starting with U+FEFF loses that first character: the mark is dropped once *)
Example decode_source_leading_bom :
  decode_source (utf8_encode [65279; 97]%N) = Some [97%N].
Proof. vm_compute. reflexivity. Qed.

(* ==== MAIN THEOREMS ====
   clean_canonical clean_text_canonical reindent_invariance reindent_invariance_text
   clean_leaderless clean_leaderless_refuted
   module_entry_canonical
   doc_in_entry_once doc_in_entry_once_simple para_in_body child_text_in_dir para_text_lines
   enter_documented_doc process_member_doc process_attr_doc canonical_doc_lines_in_output
   utf8_roundtrip decode_source_roundtrip decode_source_bom *)
Print Assumptions clean_canonical.
Print Assumptions clean_text_canonical.
Print Assumptions reindent_invariance.
Print Assumptions reindent_invariance_text.
Print Assumptions clean_leaderless.
Print Assumptions clean_leaderless_refuted.
Print Assumptions module_entry_canonical.
Print Assumptions doc_in_entry_once.
Print Assumptions doc_in_entry_once_simple.
Print Assumptions para_in_body.
Print Assumptions child_text_in_dir.
Print Assumptions para_text_lines.
Print Assumptions enter_documented_doc.
Print Assumptions process_member_doc.
Print Assumptions process_attr_doc.
Print Assumptions canonical_doc_lines_in_output.
Print Assumptions utf8_roundtrip.
Print Assumptions decode_source_roundtrip.
Print Assumptions decode_source_bom.
