(* Proofs/CleanFacts.v -- lemmas; see DESIGN.md section 7 *)
