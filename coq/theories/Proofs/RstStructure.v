(* Proofs/RstStructure.v -- property C07: block structure of a generated page.
   A small reader of the reST block skeleton (blocks start at non-blank column-0
   lines) is shown to invert the writer on pipeline pages: one block per top-level
   directive, in order; everything nested in an entry stays in that entry's block. *)
From Coq Require Import String List NArith Bool Arith Lia.
From CMinx Require Import Base.Str Model.Writer Model.DocTypes Model.Pipeline.
From CMinx Require Import Proofs.WriterFacts.
Import ListNotations.

(* ---- spec ---- *)

Definition is_space (c : char) : bool := (c =? 32)%N.
(* only spaces *)
Definition blank (l : str) : bool := forallb is_space l.
Definition indent_of (l : str) : nat := length (take_while is_space l).
(* a line that starts a new top-level block: non-blank, at column 0 *)
Definition is_top (l : str) : bool := negb (blank l) && (indent_of l =? 0).

(* (preamble, blocks): a new block starts at every top line *)
Fixpoint blocks_from (ls : list str) : list str * list (list str) :=
  match ls with
  | [] => ([], [])
  | l :: r => let '(pre, bs) := blocks_from r in
              if is_top l then ([], (l :: pre) :: bs) else (l :: pre, bs)
  end.
Definition preamble (ls : list str) : list str := fst (blocks_from ls).
Definition top_blocks (ls : list str) : list (list str) := snd (blocks_from ls).

(* the block a top-level element occupies: its lines without the leading empty line
   (which closes the previous block), plus the empty line its trailing newline opens *)
Definition block_lines (hdrs : list str) (e : elem) : list str :=
  tl (lines (elem_text hdrs 0 0 e)) ++ [[]].

Definition is_module (e : entry) : bool :=
  match e with EModule _ _ => true | _ => false end.
Definition entry_plain (e : entry) : bool := plain (render_entry e).
Definition is_module_block (b : list str) : bool := startswith (s".. module:: ") (hd [] b).
Definition not_top (l : str) : Prop := is_top l = false.

(* the lines of the page body, i.e. after the title frame *)
Definition body_lines (hdrs : list str) (ds : list entry) : list str :=
  lines (body_text hdrs 0 0 (map render_entry ds)).

(* a sufficient condition for entry_plain on the fields of the documentation objects:
   names, parameters, values, help texts contain no newline (doc texts are arbitrary) *)
Definition opt_no_nl (v : option str) : bool :=
  match v with Some x => no_nl x | None => true end.
Definition method_ok (m : method) : bool :=
  no_nl (m_name m) && forallb no_nl (m_params m) && forallb no_nl (m_types m).
Definition attr_ok (a : attribute) : bool := no_nl (a_name a) && opt_no_nl (a_default a).
Definition entry_fields_ok (e : entry) : bool :=
  match e with
  | EFunction _ name _ params _ => no_nl name && forallb no_nl params
  | EVariable name _ _ value => no_nl name && opt_no_nl value
  | EOption name _ value help => no_nl name && opt_no_nl value && no_nl help
  | EGeneric name _ params => no_nl name && forallb no_nl params
  | ECTest name _ params => no_nl name && forallb no_nl params
  | ETest _ name _ _ _ _ => no_nl name
  | EClass name _ _ inner ctors members attrs =>
      no_nl name && forallb no_nl inner && forallb method_ok ctors
      && forallb method_ok members && forallb attr_ok attrs
  | EModule name _ => no_nl name
  end.

(* R4: the recursive reader: the directive tree by indentation *)
Inductive skel := SDir (heading : str) (children : list skel).

Fixpoint span {A : Type} (p : A -> bool) (l : list A) : list A * list A :=
  match l with
  | [] => ([], [])
  | x :: r => if p x then let '(a, b) := span p r in (x :: a, b) else ([], l)
  end.

(* a line belonging to the content of a directive whose heading is at depth d *)
Definition deeper (d : nat) (l : str) : bool := blank l || (3 * S d <=? indent_of l).
Definition is_heading (d : nat) (l : str) : bool := startswith (indent d ++ s".. ") l.
(* a line that does not look like a directive heading at any depth *)
Definition inert (l : str) : bool := negb (startswith (s".. ") (drop_while is_space l)).

Fixpoint read (fuel d : nat) (ls : list str) : list skel :=
  match fuel with
  | O => []
  | S f =>
      match ls with
      | [] => []
      | l :: r =>
          if is_heading d l
          then SDir (drop_while is_space l) (read f (S d) (fst (span (deeper d) r)))
               :: read f d (snd (span (deeper d) r))
          else read f d r
      end
  end.

Fixpoint skel_of (e : elem) : list skel :=
  match e with
  | Dir n a _ b => [SDir (s".. " ++ n ++ s":: " ++ join (s",") a) (flat_map skel_of b)]
  | _ => []
  end.

(* no paragraph line looks like a directive heading (doc texts may contain their own
   directives; the reader would then see deeper structure) *)
Fixpoint rsafe (e : elem) : bool :=
  match e with
  | Para t => forallb inert (lines t)
  | Dir _ _ _ b => forallb rsafe b
  | _ => true
  end.

(* ------------------------------------------------------------------ *)
(* R0/R3: the reader partitions its input                               *)

Lemma is_top_char : forall l,
  is_top l = match l with [] => false | c :: _ => negb (is_space c) end.
Proof.
  intros [|c r]; [reflexivity|].
  unfold is_top, blank, indent_of. cbn [forallb take_while].
  destruct (is_space c); cbn [negb andb length Nat.eqb]; [|reflexivity].
  apply andb_false_r.
Qed.

Lemma blocks_from_cons : forall l r,
  blocks_from (l :: r)
  = if is_top l then ([], (l :: preamble r) :: top_blocks r)
    else (l :: preamble r, top_blocks r).
Proof.
  intros l r. unfold preamble, top_blocks. cbn [blocks_from].
  destruct (blocks_from r) as [pre bs]. reflexivity.
Qed.

Theorem blocks_partition : forall ls, preamble ls ++ concat (top_blocks ls) = ls.
Proof.
  induction ls as [|l r IH]; [reflexivity|].
  unfold preamble, top_blocks in *. rewrite blocks_from_cons.
  unfold preamble, top_blocks. destruct (is_top l); cbn [fst snd concat app]; rewrite IH;
    reflexivity.
Qed.

Theorem preamble_no_top : forall ls, Forall not_top (preamble ls).
Proof.
  induction ls as [|l r IH]; [constructor|].
  unfold preamble in *. rewrite blocks_from_cons. destruct (is_top l) eqn:E; cbn [fst].
  - constructor.
  - constructor; assumption.
Qed.

(* every block is one top line followed by lines that are not top lines *)
Theorem block_one_top : forall ls,
  Forall (fun b => exists h r, b = h :: r /\ is_top h = true /\ Forall not_top r)
         (top_blocks ls).
Proof.
  induction ls as [|l r IH]; [constructor|].
  unfold top_blocks in *. rewrite blocks_from_cons. destruct (is_top l) eqn:E; cbn [snd].
  - constructor; [|exact IH]. exists l, (preamble r). split; [reflexivity|].
    split; [exact E | apply preamble_no_top].
  - exact IH.
Qed.

Corollary block_top_count : forall ls,
  Forall (fun b => length (filter is_top b) = 1) (top_blocks ls).
Proof.
  intros ls. eapply Forall_impl; [|apply block_one_top].
  intros b [h [r [Hb [Hh Hr]]]]. subst b. cbn [filter]. rewrite Hh. cbn [length]. f_equal.
  induction Hr as [|x r Hx Hr IH]; [reflexivity|].
  cbn [filter]. unfold not_top in Hx. rewrite Hx. exact IH.
Qed.

Lemma blocks_from_app_nontop : forall xs ys, Forall not_top xs ->
  blocks_from (xs ++ ys) = (xs ++ preamble ys, top_blocks ys).
Proof.
  intros xs ys H. induction H as [|x r Hx Hr IH].
  - unfold preamble, top_blocks. cbn [app]. destruct (blocks_from ys); reflexivity.
  - cbn [app]. rewrite blocks_from_cons. unfold not_top in Hx. rewrite Hx.
    unfold preamble, top_blocks. rewrite IH. reflexivity.
Qed.

(* ------------------------------------------------------------------ *)
(* R1: one block per top-level directive                                *)

Lemma ind_ok_not_top : forall d l, ind_ok (S d) l -> not_top l.
Proof.
  intros d l [H|H]; unfold not_top; rewrite is_top_char; [subst l; reflexivity|].
  unfold indent, spaces, indent_unit in H.
  replace (3 * S d) with (S (3 * d + 2)) in H by lia. cbn [repeat startswith] in H.
  destruct l as [|c r]; [discriminate|].
  apply andb_true_iff in H. destruct H as [H _].
  unfold is_space. apply N.eqb_eq in H. subst c. reflexivity.
Qed.

Lemma head_line_is_top : forall n a, is_top (dir_head_line 0 n a) = true.
Proof. intros n a. reflexivity. Qed.

Theorem render_entry_is_dir : forall e, exists n a o b, render_entry e = Dir n a o b.
Proof. intros e. destruct e; cbn [render_entry]; do 4 eexists; reflexivity. Qed.

Lemma block_head : forall hdrs n a o b, plain (Dir n a o b) = true ->
  block_lines hdrs (Dir n a o b)
  = dir_head_line 0 n a :: dir_rest_lines hdrs 0 o b ++ [[]].
Proof.
  intros hdrs n a o b Hp. unfold block_lines.
  destruct (dir_content_deeper hdrs 0 0 n a o b Hp) as [E _]. rewrite E. reflexivity.
Qed.

(* the top-level elements of a page: plain directives *)
Definition topdir_ok (e : elem) : bool :=
  match e with Dir _ _ _ _ => plain e | _ => false end.

Lemma blocks_of_dirs : forall hdrs es, forallb topdir_ok es = true ->
  blocks_from (concat (map (fun x => lines (elem_text hdrs 0 0 x)) es) ++ [[]])
  = ([[]], map (block_lines hdrs) es).
Proof.
  intros hdrs es. induction es as [|e r IH]; intros H; [reflexivity|].
  cbn [forallb] in H. apply andb_true_iff in H. destruct H as [He Hr].
  destruct e as [| | | |n a o b|]; try discriminate He. cbn [topdir_ok] in He.
  cbn [map concat]. rewrite block_head by exact He.
  destruct (dir_content_deeper hdrs 0 0 n a o b He) as [E D]. rewrite E in *.
  cbn [skipn] in D. rewrite <- app_assoc. cbn [app].
  rewrite blocks_from_cons. change (is_top []) with false. cbv iota.
  unfold preamble, top_blocks. rewrite blocks_from_cons, head_line_is_top.
  unfold preamble, top_blocks. rewrite blocks_from_app_nontop.
  - unfold preamble, top_blocks. rewrite (IH Hr). reflexivity.
  - eapply Forall_impl; [|exact D]. intros l Hl. exact (ind_ok_not_top _ _ Hl).
Qed.

Lemma entries_topdir_ok : forall ds, forallb entry_plain ds = true ->
  forallb topdir_ok (map render_entry ds) = true.
Proof.
  induction ds as [|e r IH]; intros H; [reflexivity|].
  cbn [forallb] in H. apply andb_true_iff in H. destruct H as [He Hr].
  cbn [map forallb]. rewrite (IH Hr), andb_true_r.
  unfold entry_plain in He. destruct (render_entry_is_dir e) as [n [a [o [b E]]]].
  rewrite E in *. exact He.
Qed.

(* MAIN R1: reading the page body gives exactly one block per entry, in order, the
   block of entry i being the lines of its directive *)
Theorem page_top_blocks : forall hdrs ds, forallb entry_plain ds = true ->
  preamble (body_lines hdrs ds) = [[]] /\
  top_blocks (body_lines hdrs ds) = map (fun e => block_lines hdrs (render_entry e)) ds.
Proof.
  intros hdrs ds H. unfold preamble, top_blocks, body_lines.
  rewrite lines_body_text, (blocks_of_dirs hdrs _ (entries_topdir_ok ds H)).
  cbn [fst snd]. rewrite map_map. split; reflexivity.
Qed.

(* the page: the lines of the title frame, then the body lines *)
Theorem page_lines : forall hdrs title modname docs,
  lines (render_page hdrs title modname docs)
  = lines (heading_text (nth 0 hdrs []) (fst (finalize title modname docs)))
    ++ body_lines hdrs (snd (finalize title modname docs)).
Proof.
  intros hdrs title modname docs. unfold render_page, body_lines.
  destruct (finalize title modname docs) as [t ds]. cbn [fst snd].
  rewrite doc_text_starts_with_frame. cbn [app]. apply lines_app_nl.
Qed.

Theorem page_after_frame : forall hdrs title modname docs,
  no_nl (nth 0 hdrs []) = true -> no_nl (fst (finalize title modname docs)) = true ->
  skipn 4 (lines (render_page hdrs title modname docs))
  = body_lines hdrs (snd (finalize title modname docs)).
Proof.
  intros hdrs title modname docs Hc Ht. rewrite page_lines.
  rewrite heading_lines_gen by assumption. reflexivity.
Qed.

(* ------------------------------------------------------------------ *)
(* R2: title, then the module directive, then the entries as siblings   *)

Theorem finalize_head_module : forall title modname docs,
  exists mname mdoc rest, snd (finalize title modname docs) = EModule mname mdoc :: rest.
Proof.
  intros title modname docs. unfold finalize.
  destruct docs as [|e r]; [do 3 eexists; reflexivity|].
  destruct e; try (do 3 eexists; reflexivity).
  destruct name; do 3 eexists; reflexivity.
Qed.

Lemma is_module_block_spec : forall hdrs e, entry_plain e = true ->
  is_module_block (block_lines hdrs (render_entry e)) = is_module e.
Proof.
  intros hdrs e H. unfold entry_plain in H.
  destruct e; cbn [render_entry] in *; rewrite block_head by exact H; reflexivity.
Qed.

Lemma no_module_blocks : forall hdrs ds, forallb entry_plain ds = true ->
  forallb (fun e => negb (is_module e)) ds = true ->
  filter is_module_block (map (fun e => block_lines hdrs (render_entry e)) ds) = [].
Proof.
  intros hdrs ds. induction ds as [|e r IH]; intros Hp Hm; [reflexivity|].
  cbn [forallb] in Hp, Hm. apply andb_true_iff in Hp. destruct Hp as [Hp1 Hp2].
  apply andb_true_iff in Hm. destruct Hm as [Hm1 Hm2].
  cbn [map filter]. rewrite (is_module_block_spec hdrs e Hp1).
  destruct (is_module e); [discriminate Hm1|]. exact (IH Hp2 Hm2).
Qed.

(* MAIN R2.  no_module_in_tail (the aggregator keeps at most the leading module entry)
   is assumed here; it is proved with the aggregator facts. *)
Theorem page_shape : forall hdrs title modname docs,
  let ds := snd (finalize title modname docs) in
  forallb entry_plain ds = true ->
  forallb (fun e => negb (is_module e)) (tl ds) = true ->
  exists mname mdoc rest,
    ds = EModule mname mdoc :: rest /\
    top_blocks (body_lines hdrs ds)
      = block_lines hdrs (render_entry (EModule mname mdoc))
        :: map (fun e => block_lines hdrs (render_entry e)) rest /\
    is_module_block (hd [] (top_blocks (body_lines hdrs ds))) = true /\
    length (filter is_module_block (top_blocks (body_lines hdrs ds))) = 1.
Proof.
  intros hdrs title modname docs ds Hp Hm.
  destruct (finalize_head_module title modname docs) as [mname [mdoc [rest E]]].
  fold ds in E. exists mname, mdoc, rest. split; [exact E|].
  destruct (page_top_blocks hdrs ds Hp) as [_ Hb]. rewrite Hb, E. cbn [map hd].
  rewrite E in Hp, Hm. cbn [forallb tl] in Hp, Hm.
  apply andb_true_iff in Hp. destruct Hp as [Hp1 Hp2].
  split; [reflexivity|]. split.
  - exact (is_module_block_spec hdrs (EModule mname mdoc) Hp1).
  - cbn [filter]. rewrite (is_module_block_spec hdrs (EModule mname mdoc) Hp1).
    cbn [is_module]. rewrite (no_module_blocks hdrs rest Hp2 Hm). reflexivity.
Qed.

(* ------------------------------------------------------------------ *)
(* R3: nested content is owned by the entry's block                     *)

(* block i is: the heading of entry i, then every line of entry i's options, doc text,
   notes, warnings, fields and members (all the lines of its directive after the
   heading), then one empty line; none of the nested lines can start another block.
   Together with blocks_partition (the blocks are consecutive pieces of the page, in
   order) each nested line lies in its entry's block and in no other. *)
Theorem nested_content_owned : forall hdrs ds i e, forallb entry_plain ds = true ->
  nth_error ds i = Some e ->
  exists heading,
    nth_error (top_blocks (body_lines hdrs ds)) i
      = Some (heading :: skipn 2 (lines (elem_text hdrs 0 0 (render_entry e))) ++ [[]]) /\
    nth 1 (lines (elem_text hdrs 0 0 (render_entry e))) [] = heading /\
    is_top heading = true /\
    Forall not_top (skipn 2 (lines (elem_text hdrs 0 0 (render_entry e))) ++ [[]]).
Proof.
  intros hdrs ds i e Hp Hi.
  destruct (page_top_blocks hdrs ds Hp) as [_ Hb]. rewrite Hb.
  rewrite nth_error_map, Hi. cbn [option_map].
  assert (He : entry_plain e = true).
  { rewrite forallb_forall in Hp. apply Hp. eapply nth_error_In; eauto. }
  unfold entry_plain in He. destruct (render_entry_is_dir e) as [n [a [o [b E]]]].
  rewrite E in *. destruct (dir_content_deeper hdrs 0 0 n a o b He) as [EL D].
  exists (dir_head_line 0 n a). rewrite block_head by exact He. rewrite EL in *.
  cbn [skipn nth] in *. split; [reflexivity|]. split; [reflexivity|].
  split; [reflexivity|]. apply Forall_app. split.
  - eapply Forall_impl; [|exact D]. intros l Hl. exact (ind_ok_not_top _ _ Hl).
  - constructor; [reflexivity | constructor].
Qed.

Theorem page_blocks_partition : forall hdrs ds, forallb entry_plain ds = true ->
  body_lines hdrs ds = [] :: concat (top_blocks (body_lines hdrs ds)).
Proof.
  intros hdrs ds Hp. destruct (page_top_blocks hdrs ds Hp) as [Hpre _].
  pose proof (blocks_partition (body_lines hdrs ds)) as P. rewrite Hpre in P.
  symmetry. exact P.
Qed.

(* ------------------------------------------------------------------ *)
(* non-vacuity and necessity of the side condition                       *)

Definition ex_method : method :=
  {| m_name := s"meth"; m_doc := s"method doc" ++ [nl] ++ s"  second line";
     m_parent := s"C"; m_types := [s"int"; s"args"]; m_params := [s"self"; s"n"];
     m_ctor := false; m_macro := true; m_docd := true |}.
Definition ex_attr : attribute :=
  {| a_name := s"attr"; a_doc := s"attribute doc"; a_parent := s"C";
     a_default := Some (s"7"); a_docd := true |}.

Definition ex_docs : list entry :=
  [ EModule (s"mod") (s"Module doc");
    EFunction true (s"f")
      (s"Doc line1" ++ [nl] ++ s"   own indent" ++ [nl] ++ [nl] ++ s".. note:: inside the doc")
      [s"a"; s"b"] true;
    EVariable (s"V") (s"var doc") VString (Some (s"x"));
    EClass (s"C") (s"class doc") [s"B"] [s"I1"; s"I2"] [ex_method] [ex_method] [ex_attr] ].

Example ex_docs_plain : forallb entry_plain ex_docs = true.
Proof. vm_compute. reflexivity. Qed.

Example ex_docs_finalize : snd (finalize (s"title") (s"m") ex_docs) = ex_docs.
Proof. reflexivity. Qed.

(* the reader finds four blocks with these heading lines *)
Example ex_docs_headings :
  map (hd []) (top_blocks (body_lines [s"#"] ex_docs))
  = [ s".. module:: mod"; s".. function:: f(a b **kwargs)"; s".. data:: V";
      s".. py:class:: C" ].
Proof. vm_compute. reflexivity. Qed.

(* the function block, read back from the page text: the note of the macro and every
   line of the doc text (including the directive-looking one) are inside it *)
Example ex_docs_function_block :
  nth 1 (top_blocks (skipn 4 (lines (render_page [s"#"] (s"title") (s"m") ex_docs)))) []
  = [ s".. function:: f(a b **kwargs)";
      [];
      [];
      s"   .. note:: This is a macro, and so does not introduce a new scope.";
      [];
      s"   Doc line1";
      s"      own indent";
      s"   ";
      s"   .. note:: inside the doc";
      [];
      [] ].
Proof. vm_compute. reflexivity. Qed.

(* three directives deep: class > method > note *)
Example ex_docs_class_block_deep :
  In (s"      .. note:: This member is a macro and so does not introduce a new scope")
     (nth 3 (top_blocks (body_lines [s"#"] ex_docs)) []).
Proof. vm_compute. tauto. Qed.

Example ex_docs_shape :
  top_blocks (body_lines [s"#"] ex_docs)
  = map (fun e => block_lines [s"#"] (render_entry e)) ex_docs.
Proof. apply (page_top_blocks [s"#"] ex_docs). apply ex_docs_plain. Qed.

(* COUNTEREXAMPLE to the unconditional statement: a set() entry whose default value contains
   a newline (a quoted CMake argument may) yields a field whose continuation line sits
   at column 0, i.e. OUTSIDE the entry's directive: the reader sees a third block. *)
Definition ex_bad_docs : list entry :=
  [ EModule (s"m") []; EVariable (s"V") (s"doc") VString (Some (s"a" ++ [nl] ++ s"b")) ].

Example page_top_blocks_refuted :
  top_blocks (body_lines [s"#"] ex_bad_docs)
  <> map (fun e => block_lines [s"#"] (render_entry e)) ex_bad_docs /\
  map (hd []) (top_blocks (body_lines [s"#"] ex_bad_docs))
  = [ s".. module:: m"; s".. data:: V"; s"b" ].
Proof. split; [vm_compute; discriminate | vm_compute; reflexivity]. Qed.

(* same for a newline in a name: the rest of the name becomes a top-level paragraph *)
Example name_newline_escapes :
  map (hd []) (top_blocks (body_lines [s"#"]
     [EModule (s"m") []; EFunction false (s"f") [] [s"a" ++ [nl] ++ s"b"] false]))
  = [ s".. module:: m"; s".. function:: f(a"; s"b)" ].
Proof. vm_compute. reflexivity. Qed.

(* ------------------------------------------------------------------ *)
(* R4: the recursive reader inverts the writer on plain elements        *)

Definition rd (d : nat) (ls : list str) : list skel := read (length ls) d ls.

Lemma span_app_id : forall (A : Type) (p : A -> bool) l,
  fst (span p l) ++ snd (span p l) = l.
Proof.
  intros A p l. induction l as [|x r IH]; [reflexivity|].
  cbn [span]. destruct (p x); [|reflexivity].
  destruct (span p r) as [a b]. cbn [fst snd app] in *. rewrite IH. reflexivity.
Qed.

Lemma span_len : forall (A : Type) (p : A -> bool) l,
  length (fst (span p l)) <= length l /\ length (snd (span p l)) <= length l.
Proof.
  intros A p l. pose proof (span_app_id A p l) as H.
  apply (f_equal (@length A)) in H. rewrite app_length in H. lia.
Qed.

Lemma span_app_all : forall (A : Type) (p : A -> bool) xs ys,
  Forall (fun x => p x = true) xs ->
  span p (xs ++ ys) = (xs ++ fst (span p ys), snd (span p ys)).
Proof.
  intros A p xs ys H. induction H as [|x r Hx Hr IH].
  - cbn [app]. destruct (span p ys); reflexivity.
  - cbn [app span]. rewrite Hx, IH. reflexivity.
Qed.

Lemma span_fst_stop : forall (A : Type) (p : A -> bool) x r, p x = false ->
  span p (x :: r) = ([], x :: r).
Proof. intros A p x r H. cbn [span]. rewrite H. reflexivity. Qed.

Lemma span_cons_true : forall (A : Type) (p : A -> bool) x r, p x = true ->
  span p (x :: r) = (x :: fst (span p r), snd (span p r)).
Proof. intros A p x r H. cbn [span]. rewrite H. destruct (span p r); reflexivity. Qed.

Lemma span_fst_prefix_forall : forall (A : Type) (p : A -> bool) (Q : A -> Prop) xs ys,
  Forall Q xs -> Forall Q (fst (span p ys)) -> Forall Q (fst (span p (xs ++ ys))).
Proof.
  intros A p Q xs ys H Hy. induction H as [|x r Hx Hr IH]; [exact Hy|].
  cbn [app span]. destruct (p x); [|constructor].
  destruct (span p (r ++ ys)) as [a b]. cbn [fst] in *. constructor; assumption.
Qed.

Lemma read_fuel : forall f1 f2 d ls, length ls <= f1 -> length ls <= f2 ->
  read f1 d ls = read f2 d ls.
Proof.
  intros f1. induction f1 as [|f1 IH]; intros f2 d ls H1 H2.
  - destruct ls; [|cbn [length] in H1; lia]. destruct f2; reflexivity.
  - destruct ls as [|l r]; [destruct f2; reflexivity|].
    cbn [length] in H1, H2. destruct f2 as [|f2]; [lia|]. cbn [read].
    pose proof (span_len _ (deeper d) r) as [L1 L2].
    destruct (is_heading d l).
    + f_equal; [f_equal|]; apply IH; lia.
    + apply IH; lia.
Qed.

Lemma rd_fuel : forall f d ls, length ls <= f -> read f d ls = rd d ls.
Proof. intros f d ls H. unfold rd. apply read_fuel; [exact H | lia]. Qed.

Lemma rd_nil : forall d, rd d [] = [].
Proof. reflexivity. Qed.

Lemma rd_cons_no : forall d l r, is_heading d l = false -> rd d (l :: r) = rd d r.
Proof. intros d l r H. unfold rd. cbn [length read]. rewrite H. reflexivity. Qed.

Lemma rd_cons_head : forall d l r, is_heading d l = true ->
  rd d (l :: r) = SDir (drop_while is_space l) (rd (S d) (fst (span (deeper d) r)))
                  :: rd d (snd (span (deeper d) r)).
Proof.
  intros d l r H. unfold rd at 1. cbn [length read]. rewrite H.
  pose proof (span_len _ (deeper d) r) as [L1 L2].
  rewrite !rd_fuel by lia. reflexivity.
Qed.

(* spaces *)
Lemma drop_while_spaces : forall k r,
  drop_while is_space (spaces k ++ r) = drop_while is_space r.
Proof.
  intros k r. induction k as [|k IH]; [reflexivity|].
  change (spaces (S k) ++ r) with (sp :: (spaces k ++ r)). cbn [drop_while].
  change (is_space sp) with true. cbv iota. exact IH.
Qed.

Lemma indent_of_spaces : forall k r, indent_of (spaces k ++ r) = k + indent_of r.
Proof.
  intros k r. unfold indent_of. induction k as [|k IH]; [reflexivity|].
  change (spaces (S k) ++ r) with (sp :: (spaces k ++ r)). cbn [take_while].
  change (is_space sp) with true. cbv iota. cbn [length]. rewrite IH. reflexivity.
Qed.

Lemma blank_spaces : forall k r, blank (spaces k ++ r) = blank r.
Proof.
  intros k r. unfold blank. induction k as [|k IH]; [reflexivity|].
  change (spaces (S k) ++ r) with (sp :: (spaces k ++ r)). cbn [forallb].
  change (is_space sp) with true. cbn [andb]. exact IH.
Qed.

Lemma startswith_split : forall p x, startswith p x = true -> exists r, x = p ++ r.
Proof.
  intros p. induction p as [|a p IH]; intros x H; [exists x; reflexivity|].
  destruct x as [|b x]; [discriminate H|]. cbn [startswith] in H.
  apply andb_true_iff in H. destruct H as [H1 H2]. apply N.eqb_eq in H1. subst b.
  destruct (IH x H2) as [r Hr]. exists r. cbn [app]. congruence.
Qed.

Lemma inert_indent : forall d l, inert (indent d ++ l) = inert l.
Proof. intros d l. unfold inert, indent. rewrite drop_while_spaces. reflexivity. Qed.

Lemma heading_not_inert : forall d l, is_heading d l = true -> inert l = false.
Proof.
  intros d l H. unfold is_heading in H. destruct (startswith_split _ _ H) as [r Hr].
  subst l. rewrite <- app_assoc, inert_indent. reflexivity.
Qed.

Lemma inert_not_heading : forall d l, inert l = true -> is_heading d l = false.
Proof.
  intros d l H. destruct (is_heading d l) eqn:E; [|reflexivity].
  apply heading_not_inert in E. congruence.
Qed.

Lemma rd_inert_prefix : forall d xs ys, Forall (fun l => inert l = true) xs ->
  rd d (xs ++ ys) = rd d ys.
Proof.
  intros d xs ys H. induction H as [|x r Hx Hr IH]; [reflexivity|].
  cbn [app]. rewrite rd_cons_no by (apply inert_not_heading; exact Hx). exact IH.
Qed.

Lemma rd_inert_all : forall d xs, Forall (fun l => inert l = true) xs -> rd d xs = [].
Proof.
  intros d xs H. rewrite <- (app_nil_r xs). rewrite rd_inert_prefix by exact H. reflexivity.
Qed.

Lemma ind_ok_deeper : forall d l, ind_ok (S d) l -> deeper d l = true.
Proof.
  intros d l [H|H]; [subst l; reflexivity|].
  destruct (startswith_split _ _ H) as [r Hr]. subst l. unfold deeper, indent.
  rewrite indent_of_spaces. apply orb_true_iff. right. apply Nat.leb_le.
  unfold indent_unit. lia.
Qed.

Lemma head_line_facts : forall d n a,
  is_heading d (dir_head_line d n a) = true /\
  deeper d (dir_head_line d n a) = false /\
  drop_while is_space (dir_head_line d n a) = s".. " ++ n ++ s":: " ++ join (s",") a.
Proof.
  intros d n a. unfold dir_head_line, is_heading. split; [|split].
  - rewrite (app_assoc (indent d)). apply startswith_app_self.
  - unfold deeper, indent. rewrite blank_spaces, indent_of_spaces.
    replace (blank (s".. " ++ n ++ s":: " ++ join (s",") a)) with false by reflexivity.
    replace (indent_of (s".. " ++ n ++ s":: " ++ join (s",") a)) with 0 by reflexivity.
    cbn [orb]. apply Nat.leb_gt. unfold indent_unit. lia.
  - unfold indent. rewrite drop_while_spaces. reflexivity.
Qed.

Definition all_inert (ls : list str) : Prop := Forall (fun l => inert l = true) ls.
(* what follows an element: the lines that a preceding directive heading at depth d
   would still swallow as content are inert *)
Definition tail_ok (d : nat) (more : list str) : Prop :=
  all_inert (fst (span (deeper d) more)).

Lemma tail_ok_inert : forall d more, all_inert more -> tail_ok d more.
Proof.
  intros d more H. unfold tail_ok, all_inert in *.
  pose proof (span_app_id _ (deeper d) more) as E. rewrite <- E in H.
  apply Forall_app in H. exact (proj1 H).
Qed.

Lemma dec_go_head : forall f n acc, exists c r,
  dec_go (S f) n acc = c :: r /\ (48 <= c <= 57)%N.
Proof.
  intros f. induction f as [|f IH]; intros n acc.
  - cbn [dec_go]. assert (D : (48 <= digit_char (n mod 10) <= 57)%N).
    { unfold digit_char. pose proof (Nat.mod_upper_bound n 10). lia. }
    destruct (n / 10 =? 0); eexists _, _; split; try reflexivity; exact D.
  - change (dec_go (S (S f)) n acc)
      with (let acc' := digit_char (n mod 10) :: acc in
            if n / 10 =? 0 then acc' else dec_go (S f) (n / 10) acc').
    cbv zeta. destruct (n / 10 =? 0).
    + eexists _, _. split; [reflexivity|]. unfold digit_char.
      pose proof (Nat.mod_upper_bound n 10). lia.
    + apply IH.
Qed.

Lemma inert_enum_line : forall d k x, inert (enum_line d k x) = true.
Proof.
  intros d k x. unfold enum_line. rewrite inert_indent. unfold dec_of_nat.
  destruct (dec_go_head k k []) as [c [r [E Hc]]]. rewrite E. cbn [app].
  unfold inert. cbn [drop_while]. unfold is_space.
  destruct (N.eqb_spec c 32) as [E1|E1]; [lia|].
  change (s".. ") with [46%N; 46%N; 32%N]. cbn [startswith].
  destruct (N.eqb_spec 46 c) as [E2|E2]; [lia | reflexivity].
Qed.

(* every line of a plain non-directive element is inert *)
Lemma nondir_inert : forall hdrs lvl d e, plain e = true -> rsafe e = true ->
  (forall n a o b, e <> Dir n a o b) ->
  all_inert (lines (elem_text hdrs lvl d e)).
Proof.
  intros hdrs lvl d e Hp Hs Hnd. unfold all_inert.
  destruct e as [t|n t|en items|l x|n a o b|t b]; try discriminate Hp.
  - cbn [elem_text]. rewrite para_lines. cbn [rsafe] in Hs. rewrite forallb_forall in Hs.
    apply Forall_forall. intros y Hy. apply in_map_iff in Hy. destruct Hy as [z [Hz Hin]].
    subst y. rewrite inert_indent. exact (Hs z Hin).
  - cbn [plain] in Hp. apply andb_true_iff in Hp. destruct Hp as [Hn Ht].
    cbn [elem_text]. rewrite field_lines by assumption.
    constructor; [reflexivity|]. constructor; [|constructor].
    unfold field_line. rewrite inert_indent. reflexivity.
  - cbn [plain] in Hp. cbn [elem_text]. destruct en.
    + rewrite enum_lines_exact by assumption. constructor; [reflexivity|].
      apply Forall_app. split; [|constructor; [reflexivity | constructor]].
      unfold enum_lines. apply Forall_forall. intros y Hy. apply in_map_iff in Hy.
      destruct Hy as [z [Hz _]]. subst y. apply inert_enum_line.
    + rewrite bullet_lines by assumption. constructor; [reflexivity|].
      apply Forall_app. split; [|constructor; [reflexivity | constructor]].
      apply Forall_forall. intros y Hy. apply in_map_iff in Hy.
      destruct Hy as [z [Hz _]]. subst y. unfold bullet_line. rewrite inert_indent.
      reflexivity.
  - exfalso. exact (Hnd _ _ _ _ eq_refl).
Qed.

Definition reads_back (hdrs : list str) (e : elem) : Prop :=
  plain e = true -> rsafe e = true ->
  forall lvl d more, tail_ok d more ->
    rd d (lines (elem_text hdrs lvl d e) ++ more) = skel_of e ++ rd d more /\
    tail_ok d (lines (elem_text hdrs lvl d e) ++ more).

Lemma reads_back_body : forall hdrs b, Forall (reads_back hdrs) b ->
  forallb plain b = true -> forallb rsafe b = true ->
  forall lvl d more, tail_ok d more ->
    rd d (concat (map (fun x => lines (elem_text hdrs lvl d x)) b) ++ more)
      = flat_map skel_of b ++ rd d more /\
    tail_ok d (concat (map (fun x => lines (elem_text hdrs lvl d x)) b) ++ more).
Proof.
  intros hdrs b H. induction H as [|x r Hx Hr IH]; intros Hp Hs lvl d more Hm.
  - cbn [map concat flat_map app]. split; [reflexivity | exact Hm].
  - cbn [forallb] in Hp, Hs. apply andb_true_iff in Hp. apply andb_true_iff in Hs.
    destruct Hp as [Hp1 Hp2]. destruct Hs as [Hs1 Hs2].
    destruct (IH Hp2 Hs2 lvl d more Hm) as [R1 T1].
    cbn [map concat flat_map]. rewrite <- !app_assoc.
    destruct (Hx Hp1 Hs1 lvl d _ T1) as [R2 T2]. split; [|exact T2].
    rewrite R2, R1. reflexivity.
Qed.

Lemma reads_back_all : forall hdrs e, reads_back hdrs e.
Proof.
  intros hdrs e.
  induction e as [t|n t|en items|l x|n a o b IH|t b IH] using elem_ind2;
    intros Hp Hs lvl d more Hm; try discriminate Hp.
  1-3: (split;
        [ rewrite rd_inert_prefix by (apply nondir_inert; [exact Hp | exact Hs | discriminate]);
          reflexivity
        | apply span_fst_prefix_forall;
          [apply nondir_inert; [exact Hp | exact Hs | discriminate] | exact Hm] ]).
  destruct (dir_content_deeper hdrs lvl d n a o b Hp) as [E D]. rewrite E.
  cbn [skipn] in D. rewrite E in D. cbn [skipn] in D.
  destruct (head_line_facts d n a) as [HH [HD HS]].
  cbn [plain] in Hp. apply andb_true_iff in Hp. destruct Hp as [Hp Hb].
  apply andb_true_iff in Hp. destruct Hp as [Hp Ho]. cbn [rsafe] in Hs.
  cbn [app]. split.
  - rewrite rd_cons_no by (apply inert_not_heading; reflexivity).
    rewrite rd_cons_head by exact HH.
    rewrite span_app_all
      by (eapply Forall_impl; [|exact D]; intros l0 Hl0; exact (ind_ok_deeper _ _ Hl0)).
    cbn [fst snd skel_of app]. rewrite HS. f_equal; [f_equal|].
    + unfold dir_rest_lines. rewrite <- !app_assoc.
      rewrite rd_inert_prefix.
      2:{ apply Forall_concat_map. intros x Hx. rewrite forallb_forall in Ho.
          rewrite (option_lines _ _ (Ho x Hx)). constructor; [|constructor].
          unfold field_line. rewrite inert_indent. reflexivity. }
      rewrite rd_inert_prefix by (destruct b; [constructor | constructor; [reflexivity|constructor]]).
      assert (Ht : tail_ok (S d) ([[]] ++ fst (span (deeper d) more))).
      { apply tail_ok_inert. constructor; [reflexivity | exact Hm]. }
      destruct (reads_back_body hdrs b IH Hb Hs 0 (S d) _ Ht) as [R _].
      refine (eq_trans R _).
      rewrite rd_inert_all by (constructor; [reflexivity | exact Hm]).
      apply app_nil_r.
    + rewrite <- (span_app_id _ (deeper d) more) at 2.
      rewrite rd_inert_prefix by exact Hm. reflexivity.
  - unfold tail_ok. rewrite span_cons_true by reflexivity.
    rewrite span_fst_stop by exact HD. cbn [fst]. constructor; [reflexivity | constructor].
Qed.

(* MAIN R4 *)
Theorem read_inverts_writer : forall hdrs lvl d e fuel,
  plain e = true -> rsafe e = true ->
  length (lines (elem_text hdrs lvl d e)) <= fuel ->
  read fuel d (lines (elem_text hdrs lvl d e)) = skel_of e.
Proof.
  intros hdrs lvl d e fuel Hp Hs Hf. rewrite rd_fuel by exact Hf.
  assert (Ht : tail_ok d []) by constructor.
  destruct (reads_back_all hdrs e Hp Hs lvl d [] Ht) as [R _].
  rewrite !app_nil_r in R. exact R.
Qed.

(* the whole page body: the skeletons of the entries, as siblings, in order *)
Theorem read_page_body : forall hdrs ds fuel,
  forallb entry_plain ds = true -> forallb (fun e => rsafe (render_entry e)) ds = true ->
  length (body_lines hdrs ds) <= fuel ->
  read fuel 0 (body_lines hdrs ds) = flat_map (fun e => skel_of (render_entry e)) ds.
Proof.
  intros hdrs ds fuel Hp Hs Hf. rewrite rd_fuel by exact Hf. unfold body_lines.
  rewrite lines_body_text.
  assert (Ht : tail_ok 0 [[]]) by (apply tail_ok_inert; constructor; [reflexivity|constructor]).
  assert (HF : Forall (reads_back hdrs) (map render_entry ds)).
  { apply Forall_forall. intros x _. apply reads_back_all. }
  assert (Hp' : forallb plain (map render_entry ds) = true).
  { rewrite forallb_forall in *. intros x Hx. apply in_map_iff in Hx.
    destruct Hx as [y [Hy Hin]]. subst x. exact (Hp y Hin). }
  assert (Hs' : forallb rsafe (map render_entry ds) = true).
  { rewrite forallb_forall in *. intros x Hx. apply in_map_iff in Hx.
    destruct Hx as [y [Hy Hin]]. subst x. exact (Hs y Hin). }
  destruct (reads_back_body hdrs _ HF Hp' Hs' 0 0 [[]] Ht) as [R _].
  rewrite R. rewrite rd_inert_all by (constructor; [reflexivity|constructor]).
  rewrite app_nil_r. rewrite flat_map_concat_map, map_map, <- flat_map_concat_map.
  reflexivity.
Qed.

Example ex_nested_read :
  plain ex_nested = true /\ rsafe ex_nested = true /\
  read 100 0 (lines (elem_text [s"#"] 0 0 ex_nested))
  = [SDir (s".. a:: x,y") [SDir (s".. b:: ") [SDir (s".. c:: z") []]]].
Proof. vm_compute. repeat split; reflexivity. Qed.

(* the side condition rsafe matters: a doc text containing its own directive is read as
   deeper structure (here the reader sees a note the writer API never created) *)
Example read_sees_doc_directives :
  read 100 0 (body_lines [s"#"] ex_docs) <>
  flat_map (fun e => skel_of (render_entry e)) ex_docs.
Proof. vm_compute. discriminate. Qed.

(* ------------------------------------------------------------------ *)
(* which entries are plain: a condition on the fields of the entry      *)

Lemma no_nl_signature : forall name ps, no_nl name = true -> forallb no_nl ps = true ->
  no_nl (signature name ps) = true.
Proof.
  intros name ps Hn Hp. unfold signature.
  rewrite !no_nl_app, Hn, (no_nl_join (s" ") ps eq_refl Hp). reflexivity.
Qed.

Lemma plain_method_fields : forall doc types params,
  forallb no_nl types = true -> forallb no_nl params = true ->
  forallb plain (method_fields doc types params) = true.
Proof.
  intros doc types. induction types as [|t ts IH]; intros params Ht Hp; [reflexivity|].
  destruct params as [|p ps]; [reflexivity|].
  cbn [forallb] in Ht, Hp. apply andb_true_iff in Ht. apply andb_true_iff in Hp.
  destruct Ht as [Ht1 Ht2]. destruct Hp as [Hp1 Hp2].
  cbn [method_fields]. rewrite !forallb_app, (IH ps Ht2 Hp2), andb_true_r.
  apply andb_true_iff. split.
  - destruct (contains _ doc); [reflexivity|]. cbn [forallb plain].
    rewrite no_nl_app, Hp1. reflexivity.
  - destruct (contains _ doc); [reflexivity|]. cbn [forallb plain].
    rewrite no_nl_app, Hp1, Ht1. reflexivity.
Qed.

Lemma plain_render_method : forall m, method_ok m = true -> plain (render_method m) = true.
Proof.
  intros m H. unfold method_ok in H. apply andb_true_iff in H. destruct H as [H Ht].
  apply andb_true_iff in H. destruct H as [Hn Hp].
  unfold render_method. cbn [plain forallb].
  rewrite !forallb_app, (plain_method_fields _ _ _ Ht Hp).
  rewrite !no_nl_app, Hn, (no_nl_join (s", ") _ eq_refl Hp).
  destruct (mem_str (s"args") (m_types m)); destruct (m_macro m); reflexivity.
Qed.

Lemma plain_render_attribute : forall a, attr_ok a = true -> plain (render_attribute a) = true.
Proof.
  intros a H. unfold attr_ok in H. apply andb_true_iff in H. destruct H as [Hn Hd].
  unfold render_attribute.
  destruct (a_default a) as [v|]; cbn [opt_no_nl] in Hd; cbn [plain forallb]; rewrite Hn;
    unfold opt_ok; cbn [fst snd]; [rewrite Hd|]; reflexivity.
Qed.

Lemma forallb_map_plain : forall (A : Type) (ok : A -> bool) (r : A -> elem) l,
  (forall x, ok x = true -> plain (r x) = true) -> forallb ok l = true ->
  forallb plain (map r l) = true.
Proof.
  intros A ok r l H Hl. rewrite forallb_forall in *. intros x Hx.
  apply in_map_iff in Hx. destruct Hx as [y [Hy Hin]]. subst x. apply H. exact (Hl y Hin).
Qed.

Theorem entry_fields_ok_plain : forall e, entry_fields_ok e = true -> entry_plain e = true.
Proof.
  intros e H. unfold entry_plain.
  destruct e as [mac name doc params kw|name doc ty value|name doc value help
                |name doc params|name doc params|sec name doc xf params mac
                |name doc supers inner ctors members attrs|name doc];
    cbn [entry_fields_ok] in H.
  - apply andb_true_iff in H. destruct H as [Hn Hp].
    assert (Hps : forallb no_nl (if kw then params ++ [kwargs_lit] else params) = true).
    { destruct kw; [|exact Hp]. rewrite forallb_app, Hp. reflexivity. }
    cbn [render_entry plain forallb]. rewrite (no_nl_signature _ _ Hn Hps).
    destruct mac; reflexivity.
  - apply andb_true_iff in H. destruct H as [Hn Hv].
    cbn [render_entry plain forallb]. rewrite Hn.
    destruct value as [v|]; cbn [opt_no_nl] in Hv; [rewrite Hv|]; destruct ty; reflexivity.
  - apply andb_true_iff in H. destruct H as [H Hh]. apply andb_true_iff in H.
    destruct H as [Hn Hv]. cbn [render_entry plain forallb]. rewrite Hn, Hh.
    destruct value as [v|]; cbn [opt_no_nl] in Hv; [rewrite Hv|]; reflexivity.
  - apply andb_true_iff in H. destruct H as [Hn Hp].
    cbn [render_entry plain forallb]. rewrite (no_nl_signature _ _ Hn Hp). reflexivity.
  - apply andb_true_iff in H. destruct H as [Hn Hp].
    cbn [render_entry plain forallb]. rewrite (no_nl_signature _ _ Hn Hp). reflexivity.
  - cbn [render_entry plain forallb]. rewrite !no_nl_app, H.
    destruct xf; destruct sec; reflexivity.
  - apply andb_true_iff in H. destruct H as [H Ha]. apply andb_true_iff in H.
    destruct H as [H Hm]. apply andb_true_iff in H. destruct H as [H Hc].
    apply andb_true_iff in H. destruct H as [Hn Hi].
    cbn [render_entry plain forallb]. rewrite Hn. rewrite !forallb_app.
    cbn [andb].
    assert (Xc : forallb plain (match ctors with
                                | [] => []
                                | _ :: _ => Para (s"**Additional Constructors**")
                                            :: map render_method ctors end) = true).
    { destruct ctors; [reflexivity|]. cbn [forallb plain andb].
      apply (forallb_map_plain _ method_ok); [apply plain_render_method | exact Hc]. }
    assert (Xm : forallb plain (match members with
                                | [] => []
                                | _ :: _ => Para (s"**Methods**") :: map render_method members
                                end) = true).
    { destruct members; [reflexivity|]. cbn [forallb plain andb].
      apply (forallb_map_plain _ method_ok); [apply plain_render_method | exact Hm]. }
    assert (Xa : forallb plain (match attrs with
                                | [] => []
                                | _ :: _ => Para (s"**Attributes**") :: map render_attribute attrs
                                end) = true).
    { destruct attrs; [reflexivity|]. cbn [forallb plain andb].
      apply (forallb_map_plain _ attr_ok); [apply plain_render_attribute | exact Ha]. }
    rewrite Xc, Xm, Xa.
    assert (Xi : forallb plain (match inner with
                                | [] => []
                                | _ :: _ => [Para (s"**Inner classes**");
                                             RList false (map (interpreted_text (s"class")) inner)]
                                end) = true).
    { destruct inner as [|i0 ir]; [reflexivity|]. cbn [forallb plain andb].
      rewrite andb_true_r. rewrite forallb_forall in *. intros x Hx.
      apply in_map_iff in Hx. destruct Hx as [y [Hy Hin]]. subst x. unfold interpreted_text.
      rewrite !no_nl_app, (Hi y Hin). reflexivity. }
    rewrite Xi. destruct supers; reflexivity.
  - cbn [render_entry plain forallb]. rewrite H. destruct doc; reflexivity.
Qed.

Example ex_docs_fields_ok : forallb entry_fields_ok ex_docs = true.
Proof. vm_compute. reflexivity. Qed.

(* non-vacuity of page_shape, nested_content_owned and read_page_body *)
Example ex_docs_page_shape :
  length (filter is_module_block (top_blocks (body_lines [s"#"] ex_docs))) = 1 /\
  is_module_block (hd [] (top_blocks (body_lines [s"#"] ex_docs))) = true.
Proof.
  destruct (page_shape [s"#"] (s"title") (s"m") ex_docs) as [mn [md [rest [E [_ [H1 H2]]]]]].
  - vm_compute. reflexivity.
  - vm_compute. reflexivity.
  - change (snd (finalize (s"title") (s"m") ex_docs)) with ex_docs in H1, H2.
    split; assumption.
Qed.

Example ex_docs_owned :
  exists heading,
    nth_error (top_blocks (body_lines [s"#"] ex_docs)) 3
      = Some (heading :: skipn 2 (lines (elem_text [s"#"] 0 0 (render_entry (nth 3 ex_docs (EModule [] []))))) ++ [[]])
    /\ heading = s".. py:class:: C".
Proof.
  destruct (nested_content_owned [s"#"] ex_docs 3 _ ex_docs_plain eq_refl) as [h [H1 [H2 _]]].
  exists h. split; [exact H1|]. rewrite <- H2. vm_compute. reflexivity.
Qed.

Definition ex_safe_docs : list entry :=
  [ EModule (s"mod") (s"Module doc");
    EFunction true (s"f") (s"Doc line1" ++ [nl] ++ s"   own indent") [s"a"] false;
    EClass (s"C") (s"class doc") [] [s"I"] [] [ex_method] [ex_attr] ].

Example ex_safe_docs_read :
  forallb entry_plain ex_safe_docs = true /\
  forallb (fun e => rsafe (render_entry e)) ex_safe_docs = true /\
  read (length (body_lines [s"#"] ex_safe_docs)) 0 (body_lines [s"#"] ex_safe_docs)
  = [ SDir (s".. module:: mod") [];
      SDir (s".. function:: f(a)")
        [SDir (s".. note:: This is a macro, and so does not introduce a new scope.") []];
      SDir (s".. py:class:: C")
        [SDir (s".. py:method:: meth(self, n[, ...])")
           [SDir (s".. note:: This member is a macro and so does not introduce a new scope") []];
         SDir (s".. py:attribute:: attr") []] ].
Proof. vm_compute. repeat split; reflexivity. Qed.

(* ==== MAIN THEOREMS ====
   R0/R3  blocks_partition preamble_no_top block_one_top block_top_count
   R1     render_entry_is_dir page_top_blocks page_lines page_after_frame
          entry_fields_ok_plain (a sufficient condition on the entry fields)
          (counterexamples without the side condition: page_top_blocks_refuted
           name_newline_escapes)
   R2     finalize_head_module page_shape
   R3     nested_content_owned page_blocks_partition
   R4     read_inverts_writer read_page_body
          (necessity of rsafe: read_sees_doc_directives)
*)
Print Assumptions blocks_partition.
Print Assumptions preamble_no_top.
Print Assumptions block_one_top.
Print Assumptions block_top_count.
Print Assumptions render_entry_is_dir.
Print Assumptions page_top_blocks.
Print Assumptions page_lines.
Print Assumptions page_after_frame.
Print Assumptions entry_fields_ok_plain.
Print Assumptions finalize_head_module.
Print Assumptions page_shape.
Print Assumptions nested_content_owned.
Print Assumptions page_blocks_partition.
Print Assumptions read_inverts_writer.
Print Assumptions read_page_body.
