(* Proofs/RstStructure.v -- property C07: block structure of a generated page.
   A small reader of the reST block skeleton (blocks start at non-blank column-0
   lines) is shown to invert the writer on pipeline pages: one block per top-level
   directive, in order; everything nested in an entry stays in that entry's block. *)
From Coq Require Import String List NArith Bool Arith Lia.
From CMinx Require Import Base.Str Model.Writer Model.DocTypes Model.Pipeline.
From CMinx Require Import Proofs.WriterFacts.
Import ListNotations.

(* ---- spec ---- *)

Definition is_space (c : char) : bool := (c =? 32)%N.
(* only spaces *)
Definition blank (l : str) : bool := forallb is_space l.
Definition indent_of (l : str) : nat := length (take_while is_space l).
(* a line that starts a new top-level block: non-blank, at column 0 *)
Definition is_top (l : str) : bool := negb (blank l) && (indent_of l =? 0).

(* (preamble, blocks): a new block starts at every top line *)
Fixpoint blocks_from (ls : list str) : list str * list (list str) :=
  match ls with
  | [] => ([], [])
  | l :: r => let '(pre, bs) := blocks_from r in
              if is_top l then ([], (l :: pre) :: bs) else (l :: pre, bs)
  end.
Definition preamble (ls : list str) : list str := fst (blocks_from ls).
Definition top_blocks (ls : list str) : list (list str) := snd (blocks_from ls).

(* the block a top-level element occupies: its lines without the leading empty line
   (which closes the previous block), plus the empty line its trailing newline opens *)
Definition block_lines (hdrs : list str) (e : elem) : list str :=
  tl (lines (elem_text hdrs 0 0 e)) ++ [[]].

Definition is_module (e : entry) : bool :=
  match e with EModule _ _ => true | _ => false end.
Definition entry_plain (e : entry) : bool := plain (render_entry e).
Definition is_module_block (b : list str) : bool := startswith (s".. module:: ") (hd [] b).
Definition not_top (l : str) : Prop := is_top l = false.

(* the lines of the page body, i.e. after the title frame *)
Definition body_lines (hdrs : list str) (ds : list entry) : list str :=
  lines (body_text hdrs 0 0 (map render_entry ds)).

(* ------------------------------------------------------------------ *)
(* R0/R3: the reader partitions its input                               *)

Lemma is_top_char : forall l,
  is_top l = match l with [] => false | c :: _ => negb (is_space c) end.
Proof.
  intros [|c r]; [reflexivity|].
  unfold is_top, blank, indent_of. cbn [forallb take_while].
  destruct (is_space c); cbn [negb andb length Nat.eqb]; [|reflexivity].
  apply andb_false_r.
Qed.

Lemma blocks_from_cons : forall l r,
  blocks_from (l :: r)
  = if is_top l then ([], (l :: preamble r) :: top_blocks r)
    else (l :: preamble r, top_blocks r).
Proof.
  intros l r. unfold preamble, top_blocks. cbn [blocks_from].
  destruct (blocks_from r) as [pre bs]. reflexivity.
Qed.

Theorem blocks_partition : forall ls, preamble ls ++ concat (top_blocks ls) = ls.
Proof.
  induction ls as [|l r IH]; [reflexivity|].
  unfold preamble, top_blocks in *. rewrite blocks_from_cons.
  unfold preamble, top_blocks. destruct (is_top l); cbn [fst snd concat app]; rewrite IH;
    reflexivity.
Qed.

Theorem preamble_no_top : forall ls, Forall not_top (preamble ls).
Proof.
  induction ls as [|l r IH]; [constructor|].
  unfold preamble in *. rewrite blocks_from_cons. destruct (is_top l) eqn:E; cbn [fst].
  - constructor.
  - constructor; assumption.
Qed.

(* every block is one top line followed by lines that are not top lines *)
Theorem block_one_top : forall ls,
  Forall (fun b => exists h r, b = h :: r /\ is_top h = true /\ Forall not_top r)
         (top_blocks ls).
Proof.
  induction ls as [|l r IH]; [constructor|].
  unfold top_blocks in *. rewrite blocks_from_cons. destruct (is_top l) eqn:E; cbn [snd].
  - constructor; [|exact IH]. exists l, (preamble r). split; [reflexivity|].
    split; [exact E | apply preamble_no_top].
  - exact IH.
Qed.

Corollary block_top_count : forall ls,
  Forall (fun b => length (filter is_top b) = 1) (top_blocks ls).
Proof.
  intros ls. eapply Forall_impl; [|apply block_one_top].
  intros b [h [r [Hb [Hh Hr]]]]. subst b. cbn [filter]. rewrite Hh. cbn [length]. f_equal.
  induction Hr as [|x r Hx Hr IH]; [reflexivity|].
  cbn [filter]. unfold not_top in Hx. rewrite Hx. exact IH.
Qed.

Lemma blocks_from_app_nontop : forall xs ys, Forall not_top xs ->
  blocks_from (xs ++ ys) = (xs ++ preamble ys, top_blocks ys).
Proof.
  intros xs ys H. induction H as [|x r Hx Hr IH].
  - unfold preamble, top_blocks. cbn [app]. destruct (blocks_from ys); reflexivity.
  - cbn [app]. rewrite blocks_from_cons. unfold not_top in Hx. rewrite Hx.
    unfold preamble, top_blocks. rewrite IH. reflexivity.
Qed.

(* ------------------------------------------------------------------ *)
(* R1: one block per top-level directive                                *)

Lemma ind_ok_not_top : forall d l, ind_ok (S d) l -> not_top l.
Proof.
  intros d l [H|H]; unfold not_top; rewrite is_top_char; [subst l; reflexivity|].
  unfold indent, spaces, indent_unit in H.
  replace (3 * S d) with (S (3 * d + 2)) in H by lia. cbn [repeat startswith] in H.
  destruct l as [|c r]; [discriminate|].
  apply andb_true_iff in H. destruct H as [H _].
  unfold is_space. apply N.eqb_eq in H. subst c. reflexivity.
Qed.

Lemma head_line_is_top : forall n a, is_top (dir_head_line 0 n a) = true.
Proof. intros n a. reflexivity. Qed.

Theorem render_entry_is_dir : forall e, exists n a o b, render_entry e = Dir n a o b.
Proof. intros e. destruct e; cbn [render_entry]; do 4 eexists; reflexivity. Qed.

Lemma block_head : forall hdrs n a o b, plain (Dir n a o b) = true ->
  block_lines hdrs (Dir n a o b)
  = dir_head_line 0 n a :: dir_rest_lines hdrs 0 o b ++ [[]].
Proof.
  intros hdrs n a o b Hp. unfold block_lines.
  destruct (dir_content_deeper hdrs 0 0 n a o b Hp) as [E _]. rewrite E. reflexivity.
Qed.

(* the top-level elements of a page: plain directives *)
Definition topdir_ok (e : elem) : bool :=
  match e with Dir _ _ _ _ => plain e | _ => false end.

Lemma blocks_of_dirs : forall hdrs es, forallb topdir_ok es = true ->
  blocks_from (concat (map (fun x => lines (elem_text hdrs 0 0 x)) es) ++ [[]])
  = ([[]], map (block_lines hdrs) es).
Proof.
  intros hdrs es. induction es as [|e r IH]; intros H; [reflexivity|].
  cbn [forallb] in H. apply andb_true_iff in H. destruct H as [He Hr].
  destruct e as [| | | |n a o b|]; try discriminate He. cbn [topdir_ok] in He.
  cbn [map concat]. rewrite block_head by exact He.
  destruct (dir_content_deeper hdrs 0 0 n a o b He) as [E D]. rewrite E in *.
  cbn [skipn] in D. rewrite <- app_assoc. cbn [app].
  rewrite blocks_from_cons. change (is_top []) with false. cbv iota.
  unfold preamble, top_blocks. rewrite blocks_from_cons, head_line_is_top.
  unfold preamble, top_blocks. rewrite blocks_from_app_nontop.
  - unfold preamble, top_blocks. rewrite (IH Hr). reflexivity.
  - eapply Forall_impl; [|exact D]. intros l Hl. exact (ind_ok_not_top _ _ Hl).
Qed.

Lemma entries_topdir_ok : forall ds, forallb entry_plain ds = true ->
  forallb topdir_ok (map render_entry ds) = true.
Proof.
  induction ds as [|e r IH]; intros H; [reflexivity|].
  cbn [forallb] in H. apply andb_true_iff in H. destruct H as [He Hr].
  cbn [map forallb]. rewrite (IH Hr), andb_true_r.
  unfold entry_plain in He. destruct (render_entry_is_dir e) as [n [a [o [b E]]]].
  rewrite E in *. exact He.
Qed.

(* MAIN R1: reading the page body gives exactly one block per entry, in order, the
   block of entry i being the lines of its directive *)
Theorem page_top_blocks : forall hdrs ds, forallb entry_plain ds = true ->
  preamble (body_lines hdrs ds) = [[]] /\
  top_blocks (body_lines hdrs ds) = map (fun e => block_lines hdrs (render_entry e)) ds.
Proof.
  intros hdrs ds H. unfold preamble, top_blocks, body_lines.
  rewrite lines_body_text, (blocks_of_dirs hdrs _ (entries_topdir_ok ds H)).
  cbn [fst snd]. rewrite map_map. split; reflexivity.
Qed.

(* the page: the lines of the title frame, then the body lines *)
Theorem page_lines : forall hdrs title modname docs,
  lines (render_page hdrs title modname docs)
  = lines (heading_text (nth 0 hdrs []) (fst (finalize title modname docs)))
    ++ body_lines hdrs (snd (finalize title modname docs)).
Proof.
  intros hdrs title modname docs. unfold render_page, body_lines.
  destruct (finalize title modname docs) as [t ds]. cbn [fst snd].
  rewrite doc_text_starts_with_frame. cbn [app]. apply lines_app_nl.
Qed.

Theorem page_after_frame : forall hdrs title modname docs,
  no_nl (nth 0 hdrs []) = true -> no_nl (fst (finalize title modname docs)) = true ->
  skipn 4 (lines (render_page hdrs title modname docs))
  = body_lines hdrs (snd (finalize title modname docs)).
Proof.
  intros hdrs title modname docs Hc Ht. rewrite page_lines.
  rewrite heading_lines_gen by assumption. reflexivity.
Qed.

(* ------------------------------------------------------------------ *)
(* R2: title, then the module directive, then the entries as siblings   *)

Theorem finalize_head_module : forall title modname docs,
  exists mname mdoc rest, snd (finalize title modname docs) = EModule mname mdoc :: rest.
Proof.
  intros title modname docs. unfold finalize.
  destruct docs as [|e r]; [do 3 eexists; reflexivity|].
  destruct e; try (do 3 eexists; reflexivity).
  destruct name; do 3 eexists; reflexivity.
Qed.

Lemma is_module_block_spec : forall hdrs e, entry_plain e = true ->
  is_module_block (block_lines hdrs (render_entry e)) = is_module e.
Proof.
  intros hdrs e H. unfold entry_plain in H.
  destruct e; cbn [render_entry] in *; rewrite block_head by exact H; reflexivity.
Qed.

Lemma no_module_blocks : forall hdrs ds, forallb entry_plain ds = true ->
  forallb (fun e => negb (is_module e)) ds = true ->
  filter is_module_block (map (fun e => block_lines hdrs (render_entry e)) ds) = [].
Proof.
  intros hdrs ds. induction ds as [|e r IH]; intros Hp Hm; [reflexivity|].
  cbn [forallb] in Hp, Hm. apply andb_true_iff in Hp. destruct Hp as [Hp1 Hp2].
  apply andb_true_iff in Hm. destruct Hm as [Hm1 Hm2].
  cbn [map filter]. rewrite (is_module_block_spec hdrs e Hp1).
  destruct (is_module e); [discriminate Hm1|]. exact (IH Hp2 Hm2).
Qed.

(* MAIN R2.  no_module_in_tail (the aggregator keeps at most the leading module entry)
   is a hypothesis here; it is proved with the aggregator facts. *)
Theorem page_shape : forall hdrs title modname docs,
  let ds := snd (finalize title modname docs) in
  forallb entry_plain ds = true ->
  forallb (fun e => negb (is_module e)) (tl ds) = true ->
  exists mname mdoc rest,
    ds = EModule mname mdoc :: rest /\
    top_blocks (body_lines hdrs ds)
      = block_lines hdrs (render_entry (EModule mname mdoc))
        :: map (fun e => block_lines hdrs (render_entry e)) rest /\
    is_module_block (hd [] (top_blocks (body_lines hdrs ds))) = true /\
    length (filter is_module_block (top_blocks (body_lines hdrs ds))) = 1.
Proof.
  intros hdrs title modname docs ds Hp Hm.
  destruct (finalize_head_module title modname docs) as [mname [mdoc [rest E]]].
  fold ds in E. exists mname, mdoc, rest. split; [exact E|].
  destruct (page_top_blocks hdrs ds Hp) as [_ Hb]. rewrite Hb, E. cbn [map hd].
  rewrite E in Hp, Hm. cbn [forallb tl] in Hp, Hm.
  apply andb_true_iff in Hp. destruct Hp as [Hp1 Hp2].
  split; [reflexivity|]. split.
  - exact (is_module_block_spec hdrs (EModule mname mdoc) Hp1).
  - cbn [filter]. rewrite (is_module_block_spec hdrs (EModule mname mdoc) Hp1).
    cbn [is_module]. rewrite (no_module_blocks hdrs rest Hp2 Hm). reflexivity.
Qed.

(* ------------------------------------------------------------------ *)
(* R3: nested content is owned by the entry's block                     *)

(* block i is: the heading of entry i, then every line of entry i's options, doc text,
   notes, warnings, fields and members (all the lines of its directive after the
   heading), then one empty line; none of the nested lines can start another block.
   Together with blocks_partition (the blocks are consecutive pieces of the page, in
   order) each nested line lies in its entry's block and in no other. *)
Theorem nested_content_owned : forall hdrs ds i e, forallb entry_plain ds = true ->
  nth_error ds i = Some e ->
  exists heading,
    nth_error (top_blocks (body_lines hdrs ds)) i
      = Some (heading :: skipn 2 (lines (elem_text hdrs 0 0 (render_entry e))) ++ [[]]) /\
    nth 1 (lines (elem_text hdrs 0 0 (render_entry e))) [] = heading /\
    is_top heading = true /\
    Forall not_top (skipn 2 (lines (elem_text hdrs 0 0 (render_entry e))) ++ [[]]).
Proof.
  intros hdrs ds i e Hp Hi.
  destruct (page_top_blocks hdrs ds Hp) as [_ Hb]. rewrite Hb.
  rewrite nth_error_map, Hi. cbn [option_map].
  assert (He : entry_plain e = true).
  { rewrite forallb_forall in Hp. apply Hp. eapply nth_error_In; eauto. }
  unfold entry_plain in He. destruct (render_entry_is_dir e) as [n [a [o [b E]]]].
  rewrite E in *. destruct (dir_content_deeper hdrs 0 0 n a o b He) as [EL D].
  exists (dir_head_line 0 n a). rewrite block_head by exact He. rewrite EL in *.
  cbn [skipn nth] in *. split; [reflexivity|]. split; [reflexivity|].
  split; [reflexivity|]. apply Forall_app. split.
  - eapply Forall_impl; [|exact D]. intros l Hl. exact (ind_ok_not_top _ _ Hl).
  - constructor; [reflexivity | constructor].
Qed.

Theorem page_blocks_partition : forall hdrs ds, forallb entry_plain ds = true ->
  body_lines hdrs ds = [] :: concat (top_blocks (body_lines hdrs ds)).
Proof.
  intros hdrs ds Hp. destruct (page_top_blocks hdrs ds Hp) as [Hpre _].
  pose proof (blocks_partition (body_lines hdrs ds)) as P. rewrite Hpre in P.
  symmetry. exact P.
Qed.

(* ------------------------------------------------------------------ *)
(* non-vacuity and necessity of the hypothesis                          *)

Definition ex_method : method :=
  {| m_name := s"meth"; m_doc := s"method doc" ++ [nl] ++ s"  second line";
     m_parent := s"C"; m_types := [s"int"; s"args"]; m_params := [s"self"; s"n"];
     m_ctor := false; m_macro := true; m_docd := true |}.
Definition ex_attr : attribute :=
  {| a_name := s"attr"; a_doc := s"attribute doc"; a_parent := s"C";
     a_default := Some (s"7"); a_docd := true |}.

Definition ex_docs : list entry :=
  [ EModule (s"mod") (s"Module doc");
    EFunction true (s"f")
      (s"Doc line1" ++ [nl] ++ s"   own indent" ++ [nl] ++ [nl] ++ s".. note:: inside the doc")
      [s"a"; s"b"] true;
    EVariable (s"V") (s"var doc") VString (Some (s"x"));
    EClass (s"C") (s"class doc") [s"B"] [s"I1"; s"I2"] [ex_method] [ex_method] [ex_attr] ].

Example ex_docs_plain : forallb entry_plain ex_docs = true.
Proof. vm_compute. reflexivity. Qed.

Example ex_docs_finalize : snd (finalize (s"title") (s"m") ex_docs) = ex_docs.
Proof. reflexivity. Qed.

(* the reader finds four blocks with these heading lines *)
Example ex_docs_headings :
  map (hd []) (top_blocks (body_lines [s"#"] ex_docs))
  = [ s".. module:: mod"; s".. function:: f(a b **kwargs)"; s".. data:: V";
      s".. py:class:: C" ].
Proof. vm_compute. reflexivity. Qed.

(* the function block, read back from the page text: the note of the macro and every
   line of the doc text (including the directive-looking one) are inside it *)
Example ex_docs_function_block :
  nth 1 (top_blocks (skipn 4 (lines (render_page [s"#"] (s"title") (s"m") ex_docs)))) []
  = [ s".. function:: f(a b **kwargs)";
      [];
      [];
      s"   .. note:: This is a macro, and so does not introduce a new scope.";
      [];
      s"   Doc line1";
      s"      own indent";
      s"   ";
      s"   .. note:: inside the doc";
      [];
      [] ].
Proof. vm_compute. reflexivity. Qed.

(* three directives deep: class > method > note *)
Example ex_docs_class_block_deep :
  In (s"      .. note:: This member is a macro and so does not introduce a new scope")
     (nth 3 (top_blocks (body_lines [s"#"] ex_docs)) []).
Proof. vm_compute. tauto. Qed.

Example ex_docs_shape :
  top_blocks (body_lines [s"#"] ex_docs)
  = map (fun e => block_lines [s"#"] (render_entry e)) ex_docs.
Proof. apply (page_top_blocks [s"#"] ex_docs). apply ex_docs_plain. Qed.

(* COUNTEREXAMPLE to the unconditional statement: a variable whose default value contains
   a newline (a quoted CMake argument may) yields a field whose continuation line sits
   at column 0, i.e. OUTSIDE the entry's directive: the reader sees a third block. *)
Definition ex_bad_docs : list entry :=
  [ EModule (s"m") []; EVariable (s"V") (s"doc") VString (Some (s"a" ++ [nl] ++ s"b")) ].

Example page_top_blocks_refuted :
  top_blocks (body_lines [s"#"] ex_bad_docs)
  <> map (fun e => block_lines [s"#"] (render_entry e)) ex_bad_docs /\
  map (hd []) (top_blocks (body_lines [s"#"] ex_bad_docs))
  = [ s".. module:: m"; s".. data:: V"; s"b" ].
Proof. split; [vm_compute; discriminate | vm_compute; reflexivity]. Qed.

(* same for a newline in a name: the rest of the name becomes a top-level paragraph *)
Example name_newline_escapes :
  map (hd []) (top_blocks (body_lines [s"#"]
     [EModule (s"m") []; EFunction false (s"f") [] [s"a" ++ [nl] ++ s"b"] false]))
  = [ s".. module:: m"; s".. function:: f(a"; s"b)" ].
Proof. vm_compute. reflexivity. Qed.
