(* Proofs/AggFlags.v -- lemmas; see DESIGN.md section 7 *)
