(* Proofs/AggFlags.v -- property C08: the include_undocumented_* options only decide whether
   commands WITHOUT a doccomment yield entries.  Theorems about Model/Aggregator.v. *)
From Coq Require Import String List NArith Bool Arith Lia.
From CMinx Require Import Base.Str Model.Lexer Model.Parser Model.Writer Model.DocTypes
     Model.Aggregator Spec.AggSpec Proofs.AggClass.
Import ListNotations.

(* ---- spec ---- *)

(* the one option a command kind consults (None: no option is consulted) *)
Definition flag_of_handler (h : handler) : option (flags -> bool) :=
  match h with
  | HFunction => Some inc_function
  | HMacro => Some inc_macro
  | HClass => Some inc_cpp_class
  | HAttr => Some inc_cpp_attr
  | HCtor => Some inc_cpp_constructor
  | HMember => Some inc_cpp_member
  | HTest => Some inc_ct_add_test
  | HSection => Some inc_ct_add_section
  | HAddTest => Some inc_add_test
  | HOption => Some inc_option
  | HCpa | HSet => None
  end.

Definition flag_of_kind (k : str) : option (flags -> bool) :=
  match lookup k handler_table with
  | Some h => flag_of_handler h
  | None => None
  end.

Definition agree_on (k : str) (fl1 fl2 : flags) : Prop :=
  match flag_of_kind k with
  | Some f => f fl1 = f fl2
  | None => True
  end.

(* a function/macro command that is taken as the implementation of a pending test or
   member declaration *)
Definition claimed (k : str) (st : agg) : bool :=
  is_def_name k && match awaiting st with AwNone => false | _ => true end.

(* what a hidden command (option off, no doccomment) still does to the state *)
Definition hidden_effect (k : str) (st : agg) : agg :=
  if is_def_name k then with_def_stack (None :: def_stack st) st
  else if str_eqb k (s"cpp_class") then with_class_stack (None :: class_stack st) st
  else st.

Example flag_of_kind_examples :
  flag_of_kind (s"cpp_attr") = Some inc_cpp_attr
  /\ flag_of_kind (s"function") = Some inc_function
  /\ flag_of_kind (s"ct_add_section") = Some inc_ct_add_section
  /\ flag_of_kind (s"set") = None
  /\ flag_of_kind (s"message") = None.
Proof. vm_compute. repeat split. Qed.

(* ---- helpers ---- *)

Lemma include_flag_via : forall fl h,
    include_flag fl h = option_map (fun f => f fl) (flag_of_handler h).
Proof. intros fl h; destruct h; reflexivity. Qed.

Lemma flag_of_handler_default : forall h f, flag_of_handler h = Some f -> f default_flags = true.
Proof. intros h f H; destruct h; inversion H; reflexivity. Qed.

Section WithParams.
  Variable trigger : str.
  Variables strip_fn strip_mac strip_mem : str -> str.

  Notation step fl := (agg_step fl trigger strip_fn strip_mac strip_mem).
  Notation run fl := (agg_run fl trigger strip_fn strip_mac strip_mem).
  Notation entercmd fl := (enter_command fl trigger strip_fn strip_mac strip_mem).
  Notation enterdoc := (enter_documented trigger strip_fn strip_mac).
  Notation runh := (run_handler trigger strip_fn strip_mac).

  (* ---- G4 first: the flags are consulted only through the one option of the kind ----- *)

  Lemma enter_command_agree : forall fl1 fl2 consumed c st,
      agree_on (cmd_kind c) fl1 fl2 ->
      entercmd fl1 consumed c st = entercmd fl2 consumed c st.
  Proof.
    intros fl1 fl2 consumed c st H. unfold agree_on, flag_of_kind in H.
    assert (A : str_eqb (cmd_kind c) (s"cpp_class") && negb (inc_cpp_class fl1)
                = str_eqb (cmd_kind c) (s"cpp_class") && negb (inc_cpp_class fl2)).
    { destruct (str_eqb (cmd_kind c) (s"cpp_class")) eqn:E; [|reflexivity].
      apply str_eqb_eq in E. rewrite E in H.
      change (lookup (s"cpp_class") handler_table) with (Some HClass) in H.
      cbn [flag_of_handler] in H. rewrite H. reflexivity. }
    assert (B : forall h, lookup (cmd_kind c) handler_table = Some h ->
                          include_flag fl1 h = include_flag fl2 h).
    { intros h L. rewrite L in H. rewrite !include_flag_via.
      destruct (flag_of_handler h) as [f|]; cbn [option_map]; [rewrite H|]; reflexivity. }
    unfold enter_command. cbv zeta. fold (cmd_kind c). rewrite A.
    destruct (lookup (cmd_kind c) handler_table) as [h|] eqn:L; [|reflexivity].
    first [rewrite (B h eq_refl)|rewrite (B h L)]. reflexivity.
  Qed.

  Theorem flags_only_via_include_flag : forall fl1 fl2 st e,
      (forall k, elem_kind e = Some k -> agree_on k fl1 fl2) ->
      step fl1 st e = step fl2 st e.
  Proof.
    intros fl1 fl2 st e H. destruct e as [d c|c|d]; cbn [agg_step].
    - destruct (enterdoc d c st) as [st1|]; [|reflexivity].
      apply enter_command_agree. apply H. reflexivity.
    - apply enter_command_agree. apply H. reflexivity.
    - reflexivity.
  Qed.

  (* a whole run depends only on the options of the kinds that occur *)
  Corollary run_flags_agree : forall fl1 fl2 es st,
      (forall e k, In e es -> elem_kind e = Some k -> agree_on k fl1 fl2) ->
      run fl1 st es = run fl2 st es.
  Proof.
    intros fl1 fl2 es. induction es as [|e r IH]; intros st H; cbn [agg_run]; [reflexivity|].
    rewrite (flags_only_via_include_flag fl1 fl2 st e)
      by (intros k Hk; apply (H e k); [left; reflexivity|exact Hk]).
    destruct (step fl2 st e) as [st1|]; [|reflexivity].
    apply IH. intros e' k Hin Hk. apply (H e' k); [right; exact Hin|exact Hk].
  Qed.

  (* ---- G1: doccomment-carrying commands ---------------------------------------------- *)

  (* enter_documented has no flags argument at all (its type, after the model's Section is
     closed, is  str -> (str -> str) -> (str -> str) -> str -> cmd -> agg -> result agg):
     the entry of a doccomment-carrying command is created without consulting any option.
     What remains of the step is enter_command with consumed = true. *)
  Lemma enter_documented_flag_free : forall fl d c st,
      step fl st (EDocCmd d c)
      = match enter_documented trigger strip_fn strip_mac d c st with
        | Ok st1 => entercmd fl true c st1
        | Crash => Crash
        end.
  Proof. reflexivity. Qed.

  (* with consumed = true the only option ever read is the class one, for cpp_class *)
  Lemma enter_command_consumed_flag_free : forall fl1 fl2 c st,
      cmd_kind c <> s"cpp_class" \/ inc_cpp_class fl1 = inc_cpp_class fl2 ->
      entercmd fl1 true c st = entercmd fl2 true c st.
  Proof.
    intros fl1 fl2 c st H. unfold enter_command. cbv zeta. fold (cmd_kind c).
    assert (A : str_eqb (cmd_kind c) (s"cpp_class") && negb (inc_cpp_class fl1)
                = str_eqb (cmd_kind c) (s"cpp_class") && negb (inc_cpp_class fl2)).
    { destruct H as [H|H]; [apply str_eqb_neq in H; rewrite H; reflexivity|rewrite H; reflexivity]. }
    rewrite A. cbn [negb]. rewrite andb_false_r. reflexivity.
  Qed.

  Theorem documented_step_flag_independent : forall fl st d c,
      cmd_kind c <> s"cpp_class" ->
      step fl st (EDocCmd d c) = step default_flags st (EDocCmd d c).
  Proof.
    intros fl st d c Hk. rewrite !enter_documented_flag_free.
    destruct (enterdoc d c st) as [st1|]; [|reflexivity].
    apply enter_command_consumed_flag_free. left. exact Hk.
  Qed.

  Theorem documented_class_step_flag_on : forall fl st d c,
      inc_cpp_class fl = true ->
      step fl st (EDocCmd d c) = step default_flags st (EDocCmd d c).
  Proof.
    intros fl st d c Hfl. rewrite !enter_documented_flag_free.
    destruct (enterdoc d c st) as [st1|]; [|reflexivity].
    apply enter_command_consumed_flag_free. right. rewrite Hfl. reflexivity.
  Qed.

  (* finding F9: with the class option off, a doccomment-carrying cpp_class yields the same
     entry as under default settings but pushes one extra None frame on the class stack *)
  Theorem F9_documented_class_pushes_none : forall fl st d c st1,
      cmd_kind c = s"cpp_class" ->
      inc_cpp_class fl = false ->
      step default_flags st (EDocCmd d c) = Ok st1 ->
      step fl st (EDocCmd d c) = Ok (with_class_stack (None :: class_stack st1) st1).
  Proof.
    intros fl st d c st1 Hk Hfl Hdef.
    pose proof (step_class trigger strip_fn strip_mac strip_mem default_flags (Some d) c st Hk eq_refl)
      as Hd.
    cbn [elem_of doc_of docd_of] in Hd. rewrite Hd in Hdef. inversion Hdef; subst st1; clear Hdef.
    apply step_class_doc_flag_off; assumption.
  Qed.

  (* ---- G2: option off, no doccomment: no entry ---------------------------------------- *)

  Theorem undocumented_flag_off_no_entry : forall fl c st h,
      lookup (cmd_kind c) handler_table = Some h ->
      include_flag fl h = Some false ->
      claimed (cmd_kind c) st = false ->
      step fl st (ECmd c) = Ok (hidden_effect (cmd_kind c) st).
  Proof.
    intros fl c st h L Hf Hcl. apply lookup_handler_kind in L.
    unfold claimed in Hcl. unfold hidden_effect.
    cbn [agg_step]. unfold enter_command. cbv zeta. fold (cmd_kind c).
    rewrite L in *.
    destruct h; cbn [kind_name] in *; cbn [include_flag] in Hf; try discriminate Hf;
      injection Hf as Hf'; revert Hcl; eval_closed; eval_lookup;
      cbn [andb orb negb include_flag]; intro Hcl; rewrite ?Hcl, ?Hf'; reflexivity.
  Qed.

  Corollary undocumented_flag_off_entries_unchanged : forall fl c st st' h,
      lookup (cmd_kind c) handler_table = Some h ->
      include_flag fl h = Some false ->
      claimed (cmd_kind c) st = false ->
      step fl st (ECmd c) = Ok st' ->
      documented st' = documented st /\ origins st' = origins st /\ awaiting st' = awaiting st
      /\ (st' = st
          \/ st' = with_def_stack (None :: def_stack st) st
          \/ st' = with_class_stack (None :: class_stack st) st).
  Proof.
    intros fl c st st' h L Hf Hcl Hstep.
    rewrite (undocumented_flag_off_no_entry fl c st h L Hf Hcl) in Hstep.
    inversion Hstep; subst st'; clear Hstep. unfold hidden_effect.
    destruct (is_def_name (cmd_kind c)); [repeat split; auto|].
    destruct (str_eqb (cmd_kind c) (s"cpp_class")); repeat split; auto.
  Qed.

  (* a claimed definition is processed without consulting any option, and adds no entry *)
  Theorem claimed_definition_flag_free : forall fl consumed c st,
      claimed (cmd_kind c) st = true ->
      entercmd fl consumed c st = entercmd default_flags consumed c st
      /\ forall st', entercmd fl consumed c st = Ok st' ->
                     length (documented st') = length (documented st)
                     /\ origins st' = origins st.
  Proof.
    intros fl consumed c st Hcl. unfold claimed in Hcl.
    assert (Hd : is_def_name (cmd_kind c) = true).
    { apply andb_true_iff in Hcl. destruct Hcl as [Hcl _]. exact Hcl. }
    assert (E : forall fl0, entercmd fl0 consumed c st
                = let st2 := with_awaiting AwNone
                               (with_docs (upd_awaiting_entry (awaiting st)
                                             (str_eqb (cmd_kind c) (s"macro"))
                                             (skipn 2 (match awaiting st with
                                                       | AwMethod _ _ => map strip_mem (singles c)
                                                       | _ => singles c
                                                       end))) st) in
                  if consumed then Ok st2 else Ok (with_def_stack (None :: def_stack st2) st2)).
    { intros fl0. unfold enter_command. cbv zeta. fold (cmd_kind c). rewrite Hcl.
      rewrite skipn2_guard.
      unfold is_def_name in Hd. apply orb_true_iff in Hd.
      destruct Hd as [Hd|Hd]; apply str_eqb_eq in Hd; rewrite Hd; eval_closed;
        cbn [andb orb negb]; reflexivity. }
    split; [rewrite !E; reflexivity|].
    intros st' H. rewrite E in H. cbv zeta in H.
    assert (L : forall a mac extra,
               length (upd_awaiting_entry a mac extra (documented st)) = length (documented st)).
    { intros a mac extra. destruct a; cbn [upd_awaiting_entry]; rewrite ?length_update_nth; reflexivity. }
    destruct consumed; inversion H; subst st';
      cbn [documented origins with_docs with_awaiting with_def_stack]; rewrite L; split; reflexivity.
  Qed.

  (* ---- G3: option on: as under default settings ---------------------------------------- *)

  Theorem undocumented_flag_on_as_default : forall fl c st h,
      lookup (cmd_kind c) handler_table = Some h ->
      include_flag fl h = Some true ->
      step fl st (ECmd c) = step default_flags st (ECmd c).
  Proof.
    intros fl c st h L Hf. apply flags_only_via_include_flag.
    intros k Hk. inversion Hk; subst k; clear Hk.
    unfold agree_on, flag_of_kind. rewrite L.
    rewrite include_flag_via in Hf.
    destruct (flag_of_handler h) as [f|] eqn:Ef; [|exact I].
    cbn [option_map] in Hf. injection Hf as Hf'.
    rewrite (flag_of_handler_default h f Ef). exact Hf'.
  Qed.

  (* kinds that consult no option at all behave the same under every setting *)
  Corollary no_flag_kind_step : forall fl1 fl2 st e,
      (forall k, elem_kind e = Some k -> flag_of_kind k = None) ->
      step fl1 st e = step fl2 st e.
  Proof.
    intros fl1 fl2 st e H. apply flags_only_via_include_flag.
    intros k Hk. unfold agree_on. rewrite (H k Hk). exact I.
  Qed.

End WithParams.

(* ======================================================================================== *)
(* G5: the entries stemming from doccomments are the same under every setting              *)
(* ======================================================================================== *)

(* ---- spec ---- *)

(* the entries that stem from a doccomment (origins is the ghost list parallel to documented) *)
Definition from_doc (st : agg) : list entry :=
  map fst (filter snd (combine (documented st) (origins st))).

(* what of an entry stems from its own doccomment-carrying commands: members and attributes
   declared without a doccomment and the inner-class name list come from other commands *)
Definition doc_view (e : entry) : entry :=
  match e with
  | EClass n d su inner ct me at_ =>
      EClass n d su [] (filter m_docd ct) (filter m_docd me) (filter a_docd at_)
  | _ => e
  end.

Definition is_doc_class_elem (e : element) : bool :=
  match e with EDocCmd _ c => kind_is c (s"cpp_class") | _ => false end.
Definition is_unnamed_class_elem (e : element) : bool :=
  match e with
  | ECmd c => kind_is c (s"cpp_class") && match singles c with [] => true | _ :: _ => false end
  | _ => false
  end.

(* F9 cannot strike: the class option is on, or no cpp_class carries a doccomment (and then,
   so that both settings push the same number of frames, every cpp_class has a name) *)
Definition no_F9 (fl : flags) (es : list element) : bool :=
  inc_cpp_class fl
  || (negb (existsb is_doc_class_elem es) && negb (existsb is_unnamed_class_elem es)).

Definition is_decl_kind (k : str) : bool :=
  str_eqb k (s"ct_add_test") || str_eqb k (s"ct_add_section")
  || str_eqb k (s"cpp_member") || str_eqb k (s"cpp_constructor").
Definition elem_is_decl (e : element) : bool :=
  match elem_kind e with Some k => is_decl_kind k | None => false end.
Definition elem_is_def (e : element) : bool :=
  match elem_kind e with Some k => is_def_name k | None => false end.

(* every test / member declaration is immediately followed by the function or macro that
   implements it (so no declaration is ever pending when another one arrives) *)
Fixpoint decls_followed (es : list element) : bool :=
  match es with
  | [] => true
  | e :: r =>
      (if elem_is_decl e then match r with e2 :: _ => elem_is_def e2 | [] => true end else true)
      && decls_followed r
  end.

(* ---- the documented-only abstraction of a state ---------------------------------------- *)

Fixpoint sel {A} (l : list A) (os : list bool) : list A :=
  match l, os with
  | x :: l', b :: os' => if b then x :: sel l' os' else sel l' os'
  | _, _ => []
  end.

Definition count (os : list bool) : nat := length (filter (fun b => b) os).
Definition rank (os : list bool) (i : nat) : nat := count (firstn i os).
Definition orig (os : list bool) (i : nat) : bool := nth i os false.

Definition map_idx (os : list bool) (o : option nat) : option nat :=
  match o with
  | Some i => if orig os i then Some (rank os i) else None
  | None => None
  end.

(* the newest method of the awaited class is one that doc_view keeps *)
Definition last_ok (b : bool) (e : entry) : bool :=
  match e with
  | EClass _ _ _ _ ct me _ =>
      match last_opt (if b then ct else me) with Some m => m_docd m | None => true end
  | _ => true
  end.

Definition dummy_entry : entry := EModule [] [].

Definition abs_aw (st : agg) : await :=
  match awaiting st with
  | AwNone => AwNone
  | AwTop i => if orig (origins st) i then AwTop (rank (origins st) i) else AwNone
  | AwMethod i b =>
      if orig (origins st) i && last_ok b (nth i (documented st) dummy_entry)
      then AwMethod (rank (origins st) i) b else AwNone
  end.

Definition absn (st : agg) : agg :=
  {| documented := map doc_view (sel (documented st) (origins st));
     origins := map (fun _ => true) (sel (documented st) (origins st));
     class_stack := map (map_idx (origins st)) (class_stack st);
     def_stack := map (map_idx (origins st)) (def_stack st);
     awaiting := abs_aw st |}.

Definition norm (a : agg) : agg := with_docs (map doc_view) a.

Definition flags_off : flags :=
  {| inc_function := false; inc_macro := false; inc_cpp_class := false; inc_cpp_attr := false;
     inc_cpp_constructor := false; inc_cpp_member := false; inc_ct_add_test := false;
     inc_ct_add_section := false; inc_add_test := false; inc_option := false |}.

(* ---- list lemmas ------------------------------------------------------------------------ *)

Lemma from_doc_sel : forall st, from_doc st = sel (documented st) (origins st).
Proof.
  intros st. unfold from_doc. generalize (origins st) as os. generalize (documented st) as l.
  induction l as [|x l IH]; intros [|b os]; try reflexivity.
  cbn [combine filter snd sel]. destruct b; cbn [map fst]; rewrite IH; reflexivity.
Qed.

Lemma sel_app : forall A (l l2 : list A) os os2,
    length l = length os -> sel (l ++ l2) (os ++ os2) = sel l os ++ sel l2 os2.
Proof.
  intros A l. induction l as [|x l IH]; intros l2 [|b os] os2 H; cbn in H; try discriminate.
  - reflexivity.
  - cbn [app sel]. destruct b; rewrite IH by lia; reflexivity.
Qed.

Lemma sel_length : forall A (l : list A) os, length l = length os -> length (sel l os) = count os.
Proof.
  intros A l. induction l as [|x l IH]; intros [|b os] H; cbn in H; try discriminate; [reflexivity|].
  unfold count. cbn [sel filter]. destruct b; cbn [length]; fold (count os); rewrite IH by lia;
    reflexivity.
Qed.

Lemma rank_app : forall os x i, i <= length os -> rank (os ++ x) i = rank os i.
Proof.
  intros os x i H. unfold rank. rewrite firstn_app.
  replace (i - length os) with 0 by lia. cbn [firstn]. rewrite app_nil_r. reflexivity.
Qed.

Lemma rank_all : forall os, rank os (length os) = count os.
Proof. intros os. unfold rank. rewrite firstn_all. reflexivity. Qed.

Lemma orig_app : forall os x i, i < length os -> orig (os ++ x) i = orig os i.
Proof. intros os x i H. unfold orig. apply app_nth1. exact H. Qed.

Lemma orig_app_new : forall os b, orig (os ++ [b]) (length os) = b.
Proof.
  intros os b. unfold orig. rewrite app_nth2 by lia. rewrite Nat.sub_diag. reflexivity.
Qed.

Lemma orig_lt : forall os i, orig os i = true -> i < length os.
Proof.
  intros os i H. unfold orig in H. destruct (Nat.lt_ge_cases i (length os)) as [L|L]; [exact L|].
  rewrite nth_overflow in H by exact L. discriminate.
Qed.

Definition idx_lt (n : nat) (o : option nat) : bool :=
  match o with Some i => Nat.ltb i n | None => true end.

Lemma map_idx_app : forall os x n o,
    idx_lt n o = true -> n <= length os -> map_idx (os ++ x) o = map_idx os o.
Proof.
  intros os x n [i|] H Hn; [|reflexivity]. cbn [idx_lt] in H. apply Nat.ltb_lt in H.
  cbn [map_idx]. rewrite orig_app by lia. rewrite rank_app by lia. reflexivity.
Qed.

Lemma sel_update_nth : forall A (f : A -> A) (l : list A) os i,
    length l = length os ->
    sel (update_nth i f l) os
    = if orig os i then update_nth (rank os i) f (sel l os) else sel l os.
Proof.
  intros A f l. induction l as [|x l IH]; intros [|b os] i H; cbn in H; try discriminate.
  - unfold orig. destruct i; reflexivity.
  - destruct i as [|i].
    + unfold orig, rank, count. cbn [update_nth sel nth firstn filter length]. destruct b; reflexivity.
    + cbn [update_nth sel]. unfold orig, rank. cbn [nth firstn].
      fold (orig os i). unfold count. cbn [filter].
      rewrite IH by lia. destruct b.
      * cbn [length]. fold (count (firstn i os)). fold (rank os i).
        destruct (orig os i); reflexivity.
      * fold (count (firstn i os)). fold (rank os i). reflexivity.
Qed.

Lemma nth_error_sel : forall A (l : list A) os i,
    length l = length os -> orig os i = true ->
    nth_error (sel l os) (rank os i) = nth_error l i.
Proof.
  intros A l. induction l as [|x l IH]; intros [|b os] i H Ho; cbn in H; try discriminate.
  - unfold orig in Ho. destruct i; discriminate.
  - destruct i as [|i].
    + unfold orig in Ho. cbn in Ho. subst b. reflexivity.
    + unfold orig in Ho. cbn [nth] in Ho. fold (orig os i) in Ho.
      unfold rank. cbn [firstn]. unfold count. cbn [filter sel].
      destruct b; cbn [length nth_error]; fold (count (firstn i os)); fold (rank os i);
        apply IH; try lia; exact Ho.
Qed.

Lemma map_update_nth_cond : forall A B (dv : A -> B) (f : A -> A) (g : B -> B) l i,
    (forall e, nth_error l i = Some e -> dv (f e) = g (dv e)) ->
    map dv (update_nth i f l) = update_nth i g (map dv l).
Proof.
  intros A B dv f g l. induction l as [|x l IH]; intros [|i] H; cbn; try reflexivity.
  - rewrite (H x eq_refl). reflexivity.
  - f_equal. apply IH. intros e He. apply H. exact He.
Qed.

Lemma map_update_nth_id : forall A B (dv : A -> B) (f : A -> A) l i,
    (forall e, nth_error l i = Some e -> dv (f e) = dv e) ->
    map dv (update_nth i f l) = map dv l.
Proof.
  intros A B dv f l. induction l as [|x l IH]; intros [|i] H; cbn; try reflexivity.
  - rewrite (H x eq_refl). reflexivity.
  - f_equal. apply IH. intros e He. apply H. exact He.
Qed.

