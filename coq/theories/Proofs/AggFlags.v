(* Proofs/AggFlags.v -- property C08: the include_undocumented_* options only decide whether
   commands WITHOUT a doccomment yield entries.  Theorems about Model/Aggregator.v. *)
From Coq Require Import String List NArith Bool Arith Lia.
From CMinx Require Import Base.Str Model.Lexer Model.Parser Model.Writer Model.DocTypes
     Model.Aggregator Spec.AggSpec Proofs.AggClass.
Import ListNotations.

(* ---- spec ---- *)

(* the one option a command kind consults (None: no option is consulted) *)
Definition flag_of_handler (h : handler) : option (flags -> bool) :=
  match h with
  | HFunction => Some inc_function
  | HMacro => Some inc_macro
  | HClass => Some inc_cpp_class
  | HAttr => Some inc_cpp_attr
  | HCtor => Some inc_cpp_constructor
  | HMember => Some inc_cpp_member
  | HTest => Some inc_ct_add_test
  | HSection => Some inc_ct_add_section
  | HAddTest => Some inc_add_test
  | HOption => Some inc_option
  | HCpa | HSet => None
  end.

Definition flag_of_kind (k : str) : option (flags -> bool) :=
  match lookup k handler_table with
  | Some h => flag_of_handler h
  | None => None
  end.

Definition agree_on (k : str) (fl1 fl2 : flags) : Prop :=
  match flag_of_kind k with
  | Some f => f fl1 = f fl2
  | None => True
  end.

(* a function/macro command that is taken as the implementation of a pending test or
   member declaration *)
Definition claimed (k : str) (st : agg) : bool :=
  is_def_name k && match awaiting st with AwNone => false | _ => true end.

(* what a hidden command (option off, no doccomment) still does to the state *)
Definition hidden_effect (k : str) (st : agg) : agg :=
  if is_def_name k then with_def_stack (None :: def_stack st) st
  else if str_eqb k (s"cpp_class") then with_class_stack (None :: class_stack st) st
  else st.

(* G5: *)
(* the entries that stem from a doccomment (origins is the ghost list parallel to documented) *)
Definition from_doc (st : agg) : list entry :=
  map fst (filter snd (combine (documented st) (origins st))).

(* what of an entry stems from its own doccomment-carrying commands: members and attributes
   declared without a doccomment and the inner-class name list come from other commands *)
Definition doc_view (e : entry) : entry :=
  match e with
  | EClass n d su inner ct me at_ =>
      EClass n d su [] (filter m_docd ct) (filter m_docd me) (filter a_docd at_)
  | _ => e
  end.

Definition is_doc_class_elem (e : element) : bool :=
  match e with EDocCmd _ c => kind_is c (s"cpp_class") | _ => false end.
Definition is_unnamed_class_elem (e : element) : bool :=
  match e with
  | ECmd c => kind_is c (s"cpp_class") && match singles c with [] => true | _ :: _ => false end
  | _ => false
  end.

(* F9 cannot strike: the class option is on, or no cpp_class carries a doccomment (and then,
   so that both settings push the same number of frames, every cpp_class has a name) *)
Definition no_F9 (fl : flags) (es : list element) : bool :=
  inc_cpp_class fl
  || (negb (existsb is_doc_class_elem es) && negb (existsb is_unnamed_class_elem es)).

Definition is_decl_kind (k : str) : bool :=
  str_eqb k (s"ct_add_test") || str_eqb k (s"ct_add_section")
  || str_eqb k (s"cpp_member") || str_eqb k (s"cpp_constructor").
Definition elem_is_decl (e : element) : bool :=
  match elem_kind e with Some k => is_decl_kind k | None => false end.
Definition elem_is_def (e : element) : bool :=
  match elem_kind e with Some k => is_def_name k | None => false end.

(* every test / member declaration is immediately followed by the function or macro that
   implements it (so no declaration is ever pending when another one arrives) *)
Fixpoint decls_followed (es : list element) : bool :=
  match es with
  | [] => true
  | e :: r =>
      (if elem_is_decl e then match r with e2 :: _ => elem_is_def e2 | [] => true end else true)
      && decls_followed r
  end.

Example flag_of_kind_examples :
  flag_of_kind (s"cpp_attr") = Some inc_cpp_attr
  /\ flag_of_kind (s"function") = Some inc_function
  /\ flag_of_kind (s"ct_add_section") = Some inc_ct_add_section
  /\ flag_of_kind (s"set") = None
  /\ flag_of_kind (s"message") = None.
Proof. vm_compute. repeat split. Qed.

(* ---- helpers ---- *)

Lemma include_flag_via : forall fl h,
    include_flag fl h = option_map (fun f => f fl) (flag_of_handler h).
Proof. intros fl h; destruct h; reflexivity. Qed.

Lemma flag_of_handler_default : forall h f, flag_of_handler h = Some f -> f default_flags = true.
Proof. intros h f H; destruct h; inversion H; reflexivity. Qed.

Section WithParams.
  Variable trigger : str.
  Variables strip_fn strip_mac strip_mem : str -> str.

  Notation step fl := (agg_step fl trigger strip_fn strip_mac strip_mem).
  Notation run fl := (agg_run fl trigger strip_fn strip_mac strip_mem).
  Notation entercmd fl := (enter_command fl trigger strip_fn strip_mac strip_mem).
  Notation enterdoc := (enter_documented trigger strip_fn strip_mac).
  Notation runh := (run_handler trigger strip_fn strip_mac).

  (* ---- G4 first: the flags are consulted only through the one option of the kind ----- *)

  Lemma enter_command_agree : forall fl1 fl2 consumed c st,
      agree_on (cmd_kind c) fl1 fl2 ->
      entercmd fl1 consumed c st = entercmd fl2 consumed c st.
  Proof.
    intros fl1 fl2 consumed c st H. unfold agree_on, flag_of_kind in H.
    assert (A : str_eqb (cmd_kind c) (s"cpp_class") && negb (inc_cpp_class fl1)
                = str_eqb (cmd_kind c) (s"cpp_class") && negb (inc_cpp_class fl2)).
    { destruct (str_eqb (cmd_kind c) (s"cpp_class")) eqn:E; [|reflexivity].
      apply str_eqb_eq in E. rewrite E in H.
      change (lookup (s"cpp_class") handler_table) with (Some HClass) in H.
      cbn [flag_of_handler] in H. rewrite H. reflexivity. }
    assert (B : forall h, lookup (cmd_kind c) handler_table = Some h ->
                          include_flag fl1 h = include_flag fl2 h).
    { intros h L. rewrite L in H. rewrite !include_flag_via.
      destruct (flag_of_handler h) as [f|]; cbn [option_map]; [rewrite H|]; reflexivity. }
    unfold enter_command. cbv zeta. fold (cmd_kind c). rewrite A.
    destruct (lookup (cmd_kind c) handler_table) as [h|] eqn:L; [|reflexivity].
    first [rewrite (B h eq_refl)|rewrite (B h L)]. reflexivity.
  Qed.

  Theorem flags_only_via_include_flag : forall fl1 fl2 st e,
      (forall k, elem_kind e = Some k -> agree_on k fl1 fl2) ->
      step fl1 st e = step fl2 st e.
  Proof.
    intros fl1 fl2 st e H. destruct e as [d c|c|d]; cbn [agg_step].
    - destruct (enterdoc d c st) as [st1|]; [|reflexivity].
      apply enter_command_agree. apply H. reflexivity.
    - apply enter_command_agree. apply H. reflexivity.
    - reflexivity.
  Qed.

  (* a whole run depends only on the options of the kinds that occur *)
  Corollary run_flags_agree : forall fl1 fl2 es st,
      (forall e k, In e es -> elem_kind e = Some k -> agree_on k fl1 fl2) ->
      run fl1 st es = run fl2 st es.
  Proof.
    intros fl1 fl2 es. induction es as [|e r IH]; intros st H; cbn [agg_run]; [reflexivity|].
    rewrite (flags_only_via_include_flag fl1 fl2 st e)
      by (intros k Hk; apply (H e k); [left; reflexivity|exact Hk]).
    destruct (step fl2 st e) as [st1|]; [|reflexivity].
    apply IH. intros e' k Hin Hk. apply (H e' k); [right; exact Hin|exact Hk].
  Qed.

  (* ---- G1: doccomment-carrying commands ---------------------------------------------- *)

  (* enter_documented has no flags argument at all (its type, after the model's Section is
     closed, is  str -> (str -> str) -> (str -> str) -> str -> cmd -> agg -> result agg):
     the entry of a doccomment-carrying command is created without consulting any option.
     What remains of the step is enter_command with consumed = true. *)
  Lemma enter_documented_flag_free : forall fl d c st,
      step fl st (EDocCmd d c)
      = match enter_documented trigger strip_fn strip_mac d c st with
        | Ok st1 => entercmd fl true c st1
        | Crash => Crash
        end.
  Proof. reflexivity. Qed.

  (* with consumed = true the only option ever read is the class one, for cpp_class *)
  Lemma enter_command_consumed_flag_free : forall fl1 fl2 c st,
      cmd_kind c <> s"cpp_class" \/ inc_cpp_class fl1 = inc_cpp_class fl2 ->
      entercmd fl1 true c st = entercmd fl2 true c st.
  Proof.
    intros fl1 fl2 c st H. unfold enter_command. cbv zeta. fold (cmd_kind c).
    assert (A : str_eqb (cmd_kind c) (s"cpp_class") && negb (inc_cpp_class fl1)
                = str_eqb (cmd_kind c) (s"cpp_class") && negb (inc_cpp_class fl2)).
    { destruct H as [H|H]; [apply str_eqb_neq in H; rewrite H; reflexivity|rewrite H; reflexivity]. }
    rewrite A. cbn [negb]. rewrite andb_false_r. reflexivity.
  Qed.

  Theorem documented_step_flag_independent : forall fl st d c,
      cmd_kind c <> s"cpp_class" ->
      step fl st (EDocCmd d c) = step default_flags st (EDocCmd d c).
  Proof.
    intros fl st d c Hk. rewrite !enter_documented_flag_free.
    destruct (enterdoc d c st) as [st1|]; [|reflexivity].
    apply enter_command_consumed_flag_free. left. exact Hk.
  Qed.

  Theorem documented_class_step_flag_on : forall fl st d c,
      inc_cpp_class fl = true ->
      step fl st (EDocCmd d c) = step default_flags st (EDocCmd d c).
  Proof.
    intros fl st d c Hfl. rewrite !enter_documented_flag_free.
    destruct (enterdoc d c st) as [st1|]; [|reflexivity].
    apply enter_command_consumed_flag_free. right. rewrite Hfl. reflexivity.
  Qed.

  (* finding F9: with the class option off, a doccomment-carrying cpp_class yields the same
     entry as under default settings but pushes one extra None frame on the class stack *)
  Theorem F9_documented_class_pushes_none : forall fl st d c st1,
      cmd_kind c = s"cpp_class" ->
      inc_cpp_class fl = false ->
      step default_flags st (EDocCmd d c) = Ok st1 ->
      step fl st (EDocCmd d c) = Ok (with_class_stack (None :: class_stack st1) st1).
  Proof.
    intros fl st d c st1 Hk Hfl Hdef.
    pose proof (step_class trigger strip_fn strip_mac strip_mem default_flags (Some d) c st Hk eq_refl)
      as Hd.
    cbn [elem_of doc_of docd_of] in Hd. rewrite Hd in Hdef. inversion Hdef; subst st1; clear Hdef.
    apply step_class_doc_flag_off; assumption.
  Qed.

  (* ---- G2: option off, no doccomment: no entry ---------------------------------------- *)

  Theorem undocumented_flag_off_no_entry : forall fl c st h,
      lookup (cmd_kind c) handler_table = Some h ->
      include_flag fl h = Some false ->
      claimed (cmd_kind c) st = false ->
      step fl st (ECmd c) = Ok (hidden_effect (cmd_kind c) st).
  Proof.
    intros fl c st h L Hf Hcl. apply lookup_handler_kind in L.
    unfold claimed in Hcl. unfold hidden_effect.
    cbn [agg_step]. unfold enter_command. cbv zeta. fold (cmd_kind c).
    rewrite L in *.
    destruct h; cbn [kind_name] in *; cbn [include_flag] in Hf; try discriminate Hf;
      injection Hf as Hf'; revert Hcl; eval_closed; eval_lookup;
      cbn [andb orb negb include_flag]; intro Hcl; rewrite ?Hcl, ?Hf'; reflexivity.
  Qed.

  Corollary undocumented_flag_off_entries_unchanged : forall fl c st st' h,
      lookup (cmd_kind c) handler_table = Some h ->
      include_flag fl h = Some false ->
      claimed (cmd_kind c) st = false ->
      step fl st (ECmd c) = Ok st' ->
      documented st' = documented st /\ origins st' = origins st /\ awaiting st' = awaiting st
      /\ (st' = st
          \/ st' = with_def_stack (None :: def_stack st) st
          \/ st' = with_class_stack (None :: class_stack st) st).
  Proof.
    intros fl c st st' h L Hf Hcl Hstep.
    rewrite (undocumented_flag_off_no_entry fl c st h L Hf Hcl) in Hstep.
    inversion Hstep; subst st'; clear Hstep. unfold hidden_effect.
    destruct (is_def_name (cmd_kind c)); [repeat split; auto|].
    destruct (str_eqb (cmd_kind c) (s"cpp_class")); repeat split; auto.
  Qed.

  (* a claimed definition is processed without consulting any option, and adds no entry *)
  Theorem claimed_definition_flag_free : forall fl consumed c st,
      claimed (cmd_kind c) st = true ->
      entercmd fl consumed c st = entercmd default_flags consumed c st
      /\ forall st', entercmd fl consumed c st = Ok st' ->
                     length (documented st') = length (documented st)
                     /\ origins st' = origins st.
  Proof.
    intros fl consumed c st Hcl. unfold claimed in Hcl.
    assert (Hd : is_def_name (cmd_kind c) = true).
    { apply andb_true_iff in Hcl. destruct Hcl as [Hcl _]. exact Hcl. }
    assert (E : forall fl0, entercmd fl0 consumed c st
                = let st2 := with_awaiting AwNone
                               (with_docs (upd_awaiting_entry (awaiting st)
                                             (str_eqb (cmd_kind c) (s"macro"))
                                             (skipn 2 (match awaiting st with
                                                       | AwMethod _ _ => map strip_mem (singles c)
                                                       | _ => singles c
                                                       end))) st) in
                  if consumed then Ok st2 else Ok (with_def_stack (None :: def_stack st2) st2)).
    { intros fl0. unfold enter_command. cbv zeta. fold (cmd_kind c). rewrite Hcl.
      rewrite skipn2_guard.
      unfold is_def_name in Hd. apply orb_true_iff in Hd.
      destruct Hd as [Hd|Hd]; apply str_eqb_eq in Hd; rewrite Hd; eval_closed;
        cbn [andb orb negb]; reflexivity. }
    split; [rewrite !E; reflexivity|].
    intros st' H. rewrite E in H. cbv zeta in H.
    assert (L : forall a mac extra,
               length (upd_awaiting_entry a mac extra (documented st)) = length (documented st)).
    { intros a mac extra. destruct a; cbn [upd_awaiting_entry]; rewrite ?length_update_nth; reflexivity. }
    destruct consumed; inversion H; subst st';
      cbn [documented origins with_docs with_awaiting with_def_stack]; rewrite L; split; reflexivity.
  Qed.

  (* ---- G3: option on: as under default settings ---------------------------------------- *)

  Theorem undocumented_flag_on_as_default : forall fl c st h,
      lookup (cmd_kind c) handler_table = Some h ->
      include_flag fl h = Some true ->
      step fl st (ECmd c) = step default_flags st (ECmd c).
  Proof.
    intros fl c st h L Hf. apply flags_only_via_include_flag.
    intros k Hk. inversion Hk; subst k; clear Hk.
    unfold agree_on, flag_of_kind. rewrite L.
    rewrite include_flag_via in Hf.
    destruct (flag_of_handler h) as [f|] eqn:Ef; [|exact I].
    cbn [option_map] in Hf. injection Hf as Hf'.
    rewrite (flag_of_handler_default h f Ef). exact Hf'.
  Qed.

  (* kinds that consult no option at all behave the same under every setting *)
  Corollary no_flag_kind_step : forall fl1 fl2 st e,
      (forall k, elem_kind e = Some k -> flag_of_kind k = None) ->
      step fl1 st e = step fl2 st e.
  Proof.
    intros fl1 fl2 st e H. apply flags_only_via_include_flag.
    intros k Hk. unfold agree_on. rewrite (H k Hk). exact I.
  Qed.

End WithParams.

(* ======================================================================================== *)
(* G5: the entries stemming from doccomments are the same under every setting              *)
(* ======================================================================================== *)

(* ---- the documented-only abstraction of a state ---------------------------------------- *)

Fixpoint sel {A} (l : list A) (os : list bool) : list A :=
  match l, os with
  | x :: l', b :: os' => if b then x :: sel l' os' else sel l' os'
  | _, _ => []
  end.

Definition count (os : list bool) : nat := length (filter (fun b => b) os).
Definition rank (os : list bool) (i : nat) : nat := count (firstn i os).
Definition orig (os : list bool) (i : nat) : bool := nth i os false.

Definition map_idx (os : list bool) (o : option nat) : option nat :=
  match o with
  | Some i => if orig os i then Some (rank os i) else None
  | None => None
  end.

(* the newest method of the awaited class is one that doc_view keeps *)
Definition last_ok (b : bool) (e : entry) : bool :=
  match e with
  | EClass _ _ _ _ ct me _ =>
      match last_opt (if b then ct else me) with Some m => m_docd m | None => true end
  | _ => true
  end.

Definition dummy_entry : entry := EModule [] [].

Definition abs_aw (st : agg) : await :=
  match awaiting st with
  | AwNone => AwNone
  | AwTop i => if orig (origins st) i then AwTop (rank (origins st) i) else AwNone
  | AwMethod i b =>
      if orig (origins st) i && last_ok b (nth i (documented st) dummy_entry)
      then AwMethod (rank (origins st) i) b else AwNone
  end.

Definition absn (st : agg) : agg :=
  {| documented := map doc_view (sel (documented st) (origins st));
     origins := map (fun _ => true) (sel (documented st) (origins st));
     class_stack := map (map_idx (origins st)) (class_stack st);
     def_stack := map (map_idx (origins st)) (def_stack st);
     awaiting := abs_aw st |}.

Definition norm (a : agg) : agg := with_docs (map doc_view) a.

Definition flags_off : flags :=
  {| inc_function := false; inc_macro := false; inc_cpp_class := false; inc_cpp_attr := false;
     inc_cpp_constructor := false; inc_cpp_member := false; inc_ct_add_test := false;
     inc_ct_add_section := false; inc_add_test := false; inc_option := false |}.

(* ---- list lemmas ------------------------------------------------------------------------ *)

Lemma from_doc_sel : forall st, from_doc st = sel (documented st) (origins st).
Proof.
  intros st. unfold from_doc. generalize (origins st) as os. generalize (documented st) as l.
  induction l as [|x l IH]; intros [|b os]; try reflexivity.
  cbn [combine filter snd sel]. destruct b; cbn [map fst]; rewrite IH; reflexivity.
Qed.

Lemma sel_app : forall A (l l2 : list A) os os2,
    length l = length os -> sel (l ++ l2) (os ++ os2) = sel l os ++ sel l2 os2.
Proof.
  intros A l. induction l as [|x l IH]; intros l2 [|b os] os2 H; cbn in H; try discriminate.
  - reflexivity.
  - cbn [app sel]. destruct b; rewrite IH by lia; reflexivity.
Qed.

Lemma sel_length : forall A (l : list A) os, length l = length os -> length (sel l os) = count os.
Proof.
  intros A l. induction l as [|x l IH]; intros [|b os] H; cbn in H; try discriminate; [reflexivity|].
  unfold count. cbn [sel filter]. destruct b; cbn [length]; fold (count os); rewrite IH by lia;
    reflexivity.
Qed.

Lemma rank_app : forall os x i, i <= length os -> rank (os ++ x) i = rank os i.
Proof.
  intros os x i H. unfold rank. rewrite firstn_app.
  replace (i - length os) with 0 by lia. cbn [firstn]. rewrite app_nil_r. reflexivity.
Qed.

Lemma rank_all : forall os, rank os (length os) = count os.
Proof. intros os. unfold rank. rewrite firstn_all. reflexivity. Qed.

Lemma orig_app : forall os x i, i < length os -> orig (os ++ x) i = orig os i.
Proof. intros os x i H. unfold orig. apply app_nth1. exact H. Qed.

Lemma orig_app_new : forall os b, orig (os ++ [b]) (length os) = b.
Proof.
  intros os b. unfold orig. rewrite app_nth2 by lia. rewrite Nat.sub_diag. reflexivity.
Qed.

Lemma orig_lt : forall os i, orig os i = true -> i < length os.
Proof.
  intros os i H. unfold orig in H. destruct (Nat.lt_ge_cases i (length os)) as [L|L]; [exact L|].
  rewrite nth_overflow in H by exact L. discriminate.
Qed.

Definition idx_lt (n : nat) (o : option nat) : bool :=
  match o with Some i => Nat.ltb i n | None => true end.

Lemma map_idx_app : forall os x n o,
    idx_lt n o = true -> n <= length os -> map_idx (os ++ x) o = map_idx os o.
Proof.
  intros os x n [i|] H Hn; [|reflexivity]. cbn [idx_lt] in H. apply Nat.ltb_lt in H.
  cbn [map_idx]. rewrite orig_app by lia. rewrite rank_app by lia. reflexivity.
Qed.

Lemma sel_update_nth : forall A (f : A -> A) (l : list A) os i,
    length l = length os ->
    sel (update_nth i f l) os
    = if orig os i then update_nth (rank os i) f (sel l os) else sel l os.
Proof.
  intros A f l. induction l as [|x l IH]; intros [|b os] i H; cbn in H; try discriminate.
  - unfold orig. destruct i; reflexivity.
  - destruct i as [|i].
    + unfold orig, rank, count. cbn [update_nth sel nth firstn filter length]. destruct b; reflexivity.
    + cbn [update_nth sel]. unfold orig, rank. cbn [nth firstn].
      fold (orig os i). unfold count. cbn [filter].
      rewrite IH by lia. destruct b.
      * cbn [length]. fold (count (firstn i os)). fold (rank os i).
        destruct (orig os i); reflexivity.
      * fold (count (firstn i os)). fold (rank os i). reflexivity.
Qed.

Lemma nth_error_sel : forall A (l : list A) os i,
    length l = length os -> orig os i = true ->
    nth_error (sel l os) (rank os i) = nth_error l i.
Proof.
  intros A l. induction l as [|x l IH]; intros [|b os] i H Ho; cbn in H; try discriminate.
  - unfold orig in Ho. destruct i; discriminate.
  - destruct i as [|i].
    + unfold orig in Ho. cbn in Ho. subst b. reflexivity.
    + unfold orig in Ho. cbn [nth] in Ho. fold (orig os i) in Ho.
      unfold rank. cbn [firstn]. unfold count. cbn [filter sel].
      destruct b; cbn [length nth_error]; fold (count (firstn i os)); fold (rank os i);
        apply IH; try lia; exact Ho.
Qed.

Lemma map_update_nth_cond : forall A B (dv : A -> B) (f : A -> A) (g : B -> B) l i,
    (forall e, nth_error l i = Some e -> dv (f e) = g (dv e)) ->
    map dv (update_nth i f l) = update_nth i g (map dv l).
Proof.
  intros A B dv f g l. induction l as [|x l IH]; intros [|i] H; cbn; try reflexivity.
  - rewrite (H x eq_refl). reflexivity.
  - f_equal. apply IH. intros e He. apply H. exact He.
Qed.

Lemma map_update_nth_id : forall A B (dv : A -> B) (f : A -> A) l i,
    (forall e, nth_error l i = Some e -> dv (f e) = dv e) ->
    map dv (update_nth i f l) = map dv l.
Proof.
  intros A B dv f l. induction l as [|x l IH]; intros [|i] H; cbn; try reflexivity.
  - rewrite (H x eq_refl). reflexivity.
  - f_equal. apply IH. intros e He. apply H. exact He.
Qed.

(* ---- doc_view and last_ok against the update functions of the model ---------------------- *)

Lemma filter_idem : forall A (p : A -> bool) l, filter p (filter p l) = filter p l.
Proof.
  intros A p l. induction l as [|x l IH]; [reflexivity|]. cbn [filter].
  destruct (p x) eqn:E; [cbn [filter]; rewrite E, IH; reflexivity|exact IH].
Qed.

Lemma doc_view_idem : forall e, doc_view (doc_view e) = doc_view e.
Proof. intros e; destruct e; try reflexivity. cbn [doc_view]. rewrite !filter_idem. reflexivity. Qed.

Lemma map_doc_view_idem : forall l, map doc_view (map doc_view l) = map doc_view l.
Proof. intros l. rewrite map_map. apply map_ext. apply doc_view_idem. Qed.

Lemma doc_view_set_kwargs : forall e, doc_view (set_kwargs e) = set_kwargs (doc_view e).
Proof. intros e; destruct e; reflexivity. Qed.

Lemma doc_view_add_inner : forall n e, doc_view (add_inner n e) = doc_view e.
Proof. intros n e; destruct e; reflexivity. Qed.

Lemma doc_view_add_inner_abs : forall n e, doc_view (add_inner n (doc_view e)) = doc_view e.
Proof. intros n e. rewrite doc_view_add_inner. apply doc_view_idem. Qed.

Lemma doc_view_add_method : forall b m e,
    doc_view (add_method b m e)
    = if m_docd m then add_method b m (doc_view e) else doc_view e.
Proof.
  intros b m e. destruct e; try (destruct (m_docd m); reflexivity).
  destruct b; cbn [add_method doc_view]; rewrite filter_app; cbn [filter];
    destruct (m_docd m); rewrite ?app_nil_r; reflexivity.
Qed.

Lemma doc_view_add_attr : forall a e,
    doc_view (add_attr a e) = if a_docd a then add_attr a (doc_view e) else doc_view e.
Proof.
  intros a e. destruct e; try (destruct (a_docd a); reflexivity).
  cbn [add_attr doc_view]. rewrite filter_app. cbn [filter].
  destruct (a_docd a); rewrite ?app_nil_r; reflexivity.
Qed.

Lemma last_opt_snoc : forall A (l : list A) x, last_opt (l ++ [x]) = Some x.
Proof.
  intros A l x. induction l as [|y l IH]; [reflexivity|].
  cbn [app last_opt]. destruct (l ++ [x]) eqn:E; [destruct l; discriminate|exact IH].
Qed.

Lemma filter_update_last : forall (upd : method -> method) l,
    (forall m, m_docd (upd m) = m_docd m) ->
    filter m_docd (update_last upd l)
    = match last_opt l with
      | Some m => if m_docd m then update_last upd (filter m_docd l) else filter m_docd l
      | None => filter m_docd l
      end.
Proof.
  intros upd l Hupd. destruct l as [|x l] using rev_ind; [reflexivity|].
  rewrite update_last_snoc, last_opt_snoc, !filter_app. cbn [filter]. rewrite Hupd.
  destruct (m_docd x); [rewrite update_last_snoc|]; reflexivity.
Qed.

Lemma upd_method_docd : forall mac extra m, m_docd (upd_method mac extra m) = m_docd m.
Proof. reflexivity. Qed.

(* the entry update performed when a definition is claimed, as one function *)
Definition claim_upd (a : await) (mac : bool) (extra : list str) (e : entry) : entry :=
  match a with
  | AwNone => e
  | AwTop _ => match e with
               | ETest sec n d xf ps _ => ETest sec n d xf (ps ++ extra) mac
               | _ => e
               end
  | AwMethod _ is_ctor =>
      match e with
      | EClass n d su inner ct me at_ =>
          if is_ctor
          then EClass n d su inner (update_last (upd_method mac extra) ct) me at_
          else EClass n d su inner ct (update_last (upd_method mac extra) me) at_
      | _ => e
      end
  end.

Definition aw_index (a : await) : option nat :=
  match a with AwNone => None | AwTop i => Some i | AwMethod i _ => Some i end.

Lemma upd_awaiting_entry_claim : forall a mac extra docs,
    upd_awaiting_entry a mac extra docs
    = match aw_index a with
      | Some i => update_nth i (claim_upd a mac extra) docs
      | None => docs
      end.
Proof. intros a mac extra docs. destruct a; reflexivity. Qed.

Lemma doc_view_claim_top : forall i j mac extra e,
    doc_view (claim_upd (AwTop i) mac extra e) = claim_upd (AwTop j) mac extra (doc_view e).
Proof. intros i j mac extra e. destruct e; reflexivity. Qed.

Lemma last_opt_none : forall A (l : list A), last_opt l = None -> l = [].
Proof.
  intros A l. induction l as [|x l IH]; [reflexivity|]. cbn [last_opt].
  destruct l as [|y l]; [discriminate|]. intros H. apply IH in H. discriminate H.
Qed.

Lemma doc_view_claim_method : forall i j b mac extra e,
    doc_view (claim_upd (AwMethod i b) mac extra e)
    = if last_ok b e then claim_upd (AwMethod j b) mac extra (doc_view e) else doc_view e.
Proof.
  intros i j b mac extra e. destruct e; try (destruct (last_ok b _); reflexivity).
  destruct b; cbn [claim_upd doc_view last_ok];
    rewrite (filter_update_last _ _ (upd_method_docd mac extra)).
  - destruct (last_opt ctors) as [m|] eqn:E; [destruct (m_docd m); reflexivity|].
    apply last_opt_none in E. subst ctors. reflexivity.
  - destruct (last_opt members) as [m|] eqn:E; [destruct (m_docd m); reflexivity|].
    apply last_opt_none in E. subst members. reflexivity.
Qed.

Lemma last_ok_set_kwargs : forall b e, last_ok b (set_kwargs e) = last_ok b e.
Proof. intros b e; destruct e; reflexivity. Qed.
Lemma last_ok_add_inner : forall n b e, last_ok b (add_inner n e) = last_ok b e.
Proof. intros n b e; destruct e; reflexivity. Qed.
Lemma last_ok_add_attr : forall a b e, last_ok b (add_attr a e) = last_ok b e.
Proof. intros a b e; destruct e; reflexivity. Qed.

Lemma last_ok_nth_update : forall b (f : entry -> entry) l i j,
    (forall e, last_ok b (f e) = last_ok b e) ->
    last_ok b (nth i (update_nth j f l) dummy_entry) = last_ok b (nth i l dummy_entry).
Proof.
  intros b f l. induction l as [|x l IH]; intros i j H.
  - destruct j; reflexivity.
  - destruct j as [|j], i as [|i]; cbn [update_nth nth]; try reflexivity.
    + apply H.
    + apply IH. exact H.
Qed.

Lemma is_class_set_kwargs : forall e, is_class_entry (set_kwargs e) = is_class_entry e.
Proof. intros e; destruct e; reflexivity. Qed.
Lemma is_class_add_inner : forall n e, is_class_entry (add_inner n e) = is_class_entry e.
Proof. intros n e; destruct e; reflexivity. Qed.
Lemma is_class_add_attr : forall a e, is_class_entry (add_attr a e) = is_class_entry e.
Proof. intros a e; destruct e; reflexivity. Qed.
Lemma is_class_add_method : forall b m e, is_class_entry (add_method b m e) = is_class_entry e.
Proof. intros b m e; destruct e; try reflexivity. destruct b; reflexivity. Qed.
Lemma is_class_claim_upd : forall a mac extra e,
    is_class_entry (claim_upd a mac extra e) = is_class_entry e.
Proof.
  intros a mac extra e. destruct a as [|i|i b]; [reflexivity| |]; destruct e; try reflexivity.
  destruct b; reflexivity.
Qed.

(* ---- the invariant of reachable states ---------------------------------------------------- *)

Definition aw_lt (n : nat) (a : await) : Prop :=
  match aw_index a with Some i => i < n | None => True end.

Definition class_at (docs : list entry) (i : nat) : Prop :=
  exists e, nth_error docs i = Some e /\ is_class_entry e = true.

Definition inv (st : agg) : Prop :=
  length (documented st) = length (origins st)
  /\ (forall i, In (Some i) (class_stack st) -> class_at (documented st) i)
  /\ (forall i, In (Some i) (def_stack st) -> i < length (documented st))
  /\ aw_lt (length (documented st)) (awaiting st).

Lemma class_at_lt : forall docs i, class_at docs i -> i < length docs.
Proof.
  intros docs i (e & H & _). apply nth_error_Some. rewrite H. discriminate.
Qed.

Lemma class_at_app : forall docs x i, class_at docs i -> class_at (docs ++ x) i.
Proof.
  intros docs x i (e & H & C). exists e. split; [|exact C].
  rewrite nth_error_app1; [exact H|]. apply nth_error_Some. rewrite H. discriminate.
Qed.

Lemma class_at_update : forall docs (f : entry -> entry) j i,
    (forall e, is_class_entry (f e) = is_class_entry e) ->
    class_at docs i -> class_at (update_nth j f docs) i.
Proof.
  intros docs f j i Hf (e & H & C). unfold class_at. rewrite nth_error_update_nth, H.
  destruct (Nat.eqb i j); cbn [option_map]; eexists; split; try reflexivity; [rewrite Hf|]; exact C.
Qed.

Lemma inv_init : inv agg_init.
Proof. repeat split; cbn; intros; contradiction. Qed.

Lemma inv_append : forall e docd st, inv st -> inv (append e docd st).
Proof.
  intros e docd st (L & C & D & A). unfold inv. cbn [append documented origins class_stack def_stack awaiting].
  repeat split.
  - rewrite !app_length, L. reflexivity.
  - intros i Hi. apply class_at_app. apply C. exact Hi.
  - intros i Hi. rewrite app_length. apply D in Hi. lia.
  - unfold aw_lt in *. destruct (aw_index (awaiting st)); [rewrite app_length; lia|exact I].
Qed.

Lemma inv_update : forall (f : entry -> entry) j st,
    (forall e, is_class_entry (f e) = is_class_entry e) ->
    inv st -> inv (with_docs (update_nth j f) st).
Proof.
  intros f j st Hf (L & C & D & A). unfold inv.
  cbn [with_docs documented origins class_stack def_stack awaiting].
  rewrite length_update_nth. repeat split; try assumption.
  intros i Hi. apply class_at_update; [exact Hf|]. apply C. exact Hi.
Qed.

Lemma inv_with_def_stack : forall ds st,
    inv st -> (forall i, In (Some i) ds -> i < length (documented st)) ->
    inv (with_def_stack ds st).
Proof. intros ds st (L & C & D & A) H. repeat split; assumption. Qed.

Lemma inv_with_class_stack : forall cs st,
    inv st -> (forall i, In (Some i) cs -> class_at (documented st) i) ->
    inv (with_class_stack cs st).
Proof. intros cs st (L & C & D & A) H. repeat split; assumption. Qed.

Lemma inv_with_awaiting : forall a st,
    inv st -> aw_lt (length (documented st)) a -> inv (with_awaiting a st).
Proof. intros a st (L & C & D & A) H. repeat split; assumption. Qed.

Lemma inv_push_none_def : forall st, inv st -> inv (with_def_stack (None :: def_stack st) st).
Proof.
  intros st H. apply inv_with_def_stack; [exact H|].
  intros i [Hi|Hi]; [discriminate Hi|]. destruct H as (_ & _ & D & _). apply D. exact Hi.
Qed.

Lemma inv_push_none_class : forall st, inv st -> inv (with_class_stack (None :: class_stack st) st).
Proof.
  intros st H. apply inv_with_class_stack; [exact H|].
  intros i [Hi|Hi]; [discriminate Hi|]. destruct H as (_ & C & _ & _). apply C. exact Hi.
Qed.

(* ---- the abstraction against the state constructors --------------------------------------- *)

Lemma agg_eq : forall a b,
    documented a = documented b -> origins a = origins b -> class_stack a = class_stack b ->
    def_stack a = def_stack b -> awaiting a = awaiting b -> a = b.
Proof. intros [a1 a2 a3 a4 a5] [b1 b2 b3 b4 b5]; cbn; intros; subst; reflexivity. Qed.

Lemma map_const_length : forall A B (l : list A) (l' : list B),
    length l = length l' -> map (fun _ => true) l = map (fun _ => true) l'.
Proof.
  intros A B l. induction l as [|x l IH]; intros [|y l'] H; cbn in H; try discriminate; [reflexivity|].
  cbn [map]. f_equal. apply IH. lia.
Qed.

Lemma map_idx_stack_app : forall os x n (stk : list (option nat)),
    (forall i, In (Some i) stk -> i < n) -> n <= length os ->
    map (map_idx (os ++ x)) stk = map (map_idx os) stk.
Proof.
  intros os x n stk H Hn. apply map_ext_in. intros [i|] Hi; [|reflexivity].
  apply (map_idx_app os x n); [|exact Hn]. cbn [idx_lt]. apply Nat.ltb_lt. apply H. exact Hi.
Qed.

Lemma abs_aw_append : forall e docd st, inv st -> abs_aw (append e docd st) = abs_aw st.
Proof.
  intros e docd st (L & _ & _ & A). unfold abs_aw. cbn [append awaiting origins documented].
  unfold aw_lt in A. destruct (awaiting st) as [|i|i b]; cbn [aw_index] in A; [reflexivity| |].
  - rewrite orig_app, rank_app by lia. reflexivity.
  - rewrite orig_app, rank_app by lia. rewrite app_nth1 by lia. reflexivity.
Qed.

Lemma absn_append : forall e docd st,
    inv st ->
    absn (append e docd st) = if docd then append (doc_view e) true (absn st) else absn st.
Proof.
  intros e docd st Hinv. pose proof Hinv as (L & C & D & A).
  assert (Hcs : map (map_idx (origins st ++ [docd])) (class_stack st)
                = map (map_idx (origins st)) (class_stack st)).
  { apply (map_idx_stack_app _ _ (length (documented st))); [|lia].
    intros i Hi. apply class_at_lt. apply C. exact Hi. }
  assert (Hds : map (map_idx (origins st ++ [docd])) (def_stack st)
                = map (map_idx (origins st)) (def_stack st)).
  { apply (map_idx_stack_app _ _ (length (documented st))); [exact D|lia]. }
  destruct docd; apply agg_eq;
    cbn [absn append documented origins class_stack def_stack awaiting];
    rewrite ?sel_app by exact L; cbn [sel]; rewrite ?app_nil_r, ?map_app; cbn [map];
    try reflexivity; try exact Hcs; try exact Hds;
    try (apply (abs_aw_append e _ st Hinv)).
Qed.

(* the rank a freshly appended doccomment entry gets *)
Lemma map_idx_new : forall st docd,
    length (documented st) = length (origins st) ->
    map_idx (origins st ++ [docd]) (Some (length (documented st)))
    = if docd then Some (length (documented (absn st))) else None.
Proof.
  intros st docd L. cbn [map_idx]. rewrite L, orig_app_new. destruct docd; [|reflexivity].
  rewrite rank_app by lia. rewrite rank_all. cbn [absn documented].
  rewrite map_length, sel_length by exact L. reflexivity.
Qed.

Lemma abs_aw_update : forall (f : entry -> entry) j st,
    (forall b e, last_ok b (f e) = last_ok b e) ->
    abs_aw (with_docs (update_nth j f) st) = abs_aw st.
Proof.
  intros f j st Hf. unfold abs_aw. cbn [with_docs awaiting origins documented].
  destruct (awaiting st) as [|i|i b]; try reflexivity.
  rewrite last_ok_nth_update by (apply Hf). reflexivity.
Qed.

Lemma docs_update_invisible : forall (f : entry -> entry) j st,
    length (documented st) = length (origins st) ->
    (orig (origins st) j = false
     \/ forall e, nth_error (documented st) j = Some e -> doc_view (f e) = doc_view e) ->
    map doc_view (sel (update_nth j f (documented st)) (origins st))
    = map doc_view (sel (documented st) (origins st)).
Proof.
  intros f j st L H. rewrite sel_update_nth by exact L.
  destruct (orig (origins st) j) eqn:E; [|reflexivity].
  destruct H as [H|H]; [discriminate|].
  apply map_update_nth_id. intros e He. apply H.
  rewrite <- He. symmetry. apply nth_error_sel; assumption.
Qed.

Lemma docs_update_visible : forall (f g : entry -> entry) j st,
    length (documented st) = length (origins st) ->
    orig (origins st) j = true ->
    (forall e, nth_error (documented st) j = Some e -> doc_view (f e) = g (doc_view e)) ->
    map doc_view (sel (update_nth j f (documented st)) (origins st))
    = update_nth (rank (origins st) j) g (map doc_view (sel (documented st) (origins st))).
Proof.
  intros f g j st L E H. rewrite sel_update_nth by exact L. rewrite E.
  apply map_update_nth_cond. intros e He. apply H.
  rewrite <- He. symmetry. apply nth_error_sel; assumption.
Qed.

Lemma origins_update : forall (f : entry -> entry) j st,
    length (documented st) = length (origins st) ->
    map (fun _ => true) (sel (update_nth j f (documented st)) (origins st))
    = map (fun _ => true) (sel (documented st) (origins st)).
Proof.
  intros f j st L. apply map_const_length. rewrite sel_update_nth by exact L.
  destruct (orig (origins st) j); [apply length_update_nth|reflexivity].
Qed.

Lemma absn_update_invisible : forall (f : entry -> entry) j st,
    inv st ->
    (orig (origins st) j = false
     \/ forall e, nth_error (documented st) j = Some e -> doc_view (f e) = doc_view e) ->
    (forall b e, last_ok b (f e) = last_ok b e) ->
    absn (with_docs (update_nth j f) st) = absn st.
Proof.
  intros f j st (L & _) H Hl. apply agg_eq;
    cbn [absn with_docs documented origins class_stack def_stack awaiting]; try reflexivity.
  - apply docs_update_invisible; assumption.
  - apply origins_update; assumption.
  - apply (abs_aw_update f j st Hl).
Qed.

Lemma absn_update_visible : forall (f g : entry -> entry) j st,
    inv st ->
    orig (origins st) j = true ->
    (forall e, nth_error (documented st) j = Some e -> doc_view (f e) = g (doc_view e)) ->
    (forall b e, last_ok b (f e) = last_ok b e) ->
    absn (with_docs (update_nth j f) st)
    = with_docs (update_nth (rank (origins st) j) g) (absn st).
Proof.
  intros f g j st (L & _) E H Hl. apply agg_eq;
    cbn [absn with_docs documented origins class_stack def_stack awaiting]; try reflexivity.
  - apply docs_update_visible; assumption.
  - apply origins_update; assumption.
  - apply (abs_aw_update f j st Hl).
Qed.

Lemma norm_absn : forall st, norm (absn st) = absn st.
Proof.
  intros st. apply agg_eq; cbn [norm with_docs absn documented origins class_stack def_stack awaiting];
    try reflexivity. apply map_doc_view_idem.
Qed.

Lemma absn_with_def_stack : forall ds st,
    absn (with_def_stack ds st) = with_def_stack (map (map_idx (origins st)) ds) (absn st).
Proof. intros ds st. apply agg_eq; reflexivity. Qed.

Lemma absn_with_class_stack : forall cs st,
    absn (with_class_stack cs st) = with_class_stack (map (map_idx (origins st)) cs) (absn st).
Proof. intros cs st. apply agg_eq; reflexivity. Qed.

Lemma last_opt_filter : forall A (p : A -> bool) l m, last_opt (filter p l) = Some m -> p m = true.
Proof.
  intros A p l m. induction l as [|x l IH]; [discriminate|]. cbn [filter].
  destruct (p x) eqn:E; [|exact IH]. cbn [last_opt].
  destruct (filter p l) as [|y r] eqn:F; [intros H; inversion H; subst; exact E|exact IH].
Qed.

Lemma last_ok_doc_view : forall b e, last_ok b (doc_view e) = true.
Proof.
  intros b e. destruct e; try reflexivity. cbn [doc_view last_ok].
  destruct b.
  - destruct (last_opt (filter m_docd ctors)) as [m|] eqn:E; [|reflexivity].
    apply last_opt_filter in E. exact E.
  - destruct (last_opt (filter m_docd members)) as [m|] eqn:E; [|reflexivity].
    apply last_opt_filter in E. exact E.
Qed.

Lemma map_dv_update_abs : forall (g : entry -> entry) l r,
    (forall y, doc_view (g (doc_view y)) = g (doc_view y)) ->
    map doc_view (update_nth r g (map doc_view l)) = update_nth r g (map doc_view l).
Proof.
  intros g l. induction l as [|x l IH]; intros [|r] H; cbn [map update_nth]; try reflexivity.
  - rewrite H, map_doc_view_idem. reflexivity.
  - rewrite doc_view_idem. f_equal. apply IH. exact H.
Qed.

Lemma map_dv_update_erased : forall (g : entry -> entry) l r,
    (forall y, doc_view (g y) = doc_view y) ->
    map doc_view (update_nth r g l) = map doc_view l.
Proof. intros g l r H. apply map_update_nth_id. intros e _. apply H. Qed.

Lemma norm_update_abs : forall (g : entry -> entry) r st,
    (forall y, doc_view (g (doc_view y)) = g (doc_view y)) ->
    norm (with_docs (update_nth r g) (absn st)) = with_docs (update_nth r g) (absn st).
Proof.
  intros g r st H. apply agg_eq;
    cbn [norm with_docs absn documented origins class_stack def_stack awaiting]; try reflexivity.
  apply map_dv_update_abs. exact H.
Qed.

Lemma stable_set_kwargs : forall y, doc_view (set_kwargs (doc_view y)) = set_kwargs (doc_view y).
Proof. intros y. rewrite doc_view_set_kwargs, doc_view_idem. reflexivity. Qed.

Lemma stable_add_method : forall b m, m_docd m = true ->
    forall y, doc_view (add_method b m (doc_view y)) = add_method b m (doc_view y).
Proof. intros b m H y. rewrite doc_view_add_method, H, doc_view_idem. reflexivity. Qed.

Lemma stable_add_attr : forall a, a_docd a = true ->
    forall y, doc_view (add_attr a (doc_view y)) = add_attr a (doc_view y).
Proof. intros a H y. rewrite doc_view_add_attr, H, doc_view_idem. reflexivity. Qed.

Lemma stable_claim : forall a mac extra y,
    doc_view (claim_upd a mac extra (doc_view y)) = claim_upd a mac extra (doc_view y).
Proof.
  intros a mac extra y. destruct a as [|i|i b].
  - apply doc_view_idem.
  - rewrite (doc_view_claim_top i i), doc_view_idem. reflexivity.
  - rewrite (doc_view_claim_method i i), last_ok_doc_view, doc_view_idem. reflexivity.
Qed.

Lemma last_ok_after_add : forall docs cidx b m,
    class_at docs cidx ->
    last_ok b (nth cidx (update_nth cidx (add_method b m) docs) dummy_entry) = m_docd m.
Proof.
  intros docs cidx b m (e & H & C).
  assert (Hn : nth_error (update_nth cidx (add_method b m) docs) cidx = Some (add_method b m e)).
  { apply nth_error_update_nth_eq. exact H. }
  rewrite (nth_error_nth _ _ _ Hn). destruct e; try discriminate C.
  destruct b; cbn [add_method last_ok]; rewrite last_opt_snoc; reflexivity.
Qed.

Lemma inv_stack_tail : forall st x r,
    inv st -> class_stack st = x :: r -> forall i, In (Some i) r -> class_at (documented st) i.
Proof. intros st x r (_ & C & _) E i Hi. apply C. rewrite E. right. exact Hi. Qed.

Lemma inv_top_class : forall st cidx r,
    inv st -> class_stack st = Some cidx :: r -> class_at (documented st) cidx.
Proof. intros st cidx r (_ & C & _) E. apply C. rewrite E. left. reflexivity. Qed.

Section Abstraction.
  Variable trigger : str.
  Variables strip_fn strip_mac strip_mem : str -> str.

  Notation step fl := (agg_step fl trigger strip_fn strip_mac strip_mem).
  Notation run fl := (agg_run fl trigger strip_fn strip_mac strip_mem).
  Notation entercmd fl := (enter_command fl trigger strip_fn strip_mac strip_mem).
  Notation enterdoc := (enter_documented trigger strip_fn strip_mac).
  Notation runh := (run_handler trigger strip_fn strip_mac).

  (* ---- (I) handlers of doccomment-carrying commands commute with the abstraction -------- *)

  Lemma def_abs : forall mac c doc st st1,
      inv st ->
      process_def trigger strip_fn strip_mac mac c doc true st = Ok st1 ->
      exists a1, process_def trigger strip_fn strip_mac mac c doc true (absn st) = Ok a1
                 /\ norm a1 = absn st1 /\ inv st1.
  Proof.
    intros mac c doc st st1 Hinv H. unfold process_def in *.
    destruct (singles c) as [|name ps]; [discriminate|]. inversion H; subst st1; clear H.
    eexists. split; [reflexivity|]. pose proof Hinv as (L & C & D & A). split.
    - rewrite absn_with_def_stack, absn_append by exact Hinv.
      apply agg_eq;
        cbn [norm with_docs with_def_stack append absn documented origins class_stack def_stack
                  awaiting doc_view]; try reflexivity.
      + rewrite map_app, map_doc_view_idem. reflexivity.
      + cbn [map]. rewrite (map_idx_new st true L). cbn [absn documented]. f_equal.
        symmetry. apply (map_idx_stack_app _ _ (length (documented st))); [exact D|lia].
    - apply inv_with_def_stack; [apply inv_append; exact Hinv|].
      cbn [append documented def_stack]. rewrite app_length. cbn [length].
      intros i [Hi|Hi]; [inversion Hi; lia|apply D in Hi; lia].
  Qed.

  Lemma cpa_abs : forall st,
      inv st -> norm (process_cpa (absn st)) = absn (process_cpa st) /\ inv (process_cpa st).
  Proof.
    intros st Hinv. unfold process_cpa. cbn [absn def_stack].
    destruct (def_stack st) as [|[idx|] r] eqn:E; cbn [map map_idx].
    - split; [apply norm_absn|exact Hinv].
    - split; [|apply inv_update; [apply is_class_set_kwargs|exact Hinv]].
      destruct (orig (origins st) idx) eqn:Eo.
      + rewrite (absn_update_visible set_kwargs set_kwargs idx st Hinv Eo
                   (fun e _ => doc_view_set_kwargs e) last_ok_set_kwargs).
        apply norm_update_abs. apply stable_set_kwargs.
      + rewrite (absn_update_invisible set_kwargs idx st Hinv (or_introl Eo) last_ok_set_kwargs).
        apply norm_absn.
    - split; [apply norm_absn|exact Hinv].
  Qed.

  Lemma test_abs : forall sec c doc st,
      inv st ->
      norm (process_test sec c doc true (absn st)) = absn (process_test sec c doc true st)
      /\ inv (process_test sec c doc true st).
  Proof.
    intros sec c doc st Hinv. unfold process_test.
    destruct (Nat.ltb (length (singles c)) 2); [split; [apply norm_absn|exact Hinv]|].
    destruct (scan_name (singles c) []) as [name|]; [|split; [apply norm_absn|exact Hinv]].
    pose proof Hinv as (L & C & D & A). split.
    - apply agg_eq;
        cbn [norm with_docs with_awaiting append absn documented origins class_stack def_stack
                  awaiting]; try reflexivity.
      + rewrite sel_app by exact L. cbn [sel]. rewrite !map_app, map_doc_view_idem. reflexivity.
      + rewrite sel_app by exact L. cbn [sel]. rewrite !map_app. reflexivity.
      + symmetry. apply (map_idx_stack_app _ _ (length (documented st))); [|lia].
        intros i Hi. apply class_at_lt. apply C. exact Hi.
      + symmetry. apply (map_idx_stack_app _ _ (length (documented st))); [exact D|lia].
      + unfold abs_aw. cbn [with_awaiting append awaiting origins documented].
        rewrite L, orig_app_new, rank_app, rank_all by lia.
        rewrite map_length, sel_length by exact L. reflexivity.
    - apply inv_with_awaiting; [apply inv_append; exact Hinv|].
      cbn [append documented]. unfold aw_lt. cbn [aw_index]. rewrite app_length. cbn [length]. lia.
  Qed.

  Lemma append_abs : forall e st,
      inv st -> doc_view e = e ->
      norm (append e true (absn st)) = absn (append e true st) /\ inv (append e true st).
  Proof.
    intros e st Hinv He. split; [|apply inv_append; exact Hinv].
    rewrite absn_append by exact Hinv. rewrite He.
    apply agg_eq; cbn [norm with_docs append absn documented origins class_stack def_stack awaiting];
      try reflexivity.
    rewrite map_app, map_doc_view_idem. cbn [map]. rewrite He. reflexivity.
  Qed.

  Lemma class_abs : forall c doc st,
      inv st ->
      norm (process_class c doc true (absn st)) = absn (process_class c doc true st)
      /\ inv (process_class c doc true st).
  Proof.
    intros c doc st Hinv. unfold process_class.
    destruct (singles c) as [|name supers]; [split; [apply norm_absn|exact Hinv]|].
    pose proof Hinv as (L & C & D & A).
    set (newc := EClass name doc supers [] [] [] []).
    assert (Hnew : absn (append newc true st) = append newc true (absn st)).
    { rewrite absn_append by exact Hinv. reflexivity. }
    assert (Hinv1 : inv (append newc true st)) by (apply inv_append; exact Hinv).
    assert (Hpush : map (map_idx (origins st ++ [true])) (Some (length (documented st)) :: class_stack st)
                    = Some (length (documented (absn st))) :: map (map_idx (origins st)) (class_stack st)).
    { cbn [map]. rewrite (map_idx_new st true L). f_equal.
      apply (map_idx_stack_app _ _ (length (documented st))); [|lia].
      intros i Hi. apply class_at_lt. apply C. exact Hi. }
    assert (Hnewat : class_at (documented st ++ [newc]) (length (documented st))).
    { exists newc. split; [|reflexivity].
      rewrite nth_error_app2 by lia. rewrite Nat.sub_diag. reflexivity. }
    cbn [absn class_stack].
    destruct (class_stack st) as [|[cidx|] r] eqn:Ecs; cbn [map map_idx].
    - (* no class open *)
      split.
      + rewrite absn_with_class_stack. cbn [append origins class_stack]. rewrite Hnew.
        rewrite ?Ecs. rewrite Hpush.
        apply agg_eq;
          cbn [norm with_docs with_class_stack append absn documented origins class_stack def_stack
                    awaiting map]; rewrite ?Ecs; try reflexivity.
        rewrite map_app, map_doc_view_idem. reflexivity.
      + apply inv_with_class_stack; [exact Hinv1|].
        cbn [append class_stack documented]. rewrite Ecs.
        intros i [Hi|[]]. inversion Hi; subst. apply Hnewat.
    - (* a class on top *)
      assert (Hinv2 : inv (with_docs (update_nth cidx (add_inner name)) (append newc true st))).
      { apply inv_update; [apply is_class_add_inner|exact Hinv1]. }
      assert (Habs2 : absn (with_docs (update_nth cidx (add_inner name)) (append newc true st))
                      = append newc true (absn st)).
      { rewrite absn_update_invisible; [exact Hnew|exact Hinv1| |apply last_ok_add_inner].
        right. intros e _. apply doc_view_add_inner. }
      split.
      + rewrite absn_with_class_stack. cbn [with_docs append origins class_stack]. rewrite Habs2.
        rewrite ?Ecs. rewrite Hpush.
        destruct (orig (origins st) cidx);
          apply agg_eq;
          cbn [norm with_docs with_class_stack append absn documented origins class_stack def_stack
                    awaiting map map_idx]; rewrite ?Ecs; try reflexivity.
        * rewrite map_dv_update_erased by (apply doc_view_add_inner).
          rewrite map_app, map_doc_view_idem. reflexivity.
        * rewrite map_app, map_doc_view_idem. reflexivity.
      + apply inv_with_class_stack; [exact Hinv2|].
        cbn [with_docs append class_stack documented]. rewrite Ecs.
        intros i [Hi|Hi].
        * inversion Hi; subst. apply class_at_update; [apply is_class_add_inner|apply Hnewat].
        * apply class_at_update; [apply is_class_add_inner|]. apply class_at_app. apply C. exact Hi.
    - (* a hidden class on top *)
      split.
      + rewrite absn_with_class_stack. cbn [append origins class_stack]. rewrite Hnew.
        rewrite ?Ecs. rewrite Hpush.
        apply agg_eq;
          cbn [norm with_docs with_class_stack append absn documented origins class_stack def_stack
                    awaiting]; rewrite ?Ecs; try reflexivity.
        rewrite map_app, map_doc_view_idem. reflexivity.
      + apply inv_with_class_stack; [exact Hinv1|].
        cbn [append class_stack documented]. rewrite Ecs.
        intros i [Hi|[Hi|Hi]]; [inversion Hi; subst; apply Hnewat|discriminate Hi|].
        apply class_at_app. apply C. right. exact Hi.
  Qed.


  Lemma member_doc_abs : forall b c doc st,
      inv st -> abs_aw st = AwNone ->
      norm (process_member b c doc true (absn st)) = absn (process_member b c doc true st)
      /\ inv (process_member b c doc true st).
  Proof.
    intros b c doc st Hinv Haw. unfold process_member.
    destruct (Nat.ltb (length (singles c)) 2); [split; [apply norm_absn|exact Hinv]|].
    pose proof Hinv as (L & C & D & A).
    cbn [absn class_stack].
    destruct (class_stack st) as [|[cidx|] r] eqn:Ecs; cbn [map map_idx];
      try (split; [apply norm_absn|exact Hinv]).
    set (m := {| m_name := nth 0 (singles c) []; m_doc := doc; m_parent := nth 1 (singles c) [];
                 m_types := skipn 2 (singles c); m_params := []; m_ctor := b; m_macro := false;
                 m_docd := true |}).
    assert (Hcl : class_at (documented st) cidx) by (apply (inv_top_class st cidx r Hinv Ecs)).
    split.
    - destruct (orig (origins st) cidx) eqn:Eo.
      + apply agg_eq;
          cbn [norm with_docs with_awaiting absn documented origins class_stack def_stack awaiting];
          try reflexivity.
        * rewrite (docs_update_visible (add_method b m) (add_method b m) cidx st L Eo)
            by (intros e _; rewrite doc_view_add_method; reflexivity).
          apply map_dv_update_abs. apply (stable_add_method b m eq_refl).
        * symmetry. apply origins_update. exact L.
        * unfold abs_aw. cbn [with_awaiting with_docs awaiting origins documented].
          rewrite Eo, last_ok_after_add by exact Hcl. reflexivity.
      + rewrite norm_absn. apply agg_eq;
          cbn [with_docs with_awaiting absn documented origins class_stack def_stack awaiting];
          try reflexivity.
        * symmetry. apply docs_update_invisible; [exact L|left; exact Eo].
        * symmetry. apply origins_update. exact L.
        * unfold abs_aw at 2. cbn [with_awaiting with_docs awaiting origins documented].
          rewrite Eo. exact Haw.
    - apply inv_with_awaiting; [apply inv_update; [apply is_class_add_method|exact Hinv]|].
      cbn [with_docs documented]. rewrite length_update_nth. unfold aw_lt. cbn [aw_index].
      apply class_at_lt. exact Hcl.
  Qed.

  Lemma member_undoc_abs : forall b c doc st,
      inv st -> abs_aw st = AwNone ->
      absn (process_member b c doc false st) = absn st /\ inv (process_member b c doc false st).
  Proof.
    intros b c doc st Hinv Haw. unfold process_member.
    destruct (Nat.ltb (length (singles c)) 2); [split; [reflexivity|exact Hinv]|].
    pose proof Hinv as (L & C & D & A).
    destruct (class_stack st) as [|[cidx|] r] eqn:Ecs; try (split; [reflexivity|exact Hinv]).
    set (m := {| m_name := nth 0 (singles c) []; m_doc := doc; m_parent := nth 1 (singles c) [];
                 m_types := skipn 2 (singles c); m_params := []; m_ctor := b; m_macro := false;
                 m_docd := false |}).
    assert (Hcl : class_at (documented st) cidx) by (apply (inv_top_class st cidx r Hinv Ecs)).
    split.
    - apply agg_eq;
        cbn [with_docs with_awaiting absn documented origins class_stack def_stack awaiting];
        try reflexivity.
      + apply docs_update_invisible; [exact L|right].
        intros e _. rewrite doc_view_add_method. reflexivity.
      + apply origins_update. exact L.
      + unfold abs_aw at 1. cbn [with_awaiting with_docs awaiting origins documented].
        rewrite last_ok_after_add by exact Hcl. cbn [m m_docd]. rewrite andb_false_r.
        symmetry. exact Haw.
    - apply inv_with_awaiting; [apply inv_update; [apply is_class_add_method|exact Hinv]|].
      cbn [with_docs documented]. rewrite length_update_nth. unfold aw_lt. cbn [aw_index].
      apply class_at_lt. exact Hcl.
  Qed.

  Lemma attr_doc_abs : forall c doc st,
      inv st ->
      norm (process_attr c doc true (absn st)) = absn (process_attr c doc true st)
      /\ inv (process_attr c doc true st).
  Proof.
    intros c doc st Hinv. unfold process_attr.
    destruct (Nat.ltb (length (singles c)) 2); [split; [apply norm_absn|exact Hinv]|].
    cbn [absn class_stack].
    destruct (class_stack st) as [|[cidx|] r] eqn:Ecs; cbn [map map_idx];
      try (split; [apply norm_absn|exact Hinv]).
    set (a := {| a_name := nth 1 (singles c) []; a_doc := doc; a_parent := nth 0 (singles c) [];
                 a_default := nth_error (singles c) 2; a_docd := true |}).
    split; [|apply inv_update; [apply is_class_add_attr|exact Hinv]].
    destruct (orig (origins st) cidx) eqn:Eo.
    - rewrite (absn_update_visible (add_attr a) (add_attr a) cidx st Hinv Eo)
        by (try (intros e _; rewrite doc_view_add_attr; reflexivity); apply last_ok_add_attr).
      apply norm_update_abs. apply (stable_add_attr a eq_refl).
    - rewrite (absn_update_invisible (add_attr a) cidx st Hinv (or_introl Eo) (last_ok_add_attr a)).
      apply norm_absn.
  Qed.

  Lemma attr_undoc_abs : forall c doc st,
      inv st ->
      absn (process_attr c doc false st) = absn st /\ inv (process_attr c doc false st).
  Proof.
    intros c doc st Hinv. unfold process_attr.
    destruct (Nat.ltb (length (singles c)) 2); [split; [reflexivity|exact Hinv]|].
    destruct (class_stack st) as [|[cidx|] r] eqn:Ecs; try (split; [reflexivity|exact Hinv]).
    split; [|apply inv_update; [apply is_class_add_attr|exact Hinv]].
    apply absn_update_invisible; [exact Hinv| |apply last_ok_add_attr].
    right. intros e _. rewrite doc_view_add_attr. reflexivity.
  Qed.

  Lemma set_abs : forall c doc st st1,
      inv st -> process_set c doc true st = Ok st1 ->
      exists a1, process_set c doc true (absn st) = Ok a1 /\ norm a1 = absn st1 /\ inv st1.
  Proof.
    intros c doc st st1 Hinv H. unfold process_set in *.
    destruct (singles c) as [|name vals].
    { inversion H; subst. eexists. split; [reflexivity|]. split; [apply norm_absn|exact Hinv]. }
    destruct vals as [|v [|v2 vals]].
    - inversion H; subst. eexists. split; [reflexivity|]. apply append_abs; [exact Hinv|reflexivity].
    - destruct (unquote v) as [v'|]; [|discriminate]. inversion H; subst.
      eexists. split; [reflexivity|]. apply append_abs; [exact Hinv|reflexivity].
    - inversion H; subst. eexists. split; [reflexivity|]. apply append_abs; [exact Hinv|reflexivity].
  Qed.

  Lemma add_test_abs : forall c doc st,
      inv st ->
      norm (process_add_test c doc true (absn st)) = absn (process_add_test c doc true st)
      /\ inv (process_add_test c doc true st).
  Proof.
    intros c doc st Hinv. unfold process_add_test.
    destruct (Nat.ltb (length (singles c)) 2); [split; [apply norm_absn|exact Hinv]|].
    destruct (scan_name_idx (singles c) 0 (None, [])) as [[ix nm]|];
      [|split; [apply norm_absn|exact Hinv]].
    apply append_abs; [exact Hinv|reflexivity].
  Qed.

  Lemma option_abs : forall c doc st,
      inv st ->
      norm (process_option c doc true (absn st)) = absn (process_option c doc true st)
      /\ inv (process_option c doc true st).
  Proof.
    intros c doc st Hinv. unfold process_option.
    destruct (singles c) as [|a [|b [|v [|w r]]]];
      try (split; [apply norm_absn|exact Hinv]);
      (apply append_abs; [exact Hinv|reflexivity]).
  Qed.

  (* all handlers of a doccomment-carrying command *)
  Lemma doc_handler_abs : forall h c doc st st1,
      inv st ->
      runh h c doc true st = Ok st1 ->
      ((h = HMember \/ h = HCtor) -> abs_aw st = AwNone) ->
      exists a1, runh h c doc true (absn st) = Ok a1 /\ norm a1 = absn st1 /\ inv st1.
  Proof.
    intros h c doc st st1 Hinv H Haw. destruct h; cbn [run_handler] in *.
    - apply def_abs; assumption.
    - apply def_abs; assumption.
    - inversion H; subst. eexists. split; [reflexivity|]. apply cpa_abs. exact Hinv.
    - inversion H; subst. eexists. split; [reflexivity|]. apply test_abs. exact Hinv.
    - inversion H; subst. eexists. split; [reflexivity|]. apply test_abs. exact Hinv.
    - apply set_abs; assumption.
    - inversion H; subst. eexists. split; [reflexivity|]. apply class_abs. exact Hinv.
    - inversion H; subst. eexists. split; [reflexivity|].
      apply member_doc_abs; [exact Hinv|apply Haw; left; reflexivity].
    - inversion H; subst. eexists. split; [reflexivity|].
      apply member_doc_abs; [exact Hinv|apply Haw; right; reflexivity].
    - inversion H; subst. eexists. split; [reflexivity|]. apply attr_doc_abs. exact Hinv.
    - inversion H; subst. eexists. split; [reflexivity|]. apply add_test_abs. exact Hinv.
    - inversion H; subst. eexists. split; [reflexivity|]. apply option_abs. exact Hinv.
  Qed.


  (* ---- (IV) handlers of commands without doccomment are invisible ------------------------- *)

  Definition hidden_abs (h : handler) (a : agg) : agg :=
    match h with
    | HFunction | HMacro => with_def_stack (None :: def_stack a) a
    | HClass => with_class_stack (None :: class_stack a) a
    | _ => a
    end.

  Lemma def_undoc_abs : forall mac c st st',
      inv st ->
      process_def trigger strip_fn strip_mac mac c [] false st = Ok st' ->
      absn st' = with_def_stack (None :: def_stack (absn st)) (absn st) /\ inv st'.
  Proof.
    intros mac c st st' Hinv H. unfold process_def in H.
    destruct (singles c) as [|name ps]; [discriminate|]. inversion H; subst st'; clear H.
    pose proof Hinv as (L & C & D & A). split.
    - rewrite absn_with_def_stack, absn_append by exact Hinv.
      cbn [append origins def_stack map]. rewrite (map_idx_new st false L).
      rewrite (map_idx_stack_app _ _ (length (documented st))); [reflexivity|exact D|lia].
    - apply inv_with_def_stack; [apply inv_append; exact Hinv|].
      cbn [append documented def_stack]. rewrite app_length. cbn [length].
      intros i [Hi|Hi]; [inversion Hi; lia|apply D in Hi; lia].
  Qed.

  Lemma class_undoc_abs : forall c st,
      inv st -> singles c <> [] ->
      absn (process_class c [] false st)
      = with_class_stack (None :: class_stack (absn st)) (absn st)
      /\ inv (process_class c [] false st).
  Proof.
    intros c st Hinv Hs. unfold process_class.
    destruct (singles c) as [|name supers]; [contradiction|].
    pose proof Hinv as (L & C & D & A).
    set (newc := EClass name [] supers [] [] [] []).
    assert (Hinv1 : inv (append newc false st)) by (apply inv_append; exact Hinv).
    assert (Hnew : absn (append newc false st) = absn st).
    { rewrite absn_append by exact Hinv. reflexivity. }
    assert (Hpush : map (map_idx (origins st ++ [false])) (Some (length (documented st)) :: class_stack st)
                    = None :: map (map_idx (origins st)) (class_stack st)).
    { cbn [map]. rewrite (map_idx_new st false L). f_equal.
      apply (map_idx_stack_app _ _ (length (documented st))); [|lia].
      intros i Hi. apply class_at_lt. apply C. exact Hi. }
    assert (Hnewat : class_at (documented st ++ [newc]) (length (documented st))).
    { exists newc. split; [|reflexivity].
      rewrite nth_error_app2 by lia. rewrite Nat.sub_diag. reflexivity. }
    destruct (class_stack st) as [|[cidx|] r] eqn:Ecs.
    - split.
      + rewrite absn_with_class_stack. cbn [append origins class_stack]. rewrite Hnew, ?Ecs, Hpush.
        apply agg_eq; cbn [with_class_stack absn documented origins class_stack def_stack awaiting];
          rewrite ?Ecs; reflexivity.
      + apply inv_with_class_stack; [exact Hinv1|].
        cbn [append class_stack documented]. rewrite Ecs.
        intros i [Hi|[]]. inversion Hi; subst. exact Hnewat.
    - assert (Hinv2 : inv (with_docs (update_nth cidx (add_inner name)) (append newc false st))).
      { apply inv_update; [apply is_class_add_inner|exact Hinv1]. }
      split.
      + rewrite absn_with_class_stack. cbn [with_docs append origins class_stack].
        rewrite absn_update_invisible;
          [|exact Hinv1|right; intros e _; apply doc_view_add_inner|apply last_ok_add_inner].
        rewrite Hnew, ?Ecs, Hpush.
        apply agg_eq; cbn [with_class_stack absn documented origins class_stack def_stack awaiting];
          rewrite ?Ecs; reflexivity.
      + apply inv_with_class_stack; [exact Hinv2|].
        cbn [with_docs append class_stack documented]. rewrite Ecs.
        intros i [Hi|Hi].
        * inversion Hi; subst. apply class_at_update; [apply is_class_add_inner|exact Hnewat].
        * apply class_at_update; [apply is_class_add_inner|]. apply class_at_app. apply C. exact Hi.
    - split.
      + rewrite absn_with_class_stack. cbn [append origins class_stack]. rewrite Hnew, ?Ecs, Hpush.
        apply agg_eq; cbn [with_class_stack absn documented origins class_stack def_stack awaiting];
          rewrite ?Ecs; reflexivity.
      + apply inv_with_class_stack; [exact Hinv1|].
        cbn [append class_stack documented]. rewrite Ecs.
        intros i [Hi|[Hi|Hi]]; [inversion Hi; subst; exact Hnewat|discriminate Hi|].
        apply class_at_app. apply C. right. exact Hi.
  Qed.

  Lemma test_undoc_abs : forall sec c st,
      inv st -> abs_aw st = AwNone ->
      absn (process_test sec c [] false st) = absn st /\ inv (process_test sec c [] false st).
  Proof.
    intros sec c st Hinv Haw. unfold process_test.
    destruct (Nat.ltb (length (singles c)) 2); [split; [reflexivity|exact Hinv]|].
    destruct (scan_name (singles c) []) as [name|]; [|split; [reflexivity|exact Hinv]].
    pose proof Hinv as (L & C & D & A). split.
    - apply agg_eq;
        cbn [with_awaiting append absn documented origins class_stack def_stack awaiting].
      + rewrite sel_app by exact L. cbn [sel]. rewrite app_nil_r. reflexivity.
      + rewrite sel_app by exact L. cbn [sel]. rewrite app_nil_r. reflexivity.
      + apply (map_idx_stack_app _ _ (length (documented st))); [|lia].
        intros i Hi. apply class_at_lt. apply C. exact Hi.
      + apply (map_idx_stack_app _ _ (length (documented st))); [exact D|lia].
      + unfold abs_aw at 1. cbn [with_awaiting append awaiting origins documented].
        rewrite L, orig_app_new. symmetry. exact Haw.
    - apply inv_with_awaiting; [apply inv_append; exact Hinv|].
      cbn [append documented]. unfold aw_lt. cbn [aw_index]. rewrite app_length. cbn [length]. lia.
  Qed.

  Lemma append_undoc_abs : forall e st,
      inv st -> absn (append e false st) = absn st /\ inv (append e false st).
  Proof.
    intros e st Hinv. split; [|apply inv_append; exact Hinv].
    rewrite absn_append by exact Hinv. reflexivity.
  Qed.

  Lemma undoc_handler_abs : forall h c st st',
      inv st ->
      runh h c [] false st = Ok st' ->
      h <> HCpa ->
      (h = HClass -> singles c <> []) ->
      (h = HTest \/ h = HSection \/ h = HMember \/ h = HCtor -> abs_aw st = AwNone) ->
      absn st' = hidden_abs h (absn st) /\ inv st'.
  Proof.
    intros h c st st' Hinv H Hcpa Hcls Haw. destruct h; cbn [run_handler hidden_abs] in *.
    - apply (def_undoc_abs false c); assumption.
    - apply (def_undoc_abs true c); assumption.
    - contradiction Hcpa. reflexivity.
    - inversion H; subst. apply test_undoc_abs; [exact Hinv|apply Haw; tauto].
    - inversion H; subst. apply test_undoc_abs; [exact Hinv|apply Haw; tauto].
    - unfold process_set in H. destruct (singles c) as [|name vals].
      { inversion H; subst. split; [reflexivity|exact Hinv]. }
      destruct vals as [|v [|v2 vals]].
      + inversion H; subst. apply append_undoc_abs. exact Hinv.
      + destruct (unquote v); [|discriminate]. inversion H; subst. apply append_undoc_abs. exact Hinv.
      + inversion H; subst. apply append_undoc_abs. exact Hinv.
    - inversion H; subst. apply class_undoc_abs; [exact Hinv|apply Hcls; reflexivity].
    - inversion H; subst. apply member_undoc_abs; [exact Hinv|apply Haw; tauto].
    - inversion H; subst. apply member_undoc_abs; [exact Hinv|apply Haw; tauto].
    - inversion H; subst. apply attr_undoc_abs. exact Hinv.
    - inversion H; subst. unfold process_add_test.
      destruct (Nat.ltb (length (singles c)) 2); [split; [reflexivity|exact Hinv]|].
      destruct (scan_name_idx (singles c) 0 (None, [])) as [[ix nm]|];
        [apply append_undoc_abs; exact Hinv|split; [reflexivity|exact Hinv]].
    - inversion H; subst. unfold process_option.
      destruct (singles c) as [|a [|b [|v [|w r]]]];
        try (split; [reflexivity|exact Hinv]); apply append_undoc_abs; exact Hinv.
  Qed.

  (* ---- a claimed definition ------------------------------------------------------------------ *)

  Lemma claim_abs : forall mac extra st,
      inv st ->
      absn (with_awaiting AwNone (with_docs (upd_awaiting_entry (awaiting st) mac extra) st))
      = with_awaiting AwNone (with_docs (upd_awaiting_entry (abs_aw st) mac extra) (absn st))
      /\ inv (with_awaiting AwNone (with_docs (upd_awaiting_entry (awaiting st) mac extra) st)).
  Proof.
    intros mac extra st Hinv. pose proof Hinv as (L & C & D & A). split.
    - apply agg_eq;
        cbn [with_awaiting with_docs absn documented origins class_stack def_stack awaiting];
        try reflexivity.
      + rewrite !upd_awaiting_entry_claim. unfold abs_aw.
        destruct (awaiting st) as [|i|i b] eqn:Ea; cbn [aw_index]; [reflexivity| |].
        * destruct (orig (origins st) i) eqn:Eo; cbn [aw_index].
          -- apply (docs_update_visible _ _ i st L Eo). intros e _. apply doc_view_claim_top.
          -- apply docs_update_invisible; [exact L|left; exact Eo].
        * destruct (orig (origins st) i) eqn:Eo; cbn [andb aw_index].
          -- destruct (last_ok b (nth i (documented st) dummy_entry)) eqn:El; cbn [aw_index].
             ++ apply (docs_update_visible _ _ i st L Eo). intros e He.
                rewrite (doc_view_claim_method i (rank (origins st) i)).
                rewrite (nth_error_nth _ _ dummy_entry He) in El. rewrite El. reflexivity.
             ++ apply docs_update_invisible; [exact L|right]. intros e He.
                rewrite (doc_view_claim_method i i).
                rewrite (nth_error_nth _ _ dummy_entry He) in El. rewrite El. reflexivity.
          -- apply docs_update_invisible; [exact L|left; exact Eo].
      + rewrite upd_awaiting_entry_claim.
        destruct (aw_index (awaiting st)) as [i|]; [apply origins_update; exact L|reflexivity].
    - apply inv_with_awaiting; [|exact I].
      destruct (awaiting st) as [|i|i b]; cbn [upd_awaiting_entry].
      + destruct Hinv as (L' & C' & D' & A'). repeat split; assumption.
      + apply inv_update; [|exact Hinv]. intros e. destruct e; reflexivity.
      + apply inv_update; [|exact Hinv]. intros e. destruct e; try reflexivity.
        destruct b; reflexivity.
  Qed.

  Lemma norm_claim : forall a mac extra st,
      norm (with_awaiting AwNone (with_docs (upd_awaiting_entry a mac extra) (absn st)))
      = with_awaiting AwNone (with_docs (upd_awaiting_entry a mac extra) (absn st)).
  Proof.
    intros a mac extra st. apply agg_eq;
      cbn [norm with_awaiting with_docs absn documented origins class_stack def_stack awaiting];
      try reflexivity.
    rewrite upd_awaiting_entry_claim. destruct (aw_index a) as [i|].
    - apply map_dv_update_abs. apply stable_claim.
    - apply map_doc_view_idem.
  Qed.

  Lemma abs_aw_kind : forall st,
      match abs_aw st with
      | AwNone => True
      | AwTop _ => exists i, awaiting st = AwTop i
      | AwMethod _ b => exists i, awaiting st = AwMethod i b
      end.
  Proof.
    intros st. unfold abs_aw. destruct (awaiting st) as [|i|i b]; [exact I| |].
    - destruct (orig (origins st) i); [eexists; reflexivity|exact I].
    - destruct (orig (origins st) i && last_ok b (nth i (documented st) dummy_entry));
        [eexists; reflexivity|exact I].
  Qed.


  (* ---- enter_command by command kind (equations) ------------------------------------------------ *)

  Ltac kprep Hk :=
    unfold enter_command; cbv zeta; unfold cmd_kind in Hk; rewrite Hk;
    eval_closed; eval_lookup;
    cbn [andb orb negb kind_name].

  Definition params_of (a : await) (raw : list str) : list str :=
    match a with AwMethod _ _ => map strip_mem raw | _ => raw end.

  Definition is_plain_handler (h : handler) : bool :=
    match h with
    | HTest | HSection | HMember | HCtor | HAttr | HAddTest | HOption => true
    | _ => false
    end.

  Lemma enter_command_def_eq : forall fl consumed c st h,
      h = HFunction \/ h = HMacro -> cmd_kind c = kind_name h ->
      entercmd fl consumed c st
      = if match awaiting st with AwNone => false | _ => true end
        then
          let st2 := with_awaiting AwNone
                       (with_docs (upd_awaiting_entry (awaiting st)
                                     (str_eqb (kind_name h) (s"macro"))
                                     (skipn 2 (params_of (awaiting st) (singles c)))) st) in
          Ok (if consumed then st2 else with_def_stack (None :: def_stack st2) st2)
        else if consumed then Ok st
             else match include_flag fl h with
                  | Some true => runh h c [] false st
                  | Some false => Ok (with_def_stack (None :: def_stack st) st)
                  | None => Crash
                  end.
  Proof.
    intros fl consumed c st h Hh Hk.
    destruct Hh; subst h; kprep Hk; rewrite skipn2_guard; unfold params_of;
      destruct (match awaiting st with AwNone => false | _ => true end);
      destruct consumed; cbn [negb]; try reflexivity;
      cbn [include_flag]; (destruct (inc_function fl) || destruct (inc_macro fl)); reflexivity.
  Qed.

  Lemma enter_command_class_eq : forall fl consumed c st,
      cmd_kind c = s"cpp_class" ->
      entercmd fl consumed c st
      = if inc_cpp_class fl
        then (if consumed then Ok st else Ok (process_class c [] false st))
        else Ok (with_class_stack (None :: class_stack st) st).
  Proof.
    intros fl consumed c st Hk. kprep Hk. cbn [include_flag run_handler].
    destruct (inc_cpp_class fl); destruct consumed; reflexivity.
  Qed.

  Lemma enter_command_end_class_eq : forall fl consumed c st,
      cmd_kind c = s"cpp_end_class" ->
      entercmd fl consumed c st
      = match class_stack st with [] => Crash | _ :: cs => Ok (with_class_stack cs st) end.
  Proof. intros fl consumed c st Hk. kprep Hk. reflexivity. Qed.

  Lemma enter_command_cpa_eq : forall fl consumed c st,
      cmd_kind c = s"cmake_parse_arguments" ->
      entercmd fl consumed c st = Ok (process_cpa st).
  Proof. intros fl consumed c st Hk. kprep Hk. reflexivity. Qed.

  Lemma enter_command_end_def_eq : forall fl consumed c st,
      cmd_kind c = s"endfunction" \/ cmd_kind c = s"endmacro" ->
      entercmd fl consumed c st
      = match def_stack st with [] => Crash | _ :: ds => Ok (with_def_stack ds st) end.
  Proof. intros fl consumed c st [Hk|Hk]; kprep Hk; reflexivity. Qed.

  Lemma enter_command_set_eq : forall fl consumed c st,
      cmd_kind c = s"set" -> entercmd fl consumed c st = Ok st.
  Proof. intros fl consumed c st Hk. kprep Hk. reflexivity. Qed.

  Lemma enter_command_plain_eq : forall fl consumed c st h,
      is_plain_handler h = true -> cmd_kind c = kind_name h ->
      entercmd fl consumed c st
      = if consumed then Ok st
        else match include_flag fl h with
             | Some true => runh h c [] false st
             | Some false => Ok st
             | None => Crash
             end.
  Proof.
    intros fl consumed c st h Hp Hk.
    destruct h; try discriminate Hp; kprep Hk; destruct consumed; reflexivity.
  Qed.

  Lemma lookup_none_kind : forall k h,
      lookup k handler_table = None -> str_eqb k (kind_name h) = false.
  Proof.
    intros k h L. destruct (str_eqb k (kind_name h)) eqn:E; [|reflexivity].
    apply str_eqb_eq in E. subst k. rewrite lookup_kind_name in L. discriminate L.
  Qed.

  Lemma enter_command_other_eq : forall fl consumed c st,
      lookup (cmd_kind c) handler_table = None ->
      cmd_kind c <> s"cpp_end_class" -> cmd_kind c <> s"endfunction" -> cmd_kind c <> s"endmacro" ->
      entercmd fl consumed c st = Ok st.
  Proof.
    intros fl consumed c st L N1 N2 N3.
    apply str_eqb_neq in N1, N2, N3.
    pose proof (lookup_none_kind _ HClass L) as E1.
    pose proof (lookup_none_kind _ HCpa L) as E2.
    pose proof (lookup_none_kind _ HFunction L) as E3.
    pose proof (lookup_none_kind _ HMacro L) as E4.
    cbn [kind_name] in E1, E2, E3, E4.
    unfold enter_command. cbv zeta. fold (cmd_kind c). unfold is_def_name.
    rewrite E1, E2, E3, E4, N1, N2, N3, L. cbn [andb orb].
    destruct (negb (str_eqb (cmd_kind c) (s"set")) && negb consumed); reflexivity.
  Qed.

  Inductive kcase (k : str) : Prop :=
  | KHandler (h : handler) : k = kind_name h -> kcase k
  | KEndClass : k = s"cpp_end_class" -> kcase k
  | KEndDef : k = s"endfunction" \/ k = s"endmacro" -> kcase k
  | KOther : lookup k handler_table = None -> k <> s"cpp_end_class" -> k <> s"endfunction" ->
             k <> s"endmacro" -> kcase k.

  Lemma kind_cases : forall k, kcase k.
  Proof.
    intros k. destruct (lookup k handler_table) as [h|] eqn:L.
    - apply (KHandler k h). apply lookup_handler_kind. exact L.
    - destruct (str_eqb k (s"cpp_end_class")) eqn:E1;
        [apply KEndClass; apply str_eqb_eq; exact E1|].
      destruct (str_eqb k (s"endfunction")) eqn:E2;
        [apply KEndDef; left; apply str_eqb_eq; exact E2|].
      destruct (str_eqb k (s"endmacro")) eqn:E3;
        [apply KEndDef; right; apply str_eqb_eq; exact E3|].
      apply KOther; try exact L; apply str_eqb_neq; assumption.
  Qed.


  (* ---- enter_command commutes with the abstraction ------------------------------------------------ *)

  Lemma norm_with_def_stack : forall ds a, norm (with_def_stack ds a) = with_def_stack ds (norm a).
  Proof. intros ds a. apply agg_eq; reflexivity. Qed.
  Lemma norm_with_class_stack : forall cs a,
      norm (with_class_stack cs a) = with_class_stack cs (norm a).
  Proof. intros cs a. apply agg_eq; reflexivity. Qed.

  Lemma include_flag_off_def : forall h, h = HFunction \/ h = HMacro ->
      include_flag flags_off h = Some false.
  Proof. intros h [H|H]; subst; reflexivity. Qed.

  Lemma include_flag_off_plain : forall h, is_plain_handler h = true ->
      include_flag flags_off h = Some false.
  Proof. intros h H; destruct h; try discriminate H; reflexivity. Qed.

  Lemma aw_none_of_match : forall a, match a with AwNone => false | _ => true end = false -> a = AwNone.
  Proof. intros a H; destruct a; try discriminate H; reflexivity. Qed.

  Lemma enter_def_abs : forall fl consumed c st st' h,
      h = HFunction \/ h = HMacro -> cmd_kind c = kind_name h ->
      inv st ->
      entercmd fl consumed c st = Ok st' ->
      exists a2, entercmd (if consumed then default_flags else flags_off) consumed c (absn st) = Ok a2
                 /\ norm a2 = absn st' /\ inv st'.
  Proof.
    intros fl consumed c st st' h Hh Hk Hinv H.
    rewrite (enter_command_def_eq fl consumed c st h Hh Hk) in H.
    rewrite (enter_command_def_eq _ consumed c (absn st) h Hh Hk).
    change (awaiting (absn st)) with (abs_aw st).
    set (mac := str_eqb (kind_name h) (s"macro")) in *.
    destruct (match awaiting st with AwNone => false | _ => true end) eqn:Em.
    - (* claimed in the concrete run *)
      cbv zeta in H.
      set (extra := skipn 2 (params_of (awaiting st) (singles c))) in *.
      destruct (claim_abs mac extra st Hinv) as [Hc Hi2].
      set (st2 := with_awaiting AwNone (with_docs (upd_awaiting_entry (awaiting st) mac extra) st)) in *.
      assert (Hst' : st' = if consumed then st2 else with_def_stack (None :: def_stack st2) st2)
        by (inversion H; reflexivity).
      clear H.
      assert (Hinv' : inv st').
      { rewrite Hst'. destruct consumed; [exact Hi2|apply inv_push_none_def; exact Hi2]. }
      destruct (match abs_aw st with AwNone => false | _ => true end) eqn:Em2.
      + (* also claimed abstractly *)
        assert (Hp : params_of (abs_aw st) (singles c) = params_of (awaiting st) (singles c)).
        { pose proof (abs_aw_kind st) as K. destruct (abs_aw st) as [|r|r b]; [discriminate Em2| |];
            destruct K as [i K]; rewrite K; reflexivity. }
        cbv zeta. rewrite Hp. fold extra. eexists. split; [reflexivity|]. split; [|exact Hinv'].
        rewrite Hst'. destruct consumed.
        * rewrite norm_claim. symmetry. exact Hc.
        * rewrite norm_with_def_stack, norm_claim, absn_with_def_stack, Hc. reflexivity.
      + (* invisible claim *)
        apply aw_none_of_match in Em2.
        assert (Hc' : absn st2 = absn st).
        { rewrite Hc, Em2. apply agg_eq; try reflexivity. cbn [with_awaiting awaiting absn].
          symmetry. exact Em2. }
        destruct consumed.
        * eexists. split; [reflexivity|]. split; [|exact Hinv'].
          rewrite norm_absn, Hst'. symmetry. exact Hc'.
        * rewrite (include_flag_off_def h Hh). eexists. split; [reflexivity|]. split; [|exact Hinv'].
          rewrite norm_with_def_stack, norm_absn, Hst', absn_with_def_stack, Hc'. reflexivity.
    - (* not claimed *)
      apply aw_none_of_match in Em.
      assert (Haw : abs_aw st = AwNone) by (unfold abs_aw; rewrite Em; reflexivity).
      rewrite Haw. destruct consumed.
      + inversion H; subst st'. eexists. split; [reflexivity|]. split; [apply norm_absn|exact Hinv].
      + rewrite (include_flag_off_def h Hh). eexists. split; [reflexivity|].
        rewrite norm_with_def_stack, norm_absn.
        destruct (include_flag fl h) as [[|]|]; [| |discriminate H].
        * destruct (undoc_handler_abs h c st st' Hinv H) as [Ha Hi].
          -- destruct Hh; subst h; discriminate.
          -- destruct Hh; subst h; discriminate.
          -- intros [X|[X|[X|X]]]; destruct Hh; subst h; discriminate X.
          -- split; [|exact Hi]. rewrite Ha. destruct Hh; subst h; reflexivity.
        * inversion H; subst st'. split; [|apply inv_push_none_def; exact Hinv].
          rewrite absn_with_def_stack. reflexivity.
  Qed.

  Lemma decl_kind_of_handler : forall h,
      h = HTest \/ h = HSection \/ h = HMember \/ h = HCtor -> is_decl_kind (kind_name h) = true.
  Proof. intros h [X|[X|[X|X]]]; subst; reflexivity. Qed.

  Lemma enter_command_abs : forall fl consumed c st st',
      inv st ->
      entercmd fl consumed c st = Ok st' ->
      (cmd_kind c = s"cpp_class" ->
       if consumed then inc_cpp_class fl = true
       else (inc_cpp_class fl = false \/ singles c <> [])) ->
      (consumed = false -> is_decl_kind (cmd_kind c) = true -> abs_aw st = AwNone) ->
      exists a2, entercmd (if consumed then default_flags else flags_off) consumed c (absn st) = Ok a2
                 /\ norm a2 = absn st' /\ inv st'.
  Proof.
    intros fl consumed c st st' Hinv H Hcls Hdecl.
    destruct (kind_cases (cmd_kind c)) as [h Hk|Hk|Hk|L N1 N2 N3].
    - assert (Hcases : (h = HFunction \/ h = HMacro) \/ h = HCpa \/ h = HSet \/ h = HClass
                       \/ is_plain_handler h = true) by (destruct h; cbn; tauto).
      destruct Hcases as [Hh|[Hh|[Hh|[Hh|Hh]]]].
      + apply (enter_def_abs fl consumed c st st' h Hh Hk Hinv H).
      + subst h. rewrite (enter_command_cpa_eq _ _ _ _ Hk) in H; rewrite (enter_command_cpa_eq _ _ _ _ Hk). inversion H; subst st'.
        eexists. split; [reflexivity|]. apply cpa_abs. exact Hinv.
      + subst h. rewrite (enter_command_set_eq _ _ _ _ Hk) in H; rewrite (enter_command_set_eq _ _ _ _ Hk). inversion H; subst st'.
        eexists. split; [reflexivity|]. split; [apply norm_absn|exact Hinv].
      + subst h. cbn [kind_name] in Hk. specialize (Hcls Hk).
        rewrite (enter_command_class_eq _ _ _ _ Hk) in H; rewrite (enter_command_class_eq _ _ _ _ Hk).
        destruct consumed.
        * rewrite Hcls in H. inversion H; subst st'. cbn [inc_cpp_class default_flags].
          eexists. split; [reflexivity|]. split; [apply norm_absn|exact Hinv].
        * cbn [inc_cpp_class flags_off]. eexists. split; [reflexivity|].
          rewrite norm_with_class_stack, norm_absn.
          destruct (inc_cpp_class fl) eqn:Efl.
          -- destruct Hcls as [Hcls|Hcls]; [discriminate Hcls|].
             inversion H; subst st'.
             destruct (class_undoc_abs c st Hinv Hcls) as [Ha Hi]. split; [symmetry; exact Ha|exact Hi].
          -- inversion H; subst st'. split; [|apply inv_push_none_class; exact Hinv].
             rewrite absn_with_class_stack. reflexivity.
      + rewrite (enter_command_plain_eq _ _ _ _ h Hh Hk) in H; rewrite (enter_command_plain_eq _ _ _ _ h Hh Hk).
        destruct consumed.
        * inversion H; subst st'. eexists. split; [reflexivity|].
          split; [apply norm_absn|exact Hinv].
        * rewrite (include_flag_off_plain h Hh). eexists. split; [reflexivity|].
          rewrite norm_absn.
          destruct (include_flag fl h) as [[|]|]; [| |discriminate H].
          -- destruct (undoc_handler_abs h c st st' Hinv H) as [Ha Hi].
             ++ intros X; subst h; discriminate Hh.
             ++ intros X; subst h; discriminate Hh.
             ++ intros X. apply (Hdecl eq_refl). rewrite Hk. apply decl_kind_of_handler. exact X.
             ++ split; [|exact Hi]. rewrite Ha. destruct h; try discriminate Hh; reflexivity.
          -- inversion H; subst st'. split; [reflexivity|exact Hinv].
    - rewrite (enter_command_end_class_eq _ _ _ _ Hk) in H; rewrite (enter_command_end_class_eq _ _ _ _ Hk).
      change (class_stack (absn st)) with (map (map_idx (origins st)) (class_stack st)).
      destruct (class_stack st) as [|x cs] eqn:Ecs; [discriminate H|]. inversion H; subst st'.
      cbn [map]. eexists. split; [reflexivity|].
      rewrite norm_with_class_stack, norm_absn, absn_with_class_stack. split; [reflexivity|].
      apply inv_with_class_stack; [exact Hinv|]. apply (inv_stack_tail st x cs Hinv Ecs).
    - rewrite (enter_command_end_def_eq _ _ _ _ Hk) in H; rewrite (enter_command_end_def_eq _ _ _ _ Hk).
      change (def_stack (absn st)) with (map (map_idx (origins st)) (def_stack st)).
      destruct (def_stack st) as [|x ds] eqn:Eds; [discriminate H|]. inversion H; subst st'.
      cbn [map]. eexists. split; [reflexivity|].
      rewrite norm_with_def_stack, norm_absn, absn_with_def_stack. split; [reflexivity|].
      apply inv_with_def_stack; [exact Hinv|].
      intros i Hi. destruct Hinv as (_ & _ & D & _). apply D. rewrite Eds. right. exact Hi.
    - rewrite (enter_command_other_eq _ _ _ _ L N1 N2 N3) in H; rewrite (enter_command_other_eq _ _ _ _ L N1 N2 N3). inversion H; subst st'.
      eexists. split; [reflexivity|]. split; [apply norm_absn|exact Hinv].
  Qed.


  (* ---- the documented-only machine ------------------------------------------------------------------ *)

  Definition unnamed_class_cmd (c : cmd) : bool :=
    kind_is c (s"cpp_class") && match singles c with [] => true | _ :: _ => false end.

  (* b: an argument-less undocumented cpp_class is ignored (class option on) rather than
     pushing a hidden frame (class option off) *)
  Definition abs_step (b : bool) (a : agg) (e : element) : result agg :=
    match e with
    | EDocCmd d c =>
        match enterdoc d c a with
        | Ok a1 => match entercmd default_flags true c (norm a1) with
                   | Ok a2 => Ok (norm a2)
                   | Crash => Crash
                   end
        | Crash => Crash
        end
    | ECmd c =>
        if unnamed_class_cmd c && b then Ok a
        else match entercmd flags_off false c a with
             | Ok a2 => Ok (norm a2)
             | Crash => Crash
             end
    | EDangling _ => Ok a
    end.

  Fixpoint abs_run (b : bool) (a : agg) (es : list element) : result agg :=
    match es with
    | [] => Ok a
    | e :: r => match abs_step b a e with
                | Ok a1 => abs_run b a1 r
                | Crash => Crash
                end
    end.

  Definition elem_ok (fl : flags) (b : bool) (e : element) : Prop :=
    match e with
    | EDocCmd _ c => cmd_kind c = s"cpp_class" -> inc_cpp_class fl = true
    | ECmd c => unnamed_class_cmd c = true -> inc_cpp_class fl = b
    | EDangling _ => True
    end.

  Lemma decl_not_def : forall k, is_decl_kind k = true -> is_def_name k = false.
  Proof.
    intros k H. unfold is_decl_kind in H.
    repeat (apply orb_true_iff in H; destruct H as [H|H]);
      apply str_eqb_eq in H; subst k; reflexivity.
  Qed.

  Lemma decl_kind_prop : forall k, is_decl_kind k = false -> ~ k_decl_cmd k.
  Proof.
    intros k H X. unfold k_decl_cmd in X.
    destruct X as [X|[X|[X|X]]]; subst k; discriminate H.
  Qed.

  Lemma step_abs : forall fl b st e st',
      inv st ->
      step fl st e = Ok st' ->
      elem_ok fl b e ->
      (abs_aw st = AwNone \/ elem_is_def e = true) ->
      abs_step b (absn st) e = Ok (absn st') /\ inv st'.
  Proof.
    intros fl b st e st' Hinv H Hok Hpre. destruct e as [d c|c|d].
    - cbn [agg_step] in H. destruct (enterdoc d c st) as [st1|] eqn:E1; [|discriminate H].
      assert (Hdoc : exists a1, enterdoc d c (absn st) = Ok a1 /\ norm a1 = absn st1 /\ inv st1).
      { unfold enter_documented in E1 |- *.
        destruct (lookup (lower_ascii (c_name c)) handler_table) as [h|] eqn:L.
        - apply doc_handler_abs; [exact Hinv|exact E1|].
          intros Hm. destruct Hpre as [Hp|Hp]; [exact Hp|].
          apply lookup_handler_kind in L. unfold elem_is_def in Hp. cbn [elem_kind] in Hp.
          unfold cmd_kind in Hp. rewrite L in Hp. destruct Hm; subst h; discriminate Hp.
        - inversion E1; subst st1. eexists. split; [reflexivity|].
          unfold process_generic. apply append_abs; [exact Hinv|reflexivity]. }
      destruct Hdoc as (a1 & Ea & Hn & Hi1).
      destruct (enter_command_abs fl true c st1 st' Hi1 H) as (a2 & E2 & Hn2 & Hi2).
      + exact Hok.
      + intros X; discriminate X.
      + cbn [abs_step]. rewrite Ea, Hn, E2, Hn2. split; [reflexivity|exact Hi2].
    - cbn [agg_step] in H. cbn [abs_step].
      assert (Hdecl : false = false -> is_decl_kind (cmd_kind c) = true -> abs_aw st = AwNone).
      { intros _ Hd. destruct Hpre as [Hp|Hp]; [exact Hp|].
        unfold elem_is_def in Hp. cbn [elem_kind] in Hp.
        rewrite (decl_not_def _ Hd) in Hp. discriminate Hp. }
      destruct (unnamed_class_cmd c) eqn:Eu.
      + cbn [elem_ok] in Hok. specialize (Hok Eu).
        unfold unnamed_class_cmd in Eu. apply andb_true_iff in Eu. destruct Eu as [Ek Es].
        unfold kind_is in Ek. apply str_eqb_eq in Ek.
        destruct b; cbn [andb].
        * rewrite (enter_command_class_eq _ _ _ _ Ek), Hok in H.
          destruct (singles c) as [|x r] eqn:Hs; [|discriminate Es].
          rewrite (class_no_args_noop c [] false st Hs) in H. inversion H; subst st'.
          split; [reflexivity|exact Hinv].
        * destruct (enter_command_abs fl false c st st' Hinv H) as (a2 & E2 & Hn2 & Hi2).
          -- intros _. left. exact Hok.
          -- exact Hdecl.
          -- rewrite E2, Hn2. split; [reflexivity|exact Hi2].
      + cbn [andb].
        destruct (enter_command_abs fl false c st st' Hinv H) as (a2 & E2 & Hn2 & Hi2).
        * intros Hk. right. intros Hs. unfold unnamed_class_cmd, kind_is in Eu.
          rewrite Hk, Hs in Eu. discriminate Eu.
        * exact Hdecl.
        * rewrite E2, Hn2. split; [reflexivity|exact Hi2].
    - cbn [agg_step] in H. inversion H; subst st'. split; [reflexivity|exact Hinv].
  Qed.

  (* after a step the abstract awaiting slot is empty unless the element was a declaration *)
  Lemma abs_step_aw : forall b a e a',
      abs_step b a e = Ok a' ->
      (awaiting a = AwNone \/ elem_is_def e = true) ->
      elem_is_decl e = true \/ awaiting a' = AwNone.
  Proof.
    intros b a e a' H Hpre.
    destruct e as [d c|c|d].
    - unfold elem_is_decl, elem_is_def in *. cbn [elem_kind] in *.
      destruct (is_decl_kind (cmd_kind c)) eqn:Edecl; [left; reflexivity|right].
      cbn [abs_step] in H.
      destruct (enterdoc d c a) as [a1|] eqn:E1; [|discriminate H].
      destruct (entercmd default_flags true c (norm a1)) as [a2|] eqn:E2; [|discriminate H].
      inversion H; subst a'. cbn [norm with_docs awaiting].
      destruct (is_def_name (cmd_kind c)) eqn:Edef.
      + assert (Hh : exists h, (h = HFunction \/ h = HMacro) /\ cmd_kind c = kind_name h).
        { unfold is_def_name in Edef. apply orb_true_iff in Edef.
          destruct Edef as [X|X]; apply str_eqb_eq in X;
            [exists HFunction|exists HMacro]; split; auto. }
        destruct Hh as (h & Hh & Hk).
        rewrite (enter_command_def_eq _ _ _ _ h Hh Hk) in E2.
        destruct (match awaiting (norm a1) with AwNone => false | _ => true end) eqn:Em.
        * cbv zeta in E2. inversion E2; subst a2. reflexivity.
        * inversion E2; subst a2. apply aw_none_of_match. exact Em.
      + destruct Hpre as [Hp|Hp]; [|discriminate Hp].
        apply (enter_documented_frame trigger strip_fn strip_mac strip_mem) in E1. destruct E1 as (_ & A1 & _).
        apply enter_command_frame in E2. destruct E2 as (_ & A2 & _).
        rewrite A2 by (try exact Edef; apply decl_kind_prop; exact Edecl).
        cbn [norm with_docs awaiting]. rewrite A1 by (apply decl_kind_prop; exact Edecl). exact Hp.
    - unfold elem_is_decl, elem_is_def in *. cbn [elem_kind] in *.
      destruct (is_decl_kind (cmd_kind c)) eqn:Edecl; [left; reflexivity|right].
      cbn [abs_step] in H.
      destruct (is_def_name (cmd_kind c)) eqn:Edef.
      + assert (Hh : exists h, (h = HFunction \/ h = HMacro) /\ cmd_kind c = kind_name h).
        { unfold is_def_name in Edef. apply orb_true_iff in Edef.
          destruct Edef as [X|X]; apply str_eqb_eq in X;
            [exists HFunction|exists HMacro]; split; auto. }
        destruct Hh as (h & Hh & Hk).
        assert (Hu : unnamed_class_cmd c = false).
        { unfold unnamed_class_cmd, kind_is. rewrite Hk. destruct Hh; subst h; reflexivity. }
        rewrite Hu in H. cbn [andb] in H.
        rewrite (enter_command_def_eq _ _ _ _ h Hh Hk) in H.
        destruct (match awaiting a with AwNone => false | _ => true end) eqn:Em.
        * cbv zeta in H. inversion H; subst a'. reflexivity.
        * rewrite (include_flag_off_def h Hh) in H. inversion H; subst a'.
          cbn [norm with_docs with_def_stack awaiting]. apply aw_none_of_match. exact Em.
      + destruct Hpre as [Hp|Hp]; [|discriminate Hp].
        destruct (unnamed_class_cmd c && b); [inversion H; subst a'; exact Hp|].
        destruct (entercmd flags_off false c a) as [a2|] eqn:E2; [|discriminate H].
        inversion H; subst a'. cbn [norm with_docs awaiting].
        apply enter_command_frame in E2. destruct E2 as (_ & A2 & _).
        rewrite A2 by (try exact Edef; apply decl_kind_prop; exact Edecl). exact Hp.
    - cbn [abs_step] in H. inversion H; subst a'. right.
      destruct Hpre as [Hp|Hp]; [exact Hp|discriminate Hp].
  Qed.

  Lemma run_abs : forall fl b es st st',
      inv st ->
      run fl st es = Ok st' ->
      (forall e, In e es -> elem_ok fl b e) ->
      decls_followed es = true ->
      (abs_aw st = AwNone \/ match es with e :: _ => elem_is_def e = true | [] => True end) ->
      abs_run b (absn st) es = Ok (absn st').
  Proof.
    intros fl b es. induction es as [|e r IH]; intros st st' Hinv H Hok Hdf Hpre.
    - cbn in H |- *. inversion H; reflexivity.
    - cbn [agg_run] in H. destruct (step fl st e) as [st1|] eqn:E; [|discriminate H].
      assert (Hpre1 : abs_aw st = AwNone \/ elem_is_def e = true) by exact Hpre.
      destruct (step_abs fl b st e st1 Hinv E (Hok e (or_introl eq_refl)) Hpre1) as [Ha Hi1].
      cbn [abs_run]. rewrite Ha.
      cbn [decls_followed] in Hdf. apply andb_true_iff in Hdf. destruct Hdf as [Hd1 Hd2].
      apply (IH st1 st' Hi1 H); [intros e' He'; apply Hok; right; exact He'|exact Hd2|].
      pose proof (abs_step_aw b (absn st) e (absn st1) Ha) as Hpost.
      change (awaiting (absn st)) with (abs_aw st) in Hpost.
      change (awaiting (absn st1)) with (abs_aw st1) in Hpost.
      destruct (Hpost Hpre1) as [Hdecl|Hnone]; [|left; exact Hnone].
      right. rewrite Hdecl in Hd1. destruct r as [|e2 r2]; [exact I|exact Hd1].
  Qed.


  Lemma no_F9_elem_ok : forall fl es,
      no_F9 fl es = true ->
      (forall e, In e es -> elem_ok fl (inc_cpp_class fl) e)
      /\ (forall e, In e es -> elem_ok default_flags (inc_cpp_class fl) e).
  Proof.
    intros fl es H. unfold no_F9 in H. split; intros e He; destruct e as [d c|c|d]; cbn [elem_ok];
      try exact I; try reflexivity.
    - intros Hk. destruct (inc_cpp_class fl); [reflexivity|]. cbn [orb] in H.
      apply andb_true_iff in H. destruct H as [H _]. apply negb_true_iff in H.
      assert (X : existsb is_doc_class_elem es = true).
      { apply existsb_exists. exists (EDocCmd d c). split; [exact He|].
        cbn [is_doc_class_elem]. unfold kind_is. rewrite Hk. reflexivity. }
      rewrite X in H. discriminate H.
    - intros Hu. destruct (inc_cpp_class fl); [reflexivity|]. cbn [orb] in H.
      apply andb_true_iff in H. destruct H as [_ H]. apply negb_true_iff in H.
      assert (X : existsb is_unnamed_class_elem es = true).
      { apply existsb_exists. exists (ECmd c). split; [exact He|exact Hu]. }
      rewrite X in H. discriminate H.
  Qed.

  (* G5, corrected: under no_F9 and decls_followed every setting yields the same entries from
     doccomment-carrying commands as the default setting *)
  Theorem documented_entries_stable : forall fl f st_fl st_def,
      no_F9 fl (f_elems f) = true ->
      decls_followed (f_elems f) = true ->
      aggregate fl trigger strip_fn strip_mac strip_mem f = Ok st_fl ->
      aggregate default_flags trigger strip_fn strip_mac strip_mem f = Ok st_def ->
      map doc_view (from_doc st_fl) = map doc_view (from_doc st_def).
  Proof.
    intros fl f st_fl st_def HF9 Hdf Hfl Hdef. unfold aggregate in Hfl, Hdef.
    set (st0 := match f_module f with
                | Some t => append (module_entry t) true agg_init
                | None => agg_init
                end) in *.
    assert (Hinv0 : inv st0).
    { unfold st0. destruct (f_module f); [apply inv_append|]; apply inv_init. }
    assert (Haw0 : abs_aw st0 = AwNone).
    { unfold st0. destruct (f_module f); reflexivity. }
    destruct (no_F9_elem_ok fl (f_elems f) HF9) as [Ok1 Ok2].
    pose proof (run_abs fl (inc_cpp_class fl) (f_elems f) st0 st_fl Hinv0 Hfl Ok1 Hdf
                        (or_introl Haw0)) as R1.
    pose proof (run_abs default_flags (inc_cpp_class fl) (f_elems f) st0 st_def Hinv0 Hdef Ok2 Hdf
                        (or_introl Haw0)) as R2.
    assert (E : absn st_fl = absn st_def) by congruence.
    rewrite !from_doc_sel.
    change (map doc_view (sel (documented st_fl) (origins st_fl))) with (documented (absn st_fl)).
    change (map doc_view (sel (documented st_def) (origins st_def))) with (documented (absn st_def)).
    rewrite E. reflexivity.
  Qed.

  (* the same for any two settings *)
  Corollary documented_entries_stable2 : forall fl1 fl2 f st1 st2,
      no_F9 fl1 (f_elems f) = true -> no_F9 fl2 (f_elems f) = true ->
      decls_followed (f_elems f) = true ->
      aggregate default_flags trigger strip_fn strip_mac strip_mem f <> Crash ->
      aggregate fl1 trigger strip_fn strip_mac strip_mem f = Ok st1 ->
      aggregate fl2 trigger strip_fn strip_mac strip_mem f = Ok st2 ->
      map doc_view (from_doc st1) = map doc_view (from_doc st2).
  Proof.
    intros fl1 fl2 f st1 st2 H1 H2 Hdf Hd A1 A2.
    destruct (aggregate default_flags trigger strip_fn strip_mac strip_mem f) as [sd|] eqn:Ed;
      [|contradiction Hd; reflexivity].
    rewrite (documented_entries_stable fl1 f st1 sd H1 Hdf A1 Ed).
    rewrite (documented_entries_stable fl2 f st2 sd H2 Hdf A2 Ed). reflexivity.
  Qed.

End Abstraction.

(* ---- examples: the counterexample to the unrestricted G5, and non-vacuity ------------------- *)

Module FlagExamples.
  Import AggClass.Examples.
  Local Open Scope string_scope.

  Definition flags_member_off : flags :=
    {| inc_function := true; inc_macro := true; inc_cpp_class := true; inc_cpp_attr := true;
       inc_cpp_constructor := true; inc_cpp_member := false; inc_ct_add_test := true;
       inc_ct_add_section := true; inc_add_test := true; inc_option := true |}.

  (* a documented class with a documented member that has no implementation (a virtual member),
     followed by an undocumented member and its implementation *)
  Definition stale_file : cfile :=
    {| f_module := None;
       f_elems :=
         [ EDocCmd dtext (mkc "cpp_class" ["Shape"]);
           EDocCmd dtext (mkc "cpp_member" ["area"; "Shape"]);
           ECmd (mkc "cpp_virtual_member" ["area"]);
           ECmd (mkc "cpp_member" ["helper"; "Shape"; "int"]);
           ECmd (mkc "function" ["${helper}"; "self"; "x"]);
           ECmd (mkc "endfunction" []);
           ECmd (mkc "cpp_end_class" []) ] |}.

  Definition area_method (params : list str) : method :=
    {| m_name := s"area"; m_doc := ddoc; m_parent := s"Shape"; m_types := []; m_params := params;
       m_ctor := false; m_macro := false; m_docd := true |}.

  Definition view (fl : flags) (f : cfile) : option (list entry) :=
    match aggregate fl trg idf idf idf f with
    | Ok st => Some (map doc_view (from_doc st))
    | Crash => None
    end.

  (* G5 as requested (only no_F9) is FALSE: with the member option off the hidden declaration of
     helper does not take over the awaiting slot, so its function is claimed by the documented
     member area, whose signature changes from area() to area(x) *)
  Example documented_entries_stable_refuted :
    no_F9 flags_member_off (f_elems stale_file) = true
    /\ decls_followed (f_elems stale_file) = false
    /\ view flags_member_off stale_file
       = Some [EClass (s"Shape") ddoc [] [] [] [area_method [s"x"]] []]
    /\ view default_flags stale_file
       = Some [EClass (s"Shape") ddoc [] [] [] [area_method []] []]
    /\ method_heading (area_method [s"x"]) = s"area(x)"
    /\ method_heading (area_method []) = s"area()".
  Proof. vm_compute. repeat split. Qed.

  (* a file that satisfies the hypotheses of documented_entries_stable, run with every option off:
     documented and undocumented classes, members, tests, functions, options *)
  Definition good_file : cfile :=
    {| f_module := Some (s"@module demo");
       f_elems :=
         [ EDocCmd dtext (mkc "function" ["f"; "a"; "b"]);
           ECmd (mkc "cmake_parse_arguments" ["x"; "y"]);
           ECmd (mkc "endfunction" []);
           ECmd (mkc "function" ["g"]);
           ECmd (mkc "endfunction" []);
           ECmd (mkc "cpp_class" ["Plain"]);
           ECmd (mkc "cpp_member" ["m"; "Plain"]);
           ECmd (mkc "function" ["${m}"; "self"]);
           ECmd (mkc "endfunction" []);
           ECmd (mkc "cpp_end_class" []);
           EDocCmd dtext (mkc "ct_add_test" ["NAME"; "t1"]);
           ECmd (mkc "function" ["${t1}"]);
           ECmd (mkc "ct_add_section" ["NAME"; "s1"]);
           ECmd (mkc "macro" ["${s1}"]);
           ECmd (mkc "endmacro" []);
           ECmd (mkc "endfunction" []);
           EDocCmd dtext (mkc "option" ["OPT"; "help"]);
           ECmd (mkc "option" ["OPT2"; "help"; "ON"]);
           EDocCmd dtext (mkc "set" ["V"; "1"]);
           EDocCmd dtext (mkc "message" ["hello"]) ] |}.

  Example documented_entries_stable_nonvacuous :
    no_F9 flags_off (f_elems good_file) = true
    /\ decls_followed (f_elems good_file) = true
    /\ (exists st, aggregate flags_off trg idf idf idf good_file = Ok st
                   /\ length (from_doc st) = 6 /\ length (documented st) = 6)
    /\ (exists st, aggregate default_flags trg idf idf idf good_file = Ok st
                   /\ length (from_doc st) = 6 /\ length (documented st) = 10).
  Proof.
    split; [reflexivity|]. split; [reflexivity|]. split.
    - destruct (aggregate flags_off trg idf idf idf good_file) as [st|] eqn:E.
      + exists st. split; [reflexivity|]. revert E. vm_compute. intros E.
        inversion E; subst. split; reflexivity.
      + exfalso. revert E. vm_compute. discriminate.
    - destruct (aggregate default_flags trg idf idf idf good_file) as [st|] eqn:E.
      + exists st. split; [reflexivity|]. revert E. vm_compute. intros E.
        inversion E; subst. split; reflexivity.
      + exfalso. revert E. vm_compute. discriminate.
  Qed.

  (* with the class option on, a doccomment-carrying class and its documented members survive
     every other option being off *)
  Definition flags_only_class : flags :=
    {| inc_function := false; inc_macro := false; inc_cpp_class := true; inc_cpp_attr := false;
       inc_cpp_constructor := false; inc_cpp_member := false; inc_ct_add_test := false;
       inc_ct_add_section := false; inc_add_test := false; inc_option := false |}.
  Definition class_file : cfile :=
    {| f_module := None;
       f_elems :=
         [ EDocCmd dtext (mkc "cpp_class" ["Shape"; "Base"]);
           EDocCmd dtext (mkc "cpp_attr" ["Shape"; "sides"; "4"]);
           ECmd (mkc "cpp_attr" ["Shape"; "hidden"]);
           EDocCmd dtext (mkc "cpp_member" ["area"; "Shape"; "int"]);
           ECmd (mkc "function" ["${area}"; "self"; "scale"]);
           ECmd (mkc "endfunction" []);
           ECmd (mkc "cpp_member" ["helper"; "Shape"]);
           ECmd (mkc "function" ["${helper}"; "self"; "x"]);
           ECmd (mkc "endfunction" []);
           ECmd (mkc "cpp_end_class" []) ] |}.

  Example documented_entries_stable_class_example :
    no_F9 flags_only_class (f_elems class_file) = true
    /\ decls_followed (f_elems class_file) = true
    /\ view flags_only_class class_file = view default_flags class_file
    /\ view default_flags class_file
       = Some [EClass (s"Shape") ddoc [s"Base"] [] []
                      [{| m_name := s"area"; m_doc := ddoc; m_parent := s"Shape";
                          m_types := [s"int"]; m_params := [s"scale"]; m_ctor := false;
                          m_macro := false; m_docd := true |}]
                      [{| a_name := s"sides"; a_doc := ddoc; a_parent := s"Shape";
                          a_default := Some (s"4"); a_docd := true |}]].
  Proof. vm_compute. repeat split. Qed.

  (* F9 on a concrete file: the documented member of a documented class vanishes *)
  Example F9_example :
    no_F9 flags_off (f_elems class_file) = false
    /\ view flags_off class_file = Some [EClass (s"Shape") ddoc [s"Base"] [] [] [] []].
  Proof. vm_compute. repeat split. Qed.

  (* G2 / G3 on concrete steps *)
  Example flag_off_no_entry_example :
    agg_step flags_off trg idf idf idf agg_init (ECmd (mkc "option" ["OPT"; "help"])) = Ok agg_init
    /\ agg_step flags_off trg idf idf idf agg_init (ECmd (mkc "function" ["f"]))
       = Ok (with_def_stack [None] agg_init)
    /\ agg_step default_flags trg idf idf idf agg_init (ECmd (mkc "option" ["OPT"; "help"]))
       = Ok (append (EOption (s"OPT") [] None (s"help")) false agg_init).
  Proof. vm_compute. repeat split. Qed.
End FlagExamples.

(* ==== MAIN THEOREMS ====
   G1  enter_documented_flag_free, enter_command_consumed_flag_free,
       documented_step_flag_independent, documented_class_step_flag_on,
       F9_documented_class_pushes_none
   G2  undocumented_flag_off_no_entry, undocumented_flag_off_entries_unchanged,
       claimed_definition_flag_free
   G3  undocumented_flag_on_as_default, no_flag_kind_step
   G4  flags_only_via_include_flag, run_flags_agree
   G5  documented_entries_stable (with the extra hypothesis decls_followed), documented_entries_stable2
       FlagExamples.documented_entries_stable_refuted (the statement without decls_followed is false)
       support: step_abs, run_abs, enter_command_abs, doc_handler_abs, undoc_handler_abs
       enter_command by kind: enter_command_def_eq, enter_command_class_eq, enter_command_plain_eq,
       enter_command_end_class_eq, enter_command_end_def_eq, enter_command_cpa_eq,
       enter_command_set_eq, enter_command_other_eq *)
Print Assumptions enter_documented_flag_free.
Print Assumptions documented_step_flag_independent.
Print Assumptions documented_class_step_flag_on.
Print Assumptions F9_documented_class_pushes_none.
Print Assumptions undocumented_flag_off_no_entry.
Print Assumptions undocumented_flag_off_entries_unchanged.
Print Assumptions claimed_definition_flag_free.
Print Assumptions undocumented_flag_on_as_default.
Print Assumptions flags_only_via_include_flag.
Print Assumptions run_flags_agree.
Print Assumptions documented_entries_stable.
Print Assumptions documented_entries_stable2.
Print Assumptions FlagExamples.documented_entries_stable_refuted.
Print Assumptions FlagExamples.documented_entries_stable_nonvacuous.
Print Assumptions FlagExamples.documented_entries_stable_class_example.
