(* Proofs/LayoutFacts.v -- property C04: layout (spaces, tabs, CR, LF) added or removed at
   piece boundaries never changes the visible token sequence, nor whether lexing fails.
   Extends the in-context insertion theorem of LexerFacts.v from pieces ending in a
   good character to EVERY piece kind; CRLF line endings for the layout-only fragment. *)
From Coq Require Import String List NArith Bool Arith Lia ZifyBool.
From CMinx Require Import Base.Str Model.Lexer Proofs.LexerFacts.
Import ListNotations.

(* ---- spec ---- *)

(* the pieces printed with gaps[i] inserted after piece i (missing gaps are empty) *)
Fixpoint respace (ps : list token) (gaps : list str) : str :=
  match ps with
  | [] => []
  | p :: r => snd p ++ hd [] gaps ++ respace r (tl gaps)
  end.

Definition all_ws (g : str) : Prop := forallb is_ws g = true.

(* every LF becomes CR LF *)
Fixpoint crlf (x : str) : str :=
  match x with
  | [] => []
  | a :: r => if (a =? 10)%N then cr :: nl :: crlf r else a :: crlf r
  end.

(* piece kinds whose text contains no line ending other than as layout *)
Definition crlf_safe_kind (k : tk) : bool :=
  match k with
  | TIdent | TLParen | TRParen | TSpace | TNewline | TLineComment => true
  | _ => false
  end.


(* ======== part La ======== *)

(* ---- generic helpers ---- *)

Lemma ws_cases (c : char) : is_ws c = true -> c = 32%N \/ c = 9%N \/ c = 13%N \/ c = 10%N.
Proof. unfold is_ws, is_sptab, is_eol. intro H. lia. Qed.

Lemma ws_facts2 (c : char) :
  is_ws c = true ->
  (c =? 91)%N = false /\ (c =? 35)%N = false /\ (c =? 61)%N = false /\ (c =? 92)%N = false /\
  is_ident_start c = false /\ is_ident_char c = false /\ is_unq_char c = false /\
  esc_ok c = true /\ mem c doc_open = false /\ mem c doc_close = false /\
  mem c module_kw = false /\ (c =? 34)%N = false /\ (c =? 40)%N = false /\ (c =? 41)%N = false.
Proof.
  intro H. destruct (ws_cases c H) as [-> | [-> | [-> | ->]]]; repeat split; reflexivity.
Qed.

Lemma count_while_incl (p : char -> bool) (w y : str) (c : char) (z : str) :
  count_while p (w ++ y) <= length w -> p c = false ->
  count_while p (w ++ c :: z) = count_while p (w ++ y).
Proof.
  intros H Hc. induction w as [|a w IH]; cbn [app length] in *.
  - rewrite count_while_cons, Hc. lia.
  - rewrite !(count_while_cons p a) in *. destruct (p a); [|reflexivity].
    rewrite IH by lia. reflexivity.
Qed.

Lemma count_while_all_stop (p : char -> bool) (w : str) (c : char) (z : str) :
  forallb p w = true -> p c = false -> count_while p (w ++ c :: z) = length w.
Proof.
  intros Hw Hc. rewrite (count_while_app_all p w (c :: z) Hw), count_while_cons, Hc. lia.
Qed.

Lemma count_while_split (p : char -> bool) (e1 : str) (b : char) (t : str) :
  forallb p e1 = true -> p b = false -> count_while p (e1 ++ b :: t) = length e1.
Proof. apply count_while_all_stop. Qed.

(* the unquoted run against an arbitrary last character *)
Lemma unq_dich (v : str) (l : char) (y y' : str) :
  (unq_run (v ++ l :: y) < length v /\ unq_run (v ++ l :: y') = unq_run (v ++ l :: y)) \/
  (length v <= unq_run (v ++ l :: y) /\ length v <= unq_run (v ++ l :: y')).
Proof.
  induction v as [| a | a b r IHr IHb] using str_ind2.
  - right. cbn [length]. lia.
  - cbn [app length]. rewrite !(unq_run_cons a).
    destruct (a =? 92)%N.
    + destruct (esc_ok l); [right; lia | left; lia].
    + destruct (is_unq_char a); [right; lia | left; lia].
  - change ((a :: b :: r) ++ l :: y) with (a :: b :: (r ++ l :: y)).
    change ((a :: b :: r) ++ l :: y') with (a :: b :: (r ++ l :: y')).
    rewrite !(unq_run_cons a). cbn [length].
    destruct (a =? 92)%N.
    + destruct (esc_ok b); [|left; lia].
      destruct IHr as [[B1 B2] | [B1 B2]]; [left; lia | right; lia].
    + destruct (is_unq_char a); [|left; lia].
      change (b :: r ++ l :: y) with ((b :: r) ++ l :: y).
      change (b :: r ++ l :: y') with ((b :: r) ++ l :: y').
      destruct IHb as [[B1 B2] | [B1 B2]]; cbn [length] in *; [left; lia | right; lia].
Qed.

(* a run that ends inside or exactly at the end of u, where u does not end in a dangling
   backslash, is not changed by a following stopper *)
Definition nobsl_end (u : str) : bool := negb (last u 0 =? 92)%N.

Lemma unq_incl (u : str) : forall y c z,
  unq_run (u ++ y) <= length u ->
  nobsl_end u = true \/ unq_run (u ++ y) = length u ->
  unq_run (c :: z) = 0 ->
  unq_run (u ++ c :: z) = unq_run (u ++ y).
Proof.
  induction u as [| a | a b r IHr IHb] using str_ind2; intros y c z H Q Hc.
  - cbn [app length] in *. lia.
  - cbn [app length] in *. rewrite !(unq_run_cons a) in *.
    destruct (a =? 92)%N eqn:Ea.
    + exfalso. destruct Q as [Q | Q].
      * unfold nobsl_end in Q. cbn [last] in Q. rewrite Ea in Q. discriminate Q.
      * destruct y as [|b y']; [lia|]. destruct (esc_ok b); lia.
    + destruct (is_unq_char a); [|reflexivity]. rewrite Hc. lia.
  - change ((a :: b :: r) ++ y) with (a :: b :: (r ++ y)) in *.
    change ((a :: b :: r) ++ c :: z) with (a :: b :: (r ++ c :: z)).
    rewrite !(unq_run_cons a) in *. cbn [length] in *.
    assert (Qr : nobsl_end (a :: b :: r) = true -> nobsl_end r = true).
    { unfold nobsl_end. intros E. destruct r as [|r0 r1]; [reflexivity|]. exact E. }
    destruct (a =? 92)%N.
    + destruct (esc_ok b); [|reflexivity].
      rewrite (IHr y c z); [reflexivity | lia | | exact Hc].
      destruct Q as [Q | Q]; [left; apply Qr; exact Q | right; lia].
    + destruct (is_unq_char a); [|reflexivity].
      change (b :: r ++ y) with ((b :: r) ++ y) in *.
      change (b :: r ++ c :: z) with ((b :: r) ++ c :: z).
      rewrite (IHb y c z); [reflexivity | cbn [length]; lia | | exact Hc].
      destruct Q as [Q | Q]; [left | right; cbn [length]; lia].
      unfold nobsl_end in *. exact Q.
Qed.

Lemma ob_mono (q t : str) : opens_bracket q = true -> opens_bracket (q ++ t) = true.
Proof.
  destruct q as [|a q]; cbn [opens_bracket app]; [discriminate|].
  intro H. apply andb_true_iff in H. destruct H as [Ha H]. rewrite Ha. cbn [andb].
  induction q as [|b q IH]; cbn [drop_while app] in *; [discriminate H|].
  destruct (b =? 61)%N; [apply IH; exact H|]. exact H.
Qed.

Lemma drop_while_all (p : char -> bool) (q : str) : drop_while p q = [] -> forallb p q = true.
Proof.
  induction q as [|b q IH]; [reflexivity|]. cbn [drop_while forallb].
  destruct (p b); [exact IH | discriminate].
Qed.

Lemma all_eq_repeat (q : str) : forallb (fun c => (c =? 61)%N) q = true -> q = repeat eqc (length q).
Proof.
  induction q as [|b q IH]; [reflexivity|]. cbn [forallb length repeat]. intro H.
  apply andb_true_iff in H. destruct H as [Hb Hq]. apply N.eqb_eq in Hb. subst b.
  rewrite <- (IH Hq). reflexivity.
Qed.

Lemma ob_split (q t : str) :
  opens_bracket (q ++ t) = true -> opens_bracket q = false -> q <> [] ->
  exists j, q = lbr :: repeat eqc j.
Proof.
  destruct q as [|a q]; [contradiction|]. cbn [opens_bracket app]. intros H Hq _.
  apply andb_true_iff in H. destruct H as [Ha H]. rewrite Ha in Hq. cbn [andb] in Hq.
  apply N.eqb_eq in Ha. subst a.
  assert (D : drop_while (fun c => (c =? 61)%N) q = []).
  { induction q as [|b q IH]; [reflexivity|]. cbn [drop_while app] in *.
    destruct (b =? 61)%N; [apply IH; assumption|]. rewrite H in Hq. discriminate Hq. }
  exists (length q). f_equal. apply all_eq_repeat. apply drop_while_all. exact D.
Qed.

Lemma m_bracket_arg_ge (a : char) (r : str) (n : nat) :
  m_bracket_arg (a :: r) = Some n -> 2 * count_while (fun c => (c =? 61)%N) r + 4 <= n.
Proof.
  cbn [m_bracket_arg]. destruct (a =? 91)%N; [|discriminate].
  destruct (skipn _ r) as [|b r']; [discriminate|]. destruct (b =? 91)%N; [|discriminate].
  destruct (find_sub _ r') as [i|]; [|discriminate]. intro H. inversion H. lia.
Qed.

Lemma m_bracket_arg_opens (x : str) (n : nat) :
  m_bracket_arg x = Some n -> opens_bracket (take_while (fun c => negb (is_eol c)) x) = true.
Proof.
  destruct x as [|a r]; cbn [m_bracket_arg]; [discriminate|].
  destruct (N.eqb_spec a 91) as [Ea|Ea]; [|discriminate]. subst a.
  rewrite skipn_count_while.
  destruct (drop_while (fun c => (c =? 61)%N) r) as [|b r'] eqn:D; [discriminate|].
  destruct (N.eqb_spec b 91) as [Eb|Eb]; [|discriminate]. subst b. intros _.
  cbn [take_while]. change (negb (is_eol 91%N)) with true. cbv iota.
  cbn [opens_bracket]. change (91 =? 91)%N with true. cbn [andb].
  revert D. induction r as [|c r IH]; cbn [drop_while]; [discriminate|].
  destruct (N.eqb_spec c 61) as [Ec|Ec].
  - subst c. intro D. cbn [take_while]. change (negb (is_eol 61%N)) with true. cbv iota.
    cbn [drop_while]. change (61 =? 61)%N with true. cbv iota. apply IH. exact D.
  - intro D. inversion D. subst c. cbn [take_while]. change (negb (is_eol 91%N)) with true.
    cbv iota. cbn [drop_while]. change (91 =? 61)%N with false. cbv iota. reflexivity.
Qed.

Lemma doc_open_opens (r : str) :
  startswith doc_open (hash :: r) = true ->
  opens_bracket (take_while (fun c => negb (is_eol c)) r) = true.
Proof.
  change doc_open with [hash; lbr; lbr; lbr]. cbn [startswith].
  destruct r as [|a [|b r]]; cbn [startswith]; rewrite ?andb_false_r; try discriminate.
  intro H. apply andb_true_iff in H. destruct H as [_ H].
  apply andb_true_iff in H. destruct H as [Ha H].
  apply andb_true_iff in H. destruct H as [Hb _].
  apply N.eqb_eq in Ha, Hb. subst a b. reflexivity.
Qed.

(* ======== part Lb ======== *)

Section InsWs.
Variables (ins : str) (c0 : char) (ins0 : str).
Hypothesis Eins : ins = c0 :: ins0.
Hypothesis Hins : forallb is_ws ins = true.

Lemma c0_ws : is_ws c0 = true.
Proof.
  pose proof Hins as H. rewrite Eins in H. cbn [forallb] in H.
  apply andb_true_iff in H. exact (proj1 H).
Qed.

Lemma ins_no_open : forall c, In c ins -> mem c doc_open = false.
Proof. intros c Hc. apply (ws_facts2 c (ins_ws ins Hins c Hc)). Qed.

Lemma ins_no_kw : forall c, In c ins -> mem c module_kw = false.
Proof. intros c Hc. apply (ws_facts2 c (ins_ws ins Hins c Hc)). Qed.

Lemma sw_len (p w y : str) :
  startswith p (w ++ ins ++ y) = true -> mem c0 p = false -> length p <= length w.
Proof. rewrite Eins. cbn [app]. apply startswith_len_last. Qed.

Lemma sw_stable (p w y : str) :
  (forall c, In c ins -> mem c p = false) ->
  (startswith p (w ++ y) = true -> length p <= length w) ->
  startswith p (w ++ ins ++ y) = startswith p (w ++ y).
Proof.
  intros Hp Hl. destruct (startswith p (w ++ y)) eqn:E.
  - rewrite (startswith_local p w (ins ++ y) y (Hl eq_refl)). exact E.
  - apply startswith_insert_false; assumption.
Qed.

Lemma c0_in : In c0 ins.
Proof. rewrite Eins. left. reflexivity. Qed.

(* -- closed rules: a result that ends at or before the insertion point -- *)

Lemma F_lit (lit w y : str) :
  (forall c, In c ins -> mem c lit = false) ->
  short_opt (m_lit lit (w ++ y)) (length w) ->
  m_lit lit (w ++ ins ++ y) = m_lit lit (w ++ y).
Proof.
  intros Hl H. unfold m_lit in *. rewrite (sw_stable lit w y Hl); [reflexivity|].
  intro E. rewrite E in H. exact H.
Qed.

Lemma F_docstring (w y : str) :
  short_opt (m_docstring (w ++ y)) (length w) ->
  m_docstring (w ++ ins ++ y) = m_docstring (w ++ y).
Proof.
  unfold m_docstring. intro H.
  assert (L4 : startswith doc_open (w ++ ins ++ y) = true -> 4 <= length w).
  { intro E. apply (sw_len doc_open w y E). apply ins_no_open. apply c0_in. }
  destruct (startswith doc_open (w ++ ins ++ y)) eqn:E'.
  - specialize (L4 eq_refl).
    rewrite (startswith_local doc_open w (ins ++ y) y L4) in E'. rewrite E' in *.
    rewrite !(skipn_app_le 4 w) in * by exact L4.
    pose proof (skipn_length 4 w) as Lw. set (w4 := skipn 4 w) in *.
    destruct (find_sub doc_close (w4 ++ y)) as [i|] eqn:F; cbn [short_opt] in H.
    + rewrite (find_sub_local doc_close w4 y (ins ++ y) i F); [reflexivity|].
      change (length doc_close) with 3. lia.
    + rewrite (find_sub_none_insert doc_close w4 ins y (ins_not_in_close ins Hins) F). reflexivity.
  - destruct (startswith doc_open (w ++ y)) eqn:E; [|reflexivity].
    destruct (find_sub doc_close (skipn 4 (w ++ y))) as [i|] eqn:F; [|reflexivity].
    cbn [short_opt] in H. exfalso.
    rewrite (startswith_local doc_open w (ins ++ y) y) in E' by (change (length doc_open) with 4; lia).
    rewrite E in E'. discriminate E'.
Qed.

Lemma c0_facts :
  (c0 =? 91)%N = false /\ (c0 =? 35)%N = false /\ (c0 =? 61)%N = false /\ (c0 =? 92)%N = false /\
  is_ident_start c0 = false /\ is_ident_char c0 = false /\ is_unq_char c0 = false /\
  esc_ok c0 = true /\ (c0 =? 34)%N = false /\ (c0 =? 40)%N = false /\ (c0 =? 41)%N = false.
Proof.
  destruct (ws_facts2 c0 c0_ws) as (H1 & H2 & H3 & H4 & H5 & H6 & H7 & H8 & _ & _ & _ & H9 & H10 & H11).
  repeat split; assumption.
Qed.

Lemma F_bracket_arg (w y : str) :
  short_opt (m_bracket_arg (w ++ y)) (length w) ->
  m_bracket_arg (w ++ ins ++ y) = m_bracket_arg (w ++ y).
Proof.
  destruct c0_facts as (C91 & _ & C61 & _).
  destruct w as [|a w'].
  - cbn [app length]. intro H. rewrite Eins. cbn [app]. rewrite (m_bracket_arg_no c0) by exact C91.
    destruct (m_bracket_arg y) as [n|] eqn:E; [|reflexivity]. cbn [short_opt] in H.
    destruct y as [|a r]; [discriminate E|]. apply m_bracket_arg_ge in E. lia.
  - cbn [app]. destruct (a =? 91)%N eqn:Ea; [|rewrite !m_bracket_arg_no by exact Ea; reflexivity].
    destruct (forallb (fun c : char => (c =? 61)%N) w') eqn:Fw.
    + intro H.
      assert (N : m_bracket_arg (a :: w' ++ ins ++ y) = None).
      { cbn [m_bracket_arg]. rewrite Ea. rewrite Eins. cbn [app].
        rewrite (count_while_all_stop _ w' c0 (ins0 ++ y) Fw C61).
        rewrite skipn_exact. rewrite C91. reflexivity. }
      rewrite N. destruct (m_bracket_arg (a :: w' ++ y)) as [n|] eqn:E; [|reflexivity].
      exfalso. apply m_bracket_arg_ge in E. rewrite (count_while_app_all _ w' y Fw) in E.
      cbn [short_opt length] in H. lia.
    + destruct (forallb_false_split _ w' Fw) as (e1 & c & e5 & -> & F1 & Fc).
      cbn [m_bracket_arg]. rewrite Ea. rewrite <- !app_assoc. cbn [app].
      rewrite !(count_while_all_stop _ e1 c) by assumption.
      rewrite !skipn_exact. destruct (c =? 91)%N; [|reflexivity].
      destruct (find_sub (bracket_close (length e1)) (e5 ++ y)) as [i|] eqn:F; cbn [short_opt]; intro H.
      * rewrite (find_sub_local (bracket_close (length e1)) e5 y (ins ++ y) i F); [reflexivity|].
        rewrite bracket_close_length. cbn [length] in H. rewrite app_length in H. cbn [length] in H. lia.
      * rewrite (find_sub_none_insert _ e5 ins y (ins_not_in_bclose ins Hins (length e1)) F). reflexivity.
Qed.

Lemma F_bracket_comment (w y : str) :
  short_opt (m_bracket_comment (w ++ y)) (length w) ->
  m_bracket_comment (w ++ ins ++ y) = m_bracket_comment (w ++ y).
Proof.
  destruct c0_facts as (_ & C35 & _).
  destruct w as [|a w'].
  - cbn [app length]. intro H. rewrite Eins. cbn [app]. rewrite (m_bracket_comment_no c0) by exact C35.
    destruct y as [|a r]; [reflexivity|]. cbn [m_bracket_comment] in *.
    destruct (a =? 35)%N; [|reflexivity].
    destruct (m_bracket_arg r) as [m|]; cbn [option_map short_opt] in *; [lia | reflexivity].
  - cbn [app m_bracket_comment length]. destruct (a =? 35)%N; [|reflexivity]. intro H.
    rewrite (F_bracket_arg w' y); [reflexivity|].
    destruct (m_bracket_arg (w' ++ y)) as [m|]; cbn [option_map short_opt] in *; [lia | exact I].
Qed.

Lemma F_ident (w y : str) :
  short_opt (m_identifier (w ++ y)) (length w) ->
  m_identifier (w ++ ins ++ y) = m_identifier (w ++ y).
Proof.
  destruct c0_facts as (_ & _ & _ & _ & Cis & Cic & _).
  destruct w as [|a w'].
  - cbn [app length]. intro H. rewrite Eins. cbn [app]. rewrite (m_identifier_no c0) by exact Cis.
    destruct y as [|a r]; [reflexivity|]. cbn [m_identifier] in *.
    destruct (is_ident_start a); cbn [short_opt] in *; [lia | reflexivity].
  - cbn [app m_identifier length]. destruct (is_ident_start a); [|reflexivity].
    cbn [short_opt]. intro H. rewrite Eins. cbn [app].
    rewrite (count_while_incl is_ident_char w' y c0 (ins0 ++ y)); [reflexivity | lia | exact Cic].
Qed.

Lemma F_escape (w y : str) :
  2 <= length w \/ (exists l, w = [l] /\ (l =? 92)%N = false) ->
  m_escape (w ++ ins ++ y) = m_escape (w ++ y).
Proof.
  intros [H | (l & -> & Hl)].
  - destruct w as [|a [|b w']]; cbn [length] in H; try lia. reflexivity.
  - cbn [app]. rewrite !m_escape_no by exact Hl. reflexivity.
Qed.

(* -- open rules: a result that ends strictly before the last character -- *)

Lemma F_unq_strict (v : str) (l : char) (y : str) (B : nat) :
  short_opt (m_unquoted (v ++ l :: y)) B ->
  B < length v \/ (B <= length v /\ (l =? 92)%N = false) ->
  m_unquoted (v ++ l :: ins ++ y) = m_unquoted (v ++ l :: y).
Proof.
  unfold m_unquoted. intros H [HB | [HB Hl]].
  - destruct (unq_dich v l y (ins ++ y)) as [[B1 B2] | [B1 B2]].
    + rewrite B2. reflexivity.
    + destruct (unq_run (v ++ l :: y)) as [|n]; cbn [short_opt] in H; lia.
  - destruct (unq_run_last_cases v l y (ins ++ y) Hl) as [[B1 B2] | [B1 B2]].
    + rewrite B2. reflexivity.
    + destruct (unq_run (v ++ l :: y)) as [|n]; cbn [short_opt] in H; lia.
Qed.

Lemma F_quoted (w y : str) (k : tk) (n : nat) :
  best (w ++ y) = Some (k, n) -> n <= length w ->
  m_quoted (w ++ ins ++ y) = m_quoted (w ++ y).
Proof.
  intros B Ln. destruct w as [|a w'].
  - cbn [length] in Ln. assert (n = 0) by lia. subst n. cbn [app] in *.
    destruct c0_facts as (_ & _ & _ & _ & _ & _ & _ & _ & C34 & _).
    rewrite Eins. cbn [app]. rewrite (m_quoted_no c0) by exact C34.
    destruct y as [|a r]; [reflexivity|].
    destruct (a =? 34)%N eqn:Ea; [|rewrite m_quoted_no by exact Ea; reflexivity].
    apply N.eqb_eq in Ea. subst a. change 34%N with dq in B. rewrite best_dq in B.
    destruct (quoted_body r); discriminate B.
  - cbn [app] in *. destruct (a =? 34)%N eqn:Ea; [|rewrite !m_quoted_no by exact Ea; reflexivity].
    apply N.eqb_eq in Ea. subst a. change 34%N with dq in B. rewrite best_dq in B.
    destruct (quoted_body (w' ++ y)) as [m|] eqn:Q; [|discriminate B].
    inversion B. subst n. cbn [length] in Ln.
    cbn [m_quoted]. change (34 =? 34)%N with true. cbv iota.
    rewrite (quoted_body_app w' m y (ins ++ y) Q) by lia. rewrite Q. reflexivity.
Qed.

End InsWs.

(* ======== part Lc ======== *)

Lemma drop_ws_cases (i y : str) :
  forallb is_ws i = true ->
  (exists c t, drop_while is_sptab (i ++ y) = c :: t /\ is_eol c = true) \/
  drop_while is_sptab (i ++ y) = drop_while is_sptab y.
Proof.
  induction i as [|a i IH]; intro H; [right; reflexivity|].
  cbn [forallb] in H. apply andb_true_iff in H. destruct H as [Ha Hi].
  cbn [app drop_while]. destruct (is_sptab a) eqn:Es.
  - apply IH. exact Hi.
  - left. exists a, (i ++ y). split; [reflexivity|]. unfold is_ws in Ha. rewrite Es in Ha. exact Ha.
Qed.

Lemma skipn_app_add {A} (l1 z : list A) (c : nat) : skipn (length l1 + c) (l1 ++ z) = skipn c z.
Proof. induction l1 as [|a l1 IH]; [reflexivity|]. cbn [length app Nat.add skipn]. exact IH. Qed.

Lemma repeat_eq_all (j : nat) : forallb (fun c : char => (c =? 61)%N) (repeat eqc j) = true.
Proof. induction j as [|j IH]; [reflexivity|]. cbn [repeat forallb]. rewrite IH. reflexivity. Qed.

Lemma lc_end_some (len : nat) (rest : str) : exists r e, lc_end len rest = Some (r, e).
Proof.
  unfold lc_end. destruct rest as [|c r']; [eauto|]. destruct (c =? 13)%N; [|eauto].
  destruct r' as [|c2 r'']; [eauto|]. destruct (c2 =? 10)%N; eauto.
Qed.

Lemma lc_end_cons_ge (len : nat) (c : char) (rest : str) (r : nat) (e : bool) :
  lc_end len (c :: rest) = Some (r, e) -> 2 + len <= r.
Proof.
  unfold lc_end. destruct (c =? 13)%N; [|intro H; inversion H; lia].
  destruct rest as [|c2 r'']; [intro H; inversion H; lia|].
  destruct (c2 =? 10)%N; intro H; inversion H; lia.
Qed.

Lemma sw_open_j (j : nat) (y : str) :
  startswith doc_open (hash :: lbr :: repeat eqc j ++ y) = true -> j = 0.
Proof. destruct j as [|j]; [reflexivity|]. cbn [repeat app]. intro H. discriminate H. Qed.

(* a hash followed by an unfinished bracket opening: every rule is silent or long *)
Lemma hash_open_long (j : nat) (y : str) (k : tk) (n : nat) :
  opens_bracket (take_while (fun c => negb (is_eol c)) (lbr :: repeat eqc j ++ y)) = true ->
  best (hash :: lbr :: repeat eqc j ++ y) = Some (k, n) -> j + 2 < n.
Proof.
  intros Ho B. apply best_inv in B. destruct B as (m & e & Hin & Hm).
  unfold rules in Hin. cbn [In] in Hin.
  repeat (destruct Hin as [Hin | Hin];
          [ inversion Hin; subst m; clear Hin; first [ apply noeof_inv in Hm | idtac ] | ]);
  try contradiction.
  - apply m_char_inv in Hm. destruct Hm as [_ [r Hr]]. discriminate Hr.
  - apply m_char_inv in Hm. destruct Hm as [_ [r Hr]]. discriminate Hr.
  - unfold m_module_docstring in Hm.
    destruct (startswith doc_open _) eqn:E; [|discriminate Hm]. apply sw_open_j in E. subst j.
    cbv zeta in Hm. destruct (startswith module_kw _); [|discriminate Hm].
    destruct (mod_term _ _ _ _); [|discriminate Hm]. inversion Hm. lia.
  - unfold m_docstring in Hm.
    destruct (startswith doc_open _) eqn:E; [|discriminate Hm]. apply sw_open_j in E. subst j.
    destruct (find_sub _ _); [|discriminate Hm]. inversion Hm. lia.
  - unfold m_lit in Hm.
    destruct (startswith doc_open _) eqn:E; [|discriminate Hm]. apply sw_open_j in E. subst j.
    inversion Hm. cbn. lia.
  - unfold m_lit in Hm.
    assert (E : startswith doc_close (hash :: lbr :: repeat eqc j ++ y) = false) by reflexivity.
    rewrite E in Hm. discriminate Hm.
  - rewrite m_identifier_no in Hm by reflexivity. discriminate Hm.
  - rewrite m_unquoted_no in Hm by reflexivity. discriminate Hm.
  - rewrite m_escape_no in Hm by reflexivity. discriminate Hm.
  - rewrite m_quoted_no in Hm by reflexivity. discriminate Hm.
  - rewrite m_bracket_arg_no in Hm by reflexivity. discriminate Hm.
  - cbn [m_bracket_comment] in Hm. change (hash =? 35)%N with true in Hm. cbv iota in Hm.
    destruct (m_bracket_arg (lbr :: repeat eqc j ++ y)) as [q|] eqn:E; [|discriminate Hm].
    cbn [option_map] in Hm. inversion Hm. subst n. apply m_bracket_arg_ge in E.
    rewrite (count_while_app_all _ (repeat eqc j) y (repeat_eq_all j)), repeat_length in E. lia.
  - rewrite m_line_comment_cons in Hm. change (hash =? 35)%N with true in Hm. cbv iota zeta in Hm.
    rewrite Ho in Hm. discriminate Hm.
  - rewrite m_run_no in Hm by reflexivity. discriminate Hm.
  - rewrite m_run_no in Hm by reflexivity. discriminate Hm.
Qed.

Section InsWs2.
Variables (ins : str) (c0 : char) (ins0 : str).
Hypothesis Eins : ins = c0 :: ins0.
Hypothesis Hins : forallb is_ws ins = true.

Lemma F_line_strict (v : str) (l : char) (y : str) (k : tk) (n : nat) :
  best (v ++ l :: y) = Some (k, n) -> n <= length v -> 1 <= length v ->
  m_line_comment (v ++ l :: ins ++ y) = m_line_comment (v ++ l :: y).
Proof.
  intros B Ln L1. destruct v as [|a v']; [cbn [length] in L1; lia|].
  cbn [app length] in *.
  destruct (a =? 35)%N eqn:Ea; [|rewrite !m_line_comment_no by exact Ea; reflexivity].
  apply N.eqb_eq in Ea. subst a.
  assert (M : short_res (m_line_comment (35%N :: v' ++ l :: y)) n).
  { apply (best_max _ _ _ B TLineComment m_line_comment). unfold rules. cbn [In].
    repeat first [left; reflexivity | right]. }
  rewrite !m_line_comment_cons in *. change (35 =? 35)%N with true in *. cbv iota zeta in *.
  set (noeol := fun c : char => negb (is_eol c)) in *.
  rewrite (snoc_app v' l y) in *. rewrite (snoc_app v' l (ins ++ y)).
  set (q := v' ++ [l]) in *.
  assert (Lq : length q = S (length v')) by (unfold q; rewrite app_length; cbn [length]; lia).
  destruct (forallb noeol q) eqn:Fq.
  - rewrite !(take_while_app_all noeol q) in * by exact Fq.
    destruct (opens_bracket q) eqn:Oq.
    + rewrite !(ob_mono q _ Oq). reflexivity.
    + destruct (opens_bracket (q ++ take_while noeol y)) eqn:Ol.
      * exfalso. destruct (ob_split q _ Ol Oq) as [j Ej]; [unfold q; destruct v'; discriminate|].
        rewrite <- (take_while_app_all noeol q y Fq) in Ol.
        rewrite Ej in Ol, B, Lq. cbn [app] in Ol, B.
        pose proof (hash_open_long j y k n Ol B) as HL.
        cbn [length] in Lq. rewrite repeat_length in Lq. lia.
      * exfalso. destruct (lc_end_some (length (q ++ take_while noeol y))
                                       (skipn (length (q ++ take_while noeol y)) (q ++ y)))
          as (r & e & E).
        rewrite E in M. cbn [short_res] in M. apply lc_end_ge in E.
        rewrite app_length in E. lia.
  - destruct (forallb_false_split noeol q Fq) as (q1 & c & q5 & Eq & F1 & Fc).
    rewrite Eq in *. rewrite <- !app_assoc in *. cbn [app] in *.
    rewrite !(take_while_app_stop noeol q1 c) in * by assumption.
    rewrite !skipn_exact in *.
    destruct (opens_bracket q1); [reflexivity|].
    destruct q5 as [|c2 q6].
    + exfalso. cbn [app] in M.
      destruct (lc_end (length q1) (c :: y)) as [[r e]|] eqn:E; cbn [short_res] in M.
      * apply lc_end_cons_ge in E. rewrite app_length in Lq. cbn [length] in Lq. lia.
      * destruct (lc_end_some (length q1) (c :: y)) as (r & e & E2). rewrite E2 in E. discriminate E.
    + reflexivity.
Qed.

End InsWs2.

(* ======== part Ld ======== *)

Lemma mod_term_find (f : nat) : forall from bend x e,
  mod_term f from bend x = Some e ->
  exists i, find_sub doc_close (skipn from x) = Some i /\ from + i + 3 <= e.
Proof.
  destruct f as [|f]; intros from bend x e H; [discriminate H|].
  rewrite mod_term_S in H. destruct (find_sub doc_close (skipn from x)) as [i|]; [|discriminate H].
  exists i. split; [reflexivity|]. cbv zeta in H.
  destruct (Nat.leb (from + i + 3) bend).
  - destruct (mod_term f (from + i + 3) bend x) as [e'|] eqn:M.
    + inversion H. subst e'. apply mod_term_gt in M. lia.
    + inversion H. lia.
  - inversion H. lia.
Qed.

Lemma count_le_find (x : str) (i : nat) :
  find_sub doc_close x = Some i -> count_while is_sptab x <= i.
Proof.
  revert i. induction x as [|a t IH]; intros i H; [cbn; lia|].
  rewrite find_sub_cons in H. rewrite count_while_cons.
  destruct (startswith doc_close (a :: t)) eqn:E.
  - change doc_close with [hash; rbr; rbr] in E. cbn [startswith] in E.
    apply andb_true_iff in E. destruct E as [E _]. apply N.eqb_eq in E. subst a.
    change (is_sptab hash) with false. cbv iota. lia.
  - destruct (find_sub doc_close t) as [j|]; cbn [option_map] in H; [|discriminate H].
    inversion H. subst i. specialize (IH j eq_refl). destruct (is_sptab a); lia.
Qed.

Lemma find_sub_sw (p x : str) (i : nat) :
  find_sub p x = Some i -> startswith p (skipn i x) = true.
Proof.
  revert i. induction x as [|a t IH]; intros i H.
  - cbn [find_sub] in H. destruct (startswith p []) eqn:E; [|discriminate H].
    inversion H. subst i. exact E.
  - rewrite find_sub_cons in H. destruct (startswith p (a :: t)) eqn:E.
    + inversion H. subst i. exact E.
    + destruct (find_sub p t) as [j|]; cbn [option_map] in H; [|discriminate H].
      inversion H. subst i. cbn [skipn]. apply IH. reflexivity.
Qed.

Lemma nth_error_skipn {A} (a : nat) : forall (x : list A) (b : nat),
  nth_error (skipn a x) b = nth_error x (a + b).
Proof.
  induction a as [|a IH]; intros x b; [reflexivity|].
  destruct x as [|c x]; [destruct b; reflexivity|]. cbn [skipn Nat.add nth_error]. apply IH.
Qed.

Lemma sw_close_nth (x : str) : startswith doc_close x = true -> nth_error x 2 = Some rbr.
Proof.
  change doc_close with [hash; rbr; rbr].
  destruct x as [|a [|b [|c x]]]; cbn [startswith]; rewrite ?andb_false_r; try discriminate.
  intro H. apply andb_true_iff in H. destruct H as [_ H].
  apply andb_true_iff in H. destruct H as [_ H].
  apply andb_true_iff in H. destruct H as [H _]. apply N.eqb_eq in H. subst c. reflexivity.
Qed.

Lemma mod_term_last (f : nat) : forall from bend x e,
  mod_term f from bend x = Some e -> 3 <= e /\ nth_error x (e - 1) = Some rbr.
Proof.
  induction f as [|f IH]; intros from bend x e H; [discriminate H|].
  rewrite mod_term_S in H.
  destruct (find_sub doc_close (skipn from x)) as [i|] eqn:F; [|discriminate H].
  assert (Here : 3 <= from + i + 3 /\ nth_error x (from + i + 3 - 1) = Some rbr).
  { split; [lia|]. apply find_sub_sw in F. apply sw_close_nth in F.
    rewrite !nth_error_skipn in F. rewrite <- F. f_equal. lia. }
  cbv zeta in H. destruct (Nat.leb (from + i + 3) bend).
  - destruct (mod_term f (from + i + 3) bend x) as [e'|] eqn:M.
    + inversion H. subst e'. exact (IH _ _ _ _ M).
    + inversion H. subst e. exact Here.
  - inversion H. subst e. exact Here.
Qed.

Lemma m_module_last (x : str) (n : nat) :
  m_module_docstring x = Some n -> 1 <= n /\ nth_error x (n - 1) = Some rbr.
Proof.
  unfold m_module_docstring. destruct (startswith doc_open x); [|discriminate]. cbv zeta.
  destruct (startswith module_kw _); [|discriminate].
  destruct (mod_term _ _ _ _) as [e|] eqn:M; [|discriminate].
  remember (count_while is_sptab (skipn 4 x)) as k0 eqn:Ek0.
  intro H. injection H as Hn. subst n. apply mod_term_last in M. destruct M as [M1 M2].
  split; [lia|]. rewrite !nth_error_skipn in M2. rewrite <- M2. f_equal. lia.
Qed.

Section InsWs3.
Variables (ins : str) (c0 : char) (ins0 : str).
Hypothesis Eins : ins = c0 :: ins0.
Hypothesis Hins : forallb is_ws ins = true.

Lemma mod_term_incl (w3 y : str) (bend bend' Bd : nat) (f : nat) : forall from,
  from <= length w3 -> Bd <= length w3 ->
  (bend = bend' \/ (Bd <= bend /\ Bd <= bend')) ->
  short_opt (mod_term f from bend (w3 ++ y)) Bd ->
  mod_term f from bend' (w3 ++ ins ++ y) = mod_term f from bend (w3 ++ y).
Proof.
  induction f as [|f IH]; intros from Lf LB Hb H; [reflexivity|].
  rewrite !mod_term_S in *. rewrite !(skipn_app_le from w3) in * by exact Lf.
  pose proof (skipn_length from w3) as Lv. set (v' := skipn from w3) in *.
  destruct (find_sub doc_close (v' ++ y)) as [i|] eqn:F.
  - cbv zeta in *. destruct (Nat.le_gt_cases (from + i + 3) Bd) as [Le|Gt].
    + rewrite (find_sub_local doc_close v' y (ins ++ y) i F)
        by (change (length doc_close) with 3; lia).
      assert (Eb : Nat.leb (from + i + 3) bend' = Nat.leb (from + i + 3) bend).
      { destruct Hb as [-> | [B1 B2]]; [reflexivity|].
        rewrite (proj2 (Nat.leb_le _ _)) by lia. rewrite (proj2 (Nat.leb_le _ _)) by lia.
        reflexivity. }
      rewrite Eb. destruct (Nat.leb (from + i + 3) bend); [|reflexivity].
      rewrite (IH (from + i + 3)); [reflexivity | lia | exact LB | exact Hb |].
      destruct (mod_term f (from + i + 3) bend (w3 ++ y)); cbn [short_opt] in *; [exact H | exact I].
    + exfalso. destruct (Nat.leb (from + i + 3) bend).
      * destruct (mod_term f (from + i + 3) bend (w3 ++ y)) as [e'|] eqn:M; cbn [short_opt] in H.
        -- apply mod_term_gt in M. lia.
        -- lia.
      * cbn [short_opt] in H. lia.
  - rewrite (find_sub_none_insert doc_close v' ins y (ins_not_in_close ins Hins) F). reflexivity.
Qed.

Lemma F_module_none (w y : str) :
  m_module_docstring (w ++ y) = None -> m_module_docstring (w ++ ins ++ y) = None.
Proof.
  unfold m_module_docstring. cbv zeta.
  destruct (startswith doc_open (w ++ ins ++ y)) eqn:E'; [|reflexivity].
  assert (L4 : 4 <= length w).
  { apply (sw_len ins c0 ins0 Eins doc_open w y E'). apply (ins_no_open ins Hins). apply (c0_in ins c0 ins0 Eins). }
  rewrite (startswith_local doc_open w (ins ++ y) y L4) in E'. rewrite E'.
  rewrite !(skipn_app_le 4 w) by exact L4. set (w1 := skipn 4 w).
  destruct (forallb is_sptab w1) eqn:F1.
  - rewrite !(count_while_app_all is_sptab w1) by exact F1.
    rewrite !skipn_app_add. rewrite !skipn_count_while.
    destruct (drop_ws_cases ins y Hins) as [(c & t & Ed & Ec) | Ed]; rewrite Ed.
    + intros _.
      assert (K : startswith module_kw (c :: t) = false).
      { change module_kw with (64%N :: s"module"). cbn [startswith].
        unfold is_eol in Ec. destruct (N.eqb_spec 64 c) as [<-|]; [discriminate Ec | reflexivity]. }
      rewrite K. reflexivity.
    + destruct (startswith module_kw (drop_while is_sptab y)); [|reflexivity].
      destruct (mod_term _ _ _ _); [discriminate | reflexivity].
  - destruct (forallb_false_split is_sptab w1 F1) as (s1 & c & s5 & -> & Fs & Fc).
    rewrite <- !app_assoc. cbn [app].
    rewrite !(count_while_all_stop is_sptab s1 c) by assumption.
    rewrite !skipn_exact.
    change (c :: s5 ++ ins ++ y) with ((c :: s5) ++ ins ++ y).
    change (c :: s5 ++ y) with ((c :: s5) ++ y). set (w2 := c :: s5).
    destruct (startswith module_kw (w2 ++ ins ++ y)) eqn:K'; [|reflexivity].
    assert (L7 : 7 <= length w2).
    { apply (sw_len ins c0 ins0 Eins module_kw w2 y K'). apply (ins_no_kw ins Hins). apply (c0_in ins c0 ins0 Eins). }
    rewrite (startswith_local module_kw w2 (ins ++ y) y L7) in K'. rewrite K'.
    rewrite !(skipn_app_le 7 w2) by exact L7. set (w3 := skipn 7 w2).
    destruct (mod_term (S (length (w3 ++ y))) 0 _ (w3 ++ y)) as [e|] eqn:M; [discriminate|].
    intros _. rewrite mod_term_S in M. rewrite mod_term_S. cbn [skipn] in *.
    destruct (find_sub doc_close (w3 ++ y)) as [i|] eqn:F.
    + cbv zeta in M. destruct (Nat.leb _ _) in M; [destruct (mod_term _ _ _ _) in M|]; discriminate M.
    + rewrite (find_sub_none_insert doc_close w3 ins y (ins_not_in_close ins Hins) F). reflexivity.
Qed.

Lemma F_module_some (v : str) (l : char) (y : str) (r : nat) :
  m_module_docstring (v ++ l :: y) = Some r ->
  r <= length v \/ (r <= S (length v) /\ (l =? 92)%N = false) ->
  m_module_docstring (v ++ l :: ins ++ y) = Some r.
Proof.
  intros H HB.
  assert (HB' : r <= S (length v)) by lia.
  unfold m_module_docstring in *. cbv zeta in *.
  destruct (startswith doc_open (v ++ l :: y)) eqn:E; [|discriminate H].
  remember (count_while is_sptab (skipn 4 (v ++ l :: y))) as k0 eqn:Ek0.
  destruct (startswith module_kw (skipn k0 (skipn 4 (v ++ l :: y)))) eqn:K; [|discriminate H].
  remember (count_while is_sptab (skipn 7 (skipn k0 (skipn 4 (v ++ l :: y))))) as k eqn:Ek.
  destruct (mod_term _ _ _ _) as [e|] eqn:M in H; [|discriminate H].
  assert (Hr : 4 + k0 + 7 + e = r) by (injection H; intro X; exact X). clear H.
  pose proof (mod_term_find _ _ _ _ _ M) as (i & Fi & Li). rewrite skipn_O in Fi. cbn [Nat.add] in Li.
  assert (L4 : 4 <= length v) by lia.
  rewrite (snoc_app v l y) in E. rewrite (snoc_app v l (ins ++ y)).
  rewrite (startswith_local doc_open (v ++ [l]) (ins ++ y) y)
    by (rewrite app_length; cbn; lia).
  rewrite E. rewrite <- !snoc_app.
  rewrite !(skipn_app_le 4 v) in * by exact L4.
  pose proof (skipn_length 4 v) as L1. set (v1 := skipn 4 v) in *.
  assert (Lk0 : k0 <= length v1) by lia.
  rewrite (count_while_stop_local is_sptab v1 l y (ins ++ y)) by (rewrite <- Ek0; exact Lk0).
  rewrite <- Ek0. rewrite !(skipn_app_le k0 v1) in * by exact Lk0.
  pose proof (skipn_length k0 v1) as L2. set (v2 := skipn k0 v1) in *.
  assert (L7 : 7 <= length v2) by lia.
  rewrite (snoc_app v2 l y) in K. rewrite (snoc_app v2 l (ins ++ y)).
  rewrite (startswith_local module_kw (v2 ++ [l]) (ins ++ y) y)
    by (rewrite app_length; cbn; lia).
  rewrite K. rewrite <- !snoc_app.
  rewrite !(skipn_app_le 7 v2) in * by exact L7.
  pose proof (skipn_length 7 v2) as L3. set (v3 := skipn 7 v2) in *.
  pose proof (count_le_find _ _ Fi) as Lk. rewrite <- Ek in Lk.
  assert (Lk3 : k <= length v3) by lia.
  rewrite (count_while_stop_local is_sptab v3 l y (ins ++ y)) by (rewrite <- Ek; exact Lk3).
  rewrite <- Ek.
  set (bend := match k with 0 => 0 | S _ => k + unq_run (skipn k (v3 ++ l :: y)) end) in *.
  set (bend' := match k with 0 => 0 | S _ => k + unq_run (skipn k (v3 ++ l :: ins ++ y)) end).
  set (Bd := if Nat.leb r (length v) then length v3 else S (length v3)).
  assert (LBd : e <= Bd /\ Bd <= S (length v3)).
  { unfold Bd. destruct (Nat.leb_spec r (length v)); lia. }
  assert (Hb : bend = bend' \/ (Bd <= bend /\ Bd <= bend')).
  { unfold bend, bend'. destruct k as [|k'] eqn:Ek'; [left; reflexivity|].
    rewrite !(skipn_app_le (S k') v3) by exact Lk3.
    pose proof (skipn_length (S k') v3) as L5. set (v4 := skipn (S k') v3) in *.
    unfold Bd. destruct (Nat.leb_spec r (length v)) as [Lr|Lr].
    - destruct (unq_dich v4 l y (ins ++ y)) as [[B1 B2] | [B1 B2]].
      + left. rewrite B2. reflexivity.
      + right. lia.
    - assert (Hl : (l =? 92)%N = false) by (destruct HB as [HB|[_ HB]]; [lia | exact HB]).
      destruct (unq_run_last_cases v4 l y (ins ++ y) Hl) as [[B1 B2] | [B1 B2]].
      + left. rewrite B2. reflexivity.
      + right. lia. }
  rewrite (mod_term_fuel (S (length (v3 ++ l :: y))) (S (length (v3 ++ l :: ins ++ y)))
                         0 bend (v3 ++ l :: y)) in M
    by (rewrite ?app_length; cbn [length]; rewrite ?app_length; lia).
  rewrite (snoc_app v3 l y) in M. rewrite (snoc_app v3 l (ins ++ y)) in *.
  rewrite (mod_term_incl (v3 ++ [l]) y bend bend' Bd _ 0); [rewrite M, Hr; reflexivity | lia | | exact Hb |].
  - rewrite app_length. cbn [length]. lia.
  - rewrite M. cbn [short_opt]. lia.
Qed.

Lemma F_module (v : str) (l : char) (y : str) (B : nat) :
  short_opt (m_module_docstring (v ++ l :: y)) B ->
  B <= length v \/ (B <= S (length v) /\ (l =? 92)%N = false) ->
  m_module_docstring (v ++ l :: ins ++ y) = m_module_docstring (v ++ l :: y).
Proof.
  intros H HB. destruct (m_module_docstring (v ++ l :: y)) as [r|] eqn:E.
  - cbn [short_opt] in H. apply F_module_some; [exact E | lia].
  - rewrite snoc_app in *. apply F_module_none. exact E.
Qed.

(* inclusive bound: a module docstring ending exactly at the insertion point ends in a bracket *)
Lemma F_module_incl (w y : str) :
  w <> [] -> short_opt (m_module_docstring (w ++ y)) (length w) ->
  m_module_docstring (w ++ ins ++ y) = m_module_docstring (w ++ y).
Proof.
  intros Hw H. destruct (exists_last Hw) as (v & l & ->).
  rewrite <- !snoc_app in *. rewrite app_length in H. cbn [length] in H.
  destruct (m_module_docstring (v ++ l :: y)) as [r|] eqn:E.
  - cbn [short_opt] in H. rewrite <- E.
    apply (F_module v l y r); [rewrite E; cbn [short_opt]; lia|].
    destruct (Nat.eq_dec r (length v + 1)) as [Er|Er]; [|left; lia].
    right. split; [lia|].
    apply m_module_last in E. destruct E as [_ E]. subst r.
    replace (length v + 1 - 1) with (length v) in E by lia.
    rewrite nth_error_app2 in E by lia. rewrite Nat.sub_diag in E. cbn in E.
    inversion E. reflexivity.
  - rewrite <- E. apply (F_module v l y 0); [rewrite E; exact I | left; lia].
Qed.

End InsWs3.

(* ======== part Le ======== *)

Lemma best_bsl_ge2 (r : str) (k : tk) (n : nat) : best (bsl :: r) = Some (k, n) -> 2 <= n.
Proof.
  rewrite best_results. kill_rules. unfold m_unquoted. rewrite unq_run_cons.
  change (bsl =? 92)%N with true. cbv iota.
  destruct r as [|b r']; [cbn; discriminate|].
  cbn [m_escape]. change (bsl =? 92)%N with true. cbn [andb].
  destruct (esc_ok b); cbn [pick noeof]; [|discriminate].
  unfold better. cbn [fst snd]. destruct (Nat.ltb_spec (S (S (unq_run r'))) 2) as [L|L]; [lia|].
  cbn [orb]. destruct (Nat.eqb_spec 2 (S (S (unq_run r')))) as [Eq|Eq]; cbn [andb];
    intro H; inversion H; lia.
Qed.

Section InsWs4.
Variables (ins : str) (c0 : char) (ins0 : str).
Hypothesis Eins : ins = c0 :: ins0.
Hypothesis Hins : forallb is_ws ins = true.

(* the decision of the lexer at an earlier piece start is not changed by layout inserted
   after ANY later character, as long as the piece ends before that character *)
Theorem best_insert_far : forall v l y k n,
  best (v ++ l :: y) = Some (k, n) -> 1 <= n -> n <= length v ->
  n < length v \/ (l =? 92)%N = false ->
  best (v ++ l :: ins ++ y) = Some (k, n).
Proof.
  intros v l y k n B L1 Ln Hl.
  pose proof (best_max _ _ _ B) as M.
  assert (Lw : length (v ++ [l]) = S (length v)) by (rewrite app_length; cbn [length]; lia).
  assert (E3 : m_module_docstring (v ++ l :: ins ++ y) = m_module_docstring (v ++ l :: y)).
  { apply (F_module ins c0 ins0 Eins Hins v l y n); [|left; exact Ln].
    apply (short_noeof _ n); [|lia].
    apply (M TModuleDoc (fun x => noeof (m_module_docstring x))). in_rules. }
  assert (E4 : m_docstring (v ++ l :: ins ++ y) = m_docstring (v ++ l :: y)).
  { rewrite (snoc_app v l y), (snoc_app v l (ins ++ y)). apply (F_docstring ins c0 ins0 Eins Hins). rewrite <- snoc_app.
    apply (short_noeof _ n); [|lia].
    apply (M TDocstring (fun x => noeof (m_docstring x))). in_rules. }
  assert (E5 : m_lit doc_open (v ++ l :: ins ++ y) = m_lit doc_open (v ++ l :: y)).
  { rewrite (snoc_app v l y), (snoc_app v l (ins ++ y)). apply (F_lit ins); [apply (ins_no_open ins Hins)|].
    rewrite <- snoc_app. apply (short_noeof _ n); [|lia].
    apply (M TDocStart (fun x => noeof (m_lit doc_open x))). in_rules. }
  assert (E6 : m_lit doc_close (v ++ l :: ins ++ y) = m_lit doc_close (v ++ l :: y)).
  { rewrite (snoc_app v l y), (snoc_app v l (ins ++ y)). apply (F_lit ins); [apply (ins_not_in_close ins Hins)|].
    rewrite <- snoc_app. apply (short_noeof _ n); [|lia].
    apply (M TBlockEnd (fun x => noeof (m_lit doc_close x))). in_rules. }
  assert (E7 : m_identifier (v ++ l :: ins ++ y) = m_identifier (v ++ l :: y)).
  { rewrite (snoc_app v l y), (snoc_app v l (ins ++ y)). apply (F_ident ins c0 ins0 Eins Hins). rewrite <- snoc_app.
    apply (short_noeof _ n); [|lia].
    apply (M TIdent (fun x => noeof (m_identifier x))). in_rules. }
  assert (E8 : m_unquoted (v ++ l :: ins ++ y) = m_unquoted (v ++ l :: y)).
  { apply (F_unq_strict ins Hins v l y n).
    - apply (short_noeof _ n); [|lia].
      apply (M TUnquoted (fun x => noeof (m_unquoted x))). in_rules.
    - destruct Hl as [Hl|Hl]; [left; exact Hl | right; split; assumption]. }
  assert (E9 : m_escape (v ++ l :: ins ++ y) = m_escape (v ++ l :: y)).
  { rewrite (snoc_app v l y), (snoc_app v l (ins ++ y)). apply (F_escape ins Hins). left. lia. }
  assert (E10 : m_quoted (v ++ l :: ins ++ y) = m_quoted (v ++ l :: y)).
  { rewrite (snoc_app v l y), (snoc_app v l (ins ++ y)). apply (F_quoted ins c0 ins0 Eins Hins (v ++ [l]) y k n); [|lia].
    rewrite <- snoc_app. exact B. }
  assert (E11 : m_bracket_arg (v ++ l :: ins ++ y) = m_bracket_arg (v ++ l :: y)).
  { rewrite (snoc_app v l y), (snoc_app v l (ins ++ y)). apply (F_bracket_arg ins c0 ins0 Eins Hins). rewrite <- snoc_app.
    apply (short_noeof _ n); [|lia].
    apply (M TBracketArg (fun x => noeof (m_bracket_arg x))). in_rules. }
  assert (E12 : m_bracket_comment (v ++ l :: ins ++ y) = m_bracket_comment (v ++ l :: y)).
  { rewrite (snoc_app v l y), (snoc_app v l (ins ++ y)). apply (F_bracket_comment ins c0 ins0 Eins Hins). rewrite <- snoc_app.
    apply (short_noeof _ n); [|lia].
    apply (M TBracketComment (fun x => noeof (m_bracket_comment x))). in_rules. }
  assert (E13 : m_line_comment (v ++ l :: ins ++ y) = m_line_comment (v ++ l :: y)).
  { apply (F_line_strict ins Hins v l y k n B Ln). lia. }
  assert (E14 : m_run is_eol (v ++ l :: ins ++ y) = m_run is_eol (v ++ l :: y)).
  { apply (m_run_stable l ins).
    apply (short_noeof _ n); [|exact Ln].
    apply (M TNewline (fun x => noeof (m_run is_eol x))). in_rules. }
  assert (E15 : m_run is_sptab (v ++ l :: ins ++ y) = m_run is_sptab (v ++ l :: y)).
  { apply (m_run_stable l ins).
    apply (short_noeof _ n); [|exact Ln].
    apply (M TSpace (fun x => noeof (m_run is_sptab x))). in_rules. }
  rewrite best_results.
  rewrite (m_char_stable 40%N v l y (ins ++ y)), (m_char_stable 41%N v l y (ins ++ y)).
  rewrite E3, E4, E5, E6, E7, E8, E9, E10, E11, E12, E13, E14, E15.
  rewrite <- best_results. exact B.
Qed.

Lemma reaches_insert_any (p u rest x : str) (ps : list token) (R : str) :
  u <> [] -> u <> [bsl] ->
  x = p ++ u ++ rest ->
  reaches x ps R ->
  forall t, R = t ++ u ++ rest ->
            reaches (p ++ u ++ ins ++ rest) ps (t ++ u ++ ins ++ rest).
Proof.
  intros Hu Hb Hx H. destruct (exists_last Hu) as (u0 & l & Eu). subst u.
  induction H as [|ps a r k n H IH B]; intros t Ht.
  - rewrite Hx in Ht. apply app_inv_tail in Ht. subst t. apply reaches_nil.
  - pose proof (best_le _ _ _ B) as Ln.
    set (pc := firstn (S n) (a :: r)) in *.
    assert (Lpc : length pc = S n) by (unfold pc; apply firstn_length_le; exact Ln).
    assert (Esplit : a :: r = (pc ++ t) ++ (u0 ++ [l]) ++ rest).
    { rewrite <- app_assoc, <- Ht. unfold pc. symmetry. apply firstn_skipn. }
    specialize (IH (pc ++ t) Esplit).
    assert (B' : best (((pc ++ t) ++ u0) ++ l :: ins ++ rest) = Some (k, S n)).
    { apply best_insert_far.
      - rewrite <- B. f_equal. symmetry. etransitivity; [exact Esplit|].
        rewrite <- !app_assoc. reflexivity.
      - lia.
      - rewrite !app_length. lia.
      - rewrite !app_length. destruct t as [|t0 t1]; [|left; cbn [length]; lia].
        destruct u0 as [|u1 u2]; [|left; cbn [length]; lia].
        right. destruct (N.eqb_spec l 92) as [El|El]; [|reflexivity].
        exfalso. apply Hb. subst l. reflexivity. }
    assert (Eq1 : (pc ++ t) ++ (u0 ++ [l]) ++ ins ++ rest = ((pc ++ t) ++ u0) ++ l :: ins ++ rest).
    { rewrite <- !app_assoc. reflexivity. }
    rewrite <- Eq1 in B'.
    destruct pc as [|a' pc'] eqn:Epc; [cbn [length] in Lpc; lia|].
    assert (Eshape : (((a' :: pc') ++ t) ++ (u0 ++ [l]) ++ ins ++ rest) =
                     a' :: (pc' ++ t ++ (u0 ++ [l]) ++ ins ++ rest)).
    { rewrite <- !app_assoc. reflexivity. }
    rewrite Eshape in IH, B'.
    pose proof (reaches_step _ _ _ _ _ _ IH B') as Hs.
    assert (E1 : a' :: pc' ++ t ++ (u0 ++ [l]) ++ ins ++ rest =
                 (a' :: pc') ++ (t ++ (u0 ++ [l]) ++ ins ++ rest)) by reflexivity.
    rewrite E1 in Hs. rewrite <- Lpc in Hs.
    rewrite firstn_exact, skipn_exact in Hs. exact Hs.
Qed.

End InsWs4.

(* ======== part Lf ======== *)

(* ---- line comments as a function of the text after the hash ---- *)

Definition noeol (c : char) : bool := negb (is_eol c).

(* what follows the end-of-line sequence at the head of d *)
Definition tail_after (d : str) : str :=
  match d with
  | [] => []
  | c :: r' =>
      if (c =? 13)%N then
        match r' with
        | c2 :: r'' => if (c2 =? 10)%N then r'' else r'
        | [] => r'
        end
      else r'
  end.

Definition after_line (r : str) : str := tail_after (drop_while noeol r).

Lemma skipn_add {A} (a : nat) : forall (b : nat) (l : list A), skipn (a + b) l = skipn b (skipn a l).
Proof.
  induction a as [|a IH]; intros b l; [reflexivity|].
  destruct l as [|x l]; [cbn [Nat.add skipn]; destruct b; reflexivity|]. cbn [Nat.add skipn]. apply IH.
Qed.

Lemma m_line_comment_shape (r : str) (n : nat) (e : bool) :
  m_line_comment (hash :: r) = Some (n, e) ->
  opens_bracket (take_while noeol r) = false /\ 1 <= n /\ skipn n (hash :: r) = after_line r.
Proof.
  rewrite m_line_comment_cons. change (hash =? 35)%N with true. cbv iota zeta.
  fold noeol. destruct (opens_bracket (take_while noeol r)) eqn:Ho; [discriminate|].
  intro H. split; [reflexivity|]. pose proof (lc_end_ge _ _ _ _ H) as G. split; [lia|].
  unfold after_line. change (length (take_while noeol r)) with (count_while noeol r) in *.
  rewrite skipn_count_while in H.
  assert (S1 : forall N m, N = S (count_while noeol r + m) ->
                           skipn N (hash :: r) = skipn m (drop_while noeol r)).
  { intros N m ->. cbn [skipn]. rewrite skipn_add, skipn_count_while. reflexivity. }
  unfold lc_end in H. destruct (drop_while noeol r) as [|c r'] eqn:D.
  - inversion H. subst n. cbn [tail_after]. apply (S1 _ 0). lia.
  - cbn [tail_after]. destruct (c =? 13)%N.
    + destruct r' as [|c2 r''].
      * inversion H. subst n. apply (S1 _ 1). lia.
      * destruct (c2 =? 10)%N; inversion H; subst n.
        -- apply (S1 _ 2). lia.
        -- apply (S1 _ 1). lia.
    + inversion H. subst n. apply (S1 _ 1). lia.
Qed.

Lemma m_line_comment_some (r : str) :
  opens_bracket (take_while noeol r) = false -> exists n e, m_line_comment (hash :: r) = Some (n, e).
Proof.
  intro Ho. rewrite m_line_comment_cons. change (hash =? 35)%N with true. cbv iota zeta.
  fold noeol. rewrite Ho. apply lc_end_some.
Qed.

Lemma m_line_comment_none (r : str) :
  m_line_comment (hash :: r) = None -> opens_bracket (take_while noeol r) = true.
Proof.
  intro H. destruct (opens_bracket (take_while noeol r)) eqn:Ho; [reflexivity|].
  destruct (m_line_comment_some r Ho) as (n & e & E). rewrite E in H. discriminate H.
Qed.

Lemma sw_close_shape (r : str) :
  startswith doc_close (hash :: r) = true -> exists r2, r = rbr :: rbr :: r2.
Proof.
  change doc_close with [hash; rbr; rbr]. cbn [startswith].
  destruct r as [|a [|b r2]]; cbn [startswith]; rewrite ?andb_false_r; try discriminate.
  intro H. apply andb_true_iff in H. destruct H as [_ H].
  apply andb_true_iff in H. destruct H as [Ha H].
  apply andb_true_iff in H. destruct H as [Hb _].
  apply N.eqb_eq in Ha, Hb. subst a b. exists r2. reflexivity.
Qed.

(* a text that is a line comment is lexed as one *)
Lemma best_hash_line (r : str) (n : nat) (e : bool) :
  m_line_comment (hash :: r) = Some (n, e) -> best (hash :: r) = Some (TLineComment, n).
Proof.
  intro H. destruct (m_line_comment_shape r n e H) as (Ho & Ln & _).
  assert (DO : startswith doc_open (hash :: r) = false).
  { destruct (startswith doc_open (hash :: r)) eqn:E; [|reflexivity].
    apply doc_open_opens in E. fold noeol in E. rewrite E in Ho. discriminate Ho. }
  assert (BC : m_bracket_comment (hash :: r) = None).
  { cbn [m_bracket_comment]. change (hash =? 35)%N with true. cbv iota.
    destruct (m_bracket_arg r) as [q|] eqn:E; [|reflexivity].
    apply m_bracket_arg_opens in E. fold noeol in E. rewrite E in Ho. discriminate Ho. }
  rewrite best_results, H, BC. kill_rules.
  unfold m_lit. destruct (startswith doc_close (hash :: r)) eqn:DC; cbn [pick noeof]; [|reflexivity].
  assert (Bt : better (n, e) (length doc_close, false) = true).
  { destruct (sw_close_shape r DC) as [r2 ->].
    rewrite m_line_comment_cons in H. change (hash =? 35)%N with true in H. cbv iota zeta in H.
    fold noeol in H. rewrite Ho in H.
    cbn [take_while] in H. change (noeol rbr) with true in H. cbv iota in H.
    cbn [length skipn] in H. unfold lc_end in H. unfold better. cbn [fst snd]. change (length doc_close) with 3.
    assert (G : 3 < n \/ (n = 3 /\ e = true)).
    { destruct (skipn _ r2) as [|c r'].
      - assert (En : n = 1 + S (S (length (take_while noeol r2))) /\ e = true)
          by (inversion H; split; reflexivity).
        destruct En as [En Ee]. destruct (length (take_while noeol r2)); [right; lia | left; lia].
      - left. destruct (c =? 13)%N; [destruct r' as [|c2 r'']; [|destruct (c2 =? 10)%N]|];
          assert (En : 3 < n) by (inversion H; lia); exact En. }
    destruct G as [L | [-> ->]]; [|reflexivity].
    apply orb_true_iff. left. apply Nat.ltb_lt. exact L. }
  rewrite Bt. reflexivity.
Qed.

Lemma lex_line_comment (r : str) :
  opens_bracket (take_while noeol r) = false -> lex_sim (lex (hash :: r)) (lex (after_line r)).
Proof.
  intro Ho. destruct (m_line_comment_some r Ho) as (n & e & H).
  pose proof (best_hash_line r n e H) as B.
  destruct (m_line_comment_shape r n e H) as (_ & Ln & S).
  destruct n as [|n]; [lia|].
  pose proof (lex_skip_first hash r TLineComment n B eq_refl) as L. rewrite S in L. exact L.
Qed.

Lemma tail_after_len (d : str) : d <> [] -> length (tail_after d) < length d.
Proof.
  destruct d as [|c r']; [contradiction|]. intros _. cbn [tail_after length].
  destruct (c =? 13)%N; [|lia]. destruct r' as [|c2 r'']; [cbn; lia|].
  destruct (c2 =? 10)%N; cbn [length]; lia.
Qed.

Lemma drop_while_len (p : char -> bool) (z : str) : length (drop_while p z) <= length z.
Proof. induction z as [|a z IH]; [cbn; lia|]. cbn [drop_while]. destruct (p a); cbn [length]; lia. Qed.

Lemma forallb_drop_while (p q : char -> bool) (l : str) :
  forallb p l = true -> forallb p (drop_while q l) = true.
Proof.
  induction l as [|a l IH]; intro H; [reflexivity|]. cbn [drop_while].
  destruct (q a); [|exact H]. cbn [forallb] in H. apply andb_true_iff in H. apply IH. exact (proj2 H).
Qed.

Lemma forallb_tail_after (p : char -> bool) (d : str) :
  forallb p d = true -> forallb p (tail_after d) = true.
Proof.
  destruct d as [|c r']; intro H; [reflexivity|]. cbn [forallb] in H.
  apply andb_true_iff in H. destruct H as [_ H]. cbn [tail_after].
  destruct (c =? 13)%N; [|exact H]. destruct r' as [|c2 r'']; [reflexivity|].
  destruct (c2 =? 10)%N; [|exact H]. cbn [forallb] in H. apply andb_true_iff in H. exact (proj2 H).
Qed.

Lemma drop_while_app_all (p : char -> bool) (b z : str) :
  forallb p b = true -> drop_while p (b ++ z) = drop_while p z.
Proof.
  induction b as [|a b IH]; intro H; [reflexivity|]. cbn [forallb] in H.
  apply andb_true_iff in H. destruct H as [Ha Hb]. cbn [app drop_while]. rewrite Ha. apply IH. exact Hb.
Qed.

Lemma drop_while_in (p : char -> bool) (t : str) (c : char) (r : str) :
  drop_while p t = c :: r -> In c t.
Proof.
  induction t as [|a t IH]; cbn [drop_while]; [discriminate|].
  destruct (p a); intro H; [right; apply IH; exact H | inversion H; left; reflexivity].
Qed.

Lemma ob_app_no91 (b t : str) :
  (forall c, In c t -> (c =? 91)%N = false) -> opens_bracket (b ++ t) = opens_bracket b.
Proof.
  intro Ht. destruct b as [|a b'].
  - cbn [app opens_bracket]. destruct t as [|c t']; [reflexivity|].
    cbn [opens_bracket]. rewrite (Ht c (or_introl eq_refl)). reflexivity.
  - cbn [app opens_bracket]. f_equal.
    induction b' as [|x b'' IH]; cbn [app drop_while].
    + destruct (drop_while (fun c => (c =? 61)%N) t) as [|c r] eqn:D; [reflexivity|].
      apply drop_while_in in D. apply Ht. exact D.
    + destruct (x =? 61)%N; [exact IH | reflexivity].
Qed.

Lemma take_while_in (p : char -> bool) (t : str) (c : char) : In c (take_while p t) -> In c t.
Proof.
  induction t as [|a t IH]; cbn [take_while]; [intros []|].
  destruct (p a); [|intros []]. intros [E | H]; [left; exact E | right; apply IH; exact H].
Qed.

(* ======== part Lg ======== *)

Lemma sw_nth (p : str) : forall x j,
  startswith p x = true -> j < length p -> nth_error x j = nth_error p j.
Proof.
  induction p as [|a p IH]; intros x j H L; [cbn [length] in L; lia|].
  destruct x as [|b x]; cbn [startswith] in H; [discriminate H|].
  apply andb_true_iff in H. destruct H as [Hab H]. apply N.eqb_eq in Hab. subst b.
  destruct j as [|j]; [reflexivity|]. cbn [nth_error length] in *. apply IH; [exact H | lia].
Qed.

Lemma bracket_close_last (c : nat) : nth_error (bracket_close c) (c + 1) = Some rbr.
Proof.
  unfold bracket_close. change ([rbr] ++ repeat eqc c ++ [rbr]) with (rbr :: repeat eqc c ++ [rbr]).
  replace (c + 1) with (S c) by lia. cbn [nth_error].
  rewrite nth_error_app2 by (rewrite repeat_length; lia). rewrite repeat_length, Nat.sub_diag. reflexivity.
Qed.

Lemma m_bracket_arg_last (x : str) (n : nat) :
  m_bracket_arg x = Some n -> 1 <= n /\ nth_error x (n - 1) = Some rbr.
Proof.
  destruct x as [|a r]; cbn [m_bracket_arg]; [discriminate|].
  destruct (a =? 91)%N; [|discriminate].
  remember (count_while (fun c => (c =? 61)%N) r) as c eqn:Ec.
  destruct (skipn c r) as [|b r'] eqn:Sk; [discriminate|].
  destruct (b =? 91)%N; [|discriminate].
  destruct (find_sub (bracket_close c) r') as [i|] eqn:F; [|discriminate].
  intro H. assert (En : n = 1 + c + 1 + i + (c + 2)) by (injection H; intro X; symmetry; exact X).
  split; [lia|]. apply find_sub_sw in F.
  pose proof (sw_nth (bracket_close c) (skipn i r') (c + 1) F) as N.
  rewrite bracket_close_length in N. specialize (N ltac:(lia)).
  rewrite bracket_close_last, nth_error_skipn in N.
  assert (N2 : nth_error (skipn c r) (S (i + (c + 1))) = Some rbr) by (rewrite Sk; exact N).
  rewrite nth_error_skipn in N2.
  replace (n - 1) with (S (c + S (i + (c + 1)))) by lia. exact N2.
Qed.

Lemma nth_last (u rest : str) (c : char) :
  u <> [] -> nth_error (u ++ rest) (length u - 1) = Some c -> last u 0%N = c.
Proof.
  intros Hu H. destruct (exists_last Hu) as (v & l & ->).
  rewrite app_length in H. cbn [length] in H.
  replace (length v + 1 - 1) with (length v) in H by lia.
  rewrite <- app_assoc, nth_error_app2 in H by lia. rewrite Nat.sub_diag in H. cbn in H.
  inversion H. subst. apply last_last.
Qed.

Lemma drop_while_stop (p : char -> bool) (l : str) (c : char) (z : str) :
  forallb p l = true -> p c = false -> drop_while p (l ++ c :: z) = c :: z.
Proof. intros Hl Hc. rewrite (drop_while_app_all p l _ Hl). cbn [drop_while]. rewrite Hc. reflexivity. Qed.

Section InsWs5.
Variables (ins : str) (c0 : char) (ins0 : str).
Hypothesis Eins : ins = c0 :: ins0.
Hypothesis Hins : forallb is_ws ins = true.

Lemma unq_c0 (z : str) : unq_run (c0 :: z) = 0.
Proof.
  destruct (c0_facts ins c0 ins0 Eins Hins) as (_ & _ & _ & C92 & _ & _ & Cu & _).
  rewrite unq_run_cons, C92, Cu. reflexivity.
Qed.

Lemma ins_no91 : forall c, In c ins -> (c =? 91)%N = false.
Proof. intros c Hc. apply (ws_facts2 c (ins_ws ins Hins c Hc)). Qed.

Lemma F_line_none (u' rest : str) (k : tk) :
  best (hash :: u' ++ rest) = Some (k, S (length u')) ->
  m_line_comment (hash :: u' ++ rest) = None ->
  m_line_comment (hash :: u' ++ ins ++ rest) = None.
Proof.
  intros B H. apply m_line_comment_none in H.
  assert (Ho' : opens_bracket (take_while noeol (u' ++ ins ++ rest)) = true).
  { destruct (forallb noeol u') eqn:Fu.
    - pose proof H as H0. rewrite (take_while_app_all noeol u' _ Fu) in H.
      rewrite (take_while_app_all noeol u' _ Fu).
      destruct (opens_bracket u') eqn:Ou; [apply ob_mono; exact Ou|].
      exfalso. destruct u' as [|a0 u''].
      + cbn [app] in *. destruct rest as [|b rest']; [discriminate H|].
        assert (Eb : b = lbr).
        { cbn [take_while] in H. destruct (noeol b); [|discriminate H].
          cbn [opens_bracket] in H. apply andb_true_iff in H. destruct H as [H _].
          apply N.eqb_eq in H. exact H. }
        subst b. pose proof (hash_open_long 0 rest' k 1 H0 B) as HL. lia.
      + destruct (ob_split (a0 :: u'') _ H Ou) as [j Ej]; [discriminate|].
        rewrite Ej in B, H0. cbn [app] in B, H0.
        pose proof (hash_open_long j rest k _ H0 B) as HL.
        cbn [length] in HL. rewrite repeat_length in HL. lia.
    - destruct (forallb_false_split noeol u' Fu) as (q1 & c & q5 & -> & F1 & Fc).
      rewrite <- !app_assoc in *. cbn [app] in *.
      rewrite (take_while_app_stop noeol q1 c _ F1 Fc) in H.
      rewrite (take_while_app_stop noeol q1 c _ F1 Fc). exact H. }
  rewrite m_line_comment_cons. change (hash =? 35)%N with true. cbv iota zeta.
  fold noeol. rewrite Ho'. reflexivity.
Qed.

Lemma best_end_hash (u' rest : str) (k : tk) :
  best (hash :: u' ++ rest) = Some (k, S (length u')) ->
  m_line_comment (hash :: u' ++ rest) = None ->
  best (hash :: u' ++ ins ++ rest) = Some (k, S (length u')).
Proof.
  intros B LC. pose proof (best_max _ _ _ B) as M.
  pose proof (F_line_none u' rest k B LC) as E13. rewrite <- LC in E13.
  assert (E3 : m_module_docstring (hash :: u' ++ ins ++ rest) = m_module_docstring (hash :: u' ++ rest)).
  { apply (F_module_incl ins c0 ins0 Eins Hins (hash :: u') rest); [discriminate|].
    apply (short_noeof _ (S (length u'))); [|cbn [length]; lia].
    apply (M TModuleDoc (fun x => noeof (m_module_docstring x))). in_rules. }
  assert (E4 : m_docstring (hash :: u' ++ ins ++ rest) = m_docstring (hash :: u' ++ rest)).
  { apply (F_docstring ins c0 ins0 Eins Hins (hash :: u') rest).
    apply (short_noeof _ (S (length u'))); [|cbn [length]; lia].
    apply (M TDocstring (fun x => noeof (m_docstring x))). in_rules. }
  assert (E5 : m_lit doc_open (hash :: u' ++ ins ++ rest) = m_lit doc_open (hash :: u' ++ rest)).
  { apply (F_lit ins doc_open (hash :: u') rest); [apply (ins_no_open ins Hins)|].
    apply (short_noeof _ (S (length u'))); [|cbn [length]; lia].
    apply (M TDocStart (fun x => noeof (m_lit doc_open x))). in_rules. }
  assert (E6 : m_lit doc_close (hash :: u' ++ ins ++ rest) = m_lit doc_close (hash :: u' ++ rest)).
  { apply (F_lit ins doc_close (hash :: u') rest); [apply (ins_not_in_close ins Hins)|].
    apply (short_noeof _ (S (length u'))); [|cbn [length]; lia].
    apply (M TBlockEnd (fun x => noeof (m_lit doc_close x))). in_rules. }
  assert (E12 : m_bracket_comment (hash :: u' ++ ins ++ rest) = m_bracket_comment (hash :: u' ++ rest)).
  { apply (F_bracket_comment ins c0 ins0 Eins Hins (hash :: u') rest).
    apply (short_noeof _ (S (length u'))); [|cbn [length]; lia].
    apply (M TBracketComment (fun x => noeof (m_bracket_comment x))). in_rules. }
  revert B. rewrite !best_results. kill_rules. rewrite E3, E4, E5, E6, E12, E13.
  intro B. exact B.
Qed.

Lemma other_Q (a : char) (u' rest : str) (k : tk) :
  (a =? 40)%N = false -> (a =? 41)%N = false -> (a =? 34)%N = false -> (a =? 35)%N = false ->
  is_sptab a = false -> is_eol a = false ->
  best (a :: u' ++ rest) = Some (k, S (length u')) ->
  k = TIdent \/ nobsl_end (a :: u') = true \/ unq_run (a :: u' ++ rest) = S (length u').
Proof.
  intros H40 H41 H34 H35 Hsp Heol B. pose proof (best_max _ _ _ B) as M.
  apply best_inv in B. destruct B as (m & e & Hin & Hm).
  unfold rules in Hin. cbn [In] in Hin.
  repeat (destruct Hin as [Hin | Hin];
          [ inversion Hin; subst m; clear Hin; first [ apply noeof_inv in Hm | idtac ] | ]);
  try contradiction.
  - apply m_char_inv in Hm. destruct Hm as [_ [r Hr]]. inversion Hr. subst a. discriminate H40.
  - apply m_char_inv in Hm. destruct Hm as [_ [r Hr]]. inversion Hr. subst a. discriminate H41.
  - rewrite m_module_docstring_nopen in Hm by (apply doc_open_nohash; exact H35). discriminate Hm.
  - rewrite m_docstring_nopen in Hm by (apply doc_open_nohash; exact H35). discriminate Hm.
  - rewrite m_lit_no in Hm by (apply doc_open_nohash; exact H35). discriminate Hm.
  - rewrite m_lit_no in Hm by (apply doc_close_nohash; exact H35). discriminate Hm.
  - left. reflexivity.
  - right. right. unfold m_unquoted in Hm. destruct (unq_run (a :: u' ++ rest)) as [|q]; [discriminate Hm|].
    injection Hm as Hq. rewrite Hq. reflexivity.
  - right. right.
    assert (U : short_res (noeof (m_unquoted (a :: u' ++ rest))) (S (length u'))).
    { apply (M TUnquoted (fun x => noeof (m_unquoted x))). in_rules. }
    unfold m_unquoted in U. rewrite unq_run_cons in *.
    destruct (u' ++ rest) as [|b t] eqn:Et; [discriminate Hm|]. cbn [m_escape] in Hm.
    destruct (a =? 92)%N; [|discriminate Hm]. cbn [andb] in Hm.
    destruct (esc_ok b); [|discriminate Hm]. injection Hm as Hq. rewrite <- Hq in *.
    cbn [noeof short_res] in U. lia.
  - rewrite m_quoted_no in Hm by exact H34. discriminate Hm.
  - right. left. apply m_bracket_arg_last in Hm. destruct Hm as [_ Hm].
    change (a :: u' ++ rest) with ((a :: u') ++ rest) in Hm.
    replace (S (length u') - 1) with (length (a :: u') - 1) in Hm by (cbn [length]; lia).
    apply nth_last in Hm; [|discriminate]. unfold nobsl_end. rewrite Hm. reflexivity.
  - rewrite m_bracket_comment_no in Hm by exact H35. discriminate Hm.
  - rewrite m_line_comment_no in Hm by exact H35. discriminate Hm.
  - rewrite m_run_no in Hm by exact Heol. discriminate Hm.
  - rewrite m_run_no in Hm by exact Hsp. discriminate Hm.
Qed.

Lemma best_end_other (a : char) (u' rest : str) (k : tk) :
  (a =? 40)%N = false -> (a =? 41)%N = false -> (a =? 34)%N = false -> (a =? 35)%N = false ->
  is_sptab a = false -> is_eol a = false ->
  nobsl_end (a :: u') = true \/ unq_run (a :: u' ++ rest) = S (length u') ->
  best (a :: u' ++ rest) = Some (k, S (length u')) ->
  best (a :: u' ++ ins ++ rest) = Some (k, S (length u')).
Proof.
  intros H40 H41 H34 H35 Hsp Heol Q B. pose proof (best_max _ _ _ B) as M.
  assert (E7 : m_identifier (a :: u' ++ ins ++ rest) = m_identifier (a :: u' ++ rest)).
  { apply (F_ident ins c0 ins0 Eins Hins (a :: u') rest).
    apply (short_noeof _ (S (length u'))); [|cbn [length]; lia].
    apply (M TIdent (fun x => noeof (m_identifier x))). in_rules. }
  assert (E11 : m_bracket_arg (a :: u' ++ ins ++ rest) = m_bracket_arg (a :: u' ++ rest)).
  { apply (F_bracket_arg ins c0 ins0 Eins Hins (a :: u') rest).
    apply (short_noeof _ (S (length u'))); [|cbn [length]; lia].
    apply (M TBracketArg (fun x => noeof (m_bracket_arg x))). in_rules. }
  assert (U : unq_run (a :: u' ++ rest) <= S (length u')).
  { assert (U : short_res (noeof (m_unquoted (a :: u' ++ rest))) (S (length u'))).
    { apply (M TUnquoted (fun x => noeof (m_unquoted x))). in_rules. }
    unfold m_unquoted in U. destruct (unq_run (a :: u' ++ rest)); cbn [noeof short_res] in U; lia. }
  assert (E8 : m_unquoted (a :: u' ++ ins ++ rest) = m_unquoted (a :: u' ++ rest)).
  { unfold m_unquoted. rewrite Eins.
    change (a :: u' ++ (c0 :: ins0) ++ rest) with ((a :: u') ++ c0 :: ins0 ++ rest).
    change (a :: u' ++ rest) with ((a :: u') ++ rest) in *.
    rewrite (unq_incl (a :: u') rest c0 (ins0 ++ rest)); [reflexivity | exact U | exact Q | apply unq_c0]. }
  assert (E9 : m_escape (a :: u' ++ ins ++ rest) = m_escape (a :: u' ++ rest)).
  { destruct u' as [|b u''].
    - apply (F_escape ins Hins [a] rest). right. exists a. split; [reflexivity|].
      destruct Q as [Q | Q].
      + unfold nobsl_end in Q. cbn [last] in Q. destruct (a =? 92)%N; [discriminate Q | reflexivity].
      + cbn [app length] in Q. rewrite unq_run_cons in Q. destruct (a =? 92)%N; [|reflexivity].
        exfalso. destruct rest as [|b t]; [lia|]. destruct (esc_ok b); lia.
    - apply (F_escape ins Hins (a :: b :: u'') rest). left. cbn [length]. lia. }
  revert B. rewrite !best_results. kill_rules. rewrite E7, E8, E9, E11.
  intro B. exact B.
Qed.

Lemma line_after (u' rest : str) :
  opens_bracket (take_while noeol (u' ++ rest)) = false ->
  after_line (u' ++ rest) = rest ->
  opens_bracket (take_while noeol (u' ++ ins ++ rest)) = false /\
  exists ins2, after_line (u' ++ ins ++ rest) = ins2 ++ rest /\ forallb is_ws ins2 = true.
Proof.
  intros Ho Ha. unfold after_line in *. destruct (forallb noeol u') eqn:Fu.
  - rewrite (drop_while_app_all noeol u' rest Fu) in Ha.
    rewrite (drop_while_app_all noeol u' (ins ++ rest) Fu).
    assert (Er : rest = []).
    { destruct (drop_while noeol rest) as [|d0 d1] eqn:D; [cbn in Ha; symmetry; exact Ha|].
      pose proof (tail_after_len (d0 :: d1) ltac:(discriminate)) as L1.
      pose proof (drop_while_len noeol rest) as L2. rewrite D in L2. rewrite Ha in L1. lia. }
    subst rest. rewrite (take_while_app_all noeol u' [] Fu) in Ho. cbn [take_while] in Ho.
    rewrite !app_nil_r in *. split.
    + rewrite (take_while_app_all noeol u' _ Fu).
      rewrite ob_app_no91; [exact Ho|].
      intros c Hc. apply take_while_in in Hc. apply ins_no91. exact Hc.
    + exists (tail_after (drop_while noeol ins)). split; [rewrite app_nil_r; reflexivity|].
      apply forallb_tail_after. apply forallb_drop_while. exact Hins.
  - destruct (forallb_false_split noeol u' Fu) as (q1 & c & q5 & -> & F1 & Fc).
    rewrite <- !app_assoc in *. cbn [app] in *.
    rewrite (take_while_app_stop noeol q1 c _ F1 Fc) in Ho.
    rewrite (take_while_app_stop noeol q1 c _ F1 Fc). split; [exact Ho|].
    rewrite (drop_while_stop noeol q1 c _ F1 Fc) in Ha.
    rewrite (drop_while_stop noeol q1 c _ F1 Fc).
    cbn [tail_after] in *. destruct (c =? 13)%N.
    + destruct q5 as [|c2 q6].
      * cbn [app]. rewrite Eins. cbn [app]. destruct (c0 =? 10)%N.
        -- exists ins0. split; [reflexivity|]. pose proof Hins as H. rewrite Eins in H.
           cbn [forallb] in H. apply andb_true_iff in H. exact (proj2 H).
        -- exists (c0 :: ins0). split; [reflexivity|]. rewrite <- Eins. exact Hins.
      * cbn [app] in *. destruct (c2 =? 10)%N.
        -- assert (q6 = []).
           { apply (f_equal (@length char)) in Ha. rewrite app_length in Ha. destruct q6; [reflexivity | cbn [length] in Ha; lia]. }
           subst q6. exists ins. split; [reflexivity | exact Hins].
        -- exfalso. apply (f_equal (@length char)) in Ha. cbn [length] in Ha. rewrite app_length in Ha. lia.
    + assert (q5 = []).
      { apply (f_equal (@length char)) in Ha. rewrite app_length in Ha. destruct q5; [reflexivity | cbn [length] in Ha; lia]. }
      subst q5. exists ins. split; [reflexivity | exact Hins].
Qed.

(* layout inserted directly after the first piece is invisible *)
Lemma lex_insert_ws_local (u rest : str) (k : tk) :
  u <> [] -> best (u ++ rest) = Some (k, length u) ->
  lex_sim (lex (u ++ ins ++ rest)) (lex (u ++ rest)).
Proof.
  intros Hu B. destruct u as [|a u']; [contradiction|]. cbn [app length] in *.
  destruct (a =? 40)%N eqn:H40.
  { apply N.eqb_eq in H40. subst a. change 40%N with lpar in *. rewrite best_lpar_any in B.
    assert (u' = []) by (destruct u'; [reflexivity | inversion B]). subst u'.
    apply (lex_insert_ws_after_paren lpar rest ins (or_introl eq_refl) Hins). }
  destruct (a =? 41)%N eqn:H41.
  { apply N.eqb_eq in H41. subst a. change 41%N with rpar in *. rewrite best_rpar_any in B.
    assert (u' = []) by (destruct u'; [reflexivity | inversion B]). subst u'.
    apply (lex_insert_ws_after_paren rpar rest ins (or_intror eq_refl) Hins). }
  destruct (a =? 34)%N eqn:H34.
  { apply N.eqb_eq in H34. subst a. change 34%N with dq in *. pose proof B as B0.
    rewrite best_dq in B. destruct (quoted_body (u' ++ rest)) as [q|]; [|discriminate B].
    assert (k = TQuoted) by (inversion B; reflexivity). subst k.
    apply (lex_insert_ws_after_quoted (dq :: u') rest ins B0 Hins). }
  destruct (is_sptab a) eqn:Hsp.
  { rewrite (best_space a _ Hsp) in B.
    assert (Hall : forallb is_ws (a :: u') = true).
    { assert (El : length u' = count_while is_sptab (u' ++ rest)) by (inversion B; reflexivity).
      pose proof (firstn_count_while is_sptab (u' ++ rest)) as F. rewrite <- El, firstn_exact in F.
      cbn [forallb]. unfold is_ws at 1. rewrite Hsp. cbn [orb andb]. rewrite F.
      pose proof (forallb_take_while is_sptab (u' ++ rest)) as T.
      rewrite forallb_forall in *. intros x Hx. unfold is_ws. rewrite (T x Hx). reflexivity. }
    eapply lex_sim_trans; [|apply lex_sim_sym; apply (lex_leading_ws_sim (a :: u') rest Hall)].
    change (a :: u' ++ ins ++ rest) with ((a :: u') ++ ins ++ rest). rewrite app_assoc.
    apply lex_leading_ws_sim. rewrite forallb_app, Hall, Hins. reflexivity. }
  destruct (is_eol a) eqn:Heol.
  { rewrite (best_newline a _ Heol) in B.
    assert (Hall : forallb is_ws (a :: u') = true).
    { assert (El : length u' = count_while is_eol (u' ++ rest)) by (inversion B; reflexivity).
      pose proof (firstn_count_while is_eol (u' ++ rest)) as F. rewrite <- El, firstn_exact in F.
      cbn [forallb]. unfold is_ws at 1. rewrite Heol, orb_true_r. cbn [andb]. rewrite F.
      pose proof (forallb_take_while is_eol (u' ++ rest)) as T.
      rewrite forallb_forall in *. intros x Hx. unfold is_ws. rewrite (T x Hx). apply orb_true_r. }
    eapply lex_sim_trans; [|apply lex_sim_sym; apply (lex_leading_ws_sim (a :: u') rest Hall)].
    change (a :: u' ++ ins ++ rest) with ((a :: u') ++ ins ++ rest). rewrite app_assoc.
    apply lex_leading_ws_sim. rewrite forallb_app, Hall, Hins. reflexivity. }
  destruct (a =? 35)%N eqn:H35.
  { apply N.eqb_eq in H35. subst a. change 35%N with hash in *.
    destruct (m_line_comment (hash :: u' ++ rest)) as [[n1 e1]|] eqn:LC.
    - pose proof (best_hash_line _ _ _ LC) as BL. rewrite BL in B.
      assert (n1 = S (length u')) by (inversion B; reflexivity). subst n1.
      destruct (m_line_comment_shape _ _ _ LC) as (Ho & _ & Sk).
      cbn [skipn] in Sk. rewrite skipn_exact in Sk. symmetry in Sk.
      destruct (line_after u' rest Ho Sk) as (Ho' & ins2 & Ea & Hw).
      eapply lex_sim_trans; [apply (lex_line_comment _ Ho')|]. rewrite Ea.
      eapply lex_sim_trans; [apply (lex_leading_ws_sim ins2 rest Hw)|].
      apply lex_sim_sym. rewrite <- Sk at 2. apply (lex_line_comment _ Ho).
    - apply (lex_insert_ws_after_piece (hash :: u') rest ins k); [discriminate | exact B | | exact Hins].
      apply best_end_hash; assumption. }
  destruct (other_Q a u' rest k H40 H41 H34 H35 Hsp Heol B) as [-> | Q].
  - apply (lex_insert_ws_after_ident (a :: u') rest ins B); [rewrite Eins; discriminate | exact Hins].
  - apply (lex_insert_ws_after_piece (a :: u') rest ins k); [discriminate | exact B | | exact Hins].
    apply best_end_other; assumption.
Qed.

End InsWs5.

(* ======== part Lh ======== *)

(* ---- L1 ---- *)

Lemma insert_at_boundary_full (x : str) (ps : list token) (u rest ins : str) (k : tk) :
  reaches x ps (u ++ rest) -> best (u ++ rest) = Some (k, length u) -> u <> [] ->
  forallb is_ws ins = true ->
  reaches (concat (map snd ps) ++ u ++ ins ++ rest) ps (u ++ ins ++ rest) /\
  lex_sim (lex (concat (map snd ps) ++ u ++ ins ++ rest)) (lex x).
Proof.
  intros R B Hu Hins. pose proof (reaches_concat _ _ _ R) as Hx. symmetry in Hx.
  destruct ins as [|c0 ins0].
  - cbn [app]. rewrite <- Hx. split; [exact R | apply lex_sim_refl].
  - assert (Hb : u <> [bsl]).
    { intro E. subst u. cbn [app length] in B. apply best_bsl_ge2 in B. lia. }
    pose proof (reaches_insert_any (c0 :: ins0) c0 ins0 eq_refl Hins
                  (concat (map snd ps)) u rest x ps (u ++ rest) Hu Hb Hx R [] eq_refl) as R'.
    cbn [app] in R'. split; [exact R'|].
    apply (lex_reaches_sim _ _ ps _ _ R' R).
    apply (lex_insert_ws_local (c0 :: ins0) c0 ins0 eq_refl Hins u rest k Hu B).
Qed.

(* inserting any run of spaces, tabs, CR, LF directly after ANY piece of an input changes
   neither the visible token sequence nor whether lexing fails *)
Theorem lex_insert_ws_at_boundary : forall x ps u rest ins k,
  reaches x ps (u ++ rest) -> best (u ++ rest) = Some (k, length u) -> u <> [] ->
  forallb is_ws ins = true ->
  lex_sim (lex (concat (map snd ps) ++ u ++ ins ++ rest)) (lex x).
Proof.
  intros x ps u rest ins k R B Hu Hins.
  exact (proj2 (insert_at_boundary_full x ps u rest ins k R B Hu Hins)).
Qed.

(* ---- L2 ---- *)

Lemma reaches_snoc_inv (x : str) (ps : list token) (k : tk) (t R : str) :
  reaches x (ps ++ [(k, t)]) R ->
  reaches x ps (t ++ R) /\ best (t ++ R) = Some (k, length t) /\ t <> [].
Proof.
  intro H. inversion H as [E | ps0 a r k0 n H0 B0 E1 E2].
  - exfalso. symmetry in E. apply app_eq_nil in E. destruct E as [_ E]. discriminate E.
  - apply app_inj_tail in E1. destruct E1 as [-> E1]. inversion E1. subst k0.
    pose proof (best_le _ _ _ B0) as L.
    change (a :: firstn n r) with (firstn (S n) (a :: r)).
    rewrite firstn_skipn. split; [exact H0|]. split.
    + rewrite firstn_length_le by exact L. exact B0.
    + cbn [firstn]. discriminate.
Qed.

Lemma respace_inv (x : str) : forall ps2 ps1 gaps,
  reaches x (ps1 ++ ps2) [] -> Forall all_ws gaps ->
  reaches (concat (map snd ps1) ++ respace ps2 gaps) ps1 (respace ps2 gaps) /\
  lex_sim (lex (concat (map snd ps1) ++ respace ps2 gaps)) (lex x).
Proof.
  induction ps2 as [|p r IH]; intros ps1 gaps R Hg.
  - rewrite app_nil_r in R. cbn [respace]. pose proof (reaches_concat _ _ _ R) as C.
    rewrite C. split; [exact R | apply lex_sim_refl].
  - assert (Hg' : Forall all_ws (tl gaps)) by (destruct gaps; [constructor | inversion Hg; assumption]).
    assert (Hg0 : forallb is_ws (hd [] gaps) = true) by (destruct gaps; [reflexivity | inversion Hg; assumption]).
    assert (R1 : reaches x ((ps1 ++ [p]) ++ r) []) by (rewrite <- app_assoc; exact R).
    destruct (IH (ps1 ++ [p]) (tl gaps) R1 Hg') as [Rx Lx].
    destruct p as [k t]. apply reaches_snoc_inv in Rx. destruct Rx as (Rx & Bx & Ht).
    rewrite map_app, concat_app in Rx, Lx. cbn [map concat snd] in Rx, Lx.
    rewrite app_nil_r, <- app_assoc in Rx, Lx.
    cbn [respace snd].
    destruct (insert_at_boundary_full _ ps1 t (respace r (tl gaps)) (hd [] gaps) k Rx Bx Ht Hg0)
      as [R2 L2].
    split; [exact R2|]. eapply lex_sim_trans; [exact L2 | exact Lx].
Qed.

(* layout added at any number of piece boundaries at once is invisible *)
Theorem lex_respace : forall x ps gaps,
  lex_all x = LexOk ps -> Forall (fun g => forallb is_ws g = true) gaps ->
  lex_sim (lex (respace ps gaps)) (lex x).
Proof.
  intros x ps gaps H Hg. pose proof (lex_all_reaches x ps H) as R.
  destruct (respace_inv x ps [] gaps R Hg) as [_ L]. exact L.
Qed.

(* ... also before the first piece *)
Corollary lex_respace_lead : forall x ps lead gaps,
  lex_all x = LexOk ps -> forallb is_ws lead = true ->
  Forall (fun g => forallb is_ws g = true) gaps ->
  lex_sim (lex (lead ++ respace ps gaps)) (lex x).
Proof.
  intros x ps lead gaps H Hl Hg.
  eapply lex_sim_trans; [apply lex_leading_ws_sim; exact Hl | apply lex_respace; assumption].
Qed.

(* the same for an input that fails later: the pieces lexed so far may be respaced *)
Theorem lex_respace_partial : forall x ps rest gaps,
  reaches x ps rest -> Forall (fun g => forallb is_ws g = true) gaps ->
  lex_sim (lex (respace ps gaps ++ rest)) (lex x).
Proof.
  intros x ps rest gaps R Hg. revert gaps Hg.
  assert (G : forall ps2 ps1 gaps, reaches x (ps1 ++ ps2) rest -> Forall all_ws gaps ->
     reaches (concat (map snd ps1) ++ respace ps2 gaps ++ rest) ps1 (respace ps2 gaps ++ rest) /\
     lex_sim (lex (concat (map snd ps1) ++ respace ps2 gaps ++ rest)) (lex x)).
  { induction ps2 as [|p r IH]; intros ps1 gaps R0 Hg.
    - rewrite app_nil_r in R0. cbn [respace app]. pose proof (reaches_concat _ _ _ R0) as C.
      rewrite C. split; [exact R0 | apply lex_sim_refl].
    - assert (Hg' : Forall all_ws (tl gaps)) by (destruct gaps; [constructor | inversion Hg; assumption]).
      assert (Hg0 : forallb is_ws (hd [] gaps) = true) by (destruct gaps; [reflexivity | inversion Hg; assumption]).
      assert (R1 : reaches x ((ps1 ++ [p]) ++ r) rest) by (rewrite <- app_assoc; exact R0).
      destruct (IH (ps1 ++ [p]) (tl gaps) R1 Hg') as [Rx Lx].
      destruct p as [k t]. apply reaches_snoc_inv in Rx. destruct Rx as (Rx & Bx & Ht).
      rewrite map_app, concat_app in Rx, Lx. cbn [map concat snd] in Rx, Lx.
      rewrite app_nil_r, <- app_assoc in Rx, Lx.
      cbn [respace snd]. rewrite <- !app_assoc.
      destruct (insert_at_boundary_full _ ps1 t (respace r (tl gaps) ++ rest) (hd [] gaps) k Rx Bx Ht Hg0)
        as [R2 L2].
      split; [exact R2|]. eapply lex_sim_trans; [exact L2 | exact Lx]. }
  intros gaps Hg. destruct (G ps [] gaps R Hg) as [_ L]. exact L.
Qed.

(* ---- L3: removal ---- *)

(* removing layout that stands at piece boundaries is invisible *)
Corollary lex_remove_ws : forall x' ps gaps,
  lex_all x' = LexOk ps -> Forall (fun g => forallb is_ws g = true) gaps ->
  lex_sim (lex (concat (map snd ps))) (lex (respace ps gaps)).
Proof.
  intros x' ps gaps H Hg. rewrite (lex_all_concat x' ps H).
  apply lex_sim_sym. apply lex_respace; assumption.
Qed.

(* removing layout that separates two tokens is of course visible *)
Example lex_remove_ws_merges :
  lex (s"f(a b)") = LexOk [(TIdent, s"f"); (TLParen, s"("); (TIdent, s"a"); (TIdent, s"b"); (TRParen, s")")] /\
  lex (s"f(ab)") = LexOk [(TIdent, s"f"); (TLParen, s"("); (TIdent, s"ab"); (TRParen, s")")].
Proof. split; vm_compute; reflexivity. Qed.

(* ---- non-vacuity ---- *)

Definition ex_src : str :=
  s"foo(a [=[b]=] ""q"" x\# #c" ++ [nl] ++ s"  #[[ bc ]] (y))" ++ [nl] ++ s"#last".

Definition ex_gaps : list str :=
  [[sp]; [nl; tab]; []; [cr; nl]; [tab]; [sp; sp]; []; [nl]; [sp]; [nl]; [tab]; [sp]; [nl; nl]; [tab];
   [sp]; [nl]; [sp]; [tab]; [sp; nl; tab]].

Example lex_respace_ex :
  exists ps, lex_all ex_src = LexOk ps /\ length ps = 20 /\
             Forall (fun g => forallb is_ws g = true) ex_gaps /\
             respace ps ex_gaps <> ex_src /\
             lex (respace ps ex_gaps) = lex ex_src /\
             lex ([nl; tab] ++ respace ps ex_gaps) = lex ex_src.
Proof.
  eexists. split; [vm_compute; reflexivity|]. split; [reflexivity|]. split.
  - repeat constructor.
  - split; [vm_compute; discriminate|]. split; vm_compute; reflexivity.
Qed.

(* pieces of every awkward ending: bracket, equals sign, hash, backslash, layout, comment at EOF *)
Example lex_insert_ws_at_boundary_ex :
  reaches (s"f(a]= \\ x\# #c") [(TIdent, s"f"); (TLParen, s"(")] (s"a]=" ++ s" \\ x\# #c") /\
  best (s"a]=" ++ s" \\ x\# #c") = Some (TUnquoted, 3) /\
  lex (s"f(" ++ s"a]=" ++ [nl; sp] ++ s" \\ x\# #c") = lex (s"f(a]= \\ x\# #c") /\
  lex (s"f(a]= \\" ++ [tab] ++ s" x\# #c") = lex (s"f(a]= \\ x\# #c") /\
  lex (s"f(a]= \\ x\#" ++ [nl] ++ s" #c") = lex (s"f(a]= \\ x\# #c") /\
  lex (s"f(a]= \\ x\# #c" ++ [sp; nl; sp]) = lex (s"f(a]= \\ x\# #c").
Proof.
  split.
  - apply (reaches_step _ [(TIdent, s"f")] lpar (s"a]= \\ x\# #c") TLParen 0).
    + apply (reaches_step _ [] 102%N (s"(a]= \\ x\# #c") TIdent 0); [apply reaches_nil | vm_compute; reflexivity].
    + vm_compute. reflexivity.
  - repeat split; vm_compute; reflexivity.
Qed.

(* ======== part Li ======== *)

(* ---- L4 ---- *)

Lemma crlf_app (a b : str) : crlf (a ++ b) = crlf a ++ crlf b.
Proof.
  induction a as [|c a IH]; [reflexivity|]. cbn [app crlf]. rewrite IH.
  destruct (c =? 10)%N; reflexivity.
Qed.

Lemma crlf_ws (u : str) : forallb is_ws u = true -> forallb is_ws (crlf u) = true.
Proof.
  induction u as [|c u IH]; intro H; [reflexivity|]. cbn [forallb] in H.
  apply andb_true_iff in H. destruct H as [Hc Hu]. cbn [crlf].
  destruct (c =? 10)%N; cbn [forallb]; rewrite (IH Hu); [reflexivity | rewrite Hc; reflexivity].
Qed.

Lemma crlf_id (u : str) : forallb (fun c => negb (c =? 10)%N) u = true -> crlf u = u.
Proof.
  induction u as [|c u IH]; intro H; [reflexivity|]. cbn [forallb] in H.
  apply andb_true_iff in H. destruct H as [Hc Hu]. cbn [crlf].
  apply negb_true_iff in Hc. rewrite Hc, (IH Hu). reflexivity.
Qed.

Lemma take_noeol_crlf (r : str) : take_while noeol (crlf r) = take_while noeol r.
Proof.
  induction r as [|c r IH]; [reflexivity|]. cbn [crlf]. destruct (N.eqb_spec c 10) as [E|E].
  - subst c. reflexivity.
  - cbn [take_while]. rewrite IH. reflexivity.
Qed.

Lemma drop_noeol_crlf (r : str) : drop_while noeol (crlf r) = crlf (drop_while noeol r).
Proof.
  induction r as [|c r IH]; [reflexivity|]. cbn [crlf]. destruct (N.eqb_spec c 10) as [E|E].
  - subst c. reflexivity.
  - cbn [drop_while]. destruct (noeol c) eqn:Ec; [exact IH|].
    cbn [crlf]. destruct (N.eqb_spec c 10); [contradiction | reflexivity].
Qed.

Lemma after_line_crlf (r : str) :
  exists w, forallb is_ws w = true /\ after_line (crlf r) = w ++ crlf (after_line r).
Proof.
  unfold after_line. rewrite drop_noeol_crlf.
  destruct (drop_while noeol r) as [|c d] eqn:D.
  - exists []. split; reflexivity.
  - assert (Hc : noeol c = false).
    { clear -D. induction r as [|a r IH]; cbn [drop_while] in D; [discriminate D|].
      destruct (noeol a) eqn:Ea; [apply IH; exact D | inversion D; subst; exact Ea]. }
    unfold noeol, is_eol in Hc.
    destruct (N.eqb_spec c 10) as [E10|E10].
    + subst c. exists []. split; reflexivity.
    + assert (E13 : c = 13%N) by lia. subst c. cbn [crlf]. cbn [tail_after].
      change (13 =? 10)%N with false. change (13 =? 13)%N with true. cbv iota.
      destruct d as [|c2 d'].
      * exists []. split; reflexivity.
      * cbn [crlf]. destruct (N.eqb_spec c2 10) as [E2|E2].
        -- subst c2. change (cr =? 10)%N with false. cbv iota.
           exists [cr; nl]. split; reflexivity.
        -- apply N.eqb_neq in E2. exists []. split; [reflexivity|].
           cbn [app crlf tail_after]. change (13 =? 13)%N with true. rewrite E2. reflexivity.
Qed.

Lemma best_ident_stop (a : char) (r rest : str) :
  is_ident_start a = true -> forallb is_ident_char r = true ->
  count_while is_ident_char rest = 0 -> unq_run rest = 0 ->
  best ((a :: r) ++ rest) = Some (TIdent, length (a :: r)).
Proof.
  intros Ha Hr D1 D2. cbn [app length].
  assert (I : m_identifier (a :: r ++ rest) = Some (S (length r))).
  { cbn [m_identifier]. rewrite Ha, (count_while_app_all _ _ _ Hr), D1, Nat.add_0_r. reflexivity. }
  assert (U : m_unquoted (a :: r ++ rest) = Some (S (length r))).
  { unfold m_unquoted. destruct (ident_char_unq a (ident_start_char a Ha)) as [H1 H2].
    rewrite unq_run_cons, H1, H2, (unq_run_ident _ _ Hr), D2, Nat.add_0_r. reflexivity. }
  rewrite best_results, I, U. kill_rules. cbn [pick noeof].
  rewrite better_same. reflexivity.
Qed.

Lemma stop_crlf (v : str) :
  count_while is_ident_char v = 0 -> unq_run v = 0 ->
  count_while is_ident_char (crlf v) = 0 /\ unq_run (crlf v) = 0.
Proof.
  destruct v as [|c t]; [split; reflexivity|]. intros H1 H2. cbn [crlf].
  destruct (N.eqb_spec c 10) as [E|E]; [split; reflexivity|].
  rewrite count_while_cons in *. rewrite unq_run_cons in *. split.
  - destruct (is_ident_char c); [discriminate H1 | reflexivity].
  - destruct (c =? 92)%N.
    + destruct t as [|b t']; [reflexivity|]. cbn [crlf].
      destruct (N.eqb_spec b 10) as [Eb|Eb]; [subst b; discriminate H2|].
      destruct (esc_ok b); [discriminate H2 | reflexivity].
    + destruct (is_unq_char c); [discriminate H2 | reflexivity].
Qed.

Lemma ident_no_lf (u : str) : forallb is_ident_char u = true -> forallb (fun c => negb (c =? 10)%N) u = true.
Proof.
  intro H. rewrite forallb_forall in *. intros c Hc. specialize (H c Hc).
  unfold is_ident_char, is_alnum, is_upper, is_lower, is_digit in H. lia.
Qed.

(* for inputs made of identifiers, parentheses, spaces, newlines and line comments, turning
   every LF into CR LF leaves the visible tokens unchanged *)
Theorem lex_crlf : forall x ps,
  lex_all x = LexOk ps -> forallb (fun p => crlf_safe_kind (fst p)) ps = true ->
  lex_sim (lex (crlf x)) (lex x).
Proof.
  apply (lex_all_ind (fun x ps => forallb (fun p => crlf_safe_kind (fst p)) ps = true ->
                                  lex_sim (lex (crlf x)) (lex x))).
  - intros _. apply lex_sim_refl.
  - intros a r k n ps B Hps IH Hk. cbn [forallb fst] in Hk. apply andb_true_iff in Hk.
    destruct Hk as [Hk Hrest]. specialize (IH Hrest).
    pose proof (best_le _ _ _ B) as Ln.
    set (u := firstn (S n) (a :: r)) in *. set (v := skipn (S n) (a :: r)) in *.
    assert (Ex : a :: r = u ++ v) by (symmetry; apply firstn_skipn).
    assert (Lu : length u = S n) by (apply firstn_length_le; exact Ln).
    assert (Hu : u <> []) by (intro E; rewrite E in Lu; discriminate Lu).
    assert (B' : best (u ++ v) = Some (k, length u)) by (rewrite <- Ex, Lu; exact B).
    rewrite Ex, crlf_app.
    assert (SK : forallb is_ws u = true -> lex_sim (lex (crlf u ++ crlf v)) (lex (u ++ v))).
    { intro Hw. eapply lex_sim_trans; [apply (lex_leading_ws_sim _ _ (crlf_ws u Hw))|].
      eapply lex_sim_trans; [exact IH|]. apply lex_sim_sym. apply (lex_leading_ws_sim _ _ Hw). }
    destruct k; try discriminate Hk.
    + (* TLParen *)
      pose proof (best_lparen _ _ B) as F. fold u in F. rewrite F in *.
      change (crlf [lpar]) with [lpar].
      rewrite (lex_first_piece [lpar] v TLParen Hu B').
      rewrite (lex_first_piece [lpar] (crlf v) TLParen Hu (best_lpar_any _)).
      apply lex_cons_sim. exact IH.
    + (* TRParen *)
      pose proof (best_rparen _ _ B) as F. fold u in F. rewrite F in *.
      change (crlf [rpar]) with [rpar].
      rewrite (lex_first_piece [rpar] v TRParen Hu B').
      rewrite (lex_first_piece [rpar] (crlf v) TRParen Hu (best_rpar_any _)).
      apply lex_cons_sim. exact IH.
    + (* TIdent *)
      destruct (best_ident_shape _ _ B) as (a' & r' & F & Ha & Hr). fold u in F.
      assert (Hall : forallb is_ident_char u = true).
      { rewrite F. cbn [forallb]. rewrite (ident_start_char a' Ha), Hr. reflexivity. }
      rewrite (crlf_id u (ident_no_lf u Hall)).
      pose proof (best_max _ _ _ B') as M.
      assert (D1 : count_while is_ident_char v = 0).
      { assert (S1 : short_res (noeof (m_identifier (u ++ v))) (length u)).
        { apply (M TIdent (fun x => noeof (m_identifier x))). in_rules. }
        rewrite F in S1. cbn [app m_identifier] in S1. rewrite Ha in S1.
        rewrite (count_while_app_all _ _ _ Hr) in S1. cbn [noeof short_res length] in S1. lia. }
      assert (D2 : unq_run v = 0).
      { assert (S1 : short_res (noeof (m_unquoted (u ++ v))) (length u)).
        { apply (M TUnquoted (fun x => noeof (m_unquoted x))). in_rules. }
        unfold m_unquoted in S1. rewrite (unq_run_ident _ _ Hall) in S1.
        destruct (length u + unq_run v) eqn:E; cbn [noeof short_res] in S1; lia. }
      destruct (stop_crlf v D1 D2) as [D1' D2'].
      rewrite (lex_first_piece u v TIdent Hu B').
      rewrite F in *.
      rewrite (lex_first_piece (a' :: r') (crlf v) TIdent Hu (best_ident_stop a' r' _ Ha Hr D1' D2')).
      apply lex_cons_sim. exact IH.
    + (* TLineComment *)
      apply best_inv in B. destruct B as (m & e & Hin & Hm).
      unfold rules in Hin. cbn [In] in Hin.
      do 12 (destruct Hin as [Hin | Hin]; [discriminate Hin|]).
      destruct Hin as [Hin | Hin];
        [|repeat (destruct Hin as [Hin | Hin]; [discriminate Hin|]); contradiction].
      inversion Hin. subst m. clear Hin.
      assert (Eh : a = hash).
      { destruct (N.eqb_spec a 35) as [E|E]; [exact E|]. apply N.eqb_neq in E.
        rewrite (m_line_comment_no a r E) in Hm. discriminate Hm. }
      subst a. destruct (m_line_comment_shape r _ _ Hm) as (Ho & _ & Sk). fold v in Sk.
      rewrite <- crlf_app, <- Ex. cbn [crlf]. change (hash =? 10)%N with false. cbv iota.
      assert (Ho' : opens_bracket (take_while noeol (crlf r)) = false) by (rewrite take_noeol_crlf; exact Ho).
      destruct (after_line_crlf r) as (w & Hw & Ea).
      eapply lex_sim_trans; [apply (lex_line_comment _ Ho')|]. rewrite Ea, <- Sk.
      eapply lex_sim_trans; [apply (lex_leading_ws_sim w _ Hw)|].
      eapply lex_sim_trans; [exact IH|].
      apply lex_sim_sym. rewrite Sk. apply (lex_line_comment _ Ho).
    + (* TNewline *)
      apply SK. destruct (is_eol a) eqn:Ea.
      * rewrite (best_newline a r Ea) in B. assert (En : n = count_while is_eol r) by (inversion B; reflexivity).
        unfold u. cbn [firstn forallb]. unfold is_ws at 1. rewrite Ea, orb_true_r. cbn [andb].
        rewrite En, firstn_count_while.
        pose proof (forallb_take_while is_eol r) as T. rewrite forallb_forall in *.
        intros c Hc. unfold is_ws. rewrite (T c Hc). apply orb_true_r.
      * exfalso. apply best_inv in B. destruct B as (m & e & Hin & Hm).
        unfold rules in Hin. cbn [In] in Hin.
        do 13 (destruct Hin as [Hin | Hin]; [discriminate Hin|]).
        destruct Hin as [Hin | Hin];
          [|repeat (destruct Hin as [Hin | Hin]; [discriminate Hin|]); contradiction].
        inversion Hin. subst m. rewrite (m_run_no is_eol a r Ea) in Hm. discriminate Hm.
    + (* TSpace *)
      apply SK. destruct (is_sptab a) eqn:Ea.
      * rewrite (best_space a r Ea) in B. assert (En : n = count_while is_sptab r) by (inversion B; reflexivity).
        unfold u. cbn [firstn forallb]. unfold is_ws at 1. rewrite Ea. cbn [orb andb].
        rewrite En, firstn_count_while.
        pose proof (forallb_take_while is_sptab r) as T. rewrite forallb_forall in *.
        intros c Hc. unfold is_ws. rewrite (T c Hc). reflexivity.
      * exfalso. apply best_inv in B. destruct B as (m & e & Hin & Hm).
        unfold rules in Hin. cbn [In] in Hin.
        do 14 (destruct Hin as [Hin | Hin]; [discriminate Hin|]).
        destruct Hin as [Hin | Hin]; [|contradiction].
        inversion Hin. subst m. rewrite (m_run_no is_sptab a r Ea) in Hm. discriminate Hm.
Qed.

Definition ex_crlf_src : str :=
  s"foo(a" ++ [nl] ++ s"  b # note" ++ [nl; nl] ++ s" c)#x" ++ [cr; nl] ++ s"bar()" ++ [nl].

Example lex_crlf_ex :
  exists ps, lex_all ex_crlf_src = LexOk ps /\
             forallb (fun p => crlf_safe_kind (fst p)) ps = true /\
             crlf ex_crlf_src <> ex_crlf_src /\
             lex (crlf ex_crlf_src) = lex ex_crlf_src /\
             exists ts, lex ex_crlf_src = LexOk ts /\ length ts = 9.
Proof.
  eexists. split; [vm_compute; reflexivity|]. split; [vm_compute; reflexivity|].
  split; [vm_compute; discriminate|]. split; [vm_compute; reflexivity|].
  eexists. split; vm_compute; reflexivity.
Qed.

(* a line ending inside a quoted (or bracket) argument is part of the token text: there the
   token text changes by exactly the inserted CR *)
Example lex_crlf_quoted_changes :
  lex (s"f(""a" ++ [nl] ++ s"b"")") =
    LexOk [(TIdent, s"f"); (TLParen, s"("); (TQuoted, s"""a" ++ [nl] ++ s"b"""); (TRParen, s")")] /\
  lex (crlf (s"f(""a" ++ [nl] ++ s"b"")")) =
    LexOk [(TIdent, s"f"); (TLParen, s"("); (TQuoted, s"""a" ++ [cr; nl] ++ s"b"""); (TRParen, s")")].
Proof. split; vm_compute; reflexivity. Qed.

(* ---- further non-vacuity examples ---- *)

Example best_insert_far_ex :
  best (s"foo(a" ++ rbr :: s")") = Some (TIdent, 3) /\ 1 <= 3 /\ 3 <= length (s"foo(a") /\
  (3 < length (s"foo(a") \/ (rbr =? 92)%N = false) /\
  best (s"foo(a" ++ rbr :: [sp; nl] ++ s")") = Some (TIdent, 3).
Proof. repeat split; try (vm_compute; reflexivity); cbn; lia. Qed.

Example lex_respace_partial_ex :
  reaches (s"f(a ""b") [(TIdent, s"f"); (TLParen, s"("); (TIdent, s"a"); (TSpace, s" ")] (s"""b") /\
  lex (respace [(TIdent, s"f"); (TLParen, s"("); (TIdent, s"a"); (TSpace, s" ")] [[nl]; [sp]; []; [tab]]
         ++ s"""b") = LexErr 7 /\
  lex (s"f(a ""b") = LexErr 4.
Proof.
  split; [|split; vm_compute; reflexivity].
  apply (reaches_step _ [(TIdent, s"f"); (TLParen, s"("); (TIdent, s"a")] sp (s"""b") TSpace 0).
  - apply (reaches_step _ [(TIdent, s"f"); (TLParen, s"(")] 97%N (s" ""b") TIdent 0).
    + apply (reaches_step _ [(TIdent, s"f")] lpar (s"a ""b") TLParen 0).
      * apply (reaches_step _ [] 102%N (s"(a ""b") TIdent 0); [apply reaches_nil | vm_compute; reflexivity].
      * vm_compute. reflexivity.
    + vm_compute. reflexivity.
  - vm_compute. reflexivity.
Qed.

Example lex_remove_ws_ex :
  exists ps, lex_all ex_src = LexOk ps /\
             lex (concat (map snd ps)) = lex (respace ps ex_gaps) /\
             concat (map snd ps) <> respace ps ex_gaps.
Proof.
  eexists. split; [vm_compute; reflexivity|]. split; [vm_compute; reflexivity | vm_compute; discriminate].
Qed.

(* ==== MAIN THEOREMS ====
   best_insert_far              the lexer's decision at an earlier piece start is unchanged by layout
                                inserted after ANY later character
   lex_insert_ws_at_boundary    L1  layout inserted after any piece (any kind) is invisible
   lex_respace                  L2  layout at any number of piece boundaries at once
   lex_respace_lead             L2  ... and before the first piece
   lex_respace_partial          L2  for inputs that fail later
   lex_remove_ws                L3  removal of layout standing at piece boundaries
   lex_crlf                     L4  LF -> CR LF on the layout-only fragment
*)
Print Assumptions best_insert_far.
Print Assumptions lex_insert_ws_at_boundary.
Print Assumptions lex_respace.
Print Assumptions lex_respace_lead.
Print Assumptions lex_respace_partial.
Print Assumptions lex_remove_ws.
Print Assumptions lex_crlf.
