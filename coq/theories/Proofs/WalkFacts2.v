(* Proofs/WalkFacts2.v -- continuation of WalkFacts.v: theorems that need well-formed trees
   (listing order, duplicate-freeness), the stdout/-o correspondence, concrete examples and
   refuted statements. *)
From Coq Require Import String List NArith Bool Arith Lia Permutation Sorted.
From CMinx Require Import Base.Str Model.Writer Model.Path Model.Naming Model.Pipeline Model.Walk.
From CMinx Require Import Proofs.WalkFacts.
Import ListNotations.

(* ---- spec ---- *)

(* the same settings with / without an output directory *)
Definition set_out (st : wsettings) (b : bool) : wsettings :=
  {| ws_out := b; ws_recursive := ws_recursive st; ws_prefix := ws_prefix st;
     ws_auto_exclude := ws_auto_exclude st; ws_sep := ws_sep st;
     ws_ext_titles := ws_ext_titles st; ws_ext_modules := ws_ext_modules st |}.

(* the last component of an output path is index.rst *)
Definition ends_in_index (p : list str) : bool := str_eqb (last p []) index_rst.

(* the non-index pages of a run, in order, each followed by a newline *)
Definition pages_as_printed (acts : list action) : list str :=
  map (fun c => c ++ [nl])
      (map snd (filter (fun pc => negb (ends_in_index (fst pc))) (writes acts))).

Section WalkFacts2.
  Variable st : wsettings.
  Variable hdrs : list str.
  Variable docfn : str -> str -> list N -> outcome.
  Variable excl : list str -> bool -> bool.

  Local Notation keepd := (keep_dir st excl).
  Local Notation vdir := (visit_dir st hdrs docfn excl).
  Local Notation all_ok := (WalkFacts.all_ok docfn).
  Local Notation run_prefix := (WalkFacts.run_prefix st).
  Local Notation dir_processed := (WalkFacts.dir_processed st excl).
  Local Notation expected_in_dir := (WalkFacts.expected_in_dir st excl).
  Local Notation expected_sub := (WalkFacts.expected_sub st excl).
  Local Notation expected_paths := (WalkFacts.expected_paths st excl).
  Local Notation visited := (WalkFacts.visited st excl).
  Local Notation nonexcl_files := (WalkFacts.nonexcl_files excl).
  Local Notation subdirs_of := (WalkFacts.subdirs_of st excl).
  Local Notation files_of := (WalkFacts.files_of excl).
  Local Notation index_of := (WalkFacts.index_of st hdrs excl).
  Local Notation toctree_dirs := (WalkFacts.toctree_dirs st excl).
  Local Notation toctree_files := (WalkFacts.toctree_files excl).
  Local Notation toctree_entries := (WalkFacts.toctree_entries st excl).
  Local Notation sub_acts := (WalkFacts.sub_acts st hdrs docfn excl).
  Local Notation raw_acts := (WalkFacts.raw_acts st hdrs docfn excl).

  (* ---------------- W10: the listing order is irrelevant ---------------- *)

  Definition node_files (n : node) : list (str * list N) :=
    match n with F nm c => [(nm, c)] | D _ _ => [] end.

  Lemma file_entries_cons : forall x l, file_entries (x :: l) = node_files x ++ file_entries l.
  Proof. intros x l. destruct x; reflexivity. Qed.

  Lemma tperm_shallow :
    (forall n n', tperm n n' -> node_name n = node_name n' /\ node_files n = node_files n')
    /\ (forall l l', tperm_list l l' ->
          Permutation (map node_name l) (map node_name l')
          /\ Permutation (file_entries l) (file_entries l')).
  Proof.
    apply tperm_mutind.
    - intros nm c. split; reflexivity.
    - intros nm ch ch' _ _. split; reflexivity.
    - split; constructor.
    - intros x x' l l' _ [Hn Hf] _ [IH1 IH2]. split.
      + cbn [map]. rewrite Hn. apply perm_skip. exact IH1.
      + rewrite !file_entries_cons, Hf. apply Permutation_app_head. exact IH2.
    - intros x y l. split.
      + cbn [map]. apply perm_swap.
      + rewrite !file_entries_cons. rewrite !app_assoc. apply Permutation_app_tail.
        apply Permutation_app_comm.
    - intros l1 l2 l3 _ [A1 A2] _ [B1 B2]. split; eapply perm_trans; eassumption.
  Qed.

  Lemma existsb_perm : forall {A} (f : A -> bool) l l',
    Permutation l l' -> existsb f l = existsb f l'.
  Proof.
    intros A f l l' Hp. induction Hp as [|x l l' Hp IH|x y l|l1 l2 l3 H1 IH1 H2 IH2].
    - reflexivity.
    - cbn [existsb]. rewrite IH. reflexivity.
    - cbn [existsb]. destruct (f x); destruct (f y); reflexivity.
    - congruence.
  Qed.

  Lemma existsb_files : forall (g : str -> bool) ch,
    existsb (fun n => match n with F fn _ => g fn | D _ _ => false end) ch
    = existsb (fun f => g (fst f)) (file_entries ch).
  Proof.
    intros g ch. induction ch as [|n r IH]; [reflexivity|].
    destruct n as [fn c|nm sub].
    - rewrite file_entries_F. cbn [existsb fst]. rewrite IH. reflexivity.
    - rewrite file_entries_D. cbn [existsb]. exact IH.
  Qed.

  Lemma dir_processed_tperm : forall rel l l',
    tperm_list l l' -> dir_processed rel l = dir_processed rel l'.
  Proof.
    intros rel l l' Ht. unfold WalkFacts.dir_processed. f_equal. f_equal.
    rewrite (existsb_files (fun fn => lc_cmake_suffix fn && negb (excl (rel ++ [fn]) false)) l).
    rewrite (existsb_files (fun fn => lc_cmake_suffix fn && negb (excl (rel ++ [fn]) false)) l').
    apply existsb_perm. apply (proj2 tperm_shallow). exact Ht.
  Qed.

  Lemma keep_dir_tperm : forall rel n n', tperm n n' -> keepd rel n = keepd rel n'.
  Proof.
    intros rel n n' Ht. destruct Ht as [nm c|nm ch ch' Hl]; [reflexivity|].
    unfold keep_dir. f_equal. f_equal.
    rewrite (existsb_files (fun fn => lc_cmake_suffix fn && negb (excl (rel ++ [nm; fn]) false)) ch).
    rewrite (existsb_files (fun fn => lc_cmake_suffix fn && negb (excl (rel ++ [nm; fn]) false)) ch').
    apply existsb_perm. apply (proj2 tperm_shallow). exact Hl.
  Qed.

  Lemma kept_names_tperm : forall rel l l',
    tperm_list l l' ->
    Permutation (map node_name (filter (keepd rel) l)) (map node_name (filter (keepd rel) l')).
  Proof.
    intros rel.
    refine (tperm_list_mind (fun n n' => tperm n n')
              (fun l l' => Permutation (map node_name (filter (keepd rel) l))
                                       (map node_name (filter (keepd rel) l'))) _ _ _ _ _ _).
    - intros nm c. constructor.
    - intros nm ch ch' Hl _. constructor. exact Hl.
    - constructor.
    - intros x x' l l' Hx _ _ IH. cbn [filter]. rewrite <- (keep_dir_tperm rel x x' Hx).
      destruct (keepd rel x); [|exact IH]. cbn [map].
      rewrite (proj1 (proj1 tperm_shallow x x' Hx)). apply perm_skip. exact IH.
    - intros x y l. cbn [filter]. destruct (keepd rel x); destruct (keepd rel y); cbn [map];
        try apply Permutation_refl. apply perm_swap.
    - intros l1 l2 l3 _ A _ B. eapply perm_trans; eassumption.
  Qed.

  Lemma NoDup_map_filter : forall {A B} (f : A -> B) (g : A -> bool) l,
    NoDup (map f l) -> NoDup (map f (filter g l)).
  Proof.
    intros A B f g l. induction l as [|x r IH]; intros H; [constructor|].
    cbn [map] in H. inversion H as [|y ys Hnin Hr]; subst. cbn [filter].
    destruct (g x); [|apply IH; exact Hr].
    cbn [map]. constructor; [|apply IH; exact Hr].
    intros Hin. apply Hnin. apply in_map_iff in Hin. destruct Hin as [z [Ez Hz]].
    apply filter_In in Hz. destruct Hz as [Hz _]. rewrite <- Ez. apply in_map. exact Hz.
  Qed.

  Lemma file_names_in_names : forall ch fn,
    In fn (map fst (file_entries ch)) -> In fn (map node_name ch).
  Proof.
    intros ch fn H. apply in_map_iff in H. destruct H as [[fn' c] [E H]]. cbn [fst] in E. subst fn'.
    apply in_file_entries in H. apply in_map_iff. exists (F fn c). split; [reflexivity|exact H].
  Qed.

  Lemma file_names_nodup : forall ch,
    NoDup (map node_name ch) -> NoDup (map fst (file_entries ch)).
  Proof.
    induction ch as [|n r IH]; intros H; [constructor|].
    cbn [map] in H. inversion H as [|y ys Hnin Hr]; subst.
    destruct n as [fn c|nm sub].
    - rewrite file_entries_F. cbn [map fst]. constructor; [|apply IH; exact Hr].
      intros Hin. apply Hnin. apply file_names_in_names. exact Hin.
    - rewrite file_entries_D. apply IH. exact Hr.
  Qed.

  Lemma dir_ok_names : forall ch, dir_ok ch = true -> NoDup (map node_name ch).
  Proof.
    intros ch H. unfold dir_ok in H. apply andb_true_iff in H. destruct H as [H _].
    apply andb_true_iff in H. destruct H as [H _]. apply nodupb_NoDup. exact H.
  Qed.

  Lemma dir_ok_stems : forall ch, dir_ok ch = true -> NoDup (cmake_stems ch).
  Proof.
    intros ch H. unfold dir_ok in H. apply andb_true_iff in H. destruct H as [H _].
    apply andb_true_iff in H. destruct H as [_ H]. apply nodupb_NoDup. exact H.
  Qed.

  Lemma dir_ok_no_index : forall ch,
    dir_ok ch = true -> mem_str index_stem (cmake_stems ch) = false.
  Proof.
    intros ch H. unfold dir_ok in H. apply andb_true_iff in H. destruct H as [_ H].
    apply negb_true_iff in H. exact H.
  Qed.

  (* with distinct sibling names, one os.walk step does not depend on the listing order *)
  Lemma visit_dir_tperm : forall prefix rel l l',
    tperm_list l l' -> NoDup (map node_name l) -> vdir prefix rel l = vdir prefix rel l'.
  Proof.
    intros prefix rel l l' Ht Hnd. rewrite !visit_dir_eq.
    rewrite <- (dir_processed_tperm rel l l' Ht).
    assert (Hs : subdirs_of rel l = subdirs_of rel l').
    { unfold WalkFacts.subdirs_of. apply sort_by_perm_eq.
      - apply kept_names_tperm. exact Ht.
      - rewrite map_id. apply NoDup_map_filter. exact Hnd. }
    assert (Hf : sort_by fst (nonexcl_files rel l) = sort_by fst (nonexcl_files rel l')).
    { apply sort_by_perm_eq.
      - unfold WalkFacts.nonexcl_files. apply perm_filter. apply (proj2 tperm_shallow). exact Ht.
      - unfold WalkFacts.nonexcl_files. apply NoDup_map_filter. apply file_names_nodup. exact Hnd. }
    unfold WalkFacts.index_of, WalkFacts.files_of. rewrite Hs, Hf. reflexivity.
  Qed.

  Lemma nodupb_perm : forall l l', Permutation l l' -> nodupb l = nodupb l'.
  Proof.
    intros l l' Hp. destruct (nodupb l) eqn:E1; destruct (nodupb l') eqn:E2; try reflexivity.
    - apply nodupb_NoDup in E1. apply (Permutation_NoDup Hp) in E1. apply nodupb_NoDup in E1.
      congruence.
    - apply nodupb_NoDup in E2. apply (Permutation_NoDup (Permutation_sym Hp)) in E2.
      apply nodupb_NoDup in E2. congruence.
  Qed.

  Lemma mem_str_perm : forall x l l', Permutation l l' -> mem_str x l = mem_str x l'.
  Proof.
    intros x l l' Hp. destruct (mem_str x l) eqn:E1; destruct (mem_str x l') eqn:E2; try reflexivity.
    - apply mem_str_in in E1. apply (Permutation_in _ Hp) in E1. apply mem_str_in in E1. congruence.
    - apply mem_str_in in E2. apply (Permutation_in _ (Permutation_sym Hp)) in E2.
      apply mem_str_in in E2. congruence.
  Qed.

  Lemma dir_ok_tperm : forall l l', tperm_list l l' -> dir_ok l = dir_ok l'.
  Proof.
    intros l l' Ht. destruct (proj2 tperm_shallow l l' Ht) as [H1 H2].
    assert (Hc : Permutation (cmake_stems l) (cmake_stems l')).
    { unfold cmake_stems. apply Permutation_map. apply perm_filter. apply Permutation_map. exact H2. }
    unfold dir_ok. rewrite (nodupb_perm _ _ H1), (nodupb_perm _ _ Hc), (mem_str_perm _ _ _ Hc).
    reflexivity.
  Qed.

  Lemma node_ok_tperm :
    (forall n n', tperm n n' -> node_ok n = node_ok n')
    /\ (forall l l', tperm_list l l' -> forallb node_ok l = forallb node_ok l').
  Proof.
    apply tperm_mutind.
    - reflexivity.
    - intros nm ch ch' Hl IH. cbn [node_ok]. rewrite IH, (dir_ok_tperm _ _ Hl). reflexivity.
    - reflexivity.
    - intros x x' l l' _ Hx _ IH. cbn [forallb]. rewrite Hx, IH. reflexivity.
    - intros x y l. cbn [forallb]. destruct (node_ok x); destruct (node_ok y); reflexivity.
    - intros l1 l2 l3 _ A _ B. congruence.
  Qed.

  Lemma sub_acts_tperm : forall prefix,
    (forall n n', tperm n n' -> node_ok n = true ->
       forall rel, Permutation (writes (sub_acts prefix rel n)) (writes (sub_acts prefix rel n')))
    /\ (forall l l', tperm_list l l' -> forallb node_ok l = true ->
          forall rel, Permutation (writes (flat_map (sub_acts prefix rel) l))
                                  (writes (flat_map (sub_acts prefix rel) l'))).
  Proof.
    intros prefix. apply tperm_mutind.
    - intros nm c _ rel. constructor.
    - intros nm ch ch' Hl IH Hok rel. cbn [node_ok] in Hok. apply andb_true_iff in Hok.
      destruct Hok as [Hd Hf]. rewrite !sub_acts_D.
      rewrite <- (keep_dir_tperm rel (D nm ch) (D nm ch') (tp_D nm ch ch' Hl)).
      destruct (keepd rel (D nm ch)); [|constructor].
      rewrite <- (visit_dir_tperm prefix (rel ++ [nm]) ch ch' Hl (dir_ok_names ch Hd)).
      rewrite !writes_app. apply Permutation_app_head. apply IH. exact Hf.
    - intros _ rel. constructor.
    - intros x x' l l' _ Hx _ IH Hok rel. cbn [forallb] in Hok. apply andb_true_iff in Hok.
      destruct Hok as [H1 H2]. cbn [flat_map]. rewrite !writes_app.
      apply Permutation_app; [apply Hx; exact H1|apply IH; exact H2].
    - intros x y l _ rel. cbn [flat_map]. rewrite !writes_app, !app_assoc.
      apply Permutation_app_tail. apply Permutation_app_comm.
    - intros l1 l2 l3 H12 A _ B Hok rel. eapply perm_trans; [apply A; exact Hok|].
      apply B. rewrite <- (proj2 node_ok_tperm l1 l2 H12). exact Hok.
  Qed.

  Theorem listing_order_irrelevant : forall base ch ch',
    tperm_list ch ch' -> tree_ok ch = true -> all_ok ->
    Permutation (writes (document st hdrs docfn excl base (KDir ch)))
                (writes (document st hdrs docfn excl base (KDir ch'))).
  Proof.
    intros base ch ch' Ht Hok Hall. rewrite !document_dir.
    destruct (excl [] true); [constructor|].
    rewrite !cut_at_abort_id by (intros a Ha; eapply raw_no_stop; eassumption).
    unfold tree_ok in Hok. apply andb_true_iff in Hok. destruct Hok as [Hd Hf].
    unfold WalkFacts.raw_acts. rewrite <- (visit_dir_tperm (run_prefix base) [] ch ch' Ht (dir_ok_names ch Hd)).
    rewrite !writes_app. apply Permutation_app_head.
    destruct (ws_recursive st); [|constructor].
    apply (proj2 (sub_acts_tperm (run_prefix base))); assumption.
  Qed.
  (* ---------------- tree_ok along the walk ---------------- *)

  Lemma visited_tree_ok : forall rel0 ch0 rel ch,
    visited rel0 ch0 rel ch -> tree_ok ch0 = true -> tree_ok ch = true.
  Proof.
    intros rel0 ch0 rel ch Hv. induction Hv as [rel ch|rel ch nm sub rel' ch' _ Hin _ _ IH]; intros H.
    - exact H.
    - apply IH. unfold tree_ok in H. apply andb_true_iff in H. destruct H as [_ H].
      rewrite forallb_forall in H. apply (H _ Hin).
  Qed.

  Lemma tree_ok_dir_ok : forall ch, tree_ok ch = true -> dir_ok ch = true.
  Proof.
    intros ch H. unfold tree_ok in H. apply andb_true_iff in H. destruct H as [H _]. exact H.
  Qed.

  Lemma node_ok_no_index : forall n, node_ok n = true -> node_no_index n = true.
  Proof.
    intros n. induction n as [nm c|nm ch IH] using node_ind2; intros H; [reflexivity|].
    cbn [node_ok] in H. apply andb_true_iff in H. destruct H as [Hd Hf].
    cbn [node_no_index]. rewrite (dir_ok_no_index ch Hd). cbn [negb andb].
    rewrite forallb_forall in Hf |- *. rewrite Forall_forall in IH.
    intros x Hx. apply IH; [exact Hx|]. apply Hf. exact Hx.
  Qed.

  Lemma tree_ok_no_index : forall ch, tree_ok ch = true -> no_index_page ch = true.
  Proof.
    intros ch H. apply (node_ok_no_index (D [] ch)). exact H.
  Qed.

  (* stem is injective on the page files of an ok directory *)
  Lemma stem_inj_dir : forall ch f1 b1 f2 b2,
    dir_ok ch = true -> In (F f1 b1) ch -> In (F f2 b2) ch ->
    is_cmake_name f1 = true -> is_cmake_name f2 = true -> stem f1 = stem f2 -> f1 = f2.
  Proof.
    intros ch f1 b1 f2 b2 Hd H1 H2 C1 C2 E.
    apply (key_inj_of_nodup stem (filter is_cmake_name (map fst (file_entries ch)))).
    - apply dir_ok_stems. exact Hd.
    - apply filter_In. split; [|exact C1]. apply in_file_entries in H1.
      apply (in_map fst) in H1. exact H1.
    - apply filter_In. split; [|exact C2]. apply in_file_entries in H2.
      apply (in_map fst) in H2. exact H2.
    - exact E.
  Qed.

  (* with distinct sibling names a path names at most one visited directory *)
  Lemma visited_unique : forall top rel c1 c2,
    tree_ok top = true -> visited [] top rel c1 -> visited [] top rel c2 -> c1 = c2.
  Proof.
    intros top rel c1 c2 Hok Hv1. revert c2.
    refine (visited_snoc_ind st excl [] top (fun r c => forall c2, visited [] top r c2 -> c = c2)
              _ _ rel c1 Hv1).
    - intros c2 Hv2. destruct (visited_parent st excl _ _ _ _ Hv2) as [[_ E]|[r [c [nm [_ [_ [_ [_ E]]]]]]]].
      + symmetry. exact E.
      + destruct r; discriminate E.
    - intros r c nm sub Hv IH Hrec Hin Hk c2 Hv2.
      destruct (visited_parent st excl _ _ _ _ Hv2) as [[E _]|[r' [c' [nm' [Hv' [_ [Hin' [_ E]]]]]]]].
      + destruct r; discriminate E.
      + apply app_inj_tail in E. destruct E as [E1 E2]. subst r' nm'.
        rewrite <- (IH c' Hv') in Hin'.
        assert (Hd : dir_ok c = true)
          by (apply tree_ok_dir_ok; eapply visited_tree_ok; eassumption).
        assert (E : D nm sub = D nm c2).
        { apply (key_inj_of_nodup node_name c); [apply dir_ok_names; exact Hd| | |reflexivity];
            assumption. }
        inversion E. reflexivity.
  Qed.

  (* ---------------- W8 (tree form) ---------------- *)

  Theorem excluded_file_not_written : forall base top rel ch fn bytes,
    tree_ok top = true -> visited [] top rel ch -> In (F fn bytes) ch ->
    is_cmake_name fn = true -> excl (rel ++ [fn]) false = true ->
    ~ In (rel ++ [rst_name fn]) (write_paths (document st hdrs docfn excl base (KDir top))).
  Proof.
    intros base top rel ch fn bytes Hok Hv Hin Hc He Hw.
    apply written_page_from_nonexcluded in Hw.
    destruct Hw as [[rel' [ch' [Hv' E]]]|[rel' [ch' [fn' [bytes' [Hv' [Hin' [He' [Hc' E]]]]]]]]].
    - apply app_inj_tail in E. destruct E as [_ E].
      apply (page_not_index ch fn bytes); try assumption.
      apply tree_ok_no_index. eapply visited_tree_ok; eassumption.
    - apply app_inj_tail in E. destruct E as [E1 E2]. subst rel'.
      assert (Ec : ch = ch') by (eapply visited_unique; eassumption). subst ch'.
      unfold rst_name in E2. apply app_inv_tail in E2.
      assert (Ef : fn = fn').
      { eapply (stem_inj_dir ch); try eassumption.
        apply tree_ok_dir_ok. eapply visited_tree_ok; eassumption. }
      subst fn'. congruence.
  Qed.

  (* ---------------- W6: toctree entries are duplicate-free ---------------- *)

  Lemma NoDup_map_inj_in : forall {A B} (f : A -> B) l,
    (forall x y, In x l -> In y l -> f x = f y -> x = y) -> NoDup l -> NoDup (map f l).
  Proof.
    intros A B f l Hinj Hnd. induction Hnd as [|x r Hnin Hr IH]; [constructor|].
    cbn [map]. constructor.
    - intros Hin. apply in_map_iff in Hin. destruct Hin as [y [Ey Hy]].
      apply Hnin. rewrite (Hinj x y); [exact Hy|left; reflexivity|right; exact Hy|symmetry; exact Ey].
    - apply IH. intros a b Ha Hb. apply Hinj; right; assumption.
  Qed.

  Lemma subdirs_of_nodup : forall rel ch, dir_ok ch = true -> NoDup (subdirs_of rel ch).
  Proof.
    intros rel ch Hd. unfold WalkFacts.subdirs_of.
    eapply Permutation_NoDup; [apply Permutation_sym, sort_by_perm|].
    apply NoDup_map_filter. apply dir_ok_names. exact Hd.
  Qed.

  Lemma files_of_nodup : forall rel ch, dir_ok ch = true -> NoDup (files_of rel ch).
  Proof.
    intros rel ch Hd. unfold WalkFacts.files_of.
    eapply Permutation_NoDup; [apply Permutation_map, Permutation_sym, sort_by_perm|].
    unfold WalkFacts.nonexcl_files. apply NoDup_map_filter. apply file_names_nodup.
    apply dir_ok_names. exact Hd.
  Qed.

  Lemma toctree_file_stems_nodup : forall rel ch,
    dir_ok ch = true -> NoDup (map stem (toctree_files rel ch)).
  Proof.
    intros rel ch Hd. apply NoDup_map_inj_in.
    - intros x y Hx Hy E. unfold WalkFacts.toctree_files in Hx, Hy.
      apply filter_In in Hx. destruct Hx as [Hx Cx]. apply filter_In in Hy. destruct Hy as [Hy Cy].
      apply in_files_of in Hx. destruct Hx as [bx [Hx _]].
      apply in_files_of in Hy. destruct Hy as [byy [Hy _]].
      eapply (stem_inj_dir ch); eassumption.
    - unfold WalkFacts.toctree_files. apply NoDup_filter. apply files_of_nodup. exact Hd.
  Qed.

  Theorem toctree_nodup : forall top rel ch,
    tree_ok top = true -> names_ok top = true -> visited [] top rel ch ->
    NoDup (toctree_entries rel ch).
  Proof.
    intros top rel ch Hok Hn Hv.
    assert (Hd : dir_ok ch = true) by (apply tree_ok_dir_ok; eapply visited_tree_ok; eassumption).
    unfold WalkFacts.toctree_entries. apply NoDup_app_intro.
    - apply NoDup_map_inj_in.
      + intros x y _ _ E. apply app_inv_tail in E. exact E.
      + unfold WalkFacts.toctree_dirs. destruct (ws_recursive st); [|constructor].
        apply subdirs_of_nodup. exact Hd.
    - apply toctree_file_stems_nodup. exact Hd.
    - intros e H1 H2. apply in_map_iff in H1. destruct H1 as [d [Ed _]].
      apply in_map_iff in H2. destruct H2 as [f [Ef Hf]].
      unfold WalkFacts.toctree_files in Hf. apply filter_In in Hf. destruct Hf as [Hf _].
      apply in_files_of in Hf. destruct Hf as [bytes [Hf _]].
      destruct (visited_names st excl _ _ _ _ Hv) as [q [_ [_ Hfiles]]].
      assert (Hnf : name_ok f = true).
      { unfold names_ok in Hn. rewrite forallb_forall in Hn. apply Hn. apply in_app_iff. right.
        eapply Hfiles. exact Hf. }
      unfold name_ok in Hnf. apply andb_true_iff in Hnf. destruct Hnf as [Hnf _].
      apply andb_true_iff in Hnf. destruct Hnf as [Hnf _]. apply negb_true_iff in Hnf.
      assert (Hs : mem slash f = true).
      { apply mem_in. destruct (stem_prefix f) as [t Ht]. rewrite Ht. apply in_app_iff. left.
        rewrite Ef, <- Ed. apply in_app_iff. right. left. reflexivity. }
      congruence.
  Qed.

  (* ---------------- W1b: no output path is written twice ---------------- *)

  Lemma in_expected_in_dir : forall rel ch p,
    In p (expected_in_dir rel ch) ->
    p = rel ++ [index_rst]
    \/ exists fn bytes, In (F fn bytes) ch /\ is_cmake_name fn = true /\ p = rel ++ [rst_name fn].
  Proof.
    intros rel ch p H. unfold WalkFacts.expected_in_dir in H. destruct (dir_processed rel ch); [|destruct H].
    destruct H as [H|H]; [left; symmetry; exact H|]. right.
    apply in_flat_map in H. destruct H as [n [Hn H]]. destruct n as [fn bytes|nm sub]; [|destruct H].
    destruct (excl (rel ++ [fn]) false); cbn [negb andb] in H; [destruct H|].
    destruct (is_cmake_name fn) eqn:Ec; [|destruct H]. destruct H as [H|[]].
    exists fn, bytes. repeat split; [exact Hn|exact Ec|symmetry; exact H].
  Qed.

  Lemma expected_pages_nodup : forall rel ch,
    NoDup (cmake_stems ch) ->
    NoDup (flat_map (fun n => match n with
                              | F fn _ => if negb (excl (rel ++ [fn]) false) && is_cmake_name fn
                                          then [rel ++ [rst_name fn]] else []
                              | D _ _ => []
                              end) ch).
  Proof.
    intros rel ch. induction ch as [|n r IH]; intros Hnd; [constructor|].
    destruct n as [fn bytes|nm sub].
    - unfold cmake_stems in Hnd. rewrite file_entries_F in Hnd. cbn [map filter fst] in Hnd.
      cbn [flat_map].
      destruct (is_cmake_name fn) eqn:Ec.
      + cbn [map] in Hnd. inversion Hnd as [|x xs Hnin Hr]; subst.
        destruct (negb (excl (rel ++ [fn]) false)); cbn [andb app]; [|apply IH; exact Hr].
        constructor; [|apply IH; exact Hr].
        intros Hin. apply Hnin. apply in_flat_map in Hin. destruct Hin as [n [Hn Hin]].
        destruct n as [fn' bytes'|nm' sub']; [|destruct Hin].
        destruct (negb (excl (rel ++ [fn']) false)); cbn [andb] in Hin; [|destruct Hin].
        destruct (is_cmake_name fn') eqn:Ec'; [|destruct Hin]. destruct Hin as [E|[]].
        apply app_inv_head in E. inversion E as [E']. unfold rst_name in E'.
        apply app_inv_tail in E'. rewrite <- E'.
        apply (in_cmake_stems r fn' bytes'); assumption.
      + rewrite andb_false_r. cbn [app]. apply IH. exact Hnd.
    - cbn [flat_map app]. apply IH. exact Hnd.
  Qed.

  Lemma expected_in_dir_nodup : forall rel ch, dir_ok ch = true -> NoDup (expected_in_dir rel ch).
  Proof.
    intros rel ch Hd. unfold WalkFacts.expected_in_dir. destruct (dir_processed rel ch); [|constructor].
    constructor; [|apply expected_pages_nodup; apply dir_ok_stems; exact Hd].
    intros Hin. apply in_flat_map in Hin. destruct Hin as [n [Hn Hin]].
    destruct n as [fn bytes|nm sub]; [|destruct Hin].
    destruct (negb (excl (rel ++ [fn]) false)); cbn [andb] in Hin; [|destruct Hin].
    destruct (is_cmake_name fn) eqn:Ec; [|destruct Hin]. destruct Hin as [E|[]].
    apply app_inv_head in E. inversion E as [E'].
    assert (Hm : mem_str index_stem (cmake_stems ch) = true).
    { apply mem_str_in. rewrite <- (rst_name_index fn E'). eapply in_cmake_stems; eassumption. }
    rewrite (dir_ok_no_index ch Hd) in Hm. discriminate Hm.
  Qed.

  Lemma in_expected_sub : forall n rel p,
    In p (expected_sub rel n) -> exists q, q <> [] /\ p = rel ++ node_name n :: q.
  Proof.
    intros n. induction n as [nm c|nm ch IH] using node_ind2; intros rel p H; [destruct H|].
    rewrite expected_sub_D in H. destruct (keepd rel (D nm ch)); [|destruct H].
    cbn [node_name]. apply in_app_iff in H. destruct H as [H|H].
    - apply in_expected_in_dir in H.
      destruct H as [H|[fn [bytes [_ [_ H]]]]]; rewrite H, <- app_assoc; eexists;
        (split; [|reflexivity]); discriminate.
    - apply in_flat_map in H. destruct H as [c [Hc H]]. rewrite Forall_forall in IH.
      destruct (IH c Hc _ _ H) as [q [_ Hq]]. rewrite Hq, <- app_assoc.
      eexists. split; [|reflexivity]. discriminate.
  Qed.

  Lemma expected_children_nodup : forall R ch,
    NoDup (map node_name ch) ->
    Forall (fun c => forall rel, NoDup (expected_sub rel c)) ch ->
    NoDup (flat_map (expected_sub R) ch).
  Proof.
    intros R ch Hnd Hall. induction Hall as [|c r Hc Hr IH]; [constructor|].
    cbn [map] in Hnd. inversion Hnd as [|x xs Hnin Hnd']; subst.
    cbn [flat_map]. apply NoDup_app_intro; [apply Hc|apply IH; exact Hnd'|].
    intros p H1 H2. apply in_expected_sub in H1. destruct H1 as [q1 [_ E1]].
    apply in_flat_map in H2. destruct H2 as [c' [Hc' H2]].
    apply in_expected_sub in H2. destruct H2 as [q2 [_ E2]].
    rewrite E1 in E2. apply app_inv_head in E2. inversion E2 as [[En Eq]].
    apply Hnin. rewrite En. apply in_map. exact Hc'.
  Qed.

  Lemma expected_sub_nodup : forall n, node_ok n = true -> forall rel, NoDup (expected_sub rel n).
  Proof.
    intros n. induction n as [nm c|nm ch IH] using node_ind2; intros Hok rel; [constructor|].
    cbn [node_ok] in Hok. apply andb_true_iff in Hok. destruct Hok as [Hd Hf].
    rewrite expected_sub_D. destruct (keepd rel (D nm ch)); [|constructor].
    apply NoDup_app_intro.
    - apply expected_in_dir_nodup. exact Hd.
    - apply expected_children_nodup; [apply dir_ok_names; exact Hd|].
      rewrite Forall_forall in IH |- *. rewrite forallb_forall in Hf.
      intros c Hc. apply IH; [exact Hc|apply Hf; exact Hc].
    - intros p H1 H2. apply in_flat_map in H2. destruct H2 as [c [_ H2]].
      apply in_expected_sub in H2. destruct H2 as [q [Hq E2]].
      apply in_expected_in_dir in H1.
      destruct H1 as [E1|[fn [bytes [_ [_ E1]]]]]; rewrite E1 in E2; apply app_inv_head in E2;
        inversion E2; subst q; apply Hq; reflexivity.
  Qed.

  Lemma expected_paths_nodup : forall top, tree_ok top = true -> NoDup (expected_paths [] top).
  Proof.
    intros top Hok.
    unfold tree_ok in Hok. apply andb_true_iff in Hok. destruct Hok as [Hd Hf].
    unfold WalkFacts.expected_paths. apply NoDup_app_intro.
    - apply expected_in_dir_nodup. exact Hd.
    - destruct (ws_recursive st); [|constructor].
      apply expected_children_nodup; [apply dir_ok_names; exact Hd|].
      rewrite Forall_forall. rewrite forallb_forall in Hf.
      intros c Hc. apply expected_sub_nodup. apply Hf. exact Hc.
    - intros p H1 H2. destruct (ws_recursive st); [|destruct H2].
      apply in_flat_map in H2. destruct H2 as [c [_ H2]].
      apply in_expected_sub in H2. destruct H2 as [q [Hq E2]].
      apply in_expected_in_dir in H1.
      destruct H1 as [E1|[fn [bytes [_ [_ E1]]]]]; rewrite E1 in E2; apply app_inv_head in E2;
        inversion E2; subst q; apply Hq; reflexivity.
  Qed.

  Theorem write_paths_nodup : ws_out st = true -> all_ok -> excl [] true = false ->
    forall base top, tree_ok top = true ->
    NoDup (write_paths (document st hdrs docfn excl base (KDir top))).
  Proof.
    intros Ho Hok He base top Ht.
    eapply Permutation_NoDup; [apply Permutation_sym; apply writes_exact; assumption|].
    apply expected_paths_nodup. exact Ht.
  Qed.
End WalkFacts2.

(* ================================================================== *)
(* W13: stdout carries exactly the non-index pages of the -o run        *)
(* ================================================================== *)

Section StdoutPages.
  Variable st : wsettings.
  Variable hdrs : list str.
  Variable docfn : str -> str -> list N -> outcome.
  Variable excl : list str -> bool -> bool.

  Local Notation so := (set_out st true).
  Local Notation ss := (set_out st false).

  Lemma pages_as_printed_app : forall a b,
    pages_as_printed (a ++ b) = pages_as_printed a ++ pages_as_printed b.
  Proof.
    intros a b. unfold pages_as_printed. rewrite writes_app, filter_app, !map_app. reflexivity.
  Qed.

  Lemma flat_map_corr : forall {A} (g1 g2 : A -> list action) l,
    (forall x, In x l -> prints (g1 x) = pages_as_printed (g2 x)) ->
    prints (flat_map g1 l) = pages_as_printed (flat_map g2 l).
  Proof.
    intros A g1 g2 l H. induction l as [|x r IH]; [reflexivity|].
    cbn [flat_map]. rewrite prints_app, pages_as_printed_app. f_equal.
    - apply H. left. reflexivity.
    - apply IH. intros y Hy. apply H. right. exact Hy.
  Qed.

  Lemma pages_as_printed_index : forall rel x,
    pages_as_printed [AMkDirs rel; AWrite (rel ++ [index_rst]) x] = [].
  Proof.
    intros rel x. unfold pages_as_printed, writes. cbn [flat_map app filter fst].
    unfold ends_in_index. rewrite last_last.
    change (str_eqb index_rst index_rst) with true. reflexivity.
  Qed.

  Lemma pages_as_printed_page : forall rel name text,
    str_eqb (stem name) index_stem = false ->
    pages_as_printed [AMkDirs []; AWrite (rel ++ [rst_name name]) text] = [text ++ [nl]].
  Proof.
    intros rel name text H. unfold pages_as_printed, writes. cbn [flat_map app filter fst].
    unfold ends_in_index. rewrite last_last.
    destruct (str_eqb (rst_name name) index_rst) eqn:E.
    - apply str_eqb_eq in E. apply rst_name_index in E. apply str_eqb_eq in E. congruence.
    - reflexivity.
  Qed.

  Lemma doc_actions_corr : all_ok docfn -> forall pre tn out name content,
    str_eqb (stem name) index_stem = false ->
    prints (doc_actions ss docfn pre tn out name content)
    = pages_as_printed (doc_actions so docfn pre tn out name content).
  Proof.
    intros Hok pre tn out name content Hn.
    destruct (doc_actions_ok ss docfn Hok pre tn out name content) as [t1 [D1 E1]].
    destruct (doc_actions_ok so docfn Hok pre tn out name content) as [t2 [D2 E2]].
    rewrite E1, E2.
    assert (Et : t1 = t2).
    { change (ws_sep ss) with (ws_sep st) in D1. change (ws_ext_titles ss) with (ws_ext_titles st) in D1.
      change (ws_ext_modules ss) with (ws_ext_modules st) in D1.
      change (ws_sep so) with (ws_sep st) in D2. change (ws_ext_titles so) with (ws_ext_titles st) in D2.
      change (ws_ext_modules so) with (ws_ext_modules st) in D2.
      rewrite D1 in D2. inversion D2. reflexivity. }
    subst t2. change (ws_out ss) with false. change (ws_out so) with true. cbv iota.
    rewrite pages_as_printed_page by exact Hn. reflexivity.
  Qed.

  Lemma stem_not_index : forall ch fn bytes,
    mem_str index_stem (cmake_stems ch) = false -> In (F fn bytes) ch -> is_cmake_name fn = true ->
    str_eqb (stem fn) index_stem = false.
  Proof.
    intros ch fn bytes Hm Hin Hc. destruct (str_eqb (stem fn) index_stem) eqn:E; [|reflexivity].
    apply str_eqb_eq in E.
    assert (H : mem_str index_stem (cmake_stems ch) = true).
    { apply mem_str_in. rewrite <- E. eapply in_cmake_stems; eassumption. }
    congruence.
  Qed.

  Lemma visit_dir_corr : all_ok docfn -> forall prefix rel ch,
    mem_str index_stem (cmake_stems ch) = false ->
    prints (snd (visit_dir ss hdrs docfn excl prefix rel ch))
    = pages_as_printed (snd (visit_dir so hdrs docfn excl prefix rel ch)).
  Proof.
    intros Hok prefix rel ch Hm. rewrite !visit_dir_eq.
    change (dir_processed ss excl rel ch) with (dir_processed st excl rel ch).
    change (dir_processed so excl rel ch) with (dir_processed st excl rel ch).
    destruct (dir_processed st excl rel ch); [|reflexivity].
    cbn [snd]. change (ws_out ss) with false. change (ws_out so) with true. cbv iota.
    rewrite pages_as_printed_app, pages_as_printed_index. cbn [app].
    apply flat_map_corr. intros f Hf. apply in_sorted_files in Hf. destruct Hf as [Hf _].
    unfold page_acts. destruct (is_cmake_name (fst f)) eqn:Ec; [|reflexivity].
    apply doc_actions_corr; [exact Hok|]. eapply stem_not_index; eassumption.
  Qed.

  Lemma sub_acts_corr : all_ok docfn -> forall prefix n, node_no_index n = true -> forall rel,
    prints (sub_acts ss hdrs docfn excl prefix rel n)
    = pages_as_printed (sub_acts so hdrs docfn excl prefix rel n).
  Proof.
    intros Hok prefix n. induction n as [nm c|nm ch IH] using node_ind2; intros Hn rel; [reflexivity|].
    rewrite !sub_acts_D.
    change (keep_dir ss excl rel (D nm ch)) with (keep_dir st excl rel (D nm ch)).
    change (keep_dir so excl rel (D nm ch)) with (keep_dir st excl rel (D nm ch)).
    destruct (keep_dir st excl rel (D nm ch)); [|reflexivity].
    cbn [node_no_index] in Hn. apply andb_true_iff in Hn. destruct Hn as [Hm Hf].
    apply negb_true_iff in Hm.
    rewrite prints_app, pages_as_printed_app. f_equal; [apply visit_dir_corr; assumption|].
    apply flat_map_corr. intros c Hc. rewrite Forall_forall in IH. rewrite forallb_forall in Hf.
    apply IH; [exact Hc|apply Hf; exact Hc].
  Qed.

  Theorem stdout_equals_pages_dir : all_ok docfn -> forall base top,
    no_index_page top = true ->
    prints (document ss hdrs docfn excl base (KDir top))
    = pages_as_printed (document so hdrs docfn excl base (KDir top)).
  Proof.
    intros Hok base top Hn. rewrite !document_dir.
    destruct (excl [] true); [reflexivity|].
    rewrite !cut_at_abort_id by (intros a Ha; eapply raw_no_stop; eassumption).
    unfold raw_acts. change (run_prefix ss base) with (run_prefix st base).
    change (run_prefix so base) with (run_prefix st base).
    change (ws_recursive ss) with (ws_recursive st). change (ws_recursive so) with (ws_recursive st).
    unfold no_index_page in Hn. apply andb_true_iff in Hn. destruct Hn as [Hm Hf].
    apply negb_true_iff in Hm.
    rewrite prints_app, pages_as_printed_app. f_equal; [apply visit_dir_corr; assumption|].
    destruct (ws_recursive st); [|reflexivity].
    apply flat_map_corr. intros c Hc. rewrite forallb_forall in Hf.
    apply sub_acts_corr; [exact Hok|apply Hf; exact Hc].
  Qed.

  Theorem stdout_equals_pages_file : all_ok docfn -> forall base content,
    str_eqb (stem base) index_stem = false ->
    prints (document ss hdrs docfn excl base (KFile content))
    = pages_as_printed (document so hdrs docfn excl base (KFile content)).
  Proof.
    intros Hok base content Hn. unfold document.
    destruct (excl [] false); [reflexivity|].
    change (ws_out ss) with false. change (ws_out so) with true. cbv iota.
    change (ws_prefix ss) with (ws_prefix st). change (ws_prefix so) with (ws_prefix st).
    assert (H := doc_actions_corr Hok (ws_prefix st) base [] base content Hn).
    destruct (doc_actions_ok ss docfn Hok (ws_prefix st) base [] base content) as [t1 [_ E1]].
    destruct (doc_actions_ok so docfn Hok (ws_prefix st) base [] base content) as [t2 [_ E2]].
    rewrite E1, E2 in H |- *. change (ws_out ss) with false in *. change (ws_out so) with true in *.
    cbv iota in H |- *. cbn [app cut_at_abort]. exact H.
  Qed.
End StdoutPages.

(* ================================================================== *)
(* concrete instances: the hypotheses are satisfiable, the conclusions  *)
(* are not trivially true                                               *)
(* ================================================================== *)

Definition docfn_ok (title modname : str) (bytes : list N) : outcome :=
  OOk (title ++ s"|" ++ modname ++ s"|" ++ bytes).
(* a documenter that fails on files starting with an exclamation mark *)
Definition docfn_ex (title modname : str) (bytes : list N) : outcome :=
  if startswith (s"!") bytes then OParseErr else docfn_ok title modname bytes.
Definition excl_ex (rel : list str) (isdir : bool) : bool :=
  if isdir then str_eqb (last rel []) (s"skipme") else str_eqb (last rel []) (s"secret.cmake").
Definition excl_none (rel : list str) (isdir : bool) : bool := false.
Definition excl_all (rel : list str) (isdir : bool) : bool := true.
Definition st_ex : wsettings :=
  {| ws_out := true; ws_recursive := true; ws_prefix := None; ws_auto_exclude := true;
     ws_sep := s"."; ws_ext_titles := false; ws_ext_modules := true |}.
Definition hdrs_ex : list str := [s"#"; s"*"; s"="; s"-"].
Definition deep_ex : list node := [F (s"e.cmake") (s"E"); F (s"d.CMAKE") (s"D")].
Definition sub_ex : list node :=
  [F (s"c.cmake") (s"C"); F (s"secret.cmake") (s"S"); F (s"README") (s"R"); D (s"deep") deep_ex].
Definition top_ex : list node :=
  [ F (s"b.cmake") (s"B"); F (s"a.cmake") (s"A"); F (s"notes.txt") (s"N");
    D (s"zeta") [F (s"z.cmake") (s"Z")];
    D (s"sub") sub_ex;
    D (s"skipme") [F (s"x.cmake") (s"X")];
    D (s"empty") [F (s"readme.txt") (s"T")] ].
(* the same tree listed in another order, at three levels *)
Definition top_ex' : list node :=
  [ F (s"a.cmake") (s"A"); F (s"b.cmake") (s"B"); F (s"notes.txt") (s"N");
    D (s"sub") [F (s"secret.cmake") (s"S"); F (s"c.cmake") (s"C"); F (s"README") (s"R");
                D (s"deep") [F (s"d.CMAKE") (s"D"); F (s"e.cmake") (s"E")]];
    D (s"zeta") [F (s"z.cmake") (s"Z")];
    D (s"skipme") [F (s"x.cmake") (s"X")];
    D (s"empty") [F (s"readme.txt") (s"T")] ].
Definition run_ex : list action := document st_ex hdrs_ex docfn_ok excl_ex (s"proj") (KDir top_ex).
Definition expect_ex : list (list str) :=
  [ [s"index.rst"]; [s"a.rst"]; [s"b.rst"];
    [s"zeta"; s"index.rst"]; [s"zeta"; s"z.rst"];
    [s"sub"; s"index.rst"]; [s"sub"; s"c.rst"];
    [s"sub"; s"deep"; s"index.rst"]; [s"sub"; s"deep"; s"d.rst"]; [s"sub"; s"deep"; s"e.rst"] ].

Lemma all_ok_docfn_ok : all_ok docfn_ok.
Proof. intros t m c. eexists. reflexivity. Qed.

Example ex_hypotheses :
  ws_out st_ex = true /\ excl_ex [] true = false /\ tree_ok top_ex = true /\ names_ok top_ex = true
  /\ no_index_page top_ex = true /\ dir_processed st_ex excl_ex [] top_ex = true.
Proof. vm_compute. repeat split. Qed.

Example ex_write_paths : write_paths run_ex = expect_ex.
Proof. vm_compute. reflexivity. Qed.

(* W1 on the example; the expected paths come in tree order, the written ones in walk order *)
Example writes_exact_ex :
  Permutation (write_paths run_ex) (expected_paths st_ex excl_ex [] top_ex).
Proof. apply writes_exact; [reflexivity|exact all_ok_docfn_ok|reflexivity]. Qed.
Example writes_exact_ex_order : write_paths run_ex <> expected_paths st_ex excl_ex [] top_ex.
Proof. intros H. vm_compute in H. discriminate H. Qed.

Example write_paths_nodup_ex : NoDup (write_paths run_ex).
Proof. apply write_paths_nodup; [reflexivity|exact all_ok_docfn_ok|reflexivity|reflexivity]. Qed.

(* W2 / W3 on the example *)
Example ex_writes_5_6 :
  nth_error (writes run_ex) 6 = Some ([s"sub"; s"c.rst"], s"proj.sub/c|proj.sub/c.cmake|C")
  /\ nth_error (writes run_ex) 5
     = Some ([s"sub"; s"index.rst"], index_of st_ex hdrs_ex excl_ex (s"proj") [s"sub"] sub_ex).
Proof. vm_compute. split; reflexivity. Qed.

Example page_content_ex :
  exists rel ch, visited st_ex excl_ex [] top_ex rel ch
                 /\ is_page_of st_ex docfn_ok excl_ex (s"proj") rel ch [s"sub"; s"c.rst"]
                               (s"proj.sub/c|proj.sub/c.cmake|C").
Proof.
  apply (page_content st_ex hdrs_ex docfn_ok excl_ex (s"proj") top_ex).
  - apply in_writes. eapply nth_error_In. exact (proj1 ex_writes_5_6).
  - intros rel E. apply (f_equal (fun l => last l [])) in E. cbv beta in E. rewrite last_last in E.
    vm_compute in E. discriminate E.
Qed.

Example index_content_ex :
  exists ch, visited st_ex excl_ex [] top_ex [s"sub"] ch
             /\ dir_processed st_ex excl_ex [s"sub"] ch = true
             /\ index_of st_ex hdrs_ex excl_ex (s"proj") [s"sub"] sub_ex
                = index_of st_ex hdrs_ex excl_ex (run_prefix st_ex (s"proj")) [s"sub"] ch.
Proof.
  apply (index_content st_ex hdrs_ex docfn_ok excl_ex (s"proj") top_ex [s"sub"]).
  - reflexivity.
  - apply in_writes. eapply nth_error_In. exact (proj2 ex_writes_5_6).
Qed.

(* C14 on the example *)
Example toctree_entries_ex :
  toctree_entries st_ex excl_ex [] top_ex = [s"sub/index.rst"; s"zeta/index.rst"; s"a"; s"b"].
Proof. vm_compute. reflexivity. Qed.

Example toctree_nodup_ex : NoDup (toctree_entries st_ex excl_ex [] top_ex).
Proof. apply (toctree_nodup st_ex excl_ex top_ex); [reflexivity|reflexivity|constructor]. Qed.

Example all_written_reachable_ex : forall p, In p (write_paths run_ex) ->
  reachable st_ex hdrs_ex excl_ex (s"proj") run_ex p.
Proof.
  apply (all_written_reachable st_ex hdrs_ex docfn_ok excl_ex);
    [exact all_ok_docfn_ok|reflexivity|reflexivity|reflexivity].
Qed.

Example toctree_closed_ex :
  In [s"sub"; s"index.rst"] (write_paths run_ex) /\ In [s"a.rst"] (write_paths run_ex).
Proof.
  split.
  - apply (toctree_closed_dirs st_ex hdrs_ex docfn_ok excl_ex all_ok_docfn_ok eq_refl eq_refl
             (s"proj") top_ex [] top_ex (s"sub")); [constructor|].
    vm_compute. left. reflexivity.
  - apply (toctree_closed_files st_ex hdrs_ex docfn_ok excl_ex all_ok_docfn_ok eq_refl eq_refl
             (s"proj") top_ex [] top_ex (s"a.cmake")); [constructor|reflexivity|].
    vm_compute. left. reflexivity.
Qed.

(* C15 on the example *)
Example excluded_input_no_output_ex :
  document st_ex hdrs_ex docfn_ok excl_all (s"proj") (KDir top_ex) = []
  /\ document st_ex hdrs_ex docfn_ok excl_all (s"a.cmake") (KFile (s"A")) = [].
Proof. split; apply excluded_input_no_output; reflexivity. Qed.

Example excluded_dir_not_descended_ex :
  (forall p q, In p (write_paths run_ex) -> q <> [] -> p <> [] ++ s"skipme" :: q)
  /\ (forall p q, In p (mkdirs run_ex) -> p <> [] ++ s"skipme" :: q).
Proof. apply excluded_dir_not_descended. reflexivity. Qed.

Example excluded_file_not_written_ex : ~ In ([s"sub"] ++ [rst_name (s"secret.cmake")]) (write_paths run_ex).
Proof.
  apply (excluded_file_not_written st_ex hdrs_ex docfn_ok excl_ex (s"proj") top_ex [s"sub"] sub_ex
           (s"secret.cmake") (s"S")); try reflexivity.
  - eapply (v_down st_ex excl_ex [] top_ex (s"sub") sub_ex); [reflexivity| |reflexivity|constructor].
    vm_compute. tauto.
  - vm_compute. tauto.
Qed.

Lemma tperm_refl : forall n, tperm n n.
Proof.
  intros n. induction n as [nm c|nm ch IH] using node_ind2; [constructor|].
  constructor. induction IH as [|x r Hx Hr IHr]; constructor; assumption.
Qed.

Lemma tperm_list_refl : forall l, tperm_list l l.
Proof. intros l. induction l as [|x r IH]; constructor; [apply tperm_refl|exact IH]. Qed.

Example tperm_ex : tperm_list top_ex top_ex'.
Proof.
  unfold top_ex, top_ex'.
  eapply tpl_trans; [apply tpl_swap|].
  apply tpl_skip; [apply tperm_refl|]. apply tpl_skip; [apply tperm_refl|].
  apply tpl_skip; [apply tperm_refl|].
  eapply tpl_trans; [apply tpl_swap|].
  apply tpl_skip; [|apply tperm_list_refl].
  apply tp_D. unfold sub_ex.
  eapply tpl_trans; [apply tpl_swap|].
  apply tpl_skip; [apply tperm_refl|]. apply tpl_skip; [apply tperm_refl|].
  apply tpl_skip; [apply tperm_refl|]. apply tpl_skip; [|apply tpl_nil].
  apply tp_D. apply tpl_swap.
Qed.

Example listing_order_irrelevant_ex :
  Permutation (writes run_ex) (writes (document st_ex hdrs_ex docfn_ok excl_ex (s"proj") (KDir top_ex')))
  /\ writes run_ex <> writes (document st_ex hdrs_ex docfn_ok excl_ex (s"proj") (KDir top_ex')).
Proof.
  split.
  - apply listing_order_irrelevant; [exact tperm_ex|reflexivity|exact all_ok_docfn_ok].
  - intros H. apply (f_equal (map fst)) in H. vm_compute in H. discriminate H.
Qed.

(* C18 on the example *)
Example no_output_dir_no_writes_ex :
  write_paths (document (set_out st_ex false) hdrs_ex docfn_ok excl_ex (s"proj") (KDir top_ex)) = []
  /\ mkdirs (document (set_out st_ex false) hdrs_ex docfn_ok excl_ex (s"proj") (KDir top_ex)) = []
  /\ length (prints (document (set_out st_ex false) hdrs_ex docfn_ok excl_ex (s"proj") (KDir top_ex))) = 6.
Proof.
  destruct (no_output_dir_no_writes (set_out st_ex false) hdrs_ex docfn_ok excl_ex eq_refl
              (s"proj") (KDir top_ex)) as [H1 H2].
  split; [exact H1|]. split; [exact H2|]. vm_compute. reflexivity.
Qed.

Example writes_stay_below_ex : forall p, In p (write_paths run_ex ++ mkdirs run_ex) ->
  forall c, In c p -> name_ok c = true.
Proof. apply writes_stay_below. reflexivity. Qed.

Example stdout_equals_pages_ex :
  prints (document (set_out st_ex false) hdrs_ex docfn_ok excl_ex (s"proj") (KDir top_ex))
  = pages_as_printed (document (set_out st_ex true) hdrs_ex docfn_ok excl_ex (s"proj") (KDir top_ex))
  /\ length (pages_as_printed run_ex) = 6
  /\ prints (document (set_out st_ex false) hdrs_ex docfn_ok excl_ex (s"a.cmake") (KFile (s"A")))
     = [s"a|a.cmake|A" ++ [nl]].
Proof.
  split; [apply stdout_equals_pages_dir; [exact all_ok_docfn_ok|reflexivity]|].
  split; vm_compute; reflexivity.
Qed.

Example files_sorted_within_dir_ex :
  toctree_files excl_ex [s"sub"; s"deep"] deep_ex = [s"d.CMAKE"; s"e.cmake"]
  /\ map node_name deep_ex = [s"e.cmake"; s"d.CMAKE"].
Proof. vm_compute. split; reflexivity. Qed.

(* C06 link on an example: the second file (in sorted order) fails *)
Definition top_fail : list node :=
  [F (s"c.cmake") (s"C"); F (s"b.cmake") (s"!bad"); F (s"a.cmake") (s"A")].
Example failed_file_aborts_ex :
  write_paths (document st_ex hdrs_ex docfn_ex excl_ex (s"proj") (KDir top_fail))
  = [[s"index.rst"]; [s"a.rst"]]
  /\ last (document st_ex hdrs_ex docfn_ex excl_ex (s"proj") (KDir top_fail)) AExit255 = AAbort OParseErr
  /\ document st_ex hdrs_ex docfn_ex excl_ex (s"b.cmake") (KFile (s"!bad"))
     = [AMkDirs []; AAbort OParseErr].
Proof. vm_compute. repeat split. Qed.

Example failed_file_aborts_run_ex :
  document st_ex hdrs_ex docfn_ex excl_ex (s"b.cmake") (KFile (s"!bad"))
  = (if ws_out st_ex then [AMkDirs []] else []) ++ [AAbort OParseErr]
  /\ write_paths (document st_ex hdrs_ex docfn_ex excl_ex (s"b.cmake") (KFile (s"!bad"))) = []
  /\ prints (document st_ex hdrs_ex docfn_ex excl_ex (s"b.cmake") (KFile (s"!bad"))) = [].
Proof.
  eapply failed_file_aborts_run; [reflexivity|reflexivity|reflexivity|discriminate].
Qed.

(* ================================================================== *)
(* refuted statements and witnesses for the side conditions             *)
(* ================================================================== *)

Lemma not_nodup_witness : forall {A} (l : list A) x i j,
  i < j -> nth_error l i = Some x -> nth_error l j = Some x -> ~ NoDup l.
Proof.
  intros A l x i j Hij Hi Hj Hnd. rewrite NoDup_nth_error in Hnd.
  assert (Hlt : i < length l) by (apply nth_error_Some; congruence).
  assert (E : i = j) by (apply Hnd; [exact Hlt|congruence]). lia.
Qed.

(* (a) a file index.cmake: its page and the directory index are both written to index.rst.
   Hence: W1b needs the no-index condition of tree_ok, W3 needs no_index_page, W13 needs
   no_index_page. *)
Definition top_index : list node := [F (s"index.cmake") (s"I"); F (s"a.cmake") (s"A")].
Definition run_index : list action :=
  document st_ex hdrs_ex docfn_ok excl_none (s"proj") (KDir top_index).

Example index_cmake_collides :
  tree_ok top_index = false /\ no_index_page top_index = false
  /\ write_paths run_index = [[s"index.rst"]; [s"a.rst"]; [s"index.rst"]]
  /\ nth_error (writes run_index) 2 = Some ([s"index.rst"], s"proj.index|proj.index.cmake|I")
  /\ ~ NoDup (write_paths run_index).
Proof.
  split; [reflexivity|]. split; [reflexivity|]. split; [vm_compute; reflexivity|].
  split; [vm_compute; reflexivity|].
  apply (not_nodup_witness _ [s"index.rst"] 0 2); [lia|vm_compute; reflexivity|vm_compute; reflexivity].
Qed.

Example index_content_refuted :
  ~ (forall base top rel text,
       In (AWrite (rel ++ [index_rst]) text)
          (document st_ex hdrs_ex docfn_ok excl_none base (KDir top)) ->
       exists ch, visited st_ex excl_none [] top rel ch
                  /\ dir_processed st_ex excl_none rel ch = true
                  /\ text = index_of st_ex hdrs_ex excl_none (run_prefix st_ex base) rel ch).
Proof.
  intros H.
  destruct (H (s"proj") top_index [] (s"proj.index|proj.index.cmake|I")) as [ch [Hv [_ Ht]]].
  - apply in_writes. eapply nth_error_In.
    exact (proj1 (proj2 (proj2 (proj2 index_cmake_collides)))).
  - destruct (visited_parent st_ex excl_none _ _ _ _ Hv) as [[_ E]|[r [c [nm [_ [_ [_ [_ E]]]]]]]].
    + subst ch. vm_compute in Ht. discriminate Ht.
    + destruct r; discriminate E.
Qed.

Example stdout_equals_pages_refuted :
  ~ (forall base top,
       prints (document (set_out st_ex false) hdrs_ex docfn_ok excl_none base (KDir top))
       = pages_as_printed (document (set_out st_ex true) hdrs_ex docfn_ok excl_none base (KDir top))).
Proof.
  intros H. specialize (H (s"proj") top_index). apply (f_equal (@length _)) in H.
  vm_compute in H. discriminate H.
Qed.

Example stdout_equals_pages_file_refuted :
  ~ (forall base content,
       prints (document (set_out st_ex false) hdrs_ex docfn_ok excl_none base (KFile content))
       = pages_as_printed (document (set_out st_ex true) hdrs_ex docfn_ok excl_none base (KFile content))).
Proof.
  intros H. specialize (H (s"index.cmake") (s"I")). apply (f_equal (@length _)) in H.
  vm_compute in H. discriminate H.
Qed.

(* (b) two page files with the same stem (possible on a case-sensitive file system:
   is_cmake_name ignores case): both pages go to the same path *)
Definition top_dupstem : list node := [F (s"a.cmake") (s"1"); F (s"a.CMAKE") (s"2")].
Example same_stem_collides :
  tree_ok top_dupstem = false
  /\ writes (document st_ex hdrs_ex docfn_ok excl_none (s"proj") (KDir top_dupstem))
     = [([s"index.rst"], index_of st_ex hdrs_ex excl_none (s"proj") [] top_dupstem);
        ([s"a.rst"], s"proj.a.CMAKE|proj.a.CMAKE|2"); ([s"a.rst"], s"proj.a|proj.a.cmake|1")]
  /\ ~ NoDup (write_paths (document st_ex hdrs_ex docfn_ok excl_none (s"proj") (KDir top_dupstem))).
Proof.
  split; [reflexivity|]. split; [vm_compute; reflexivity|].
  apply (not_nodup_witness _ [s"a.rst"] 1 2); [lia|vm_compute; reflexivity|vm_compute; reflexivity].
Qed.

(* (c) two sibling directories with the same name (the model allows it, a file system does not) *)
Definition top_dupdir : list node :=
  [D (s"d") [F (s"x.cmake") (s"1")]; D (s"d") [F (s"y.cmake") (s"2")]].
Example same_dir_name_collides :
  tree_ok top_dupdir = false
  /\ ~ NoDup (write_paths (document st_ex hdrs_ex docfn_ok excl_none (s"proj") (KDir top_dupdir))).
Proof.
  split; [reflexivity|].
  apply (not_nodup_witness _ [s"d"; s"index.rst"] 1 3); [lia|vm_compute; reflexivity|vm_compute; reflexivity].
Qed.

(* (d) former finding F23, repaired in the program: auto-exclusion and no .cmake file directly
   in the input directory.  In a recursive run the input directory now gets its index.rst,
   which lists the kept sub-directories, so every written page is reachable from it; without
   --recursive nothing at all is written.  (Before the repair the sub-directories were walked
   and written while the top index.rst was missing: all_written_reachable_refuted.) *)
Definition top_nocmake : list node := [F (s"README") (s"R"); D (s"sub") [F (s"c.cmake") (s"C")]].
Definition run_nocmake : list action :=
  document st_ex hdrs_ex docfn_ok excl_none (s"proj") (KDir top_nocmake).
Definition st_ex_flat : wsettings :=
  {| ws_out := true; ws_recursive := false; ws_prefix := None; ws_auto_exclude := true;
     ws_sep := s"."; ws_ext_titles := false; ws_ext_modules := true |}.

Lemma reachable_needs_top : forall st hdrs excl prefix run p,
  reachable st hdrs excl prefix run p -> In [index_rst] (write_paths run).
Proof.
  intros st hdrs excl prefix run p H. induction H as [text Hin|rel ch sub _ IH _ _|rel ch f _ IH _ _].
  - apply in_write_paths. exists text. exact Hin.
  - exact IH.
  - exact IH.
Qed.

Example top_without_cmake_indexed :
  tree_ok top_nocmake = true
  /\ ws_auto_exclude st_ex = true /\ ws_recursive st_ex = true
  /\ existsb (fun f => lc_cmake_suffix (fst f)) (file_entries top_nocmake) = false
  /\ write_paths run_nocmake = [[s"index.rst"]; [s"sub"; s"index.rst"]; [s"sub"; s"c.rst"]]
  /\ nth_error (writes run_nocmake) 0
     = Some ([s"index.rst"],
             doc_text hdrs_ex (s"proj")
               [Dir (s"toctree") [] [(s"maxdepth", s"2")] [Para (s"sub/index.rst")]])
  /\ toctree_entries st_ex excl_none [] top_nocmake = [s"sub/index.rst"].
Proof. vm_compute. repeat split. Qed.

Example all_written_reachable_recursive_ex : forall p, In p (write_paths run_nocmake) ->
  reachable st_ex hdrs_ex excl_none (s"proj") run_nocmake p.
Proof.
  apply (all_written_reachable_recursive st_ex hdrs_ex docfn_ok excl_none);
    [exact all_ok_docfn_ok|reflexivity|reflexivity|reflexivity].
Qed.

Example top_index_always_written_recursive_ex :
  In (AWrite [index_rst] (index_of st_ex hdrs_ex excl_none (s"proj") [] top_nocmake)) run_nocmake.
Proof.
  exact (top_index_always_written_recursive st_ex hdrs_ex docfn_ok excl_none eq_refl eq_refl eq_refl
           (s"proj") top_nocmake).
Qed.

(* the same tree without --recursive: the input directory is not processed, nothing is written *)
Example top_without_cmake_flat :
  dir_processed st_ex_flat excl_none [] top_nocmake = false
  /\ document st_ex_flat hdrs_ex docfn_ok excl_none (s"proj") (KDir top_nocmake) = [].
Proof. vm_compute. split; reflexivity. Qed.

(* (e) W8 needs the excluded file to be a page file: an excluded a.txt next to a.cmake *)
Definition excl_txt (rel : list str) (isdir : bool) : bool :=
  negb isdir && str_eqb (last rel []) (s"a.txt").
Definition top_w8 : list node := [F (s"a.txt") (s"T"); F (s"a.cmake") (s"A")].
Example excluded_file_not_written_needs_cmake_name :
  tree_ok top_w8 = true /\ excl_txt ([] ++ [s"a.txt"]) false = true
  /\ In ([] ++ [rst_name (s"a.txt")])
        (write_paths (document st_ex hdrs_ex docfn_ok excl_txt (s"proj") (KDir top_w8))).
Proof. split; [reflexivity|]. split; [reflexivity|]. vm_compute. tauto. Qed.

(* (f) stem of odd names: the page of ..cmake is ..rst, which is not the parent directory *)
Example stem_odd_names :
  rst_name (s"..cmake") = s"..rst" /\ rst_name (s".cmake") = s".rst" /\ rst_name (s"noext") = s".rst"
  /\ name_ok (rst_name (s"..cmake")) = true.
Proof. vm_compute. repeat split. Qed.

(* (g) W6 needs names_ok: a file name containing a slash can produce the entry of a sub-directory *)
Definition top_slash : list node :=
  [F (s"d/index.rst.cmake") (s"1"); D (s"d") [F (s"x.cmake") (s"2")]].
Example toctree_nodup_needs_names_ok :
  tree_ok top_slash = true /\ names_ok top_slash = false
  /\ toctree_entries st_ex excl_none [] top_slash = [s"d/index.rst"; s"d/index.rst"].
Proof. vm_compute. repeat split. Qed.

(* ==== MAIN THEOREMS ====
   (this file)
   W10  listing_order_irrelevant
   W8   excluded_file_not_written
   W6   toctree_nodup
   W1b  write_paths_nodup
   W13  stdout_equals_pages_dir, stdout_equals_pages_file
   refuted: index_content_refuted, stdout_equals_pages_refuted, stdout_equals_pages_file_refuted;
   F23 repaired: top_without_cmake_indexed, all_written_reachable_recursive_ex,
                 top_index_always_written_recursive_ex, top_without_cmake_flat;
   witnesses: index_cmake_collides, same_stem_collides, same_dir_name_collides,
              excluded_file_not_written_needs_cmake_name
   (WalkFacts.v)
   W1 writes_exact, writes_exact_in   W2 page_content (write_cases)   W3 index_content
   W4 keep_dir_processed, toctree_closed_dirs, toctree_closed_files
   W5 toctree_complete, all_written_reachable, all_written_reachable_recursive,
      all_written_reachable_always, top_index_always_written_recursive   W7 excluded_input_no_output
   W8 written_page_from_nonexcluded   W9 excluded_dir_not_descended
   W11 no_output_dir_no_writes   W12 write_components_from_tree, writes_stay_below
   W14 files_sorted_within_dir   W15 failed_file_aborts, failed_file_aborts_run, nothing_after_abort
   sorting: str_leb_antisym, str_leb_total, str_leb_trans, sort_by_perm, sort_by_sorted,
            sort_by_perm_eq;  cut_at_abort_id, cut_at_abort_spec *)
Print Assumptions listing_order_irrelevant.
Print Assumptions excluded_file_not_written.
Print Assumptions toctree_nodup.
Print Assumptions write_paths_nodup.
Print Assumptions stdout_equals_pages_dir.
Print Assumptions stdout_equals_pages_file.
Print Assumptions index_content_refuted.
Print Assumptions stdout_equals_pages_refuted.
Print Assumptions stdout_equals_pages_file_refuted.
Print Assumptions top_without_cmake_indexed.
Print Assumptions all_written_reachable_recursive_ex.
Print Assumptions top_index_always_written_recursive_ex.
Print Assumptions top_without_cmake_flat.
Print Assumptions index_cmake_collides.
Print Assumptions same_stem_collides.
Print Assumptions same_dir_name_collides.
Print Assumptions listing_order_irrelevant_ex.
Print Assumptions stdout_equals_pages_ex.
