(* Proofs/SourceMatch3.v -- batch 5 of the source tie: the rendering loop.

   Gen/PySource.v (regenerated from the CURRENT Python source by translators/py2coq.py) now also holds
     ClassDocumentation_process, DanglingDoccomment_process      the last two process methods
     dispatch_process                                            the dynamic dispatch doc.process(writer), one arm
                                                                 per concrete subclass of DocumentationType that
                                                                 the source declares, resolved by the MRO
     Documenter_process_docs_whole                               the WHOLE Documenter.process_docs, including the
                                                                 final loop  for doc in docs: doc.process(self.writer)
   This file proves them equal to the hand-written model: Model.DocTypes.render_entry and
   Model.Pipeline.finalize / render_page.

   Part A  a writer step at a handle below the last directive of the top-level writer is the same step one
           level up (locality of the writer state machine); with it the theorems of Proofs/SourceMatch.v,
           which are stated for the top-level handle, apply to MethodDocumentation.process and
           AttributeDocumentation.process called on the class directive.
   Part B  ClassDocumentation.process and DanglingDoccomment.process.
   Part C  the dispatch and the whole process_docs, at the level of the writer state and of the text. *)
From Coq Require Import String List NArith ZArith Bool Arith Lia.
From CMinx Require Import Base.Str Base.PySem Model.Writer Model.DocTypes Model.Lexer Model.Parser
     Model.Aggregator Model.Pipeline Gen.PySource Proofs.AggInv Proofs.SourceMatch Proofs.SourceLinks.
Import ListNotations.

(* ---- spec ---- *)
(* the document whose top-level writer ends with the directive (n, a, o) holding the body of sub *)
Definition emb (t : str) (b : list elem) (n : str) (a : list str) (o : list (str * str)) (sub : wstate)
  : wstate :=
  {| w_title := t; w_body := b ++ [Dir n a o (w_body sub)] |}.
(* what process() leaves of the documentation object: Function/MacroDocumentation.process appends the
   literal **kwargs to the object's OWN params list (param_list is an alias of self.params) *)
Definition after_process (e : entry) : entry :=
  match e with
  | EFunction m n d p true => EFunction m n d (p ++ [kwargs_lit]) true
  | _ => e
  end.
(* the writer state after Documenter.process_docs: title and body *)
Definition page_state (w : wstate) (module_name : str) (docs : list entry) : wstate :=
  {| w_title := fst (finalize (w_title w) module_name docs);
     w_body := w_body w ++ map render_entry (snd (finalize (w_title w) module_name docs)) |}.

(* ------------------------------------------------------------------ *)
(* A. locality of the writer state machine                             *)

Lemma find_in_body_elem_indep : forall p i lvl d lvl' d' b,
  option_map (fun x => fst (fst x)) (find_in_body p i lvl d b)
  = option_map (fun x => fst (fst x)) (find_in_body p i lvl' d' b).
Proof.
  induction p as [|j p IH]; intros i lvl d lvl' d' b; cbn [find_in_body];
    destruct (nth_error b i) as [e|]; try reflexivity.
  destruct e; try reflexivity; apply IH.
Qed.

Lemma upd_node_emb_deep : forall t b n a o sub f i p,
  upd_node (length b :: i :: p) f (emb t b n a o sub)
  = option_map (emb t b n a o) (upd_node (i :: p) f sub).
Proof.
  intros t b n a o [t' c] f i p. unfold upd_node, emb. cbn [w_body w_title].
  cbn [upd_in_body]. rewrite nth_error_app_len.
  destruct (upd_in_body p i f c) as [c'|]; cbn [option_map]; [|reflexivity].
  rewrite update_nth_snoc. reflexivity.
Qed.

Lemma upd_node_emb_append : forall t b n a o sub h x,
  upd_node (length b :: h) (append_child x) (emb t b n a o sub)
  = option_map (emb t b n a o) (upd_node h (append_child x) sub).
Proof.
  intros t b n a o sub h x. destruct h as [|i p].
  - destruct sub as [t' c]. unfold upd_node, emb. cbn [w_body w_title].
    rewrite upd_in_body_last. reflexivity.
  - apply upd_node_emb_deep.
Qed.

Lemma count_at_emb : forall t b n a o sub h,
  count_at (length b :: h) (emb t b n a o sub) = count_at h sub.
Proof.
  intros t b n a o [t' c] h. destruct h as [|i p].
  - unfold count_at, node_at, emb. cbn [w_body]. rewrite find_in_body_last. reflexivity.
  - unfold count_at, node_at, emb. cbn [w_body]. cbn [find_in_body]. rewrite nth_error_app_len.
    pose proof (find_in_body_elem_indep p i 0 1 0 0 c) as H.
    destruct (find_in_body p i 0 1 c) as [[[e1 l1] d1]|];
      destruct (find_in_body p i 0 0 c) as [[[e2 l2] d2]|]; cbn in H; try discriminate H.
    + inversion H. reflexivity.
    + reflexivity.
Qed.

Section Locality.
  Variables (t : str) (b : list elem) (n : str) (a : list str) (o : list (str * str)).
  Let E := emb t b n a o.

  Lemma py_w_text_emb : forall sub h x,
    py_w_text (E sub) (length b :: h) x = E (py_w_text sub h x).
  Proof.
    intros sub h x. unfold E, py_w_text, wstep. rewrite upd_node_emb_append.
    destruct (upd_node h (append_child (Para x)) sub); reflexivity.
  Qed.

  Lemma py_w_field_emb : forall sub h k v,
    py_w_field (E sub) (length b :: h) k v = E (py_w_field sub h k v).
  Proof.
    intros sub h k v. unfold E, py_w_field, wstep. rewrite upd_node_emb_append.
    destruct (upd_node h (append_child (Field k v)) sub); reflexivity.
  Qed.

  Lemma py_w_bulleted_list_emb : forall sub h items,
    py_w_bulleted_list (E sub) (length b :: h) items = E (py_w_bulleted_list sub h items).
  Proof.
    intros sub h items. unfold E, py_w_bulleted_list, wstep. rewrite upd_node_emb_append.
    destruct (upd_node h (append_child (RList false items)) sub); reflexivity.
  Qed.

  Lemma py_w_option_emb : forall sub i p k v,
    py_w_option (E sub) (length b :: i :: p) k v = E (py_w_option sub (i :: p) k v).
  Proof.
    intros sub i p k v. unfold E, py_w_option, wstep. rewrite upd_node_emb_deep.
    match goal with |- context [upd_node (i :: p) ?f sub] => destruct (upd_node (i :: p) f sub) end;
      reflexivity.
  Qed.

  Lemma py_w_directive_emb : forall sub h name args,
    py_w_directive (E sub) (length b :: h) name args
    = (E (fst (py_w_directive sub h name args)), length b :: snd (py_w_directive sub h name args)).
  Proof.
    intros sub h name args. unfold E, py_w_directive, wstep.
    rewrite count_at_emb, upd_node_emb_append.
    destruct (count_at h sub) as [k|];
      destruct (upd_node h (append_child (Dir name args [] [])) sub) as [s'|]; reflexivity.
  Qed.

  (* a loop whose body commutes with the embedding commutes with it *)
  Lemma py_for_break_emb : forall (A : Type) (xs : list A) (f g : wstate -> A -> wstate * bool) st,
    (forall st' x, f (E st') x = (E (fst (g st' x)), snd (g st' x))) ->
    py_for_break xs f (E st) = E (py_for_break xs g st).
  Proof.
    intros A xs f g. induction xs as [|x r IH]; intros st H.
    - reflexivity.
    - cbn [py_for_break]. rewrite H. destruct (g st x) as [st' brk]. cbn [fst snd].
      destruct brk; [reflexivity|]. apply IH. exact H.
  Qed.

  (* MethodDocumentation.process at a handle below the directive *)
  Lemma method_process_emb : forall sub h name doc types params is_macro,
    PySource.MethodDocumentation_process (E sub) (length b :: h) name doc types params is_macro
    = E (PySource.MethodDocumentation_process sub h name doc types params is_macro).
  Proof.
    intros sub h name doc types params is_macro. unfold PySource.MethodDocumentation_process.
    cbv zeta. rewrite py_w_directive_emb.
    destruct (py_w_directive sub h (s"py:method")
                [name ++ s"(" ++ (py_join (s", ") params
                                   ++ (if py_in_list (s"args") types then s"[, ...]" else ([] : str)))
                      ++ s")"]) as [s1 d1] eqn:E1.
    cbn [fst snd]. cbv iota beta.
    destruct is_macro.
    - rewrite py_w_directive_emb.
      destruct (py_w_directive s1 d1 (s"note")
                  [s"This member is a macro and so does not introduce a new scope"]) as [s2 d2].
      cbn [fst snd]. cbv iota beta. rewrite py_w_text_emb.
      apply py_for_break_emb. intros st' i.
      destruct (py_int_ge i (py_len params)); [reflexivity|].
      destruct (negb (py_in_str (s":param " ++ py_list_index ([] : str) params i ++ s":") doc));
        destruct (negb (py_in_str (s":type " ++ py_list_index ([] : str) params i ++ s":") doc));
        rewrite ?py_w_field_emb; reflexivity.
    - rewrite py_w_text_emb.
      apply py_for_break_emb. intros st' i.
      destruct (py_int_ge i (py_len params)); [reflexivity|].
      destruct (negb (py_in_str (s":param " ++ py_list_index ([] : str) params i ++ s":") doc));
        destruct (negb (py_in_str (s":type " ++ py_list_index ([] : str) params i ++ s":") doc));
        rewrite ?py_w_field_emb; reflexivity.
  Qed.

  (* AttributeDocumentation.process on the directive itself *)
  Lemma attribute_process_emb : forall sub name doc default,
    PySource.AttributeDocumentation_process (E sub) [length b] name doc default
    = E (PySource.AttributeDocumentation_process sub [] name doc default).
  Proof.
    intros [t' c] name doc default. unfold PySource.AttributeDocumentation_process.
    cbv zeta. rewrite py_w_directive_emb. rewrite w_directive_top. cbn [fst snd]. cbv iota beta.
    destruct default as [v|].
    - rewrite py_w_option_emb, py_w_text_emb. reflexivity.
    - rewrite py_w_text_emb. reflexivity.
  Qed.
End Locality.

(* ------------------------------------------------------------------ *)
(* B. ClassDocumentation.process and DanglingDoccomment.process        *)

(* for member in <list>: member.process(d)   for the class directive d, the last child of the top-level
   writer: the rendered methods are appended to the body of d, in order *)
Lemma methods_loop : forall t b n a o ms c,
  py_for ms
    (fun world member =>
       PySource.MethodDocumentation_process world [length b] (m_name member) (m_doc member)
         (m_types member) (m_params member) (m_macro member))
    {| w_title := t; w_body := b ++ [Dir n a o c] |}
  = {| w_title := t; w_body := b ++ [Dir n a o (c ++ map render_method ms)] |}.
Proof.
  intros t b n a o ms. unfold py_for. induction ms as [|m r IH]; intros c.
  - cbn [fold_left map]. rewrite app_nil_r. reflexivity.
  - cbn [fold_left map].
    change {| w_title := t; w_body := b ++ [Dir n a o c] |}
      with (emb t b n a o {| w_title := t; w_body := c |}).
    rewrite method_process_emb, method_process_matches_source.
    unfold emb, w_add. cbn [w_body w_title]. rewrite IH. rewrite <- app_assoc. reflexivity.
Qed.

Lemma attributes_loop : forall t b n a o ats c,
  py_for ats
    (fun world attribute =>
       PySource.AttributeDocumentation_process world [length b] (a_name attribute) (a_doc attribute)
         (a_default attribute))
    {| w_title := t; w_body := b ++ [Dir n a o c] |}
  = {| w_title := t; w_body := b ++ [Dir n a o (c ++ map render_attribute ats)] |}.
Proof.
  intros t b n a o ats. unfold py_for. induction ats as [|x r IH]; intros c.
  - cbn [fold_left map]. rewrite app_nil_r. reflexivity.
  - cbn [fold_left map].
    change {| w_title := t; w_body := b ++ [Dir n a o c] |}
      with (emb t b n a o {| w_title := t; w_body := c |}).
    rewrite attribute_process_emb, attribute_process_matches_source.
    unfold emb, w_add. cbn [w_body w_title]. rewrite IH. rewrite <- app_assoc. reflexivity.
Qed.

Lemma w_bullets_last : forall t b n a o c items,
  py_w_bulleted_list {| w_title := t; w_body := b ++ [Dir n a o c] |} [length b] items
  = {| w_title := t; w_body := b ++ [Dir n a o (c ++ [RList false items])] |}.
Proof.
  intros t b n a o c items. unfold py_w_bulleted_list, wstep, upd_node. cbn [w_body w_title].
  rewrite upd_in_body_last. reflexivity.
Qed.

Lemma len_gt_0 : forall (A : Type) (xs : list A),
  py_int_gt (py_len xs) 0 = match xs with [] => false | _ :: _ => true end.
Proof. intros A [|x r]; reflexivity. Qed.

(* ClassDocumentation.process; fields: name, doc, superclasses, inner_classes (their names), constructors,
   members, attributes *)
Theorem class_process_matches_source :
  forall w name doc supers inner ctors members attrs,
    PySource.ClassDocumentation_process w [] name doc supers inner ctors members attrs
    = w_add w (render_entry (EClass name doc supers inner ctors members attrs)).
Proof.
  intros [t b] name doc supers inner ctors members attrs.
  unfold PySource.ClassDocumentation_process, w_add. cbv zeta. rewrite !len_gt_0.
  rewrite w_directive_top. cbv iota beta. cbn [w_title w_body render_entry].
  destruct supers as [|s0 sr]; destruct ctors as [|c0 cr]; destruct members as [|m0 mr];
    destruct attrs as [|a0 ar]; destruct inner as [|i0 ir];
    rewrite ?w_text_last, ?methods_loop, ?attributes_loop, ?w_text_last, ?methods_loop, ?attributes_loop,
            ?w_text_last, ?methods_loop, ?attributes_loop, ?w_text_last, ?w_bullets_last;
    cbn [app]; rewrite <- ?app_assoc; cbn [app]; rewrite ?app_nil_r; reflexivity.
Qed.

(* DanglingDoccomment.process; field read: doc.  Model.DocTypes.entry has no constructor for this class (the
   aggregator never constructs it -- the translator checks that -- so no list of entries holds one); the
   method appends the doc as one paragraph *)
Theorem dangling_process_matches_source :
  forall w doc,
    PySource.DanglingDoccomment_process w [] doc = w_add w (Para doc).
Proof. intros [t b] doc. reflexivity. Qed.

(* ------------------------------------------------------------------ *)
(* C. the dynamic dispatch and the whole Documenter.process_docs       *)

(* The class hierarchy that the translator read from documentation_types.py, pinned: every class below
   DocumentationType with its method resolution order, the class whose process() it resolves to, and how
   the generated dispatch treats it (entry = an arm of dispatch_process; part = lives inside a class entry;
   abstract = cannot be instantiated; never constructed = checked in the producing modules).  A new
   subclass, a changed base class or a process() that moves makes this stop compiling. *)
Definition expected_hierarchy : list (str * (list str * (str * str))) :=
  [ (s"DocumentationType", ([s"DocumentationType"], (s"DocumentationType", s"abstract")));
    (s"AbstractCommandDefinitionDocumentation",
       ([s"AbstractCommandDefinitionDocumentation"; s"DocumentationType"], (s"DocumentationType", s"abstract")));
    (s"FunctionDocumentation",
       ([s"FunctionDocumentation"; s"AbstractCommandDefinitionDocumentation"; s"DocumentationType"],
        (s"FunctionDocumentation", s"entry")));
    (s"MacroDocumentation",
       ([s"MacroDocumentation"; s"AbstractCommandDefinitionDocumentation"; s"DocumentationType"],
        (s"MacroDocumentation", s"entry")));
    (s"VariableDocumentation", ([s"VariableDocumentation"; s"DocumentationType"], (s"VariableDocumentation", s"entry")));
    (s"OptionDocumentation",
       ([s"OptionDocumentation"; s"VariableDocumentation"; s"DocumentationType"], (s"OptionDocumentation", s"entry")));
    (s"GenericCommandDocumentation",
       ([s"GenericCommandDocumentation"; s"DocumentationType"], (s"GenericCommandDocumentation", s"entry")));
    (s"CTestDocumentation", ([s"CTestDocumentation"; s"DocumentationType"], (s"CTestDocumentation", s"entry")));
    (s"TestDocumentation", ([s"TestDocumentation"; s"DocumentationType"], (s"TestDocumentation", s"entry")));
    (s"SectionDocumentation",
       ([s"SectionDocumentation"; s"TestDocumentation"; s"DocumentationType"], (s"SectionDocumentation", s"entry")));
    (s"MethodDocumentation", ([s"MethodDocumentation"; s"DocumentationType"], (s"MethodDocumentation", s"part")));
    (s"AttributeDocumentation", ([s"AttributeDocumentation"; s"DocumentationType"], (s"AttributeDocumentation", s"part")));
    (s"ClassDocumentation", ([s"ClassDocumentation"; s"DocumentationType"], (s"ClassDocumentation", s"entry")));
    (s"ModuleDocumentation", ([s"ModuleDocumentation"; s"DocumentationType"], (s"ModuleDocumentation", s"entry")));
    (s"DanglingDoccomment", ([s"DanglingDoccomment"; s"DocumentationType"], (s"DanglingDoccomment", s"never constructed"))) ].

Theorem dispatch_hierarchy_pinned : PySource.dispatch_process_hierarchy = expected_hierarchy.
Proof. reflexivity. Qed.

(* every class that can occur in a list of entries overrides process() itself: the dispatch never falls
   through to an inherited method *)
Theorem dispatch_entries_resolve_to_own_method :
  forallb (fun row => if str_eqb (snd (snd (snd row))) (s"entry")
                      then str_eqb (fst row) (fst (snd (snd row))) else true)
          PySource.dispatch_process_hierarchy = true.
Proof. vm_compute. reflexivity. Qed.

(* doc.process(writer) for any documentation object of a list of entries, on the top-level writer: never
   raises, appends exactly render_entry, and leaves the object as after_process says *)
Theorem dispatch_process_matches_source :
  forall w e,
    PySource.dispatch_process w [] e = Some (w_add w (render_entry e), after_process e).
Proof.
  intros w e. destruct e as [is_macro name doc params kw | name doc ty value | name doc value help
                            | name doc params | name doc params | is_section name doc xf params is_macro
                            | name doc supers inner ctors members attrs | name doc];
    unfold PySource.dispatch_process.
  - destruct is_macro.
    + rewrite macro_process_matches_source. destruct kw; reflexivity.
    + rewrite function_process_matches_source. destruct kw; reflexivity.
  - change (PySource.VarType_of_model ty) with (var_type_of ty).
    rewrite variable_process_matches_source. reflexivity.
  - rewrite option_process_matches_source. reflexivity.
  - rewrite generic_process_matches_source. reflexivity.
  - rewrite ctest_process_matches_source. reflexivity.
  - destruct is_section.
    + rewrite (section_process_matches_source w name doc xf params is_macro). reflexivity.
    + rewrite (test_process_matches_source w name doc xf params is_macro). reflexivity.
  - rewrite class_process_matches_source. reflexivity.
  - rewrite module_process_matches_source. reflexivity.
Qed.

(* for doc in docs: doc.process(self.writer) *)
Lemma render_loop : forall docs w,
  py_for_obj_raise docs
    (fun world doc =>
       match PySource.dispatch_process world [] doc with
       | None => None
       | Some (world, doc) => Some (world, doc)
       end) w
  = Some ({| w_title := w_title w; w_body := w_body w ++ map render_entry docs |},
          map after_process docs).
Proof.
  induction docs as [|e r IH]; intros [t b].
  - cbn [py_for_obj_raise map w_title w_body]. rewrite app_nil_r. reflexivity.
  - cbn [py_for_obj_raise]. rewrite dispatch_process_matches_source. cbv iota beta.
    rewrite IH. unfold w_add. cbn [w_title w_body map]. rewrite <- app_assoc. reflexivity.
Qed.

(* self.writer.title = x  for the top-level writer *)
Lemma w_set_title_top : forall t b x,
  py_w_set_title {| w_title := t; w_body := b |} [] x = {| w_title := x; w_body := b |}.
Proof. reflexivity. Qed.

(* Documenter.process_docs(docs), the WHOLE method, run on any existing document w with self.writer the
   top-level writer.  Fields: module_name, writer.  Under the shape of every list the aggregator produces
   (module doccomments only first) it never raises; the writer ends with the title and the entries that
   Pipeline.finalize decides, each rendered by render_entry; docs is returned as finalize gives it, each
   object as its process method leaves it. *)
Theorem process_docs_whole_matches_source :
  forall w module_name docs,
    modules_only_first docs = true ->
    PySource.Documenter_process_docs_whole w docs module_name []
    = Some (page_state w module_name docs,
            map after_process (snd (finalize (w_title w) module_name docs))).
Proof.
  intros [t b] module_name docs Hm.
  unfold PySource.Documenter_process_docs_whole, py_refs_where, page_state.
  unfold modules_only_first in Hm. cbn [w_title w_body].
  destruct docs as [|e rest].
  - cbv zeta. cbn [length seq combine filter map py_len length py_int_eq Nat.eqb].
    cbv iota beta. cbn [py_shift_refs py_insert_front map py_for fold_left]. rewrite render_loop. reflexivity.
  - cbn [tl] in Hm. pose proof (refs_where_none py_is_module_entry rest 1 Hm) as Hnone.
    destruct e as [is_macro name doc params kw | name doc ty value | name doc value help
                  | name doc params | name doc params | is_section name doc xf params is_macro
                  | name doc supers inner ctors members attrs | name doc];
      cbn [length seq combine filter snd py_is_module_entry map fst]; rewrite Hnone;
      cbv zeta; cbn [py_len length py_int_eq Nat.eqb]; cbv iota beta;
      try (cbn [py_shift_refs py_insert_front map py_for fold_left]; rewrite render_loop; reflexivity).
    (* the list starts with a module entry *)
    destruct name as [|c n];
      cbn [py_shift_refs py_insert_front map py_for fold_left py_deref nth py_entry_name py_len length
           py_int_eq Nat.eqb orb py_set_ref_name update_nth py_entry_with_name];
      cbv iota beta; rewrite ?w_set_title_top; rewrite render_loop; reflexivity.
Qed.

Example process_docs_whole_matches_source_nonvacuous :
  modules_only_first [EModule (s"m") (s"doc"); EFunction false (s"f") (s"d") [s"a"] true] = true
  /\ PySource.Documenter_process_docs_whole (winit (s"t"))
       [EModule (s"m") (s"doc"); EFunction false (s"f") (s"d") [s"a"] true] (s"file") []
     = Some ({| w_title := s"m";
                w_body := [Dir (s"module") [s"m"] [] [Para (s"doc")];
                           Dir (s"function") [s"f(a **kwargs)"] [] [Para (s"d")]] |},
             [EModule (s"m") (s"doc"); EFunction false (s"f") (s"d") [s"a"; s"**kwargs"] true]).
Proof. split; vm_compute; reflexivity. Qed.

(* the text level: RSTWriter.to_text of the writer after process_docs is Pipeline.render_page *)
Theorem process_docs_matches_source :
  forall hdrs title module_name docs,
    modules_only_first docs = true ->
    option_map (fun r => doc_text hdrs (w_title (fst r)) (w_body (fst r)))
               (PySource.Documenter_process_docs_whole (winit title) docs module_name [])
    = Some (render_page hdrs title module_name docs).
Proof.
  intros hdrs title module_name docs Hm.
  rewrite (process_docs_whole_matches_source (winit title) module_name docs Hm).
  unfold render_page, page_state, winit. cbn [option_map fst w_title w_body app].
  destruct (finalize title module_name docs) as [t' ds]. reflexivity.
Qed.

(* the same through the writer state machine: the to_text() step of Model.Writer (proved equal to
   rstwriter.py's to_text in Proofs/WriterSourceMatch.v) on the final state *)
Theorem process_docs_to_text_matches_source :
  forall hdrs title module_name docs,
    modules_only_first docs = true ->
    exists w' docs',
      PySource.Documenter_process_docs_whole (winit title) docs module_name [] = Some (w', docs')
      /\ wstep hdrs w' (OToText []) = (w', WText (render_page hdrs title module_name docs)).
Proof.
  intros hdrs title module_name docs Hm.
  eexists. eexists. split.
  - apply process_docs_whole_matches_source. exact Hm.
  - unfold render_page, page_state, winit. cbn [wstep w_title w_body app].
    destruct (finalize title module_name docs) as [t' ds]. reflexivity.
Qed.

(* the hypothesis cannot be dropped: with a second module doccomment further down, Python (and the
   translation) takes the LAST non-empty module name as the title, the model's finalize the first *)
Example process_docs_matches_source_without_hypothesis_refuted :
  option_map (fun r => doc_text [s"#"; s"*"] (w_title (fst r)) (w_body (fst r)))
             (PySource.Documenter_process_docs_whole (winit (s"t"))
                [EModule (s"a") []; EModule (s"b") []] (s"file") [])
  <> Some (render_page [s"#"; s"*"] (s"t") (s"file") [EModule (s"a") []; EModule (s"b") []]).
Proof. vm_compute. discriminate. Qed.

(* ... but every list the aggregator produces has the shape (Proofs/SourceLinks.v), so for every accepted
   file the translated process_docs renders exactly the model's page *)
Theorem process_docs_renders_page :
  forall fl trigger strip_fn strip_mac strip_mem f st hdrs title module_name,
    aggregate fl trigger strip_fn strip_mac strip_mem f = Ok st ->
    option_map (fun r => doc_text hdrs (w_title (fst r)) (w_body (fst r)))
               (PySource.Documenter_process_docs_whole (winit title) (documented st) module_name [])
    = Some (render_page hdrs title module_name (documented st)).
Proof.
  intros fl trigger strip_fn strip_mac strip_mem f st hdrs title module_name H.
  apply process_docs_matches_source.
  exact (aggregate_modules_only_first fl trigger strip_fn strip_mac strip_mem f st H).
Qed.

(* and the model's whole pipeline on a source text IS the translated process_docs applied to the
   aggregated objects, serialised *)
Corollary document_str_is_source_rendering :
  forall fl trigger strip_fn strip_mac strip_mem hdrs title module_name src ts f st,
    lex src = LexOk ts -> parse ts = Some f ->
    aggregate fl trigger strip_fn strip_mac strip_mem f = Ok st ->
    option_map (fun r => OOk (doc_text hdrs (w_title (fst r)) (w_body (fst r))))
               (PySource.Documenter_process_docs_whole (winit title) (documented st) module_name [])
    = Some (document_str fl trigger strip_fn strip_mac strip_mem hdrs title module_name src).
Proof.
  intros fl trigger strip_fn strip_mac strip_mem hdrs title module_name src ts f st Hl Hp Ha.
  unfold document_str. rewrite Hl, Hp, Ha.
  pose proof (process_docs_renders_page fl trigger strip_fn strip_mac strip_mem f st hdrs title
                module_name Ha) as H.
  destruct (PySource.Documenter_process_docs_whole (winit title) (documented st) module_name [])
    as [r|]; cbn [option_map] in *; [|discriminate H].
  inversion H. reflexivity.
Qed.

(* ------------------------------------------------------------------ *)
(* D. the glue of Documenter: __init__'s writer construction, the end of process() *)

(* what Documenter.__init__ makes of its optional arguments: title = file if title is None else title;
   module_name = title if module_name is None *)
Definition effective_title (file : str) (title : option str) : str :=
  match title with Some t => t | None => file end.
Definition effective_module (file : str) (title module_name : option str) : str :=
  match module_name with Some m => m | None => effective_title file title end.

(* Documenter.__init__, from  title = file if title is None else title  to  self.writer = RSTWriter(title,
   settings=settings): the fresh document, self.module_name, and self.writer = its top-level writer *)
Theorem init_writer_matches_source :
  forall file title module_name,
    PySource.Documenter_init_writer file title module_name
    = (winit (effective_title file title), effective_module file title module_name, []).
Proof. intros file [t|] [m|]; reflexivity. Qed.

(* Documenter.process after the tree walk:  self.process_docs(self.aggregator.documented); return self.writer *)
Theorem process_after_walk_matches_source :
  forall w module_name docs,
    modules_only_first docs = true ->
    PySource.Documenter_process_after_walk w module_name [] docs
    = Some (page_state w module_name docs, [],
            map after_process (snd (finalize (w_title w) module_name docs))).
Proof.
  intros w module_name docs Hm. unfold PySource.Documenter_process_after_walk.
  rewrite (process_docs_whole_matches_source w module_name docs Hm). reflexivity.
Qed.

(* Documenter(file, title, module_name, settings) followed by process() on the aggregated objects docs: the
   returned writer serialises (Model.Writer's to_text step) to the model's page for the effective title and
   module name *)
Theorem documenter_process_matches_source :
  forall hdrs file title module_name docs,
    modules_only_first docs = true ->
    let init := PySource.Documenter_init_writer file title module_name in
    exists w' docs',
      PySource.Documenter_process_after_walk (fst (fst init)) (snd (fst init)) (snd init) docs
      = Some (w', [], docs')
      /\ wstep hdrs w' (OToText [])
         = (w', WText (render_page hdrs (effective_title file title)
                                   (effective_module file title module_name) docs)).
Proof.
  intros hdrs file title module_name docs Hm init. unfold init.
  rewrite init_writer_matches_source. cbn [fst snd].
  eexists. eexists. split.
  - apply process_after_walk_matches_source. exact Hm.
  - unfold render_page, page_state, winit. cbn [wstep w_title w_body app].
    destruct (finalize (effective_title file title) (effective_module file title module_name) docs)
      as [t' ds]. reflexivity.
Qed.

Example documenter_process_matches_source_nonvacuous :
  modules_only_first [EGeneric (s"f") (s"d") [s"x"]] = true
  /\ PySource.Documenter_process_after_walk
       (fst (fst (PySource.Documenter_init_writer (s"a.cmake") None None)))
       (snd (fst (PySource.Documenter_init_writer (s"a.cmake") None None)))
       (snd (PySource.Documenter_init_writer (s"a.cmake") None None))
       [EGeneric (s"f") (s"d") [s"x"]]
     = Some ({| w_title := s"a.cmake";
                w_body := [Dir (s"module") [s"a.cmake"] [] [];
                           Dir (s"function") [s"f(x)"] []
                               [Dir (s"warning") [generic_warning] [] []; Para (s"d")]] |},
             [], [EModule (s"a.cmake") []; EGeneric (s"f") (s"d") [s"x"]]).
Proof. split; vm_compute; reflexivity. Qed.

(* ==== MAIN THEOREMS ==== *)
(* class_process_matches_source, dangling_process_matches_source, dispatch_hierarchy_pinned,
   dispatch_process_matches_source,
   process_docs_whole_matches_source (state level), process_docs_matches_source (text level),
   process_docs_to_text_matches_source, process_docs_renders_page, document_str_is_source_rendering;
   method_process_emb / attribute_process_emb (locality);
   init_writer_matches_source, process_after_walk_matches_source, documenter_process_matches_source *)
Print Assumptions method_process_emb.
Print Assumptions attribute_process_emb.
Print Assumptions class_process_matches_source.
Print Assumptions dangling_process_matches_source.
Print Assumptions dispatch_hierarchy_pinned.
Print Assumptions dispatch_process_matches_source.
Print Assumptions process_docs_whole_matches_source.
Print Assumptions process_docs_matches_source.
Print Assumptions process_docs_to_text_matches_source.
Print Assumptions process_docs_renders_page.
Print Assumptions document_str_is_source_rendering.
Print Assumptions init_writer_matches_source.
Print Assumptions process_after_walk_matches_source.
Print Assumptions documenter_process_matches_source.
