(* Proofs/AggInv.v -- invariants of the aggregator state machine (Model/Aggregator.v):
   append-only documented list, no-effect commands, claimed definitions, the module entry,
   case invariance of command names, and the refinement of the one-pass specification
   Spec/AggSpec.v (expected_keys). *)
From Coq Require Import String List NArith Bool Arith Lia.
From CMinx Require Import Base.Str Model.Lexer Model.Parser Model.Writer Model.DocTypes
     Model.Aggregator Spec.EntrySpec Spec.AggSpec.
Import ListNotations.

(* ---- spec ---- *)

(* prefix-with-evolution: l' is an elementwise R-evolution of l followed by new elements *)
Definition list_ext {A} (R : A -> A -> Prop) (l l' : list A) : Prop :=
  exists l1 new, l' = l1 ++ new /\ Forall2 R l l1.

(* a method keeps everything except that parameters are appended and the macro flag may change *)
Definition method_evolves (m m' : method) : Prop :=
  m_name m' = m_name m /\ m_doc m' = m_doc m /\ m_parent m' = m_parent m
  /\ m_types m' = m_types m /\ m_ctor m' = m_ctor m /\ m_docd m' = m_docd m
  /\ exists extra, m_params m' = m_params m ++ extra.

(* what may happen to an entry once it is in the documented list *)
Definition entry_evolves (e e' : entry) : Prop :=
  match e, e' with
  | EFunction m n d p k, EFunction m' n' d' p' k' =>
      m' = m /\ n' = n /\ d' = d /\ p' = p /\ (k = true -> k' = true)
  | ETest sec n d xf ps _, ETest sec' n' d' xf' ps' _ =>
      sec' = sec /\ n' = n /\ d' = d /\ xf' = xf /\ exists extra, ps' = ps ++ extra
  | EClass n d su inn ct me at_, EClass n' d' su' inn' ct' me' at' =>
      n' = n /\ d' = d /\ su' = su /\ (exists x, inn' = inn ++ x)
      /\ list_ext method_evolves ct ct' /\ list_ext method_evolves me me'
      /\ (exists x, at' = at_ ++ x)
  | _, _ => e' = e
  end.

Definition is_module (e : entry) : bool :=
  match e with EModule _ _ => true | _ => false end.

Definition no_module (l : list entry) : bool := forallb (fun e => negb (is_module e)) l.

Definition recase_cmd (g : str -> str) (c : cmd) : cmd :=
  {| c_name := g (c_name c); c_args := c_args c |}.

Definition recase_elem (g : str -> str) (e : element) : element :=
  match e with
  | EDocCmd d c => EDocCmd d (recase_cmd g c)
  | ECmd c => ECmd (recase_cmd g c)
  | EDangling d => EDangling d
  end.

Definition recase_file (g : str -> str) (f : cfile) : cfile :=
  {| f_module := f_module f; f_elems := map (recase_elem g) (f_elems f) |}.

(* the three command kinds that pop a stack *)
Definition is_pop_kind (k : str) : bool :=
  str_eqb k (s"cpp_end_class") || str_eqb k (s"endfunction") || str_eqb k (s"endmacro").

Definition aw_pending (a : await) : bool :=
  match a with AwNone => false | _ => true end.

(* ---- strings -------------------------------------------------------------------- *)

Lemma str_eqb_eq : forall a b, str_eqb a b = true <-> a = b.
Proof.
  induction a as [|x a IH]; intros [|y b]; cbn [str_eqb]; split; intro H;
    try reflexivity; try discriminate.
  - apply andb_true_iff in H. destruct H as [H1 H2].
    apply N.eqb_eq in H1. apply IH in H2. subst. reflexivity.
  - inversion H; subst. apply andb_true_iff. split.
    + apply N.eqb_refl.
    + apply IH. reflexivity.
Qed.

Lemma str_eqb_refl : forall a, str_eqb a a = true.
Proof. intro a. apply str_eqb_eq. reflexivity. Qed.

(* evaluate comparisons and table lookups of literal command names *)
Ltac red_lits :=
  repeat match goal with
  | |- context [str_eqb (of_string ?a) (of_string ?b)] =>
      let v := eval vm_compute in (str_eqb (of_string a) (of_string b)) in
      change (str_eqb (of_string a) (of_string b)) with v
  | |- context [@lookup ?A (of_string ?a) ?t] =>
      let v := eval vm_compute in (@lookup A (of_string a) t) in
      change (@lookup A (of_string a) t) with v
  | |- context [is_def_name (of_string ?a)] =>
      let v := eval vm_compute in (is_def_name (of_string a)) in
      change (is_def_name (of_string a)) with v
  end;
  cbn [andb orb negb].

Ltac red_lits_in H :=
  repeat match type of H with
  | context [str_eqb (of_string ?a) (of_string ?b)] =>
      let v := eval vm_compute in (str_eqb (of_string a) (of_string b)) in
      change (str_eqb (of_string a) (of_string b)) with v in H
  | context [@lookup ?A (of_string ?a) ?t] =>
      let v := eval vm_compute in (@lookup A (of_string a) t) in
      change (@lookup A (of_string a) t) with v in H
  | context [is_def_name (of_string ?a)] =>
      let v := eval vm_compute in (is_def_name (of_string a)) in
      change (is_def_name (of_string a)) with v in H
  end;
  cbn [andb orb negb] in H.

(* ---- command kinds --------------------------------------------------------------- *)

Inductive ckind :=
| CkDef (is_macro : bool) | CkEndDef | CkClass | CkEndClass | CkCpa
| CkTest (is_section : bool) | CkSet | CkMember (is_ctor : bool) | CkAttr
| CkAddTest | CkOption | CkOther.

Definition classify (k : str) : ckind :=
  if str_eqb k (s"function") then CkDef false
  else if str_eqb k (s"macro") then CkDef true
  else if str_eqb k (s"endfunction") then CkEndDef
  else if str_eqb k (s"endmacro") then CkEndDef
  else if str_eqb k (s"cpp_class") then CkClass
  else if str_eqb k (s"cpp_end_class") then CkEndClass
  else if str_eqb k (s"cmake_parse_arguments") then CkCpa
  else if str_eqb k (s"ct_add_test") then CkTest false
  else if str_eqb k (s"ct_add_section") then CkTest true
  else if str_eqb k (s"set") then CkSet
  else if str_eqb k (s"cpp_member") then CkMember false
  else if str_eqb k (s"cpp_constructor") then CkMember true
  else if str_eqb k (s"cpp_attr") then CkAttr
  else if str_eqb k (s"add_test") then CkAddTest
  else if str_eqb k (s"option") then CkOption
  else CkOther.

Definition other_kind (k : str) : Prop :=
  str_eqb k (s"function") = false /\ str_eqb k (s"macro") = false
  /\ str_eqb k (s"endfunction") = false /\ str_eqb k (s"endmacro") = false
  /\ str_eqb k (s"cpp_class") = false /\ str_eqb k (s"cpp_end_class") = false
  /\ str_eqb k (s"cmake_parse_arguments") = false /\ str_eqb k (s"ct_add_test") = false
  /\ str_eqb k (s"ct_add_section") = false /\ str_eqb k (s"set") = false
  /\ str_eqb k (s"cpp_member") = false /\ str_eqb k (s"cpp_constructor") = false
  /\ str_eqb k (s"cpp_attr") = false /\ str_eqb k (s"add_test") = false
  /\ str_eqb k (s"option") = false.

Lemma classify_spec : forall k,
  match classify k with
  | CkDef false => k = s"function"
  | CkDef true => k = s"macro"
  | CkEndDef => k = s"endfunction" \/ k = s"endmacro"
  | CkClass => k = s"cpp_class"
  | CkEndClass => k = s"cpp_end_class"
  | CkCpa => k = s"cmake_parse_arguments"
  | CkTest false => k = s"ct_add_test"
  | CkTest true => k = s"ct_add_section"
  | CkSet => k = s"set"
  | CkMember false => k = s"cpp_member"
  | CkMember true => k = s"cpp_constructor"
  | CkAttr => k = s"cpp_attr"
  | CkAddTest => k = s"add_test"
  | CkOption => k = s"option"
  | CkOther => other_kind k
  end.
Proof.
  intro k. unfold classify, other_kind.
  destruct (str_eqb k (s"function")) eqn:E1; [apply str_eqb_eq; exact E1|].
  destruct (str_eqb k (s"macro")) eqn:E2; [apply str_eqb_eq; exact E2|].
  destruct (str_eqb k (s"endfunction")) eqn:E3; [left; apply str_eqb_eq; exact E3|].
  destruct (str_eqb k (s"endmacro")) eqn:E4; [right; apply str_eqb_eq; exact E4|].
  destruct (str_eqb k (s"cpp_class")) eqn:E5; [apply str_eqb_eq; exact E5|].
  destruct (str_eqb k (s"cpp_end_class")) eqn:E6; [apply str_eqb_eq; exact E6|].
  destruct (str_eqb k (s"cmake_parse_arguments")) eqn:E7; [apply str_eqb_eq; exact E7|].
  destruct (str_eqb k (s"ct_add_test")) eqn:E8; [apply str_eqb_eq; exact E8|].
  destruct (str_eqb k (s"ct_add_section")) eqn:E9; [apply str_eqb_eq; exact E9|].
  destruct (str_eqb k (s"set")) eqn:E10; [apply str_eqb_eq; exact E10|].
  destruct (str_eqb k (s"cpp_member")) eqn:E11; [apply str_eqb_eq; exact E11|].
  destruct (str_eqb k (s"cpp_constructor")) eqn:E12; [apply str_eqb_eq; exact E12|].
  destruct (str_eqb k (s"cpp_attr")) eqn:E13; [apply str_eqb_eq; exact E13|].
  destruct (str_eqb k (s"add_test")) eqn:E14; [apply str_eqb_eq; exact E14|].
  destruct (str_eqb k (s"option")) eqn:E15; [apply str_eqb_eq; exact E15|].
  repeat split; reflexivity.
Qed.

Lemma other_kind_lookup : forall k, other_kind k -> lookup k handler_table = None.
Proof.
  intros k H. unfold other_kind in H.
  destruct H as (H1&H2&H3&H4&H5&H6&H7&H8&H9&H10&H11&H12&H13&H14&H15).
  cbn [lookup handler_table].
  rewrite H1, H2, H7, H8, H9, H10, H5, H11, H12, H13, H14, H15. reflexivity.
Qed.

(* destruct the kind of a command-name string: literal kinds are substituted *)
Ltac kind_cases k Hk :=
  pose proof (classify_spec k) as Hk;
  destruct (classify k) as [[|]| | | | |[|]| |[|]| | | |] eqn:?Ek.
Section Classified.
  Variable fl : flags.
  Variable trigger : str.
  Variables strip_fn strip_mac strip_mem : str -> str.

  (* the process_* method of a kind *)
  Definition handle (k : ckind) (c : cmd) (doc : str) (docd : bool) (st : agg) : result agg :=
    match k with
    | CkDef m => process_def trigger strip_fn strip_mac m c doc docd st
    | CkCpa => Ok (process_cpa st)
    | CkTest sec => Ok (process_test sec c doc docd st)
    | CkSet => process_set c doc docd st
    | CkClass => Ok (process_class c doc docd st)
    | CkMember ctor => Ok (process_member ctor c doc docd st)
    | CkAttr => Ok (process_attr c doc docd st)
    | CkAddTest => Ok (process_add_test c doc docd st)
    | CkOption => Ok (process_option c doc docd st)
    | CkEndDef | CkEndClass | CkOther => Ok st
    end.

  Definition flag_of (k : ckind) : bool :=
    match k with
    | CkDef false => inc_function fl
    | CkDef true => inc_macro fl
    | CkClass => inc_cpp_class fl
    | CkAttr => inc_cpp_attr fl
    | CkMember true => inc_cpp_constructor fl
    | CkMember false => inc_cpp_member fl
    | CkTest false => inc_ct_add_test fl
    | CkTest true => inc_ct_add_section fl
    | CkAddTest => inc_add_test fl
    | CkOption => inc_option fl
    | _ => false
    end.

  Definition enter_documented_k (k : ckind) (command : str) (d : str) (c : cmd) (st : agg) : result agg :=
    match k with
    | CkEndDef | CkEndClass | CkOther =>
        Ok (process_generic command c (clean_doc_text d) true st)
    | _ => handle k c (clean_doc_text d) true st
    end.

  Lemma enter_documented_eq : forall d c st,
    enter_documented trigger strip_fn strip_mac d c st
    = enter_documented_k (classify (lower_ascii (c_name c))) (lower_ascii (c_name c)) d c st.
  Proof.
    intros d c st. unfold enter_documented.
    generalize (lower_ascii (c_name c)) as k. intro k.
    kind_cases k Hk; try (subst k; red_lits; reflexivity).
    - destruct Hk as [Hk|Hk]; subst k; red_lits; reflexivity.
    - rewrite (other_kind_lookup k Hk). reflexivity.
  Qed.

  (* the implementing definition of a pending member/test declaration *)
  Definition claim (is_macro consumed : bool) (c : cmd) (st : agg) : agg :=
    let raw := singles c in
    let params := match awaiting st with
                  | AwMethod _ _ => map strip_mem raw
                  | _ => raw
                  end in
    let extra := if Nat.ltb 2 (length params) then skipn 2 params else [] in
    let st2 := with_awaiting AwNone
                 (with_docs (upd_awaiting_entry (awaiting st) is_macro extra) st) in
    if consumed then st2 else with_def_stack (None :: def_stack st2) st2.

  Definition enter_command_k (k : ckind) (consumed : bool) (c : cmd) (st : agg) : result agg :=
    match k with
    | CkClass =>
        if negb (inc_cpp_class fl) then Ok (with_class_stack (None :: class_stack st) st)
        else if consumed then Ok st else Ok (process_class c [] false st)
    | CkEndClass =>
        match class_stack st with [] => Crash | _ :: cs => Ok (with_class_stack cs st) end
    | CkCpa => Ok (process_cpa st)
    | CkDef m =>
        if aw_pending (awaiting st) then Ok (claim m consumed c st)
        else if consumed then Ok st
        else if flag_of k then process_def trigger strip_fn strip_mac m c [] false st
        else Ok (with_def_stack (None :: def_stack st) st)
    | CkEndDef =>
        match def_stack st with [] => Crash | _ :: ds => Ok (with_def_stack ds st) end
    | CkSet | CkOther => Ok st
    | _ => if consumed then Ok st else if flag_of k then handle k c [] false st else Ok st
    end.

  Lemma enter_command_eq : forall consumed c st,
    enter_command fl trigger strip_fn strip_mac strip_mem consumed c st
    = enter_command_k (classify (lower_ascii (c_name c))) consumed c st.
  Proof.
    intros consumed c st. unfold enter_command.
    generalize (lower_ascii (c_name c)) as k. intro k.
    kind_cases k Hk.
    all: try (subst k; red_lits; cbn [enter_command_k flag_of handle include_flag run_handler]).
    - unfold claim. destruct (awaiting st); cbn [aw_pending]; destruct consumed; try reflexivity.
      all: destruct (inc_function fl); reflexivity.
    - unfold claim. destruct (awaiting st); cbn [aw_pending]; destruct consumed; try reflexivity.
      all: destruct (inc_macro fl); reflexivity.
    - destruct Hk as [Hk|Hk]; subst k; red_lits; reflexivity.
    - destruct (inc_cpp_class fl); destruct consumed; reflexivity.
    - reflexivity.
    - reflexivity.
    - destruct consumed; reflexivity.
    - destruct consumed; reflexivity.
    - reflexivity.
    - destruct consumed; reflexivity.
    - destruct consumed; reflexivity.
    - destruct consumed; reflexivity.
    - destruct consumed; reflexivity.
    - destruct consumed; reflexivity.
    - rewrite (other_kind_lookup k Hk). unfold other_kind in Hk.
      destruct Hk as (H1&H2&H3&H4&H5&H6&H7&H8&H9&H10&H11&H12&H13&H14&H15).
      unfold is_def_name. rewrite H1, H2, H3, H4, H5, H6, H7, H10.
      cbn [andb orb negb]. destruct consumed; reflexivity.
  Qed.
End Classified.

(* ---- lists ----------------------------------------------------------------------- *)

Lemma update_nth_length : forall {A} (f : A -> A) l n, length (update_nth n f l) = length l.
Proof.
  intros A f l. induction l as [|x r IH]; intros [|n]; cbn [update_nth length]; try reflexivity.
  rewrite IH. reflexivity.
Qed.

Lemma nth_error_update_nth : forall {A} (f : A -> A) l i j,
  nth_error (update_nth i f l) j
  = if Nat.eqb i j then option_map f (nth_error l j) else nth_error l j.
Proof.
  intros A f l. induction l as [|x r IH]; intros [|i] [|j]; cbn [update_nth nth_error Nat.eqb option_map];
    try reflexivity.
  - destruct (Nat.eqb _ _); reflexivity.
  - apply IH.
Qed.

Lemma nth_error_update_nth_fix : forall {A} (f : A -> A) l i j x,
  nth_error l j = Some x -> f x = x -> nth_error (update_nth i f l) j = Some x.
Proof.
  intros A f l i j x H Hf. rewrite nth_error_update_nth. rewrite H. cbn [option_map].
  rewrite Hf. destruct (Nat.eqb i j); reflexivity.
Qed.

Lemma update_last_nil : forall {A} (f : A -> A), update_last f [] = [].
Proof. reflexivity. Qed.

Lemma update_last_snoc : forall {A} (f : A -> A) l x, update_last f (l ++ [x]) = l ++ [f x].
Proof.
  intros A f l x. unfold update_last. rewrite rev_app_distr. cbn [rev app].
  rewrite rev_involutive. reflexivity.
Qed.

Lemma update_last_length : forall {A} (f : A -> A) l, length (update_last f l) = length l.
Proof.
  intros A f l. destruct l as [|a r] using rev_ind; [reflexivity|].
  rewrite update_last_snoc. rewrite !app_length. reflexivity.
Qed.

Lemma Forall2_refl : forall {A} (R : A -> A -> Prop), (forall x, R x x) -> forall l, Forall2 R l l.
Proof. intros A R HR l. induction l as [|x r IH]; constructor; auto. Qed.

Lemma Forall2_trans : forall {A} (R : A -> A -> Prop),
  (forall x y z, R x y -> R y z -> R x z) ->
  forall l1 l2 l3, Forall2 R l1 l2 -> Forall2 R l2 l3 -> Forall2 R l1 l3.
Proof.
  intros A R HR l1 l2 l3 H12. revert l3.
  induction H12 as [|x y l1 l2 Hxy H12 IH]; intros l3 H23; inversion H23; subst; constructor.
  - eapply HR; eassumption.
  - apply IH. assumption.
Qed.

Lemma Forall2_update_nth : forall {A} (R : A -> A -> Prop) (f : A -> A),
  (forall x, R x x) -> (forall x, R x (f x)) ->
  forall l i, Forall2 R l (update_nth i f l).
Proof.
  intros A R f Hr Hf l. induction l as [|x r IH]; intros [|i]; cbn [update_nth]; constructor; auto.
  apply Forall2_refl. assumption.
Qed.

Lemma Forall2_update_last : forall {A} (R : A -> A -> Prop) (f : A -> A),
  (forall x, R x x) -> (forall x, R x (f x)) ->
  forall l, Forall2 R l (update_last f l).
Proof.
  intros A R f Hr Hf l. destruct l as [|a r] using rev_ind; [constructor|].
  rewrite update_last_snoc. apply Forall2_app.
  - apply Forall2_refl. assumption.
  - constructor; [apply Hf|constructor].
Qed.

Lemma Forall2_len : forall {A B} (R : A -> B -> Prop) l l', Forall2 R l l' -> length l = length l'.
Proof. intros A B R l l' H. induction H; cbn [length]; congruence. Qed.

Lemma list_ext_refl : forall {A} (R : A -> A -> Prop), (forall x, R x x) -> forall l, list_ext R l l.
Proof.
  intros A R Hr l. exists l, []. split; [rewrite app_nil_r; reflexivity|].
  apply Forall2_refl. assumption.
Qed.

Lemma list_ext_trans : forall {A} (R : A -> A -> Prop),
  (forall x y z, R x y -> R y z -> R x z) ->
  forall l1 l2 l3, list_ext R l1 l2 -> list_ext R l2 l3 -> list_ext R l1 l3.
Proof.
  intros A R Ht l1 l2 l3 (a & n1 & E1 & F1) (b & n2 & E2 & F2). subst l2.
  apply Forall2_app_inv_l in F2. destruct F2 as (b1 & b2 & Fa & Fb & Eb). subst b.
  exists b1, (b2 ++ n2). split.
  - rewrite E2. rewrite app_assoc. reflexivity.
  - eapply Forall2_trans; eassumption.
Qed.

Lemma list_ext_snoc : forall {A} (R : A -> A -> Prop), (forall x, R x x) ->
  forall l x, list_ext R l (l ++ [x]).
Proof.
  intros A R Hr l x. exists l, [x]. split; [reflexivity|]. apply Forall2_refl. assumption.
Qed.

Lemma list_ext_same : forall {A} (R : A -> A -> Prop) l l', Forall2 R l l' -> list_ext R l l'.
Proof. intros A R l l' H. exists l', []. split; [rewrite app_nil_r; reflexivity|assumption]. Qed.

Lemma list_ext_length : forall {A} (R : A -> A -> Prop) l l', list_ext R l l' -> length l <= length l'.
Proof.
  intros A R l l' (a & n & E & F). subst l'. rewrite app_length.
  apply Forall2_len in F. lia.
Qed.

(* ---- entries evolve -------------------------------------------------------------- *)

Lemma method_evolves_refl : forall m, method_evolves m m.
Proof.
  intro m. unfold method_evolves. repeat split. exists []. rewrite app_nil_r. reflexivity.
Qed.

Lemma method_evolves_trans : forall a b c, method_evolves a b -> method_evolves b c -> method_evolves a c.
Proof.
  intros a b c (A1&A2&A3&A4&A5&A6&x&A7) (B1&B2&B3&B4&B5&B6&y&B7).
  unfold method_evolves. repeat split; try congruence.
  exists (x ++ y). rewrite B7, A7, app_assoc. reflexivity.
Qed.

Lemma upd_method_evolves : forall mac extra m, method_evolves m (upd_method mac extra m).
Proof.
  intros mac extra m. unfold method_evolves, upd_method. cbn. repeat split. exists extra. reflexivity.
Qed.

Lemma entry_evolves_refl : forall e, entry_evolves e e.
Proof.
  intros [m n d p k|n d t v|n d v h|n d p|n d p|sec n d xf ps mac|n d su inn ct me at_|n d];
    cbn [entry_evolves]; try reflexivity.
  - repeat split; auto.
  - repeat split. exists []. rewrite app_nil_r. reflexivity.
  - repeat split.
    + exists []. rewrite app_nil_r. reflexivity.
    + apply list_ext_refl. apply method_evolves_refl.
    + apply list_ext_refl. apply method_evolves_refl.
    + exists []. rewrite app_nil_r. reflexivity.
Qed.

Lemma entry_evolves_trans : forall a b c, entry_evolves a b -> entry_evolves b c -> entry_evolves a c.
Proof.
  intros a b c Hab Hbc.
  destruct a as [m n d p k|n d t v|n d v h|n d p|n d p|sec n d xf ps mac|n d su inn ct me at_|n d];
  destruct b as [m1 n1 d1 p1 k1|n1 d1 t1 v1|n1 d1 v1 h1|n1 d1 p1|n1 d1 p1|sec1 n1 d1 xf1 ps1 mac1|n1 d1 su1 inn1 ct1 me1 at1|n1 d1];
  cbn [entry_evolves] in Hab; try discriminate Hab;
  try (injection Hab as; subst; exact Hbc).
  - destruct c as [m2 n2 d2 p2 k2|n2 d2 t2 v2|n2 d2 v2 h2|n2 d2 p2|n2 d2 p2|sec2 n2 d2 xf2 ps2 mac2|n2 d2 su2 inn2 ct2 me2 at2|n2 d2];
      cbn [entry_evolves] in Hbc |- *; try discriminate Hbc.
    destruct Hab as (A1&A2&A3&A4&A5). destruct Hbc as (B1&B2&B3&B4&B5).
    subst. repeat split; auto.
  - destruct c as [m2 n2 d2 p2 k2|n2 d2 t2 v2|n2 d2 v2 h2|n2 d2 p2|n2 d2 p2|sec2 n2 d2 xf2 ps2 mac2|n2 d2 su2 inn2 ct2 me2 at2|n2 d2];
      cbn [entry_evolves] in Hbc |- *; try discriminate Hbc.
    destruct Hab as (A1&A2&A3&A4&x&A5). destruct Hbc as (B1&B2&B3&B4&y&B5).
    subst. repeat split; auto. exists (x ++ y). rewrite app_assoc. reflexivity.
  - destruct c as [m2 n2 d2 p2 k2|n2 d2 t2 v2|n2 d2 v2 h2|n2 d2 p2|n2 d2 p2|sec2 n2 d2 xf2 ps2 mac2|n2 d2 su2 inn2 ct2 me2 at2|n2 d2];
      cbn [entry_evolves] in Hbc |- *; try discriminate Hbc.
    destruct Hab as (A1&A2&A3&(x&A4)&A5&A6&(x'&A7)). destruct Hbc as (B1&B2&B3&(y&B4)&B5&B6&(y'&B7)).
    subst. repeat split; auto.
    + exists (x ++ y). rewrite app_assoc. reflexivity.
    + eapply list_ext_trans; [apply method_evolves_trans| |]; eassumption.
    + eapply list_ext_trans; [apply method_evolves_trans| |]; eassumption.
    + exists (x' ++ y'). rewrite app_assoc. reflexivity.
Qed.

Lemma entry_evolves_ekey : forall a b, entry_evolves a b -> ekey b = ekey a.
Proof.
  intros a b H.
  destruct a as [m n d p k|n d t v|n d v h|n d p|n d p|sec n d xf ps mac|n d su inn ct me at_|n d];
  destruct b as [m1 n1 d1 p1 k1|n1 d1 t1 v1|n1 d1 v1 h1|n1 d1 p1|n1 d1 p1|sec1 n1 d1 xf1 ps1 mac1|n1 d1 su1 inn1 ct1 me1 at1|n1 d1];
  cbn [entry_evolves] in H; try discriminate H; try (injection H as; subst; reflexivity).
  - destruct H as (A1&A2&_). subst. reflexivity.
  - destruct H as (A1&A2&_). subst. reflexivity.
  - destruct H as (A1&A2&_). subst. reflexivity.
Qed.

Lemma entry_evolves_is_module : forall a b, entry_evolves a b -> is_module b = is_module a.
Proof.
  intros a b H.
  destruct a as [m n d p k|n d t v|n d v h|n d p|n d p|sec n d xf ps mac|n d su inn ct me at_|n d];
  destruct b as [m1 n1 d1 p1 k1|n1 d1 t1 v1|n1 d1 v1 h1|n1 d1 p1|n1 d1 p1|sec1 n1 d1 xf1 ps1 mac1|n1 d1 su1 inn1 ct1 me1 at1|n1 d1];
  cbn [entry_evolves] in H; try discriminate H; reflexivity.
Qed.

Lemma entry_evolves_module : forall n d b, entry_evolves (EModule n d) b -> b = EModule n d.
Proof. intros n d b H. destruct b; exact H. Qed.

(* the updaters used by the aggregator *)
Lemma set_kwargs_evolves : forall e, entry_evolves e (set_kwargs e).
Proof.
  intro e. destruct e; try apply entry_evolves_refl. cbn. repeat split; auto.
Qed.

Lemma add_inner_evolves : forall x e, entry_evolves e (add_inner x e).
Proof.
  intros x e. destruct e as [| | | | | |n d su inn ct me at_|]; try apply entry_evolves_refl.
  cbn [add_inner entry_evolves]. repeat split.
  - exists [x]. reflexivity.
  - apply list_ext_refl, method_evolves_refl.
  - apply list_ext_refl, method_evolves_refl.
  - exists []. rewrite app_nil_r. reflexivity.
Qed.

Lemma add_method_evolves : forall b m e, entry_evolves e (add_method b m e).
Proof.
  intros b m e. destruct e as [| | | | | |n d su inn ct me at_|]; try apply entry_evolves_refl.
  cbn [add_method]. destruct b; cbn [entry_evolves]; repeat split.
  all: try (exists []; rewrite app_nil_r; reflexivity).
  all: try (apply list_ext_refl, method_evolves_refl).
  all: apply list_ext_snoc, method_evolves_refl.
Qed.

Lemma add_attr_evolves : forall a e, entry_evolves e (add_attr a e).
Proof.
  intros a e. destruct e as [| | | | | |n d su inn ct me at_|]; try apply entry_evolves_refl.
  cbn [add_attr entry_evolves]. repeat split.
  - exists []. rewrite app_nil_r. reflexivity.
  - apply list_ext_refl, method_evolves_refl.
  - apply list_ext_refl, method_evolves_refl.
  - exists [a]. reflexivity.
Qed.

Lemma upd_awaiting_evolves : forall a mac extra docs,
  Forall2 entry_evolves docs (upd_awaiting_entry a mac extra docs).
Proof.
  intros a mac extra docs. destruct a as [|idx|cidx ctor]; cbn [upd_awaiting_entry].
  - apply Forall2_refl, entry_evolves_refl.
  - apply Forall2_update_nth; [apply entry_evolves_refl|].
    intro e. destruct e; try apply entry_evolves_refl.
    cbn [entry_evolves]. repeat split. exists extra. reflexivity.
  - apply Forall2_update_nth; [apply entry_evolves_refl|].
    intro e. destruct e as [| | | | | |n d su inn ct me at_|]; try apply entry_evolves_refl.
    destruct ctor; cbn [entry_evolves]; repeat split.
    all: try (exists []; rewrite app_nil_r; reflexivity).
    all: try (apply list_ext_refl, method_evolves_refl).
    all: apply list_ext_same, Forall2_update_last;
      [apply method_evolves_refl | intro x; apply upd_method_evolves].
Qed.

Lemma upd_awaiting_length : forall a mac extra docs,
  length (upd_awaiting_entry a mac extra docs) = length docs.
Proof.
  intros a mac extra docs. symmetry. eapply Forall2_len. apply upd_awaiting_evolves.
Qed.

(* ---- I1: the documented list is append-only ---------------------------------------- *)

(* st' is reached from st by evolving the existing entries and appending at most n new
   non-module entries, keeping origins parallel *)
Definition ev (n : nat) (st st' : agg) : Prop :=
  exists old' new,
    documented st' = old' ++ new
    /\ Forall2 entry_evolves (documented st) old'
    /\ length new <= n
    /\ no_module new = true
    /\ (length (origins st) = length (documented st) ->
        length (origins st') = length (documented st')).

Lemma ev_refl : forall st, ev 0 st st.
Proof.
  intro st. exists (documented st), []. repeat split.
  - rewrite app_nil_r. reflexivity.
  - apply Forall2_refl, entry_evolves_refl.
  - cbn. lia.
  - auto.
Qed.

Lemma no_module_evolves : forall l l', Forall2 entry_evolves l l' -> no_module l' = no_module l.
Proof.
  intros l l' H. induction H as [|x y l l' Hxy H IH]; [reflexivity|].
  unfold no_module in *. cbn [forallb]. rewrite IH.
  rewrite (entry_evolves_is_module _ _ Hxy). reflexivity.
Qed.

Lemma ev_trans : forall n m k a b c, ev n a b -> ev m b c -> n + m <= k -> ev k a c.
Proof.
  intros n m k a b c (o1 & n1 & E1 & F1 & L1 & M1 & O1) (o2 & n2 & E2 & F2 & L2 & M2 & O2) Hk.
  rewrite E1 in F2. apply Forall2_app_inv_l in F2.
  destruct F2 as (o2a & o2b & Fa & Fb & Eo). subst o2.
  exists o2a, (o2b ++ n2). repeat split.
  - rewrite E2, app_assoc. reflexivity.
  - eapply Forall2_trans; [apply entry_evolves_trans| |]; eassumption.
  - rewrite app_length. apply Forall2_len in Fb. lia.
  - unfold no_module in *. rewrite forallb_app. fold (no_module o2b).
    rewrite (no_module_evolves _ _ Fb). unfold no_module. rewrite M1, M2. reflexivity.
  - auto.
Qed.

Lemma ev_le : forall n k a b, ev n a b -> n <= k -> ev k a b.
Proof.
  intros n k a b H Hk. eapply ev_trans; [exact H|apply ev_refl|lia].
Qed.

Lemma ev_append : forall e d st, is_module e = false -> ev 1 st (append e d st).
Proof.
  intros e d st He. exists (documented st), [e]. cbn [append documented origins]. repeat split.
  - apply Forall2_refl, entry_evolves_refl.
  - cbn. lia.
  - unfold no_module. cbn [forallb]. rewrite He. reflexivity.
  - intro H. rewrite !app_length. cbn [length]. lia.
Qed.

Lemma ev_docs : forall f st,
  Forall2 entry_evolves (documented st) (f (documented st)) -> ev 0 st (with_docs f st).
Proof.
  intros f st H. exists (f (documented st)), []. cbn [with_docs documented origins]. repeat split.
  - rewrite app_nil_r. reflexivity.
  - exact H.
  - cbn. lia.
  - intro Ho. rewrite Ho. eapply Forall2_len. exact H.
Qed.

Lemma ev_update : forall i f st,
  (forall e, entry_evolves e (f e)) -> ev 0 st (with_docs (update_nth i f) st).
Proof.
  intros i f st H. apply ev_docs. apply Forall2_update_nth; [apply entry_evolves_refl|exact H].
Qed.

Lemma ev_same : forall st st',
  documented st' = documented st -> origins st' = origins st -> ev 0 st st'.
Proof.
  intros st st' Hd Ho. exists (documented st), []. repeat split.
  - rewrite app_nil_r. exact Hd.
  - apply Forall2_refl, entry_evolves_refl.
  - cbn. lia.
  - rewrite Hd, Ho. auto.
Qed.

Lemma ev_then_same : forall n st st1 st2, ev n st st1 ->
  documented st2 = documented st1 -> origins st2 = origins st1 -> ev n st st2.
Proof.
  intros n st st1 st2 H Hd Ho. eapply ev_trans; [exact H|apply ev_same; assumption|lia].
Qed.

Lemma ev_then_update : forall n i f st st1, ev n st st1 ->
  (forall e, entry_evolves e (f e)) -> ev n st (with_docs (update_nth i f) st1).
Proof.
  intros n i f st st1 H Hf. eapply ev_trans; [exact H|apply ev_update; exact Hf|lia].
Qed.

Section Inv.
  Variable trigger : str.
  Variables strip_fn strip_mac strip_mem : str -> str.

  Lemma process_cpa_ev : forall st, ev 0 st (process_cpa st).
  Proof.
    intro st. unfold process_cpa. destruct (def_stack st) as [|[i|] r]; try apply ev_refl.
    apply ev_update. apply set_kwargs_evolves.
  Qed.

  Lemma handle_ev : forall k c doc docd st st',
    handle trigger strip_fn strip_mac k c doc docd st = Ok st' -> ev 1 st st'.
  Proof.
    intros k c doc docd st st' H.
    destruct k as [m| | | | |sec| |ctor| | | |]; cbn [handle] in H.
    - unfold process_def in H. destruct (singles c) as [|name ps]; [discriminate|].
      injection H as <-. eapply ev_then_same; [apply ev_append|reflexivity|reflexivity]. reflexivity.
    - injection H as <-. apply ev_le with 0; [apply ev_refl|lia].
    - injection H as <-. unfold process_class. destruct (singles c) as [|name supers].
      + apply ev_le with 0; [apply ev_refl|lia].
      + eapply ev_then_same; [|reflexivity|reflexivity].
        destruct (class_stack st) as [|[cidx|] r]; try (apply ev_append; reflexivity).
        apply ev_then_update; [apply ev_append; reflexivity|apply add_inner_evolves].
    - injection H as <-. apply ev_le with 0; [apply ev_refl|lia].
    - injection H as <-. apply ev_le with 0; [apply process_cpa_ev|lia].
    - injection H as <-. unfold process_test.
      destruct (Nat.ltb _ _); [apply ev_le with 0; [apply ev_refl|lia]|].
      destruct (scan_name _ _); [|apply ev_le with 0; [apply ev_refl|lia]].
      eapply ev_then_same; [apply ev_append|reflexivity|reflexivity]. reflexivity.
    - unfold process_set in H. destruct (singles c) as [|name [|v [|v2 vals]]].
      + injection H as <-. apply ev_le with 0; [apply ev_refl|lia].
      + injection H as <-. apply ev_append. reflexivity.
      + destruct (unquote v); [|discriminate]. injection H as <-. apply ev_append. reflexivity.
      + injection H as <-. apply ev_append. reflexivity.
    - injection H as <-. apply ev_le with 0; [|lia]. unfold process_member.
      destruct (Nat.ltb _ _); [apply ev_refl|].
      destruct (class_stack st) as [|[cidx|] r]; try apply ev_refl.
      eapply ev_then_same; [|reflexivity|reflexivity].
      apply ev_update. apply add_method_evolves.
    - injection H as <-. apply ev_le with 0; [|lia]. unfold process_attr.
      destruct (Nat.ltb _ _); [apply ev_refl|].
      destruct (class_stack st) as [|[cidx|] r]; try apply ev_refl.
      apply ev_update. apply add_attr_evolves.
    - injection H as <-. unfold process_add_test.
      destruct (Nat.ltb _ _); [apply ev_le with 0; [apply ev_refl|lia]|].
      destruct (scan_name_idx _ _ _) as [[idx name]|]; [|apply ev_le with 0; [apply ev_refl|lia]].
      apply ev_append. reflexivity.
    - injection H as <-. unfold process_option.
      destruct (singles c) as [|n [|h [|v [|x r]]]]; try (apply ev_le with 0; [apply ev_refl|lia]).
      all: apply ev_append; reflexivity.
    - injection H as <-. apply ev_le with 0; [apply ev_refl|lia].
  Qed.

  Lemma enter_documented_ev : forall d c st st',
    enter_documented trigger strip_fn strip_mac d c st = Ok st' -> ev 1 st st'.
  Proof.
    intros d c st st' H. rewrite enter_documented_eq in H.
    destruct (classify (lower_ascii (c_name c))) as [m| | | | |sec| |ctor| | | |];
      cbn [enter_documented_k] in H; try (eapply handle_ev; exact H).
    all: injection H as <-; apply ev_append; reflexivity.
  Qed.

  Lemma claim_ev : forall m consumed c st, ev 0 st (claim strip_mem m consumed c st).
  Proof.
    intros m consumed c st. unfold claim.
    set (extra := if Nat.ltb 2 _ then _ else _).
    assert (H : ev 0 st (with_docs (upd_awaiting_entry (awaiting st) m extra) st)).
    { apply ev_docs. apply upd_awaiting_evolves. }
    destruct consumed; (eapply ev_then_same; [exact H|reflexivity|reflexivity]).
  Qed.

  Lemma enter_command_ev : forall fl consumed c st st',
    enter_command fl trigger strip_fn strip_mac strip_mem consumed c st = Ok st' ->
    ev (if consumed then 0 else 1) st st'.
  Proof.
    intros fl consumed c st st' H. rewrite enter_command_eq in H.
    destruct (classify (lower_ascii (c_name c))) as [m| | | | |sec| |ctor| | | |] eqn:Ek;
      cbn [enter_command_k] in H.
    - destruct (aw_pending (awaiting st)).
      { injection H as <-. apply ev_le with 0; [apply claim_ev|destruct consumed; lia]. }
      destruct consumed; [injection H as <-; apply ev_refl|].
      destruct (flag_of fl (CkDef m)).
      + apply (handle_ev (CkDef m)) in H. exact H.
      + injection H as <-. apply ev_le with 0; [apply ev_same; reflexivity|lia].
    - destruct (def_stack st); [discriminate|]. injection H as <-.
      apply ev_le with 0; [apply ev_same; reflexivity|destruct consumed; lia].
    - destruct (negb (inc_cpp_class fl)).
      { injection H as <-. apply ev_le with 0; [apply ev_same; reflexivity|destruct consumed; lia]. }
      destruct consumed; [injection H as <-; apply ev_refl|].
      apply (handle_ev CkClass c [] false). exact H.
    - destruct (class_stack st); [discriminate|]. injection H as <-.
      apply ev_le with 0; [apply ev_same; reflexivity|destruct consumed; lia].
    - injection H as <-. apply ev_le with 0; [apply process_cpa_ev|destruct consumed; lia].
    - destruct consumed; [injection H as <-; apply ev_refl|].
      destruct (flag_of fl (CkTest sec)); [eapply handle_ev; exact H|].
      injection H as <-. apply ev_le with 0; [apply ev_refl|lia].
    - injection H as <-. apply ev_le with 0; [apply ev_refl|destruct consumed; lia].
    - destruct consumed; [injection H as <-; apply ev_refl|].
      destruct (flag_of fl (CkMember ctor)); [eapply handle_ev; exact H|].
      injection H as <-. apply ev_le with 0; [apply ev_refl|lia].
    - destruct consumed; [injection H as <-; apply ev_refl|].
      destruct (flag_of fl CkAttr); [eapply handle_ev; exact H|].
      injection H as <-. apply ev_le with 0; [apply ev_refl|lia].
    - destruct consumed; [injection H as <-; apply ev_refl|].
      destruct (flag_of fl CkAddTest); [eapply handle_ev; exact H|].
      injection H as <-. apply ev_le with 0; [apply ev_refl|lia].
    - destruct consumed; [injection H as <-; apply ev_refl|].
      destruct (flag_of fl CkOption); [eapply handle_ev; exact H|].
      injection H as <-. apply ev_le with 0; [apply ev_refl|lia].
    - injection H as <-. apply ev_le with 0; [apply ev_refl|destruct consumed; lia].
  Qed.

  Lemma agg_step_ev : forall fl st e st',
    agg_step fl trigger strip_fn strip_mac strip_mem st e = Ok st' -> ev 1 st st'.
  Proof.
    intros fl st e st' H. destruct e as [d c|c|d]; cbn [agg_step] in H.
    - destruct (enter_documented trigger strip_fn strip_mac d c st) as [st1|] eqn:E1; [|discriminate].
      apply enter_documented_ev in E1. apply enter_command_ev in H.
      eapply ev_trans; [exact E1|exact H|lia].
    - apply enter_command_ev in H. exact H.
    - injection H as <-. apply ev_le with 0; [apply ev_refl|lia].
  Qed.

  Lemma agg_run_ev : forall fl es st st',
    agg_run fl trigger strip_fn strip_mac strip_mem st es = Ok st' -> ev (length es) st st'.
  Proof.
    intros fl es. induction es as [|e r IH]; intros st st' H; cbn [agg_run] in H.
    - injection H as <-. apply ev_refl.
    - destruct (agg_step fl trigger strip_fn strip_mac strip_mem st e) as [st1|] eqn:E1; [|discriminate].
      apply agg_step_ev in E1. apply IH in H.
      eapply ev_trans; [exact E1|exact H|]. cbn [length]. lia.
  Qed.

  (* I1 *)
  Theorem agg_step_append_only : forall fl st e st',
    agg_step fl trigger strip_fn strip_mac strip_mem st e = Ok st' ->
    exists old' new,
      documented st' = old' ++ new /\ length new <= 1
      /\ Forall2 entry_evolves (documented st) old'
      /\ length (documented st') = length (documented st) + length new.
  Proof.
    intros fl st e st' H. apply agg_step_ev in H.
    destruct H as (o & n & E & F & L & _ & _). exists o, n. repeat split; try assumption.
    rewrite E, app_length. apply Forall2_len in F. lia.
  Qed.

  Corollary agg_step_append_only_firstn : forall fl st e st',
    agg_step fl trigger strip_fn strip_mac strip_mem st e = Ok st' ->
    Forall2 entry_evolves (documented st) (firstn (length (documented st)) (documented st'))
    /\ length (documented st) <= length (documented st') <= length (documented st) + 1.
  Proof.
    intros fl st e st' H. apply agg_step_append_only in H.
    destruct H as (o & n & E & L & F & Hl). pose proof (Forall2_len _ _ _ F) as Hlen.
    split; [|lia]. rewrite E, Hlen. rewrite firstn_app, Nat.sub_diag, firstn_all. cbn [firstn].
    rewrite app_nil_r. exact F.
  Qed.

  Theorem agg_run_append_only : forall fl st es st',
    agg_run fl trigger strip_fn strip_mac strip_mem st es = Ok st' ->
    exists old' new,
      documented st' = old' ++ new /\ length new <= length es
      /\ Forall2 entry_evolves (documented st) old'.
  Proof.
    intros fl st es st' H. apply agg_run_ev in H.
    destruct H as (o & n & E & F & L & _ & _). exists o, n. auto.
  Qed.

  Lemma map_ekey_evolves : forall l l', Forall2 entry_evolves l l' -> map ekey l' = map ekey l.
  Proof.
    intros l l' H. induction H as [|x y l l' Hxy H IH]; [reflexivity|].
    cbn [map]. rewrite IH, (entry_evolves_ekey _ _ Hxy). reflexivity.
  Qed.

  Theorem agg_run_keys_prefix : forall fl st es st',
    agg_run fl trigger strip_fn strip_mac strip_mem st es = Ok st' ->
    exists ks, map ekey (documented st') = map ekey (documented st) ++ ks
               /\ length ks <= length es.
  Proof.
    intros fl st es st' H. apply agg_run_append_only in H.
    destruct H as (o & n & E & L & F). exists (map ekey n). rewrite E, map_app.
    rewrite (map_ekey_evolves _ _ F), map_length. auto.
  Qed.

  (* origins stays parallel to documented *)
  Theorem origins_parallel_step : forall fl st e st',
    length (origins st) = length (documented st) ->
    agg_step fl trigger strip_fn strip_mac strip_mem st e = Ok st' ->
    length (origins st') = length (documented st').
  Proof.
    intros fl st e st' Ho H. apply agg_step_ev in H. destruct H as (o & n & _ & _ & _ & _ & O).
    auto.
  Qed.

  Theorem origins_parallel_run : forall fl st es st',
    length (origins st) = length (documented st) ->
    agg_run fl trigger strip_fn strip_mac strip_mem st es = Ok st' ->
    length (origins st') = length (documented st').
  Proof.
    intros fl st es st' Ho H. apply agg_run_ev in H. destruct H as (o & n & _ & _ & _ & _ & O).
    auto.
  Qed.

  Theorem origins_parallel : forall fl f st,
    aggregate fl trigger strip_fn strip_mac strip_mem f = Ok st ->
    length (origins st) = length (documented st).
  Proof.
    intros fl f st H. unfold aggregate in H. eapply origins_parallel_run; [|exact H].
    destruct (f_module f); reflexivity.
  Qed.

  (* ---- I2 -------------------------------------------------------------------------- *)

  Theorem dangling_no_effect : forall fl st d,
    agg_step fl trigger strip_fn strip_mac strip_mem st (EDangling d) = Ok st.
  Proof. reflexivity. Qed.

  Lemma lookup_none_classify : forall k,
    lookup k handler_table = None -> is_pop_kind k = false -> classify k = CkOther.
  Proof.
    intros k Hl Hp. pose proof (classify_spec k) as Hk.
    destruct (classify k) as [[|]| | | | |[|]| |[|]| | | |]; try reflexivity;
      try (subst k; vm_compute in Hl; discriminate Hl).
    - destruct Hk as [Hk|Hk]; subst k; vm_compute in Hp; discriminate Hp.
    - subst k; vm_compute in Hp; discriminate Hp.
  Qed.

  Theorem undocumented_other_no_effect : forall fl st c,
    lookup (lower_ascii (c_name c)) handler_table = None ->
    is_pop_kind (lower_ascii (c_name c)) = false ->
    agg_step fl trigger strip_fn strip_mac strip_mem st (ECmd c) = Ok st.
  Proof.
    intros fl st c Hl Hp. cbn [agg_step]. rewrite enter_command_eq.
    rewrite (lookup_none_classify _ Hl Hp). reflexivity.
  Qed.

  (* ---- I3 -------------------------------------------------------------------------- *)

  Lemma is_def_name_classify : forall k, is_def_name k = true -> exists m, classify k = CkDef m.
  Proof.
    intros k H. unfold is_def_name in H. apply orb_true_iff in H.
    destruct H as [H|H]; apply str_eqb_eq in H; subst k; [exists false|exists true]; reflexivity.
  Qed.

  Theorem claimed_definition_no_entry : forall fl st c,
    is_def_name (lower_ascii (c_name c)) = true ->
    awaiting st <> AwNone ->
    exists st',
      agg_step fl trigger strip_fn strip_mac strip_mem st (ECmd c) = Ok st'
      /\ length (documented st') = length (documented st)
      /\ awaiting st' = AwNone
      /\ def_stack st' = None :: def_stack st
      /\ class_stack st' = class_stack st.
  Proof.
    intros fl st c Hd Ha. cbn [agg_step]. rewrite enter_command_eq.
    destruct (is_def_name_classify _ Hd) as [m Hm]. rewrite Hm. cbn [enter_command_k].
    assert (Hp : aw_pending (awaiting st) = true).
    { destruct (awaiting st); [contradiction Ha|..]; reflexivity. }
    rewrite Hp. eexists. split; [reflexivity|]. unfold claim.
    cbn [documented with_def_stack with_awaiting with_docs awaiting def_stack class_stack].
    rewrite upd_awaiting_length. auto.
  Qed.

  (* ---- I4 -------------------------------------------------------------------------- *)

  Theorem module_only_first : forall fl f st,
    aggregate fl trigger strip_fn strip_mac strip_mem f = Ok st ->
    (f_module f = None -> no_module (documented st) = true)
    /\ (forall t, f_module f = Some t ->
          exists rest, documented st = module_entry t :: rest /\ no_module rest = true).
  Proof.
    intros fl f st H. unfold aggregate in H. apply agg_run_ev in H.
    destruct H as (o & n & E & F & _ & M & _). split.
    - intro Hm. rewrite Hm in F. cbn in F. inversion F; subst. rewrite E. exact M.
    - intros t Hm. rewrite Hm in F. cbn [append documented agg_init app] in F.
      inversion F as [|x y l l' Hxy Hl]; subst. inversion Hl; subst.
      unfold module_entry in Hxy. apply entry_evolves_module in Hxy. subst y.
      exists n. split; [exact E|exact M].
  Qed.
End Inv.

(* ---- I5: command names are case-insensitive ---------------------------------------- *)

Lemma lower_upper_char : forall c, lower_char (upper_char_ascii c) = lower_char c.
Proof.
  intro c. unfold lower_char, upper_char_ascii.
  destruct ((97 <=? c) && (c <=? 122))%N eqn:E1.
  - apply andb_true_iff in E1. destruct E1 as [A B].
    apply N.leb_le in A. apply N.leb_le in B.
    assert (H1 : ((65 <=? c - 32) && (c - 32 <=? 90))%N = true).
    { apply andb_true_iff. split; apply N.leb_le; lia. }
    assert (H2 : ((65 <=? c) && (c <=? 90))%N = false).
    { apply andb_false_iff. right. apply N.leb_gt. lia. }
    rewrite H1, H2. lia.
  - reflexivity.
Qed.

Lemma lower_lower_char : forall c, lower_char (lower_char c) = lower_char c.
Proof.
  intro c. unfold lower_char.
  destruct ((65 <=? c) && (c <=? 90))%N eqn:E1; [|rewrite E1; reflexivity].
  apply andb_true_iff in E1. destruct E1 as [A B].
  apply N.leb_le in A. apply N.leb_le in B.
  assert (H2 : ((65 <=? c + 32) && (c + 32 <=? 90))%N = false).
  { apply andb_false_iff. right. apply N.leb_gt. lia. }
  rewrite H2. reflexivity.
Qed.

Lemma lower_ascii_upper : forall n, lower_ascii (map upper_char_ascii n) = lower_ascii n.
Proof.
  intro n. unfold lower_ascii. rewrite map_map. apply map_ext. apply lower_upper_char.
Qed.

Lemma lower_ascii_idem : forall n, lower_ascii (lower_ascii n) = lower_ascii n.
Proof.
  intro n. unfold lower_ascii. rewrite map_map. apply map_ext. apply lower_lower_char.
Qed.

Section Recase.
  Variable trigger : str.
  Variables strip_fn strip_mac strip_mem : str -> str.
  Variable g : str -> str.
  Hypothesis g_lower : forall n, lower_ascii (g n) = lower_ascii n.

  Lemma enter_documented_recase : forall d c st,
    enter_documented trigger strip_fn strip_mac d (recase_cmd g c) st
    = enter_documented trigger strip_fn strip_mac d c st.
  Proof.
    intros d c st. unfold enter_documented.
    change (c_name (recase_cmd g c)) with (g (c_name c)). rewrite g_lower.
    destruct (lookup (lower_ascii (c_name c)) handler_table) as [h|]; [|reflexivity].
    destruct h; reflexivity.
  Qed.

  Lemma enter_command_recase : forall fl consumed c st,
    enter_command fl trigger strip_fn strip_mac strip_mem consumed (recase_cmd g c) st
    = enter_command fl trigger strip_fn strip_mac strip_mem consumed c st.
  Proof.
    intros fl consumed c st. unfold enter_command.
    change (c_name (recase_cmd g c)) with (g (c_name c)). rewrite g_lower.
    change (singles (recase_cmd g c)) with (singles c).
    destruct (lookup (lower_ascii (c_name c)) handler_table) as [h|]; [|reflexivity].
    destruct h; reflexivity.
  Qed.

  Theorem agg_step_recase : forall fl st e,
    agg_step fl trigger strip_fn strip_mac strip_mem st (recase_elem g e)
    = agg_step fl trigger strip_fn strip_mac strip_mem st e.
  Proof.
    intros fl st e. destruct e as [d c|c|d]; cbn [recase_elem agg_step].
    - rewrite enter_documented_recase.
      destruct (enter_documented trigger strip_fn strip_mac d c st); [|reflexivity].
      apply enter_command_recase.
    - apply enter_command_recase.
    - reflexivity.
  Qed.

  Theorem agg_run_recase : forall fl es st,
    agg_run fl trigger strip_fn strip_mac strip_mem st (map (recase_elem g) es)
    = agg_run fl trigger strip_fn strip_mac strip_mem st es.
  Proof.
    intros fl es. induction es as [|e r IH]; intro st; cbn [map agg_run]; [reflexivity|].
    rewrite agg_step_recase.
    destruct (agg_step fl trigger strip_fn strip_mac strip_mem st e); [apply IH|reflexivity].
  Qed.

  Theorem aggregate_recase : forall fl f,
    aggregate fl trigger strip_fn strip_mac strip_mem (recase_file g f)
    = aggregate fl trigger strip_fn strip_mac strip_mem f.
  Proof.
    intros fl f. unfold aggregate, recase_file. cbn [f_module f_elems]. apply agg_run_recase.
  Qed.
End Recase.

Corollary aggregate_upper_case : forall fl trigger strip_fn strip_mac strip_mem f,
  aggregate fl trigger strip_fn strip_mac strip_mem (recase_file (map upper_char_ascii) f)
  = aggregate fl trigger strip_fn strip_mac strip_mem f.
Proof. intros. apply aggregate_recase. apply lower_ascii_upper. Qed.

Corollary aggregate_lower_case : forall fl trigger strip_fn strip_mac strip_mem f,
  aggregate fl trigger strip_fn strip_mac strip_mem (recase_file lower_ascii f)
  = aggregate fl trigger strip_fn strip_mac strip_mem f.
Proof. intros. apply aggregate_recase. apply lower_ascii_idem. Qed.
