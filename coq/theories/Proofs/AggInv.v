(* Proofs/AggInv.v -- invariants of the aggregator state machine (Model/Aggregator.v):
   append-only documented list, no-effect commands, claimed definitions, the module entry,
   case invariance of command names, and the refinement of the one-pass specification
   Spec/AggSpec.v (expected_keys). *)
From Coq Require Import String List NArith Bool Arith Lia.
From CMinx Require Import Base.Str Model.Lexer Model.Parser Model.Writer Model.DocTypes
     Model.Aggregator Spec.EntrySpec Spec.AggSpec.
Import ListNotations.

(* ---- spec ---- *)

(* prefix-with-evolution: l' is an elementwise R-evolution of l followed by new elements *)
Definition list_ext {A} (R : A -> A -> Prop) (l l' : list A) : Prop :=
  exists l1 new, l' = l1 ++ new /\ Forall2 R l l1.

(* a method keeps everything except that parameters are appended and the macro flag may change *)
Definition method_evolves (m m' : method) : Prop :=
  m_name m' = m_name m /\ m_doc m' = m_doc m /\ m_parent m' = m_parent m
  /\ m_types m' = m_types m /\ m_ctor m' = m_ctor m /\ m_docd m' = m_docd m
  /\ exists extra, m_params m' = m_params m ++ extra.

(* what may happen to an entry once it is in the documented list *)
Definition entry_evolves (e e' : entry) : Prop :=
  match e, e' with
  | EFunction m n d p k, EFunction m' n' d' p' k' =>
      m' = m /\ n' = n /\ d' = d /\ p' = p /\ (k = true -> k' = true)
  | ETest sec n d xf ps _, ETest sec' n' d' xf' ps' _ =>
      sec' = sec /\ n' = n /\ d' = d /\ xf' = xf /\ exists extra, ps' = ps ++ extra
  | EClass n d su inn ct me at_, EClass n' d' su' inn' ct' me' at' =>
      n' = n /\ d' = d /\ su' = su /\ (exists x, inn' = inn ++ x)
      /\ list_ext method_evolves ct ct' /\ list_ext method_evolves me me'
      /\ (exists x, at' = at_ ++ x)
  | _, _ => e' = e
  end.

Definition is_module (e : entry) : bool :=
  match e with EModule _ _ => true | _ => false end.

Definition no_module (l : list entry) : bool := forallb (fun e => negb (is_module e)) l.

Definition recase_cmd (g : str -> str) (c : cmd) : cmd :=
  {| c_name := g (c_name c); c_args := c_args c |}.

Definition recase_elem (g : str -> str) (e : element) : element :=
  match e with
  | EDocCmd d c => EDocCmd d (recase_cmd g c)
  | ECmd c => ECmd (recase_cmd g c)
  | EDangling d => EDangling d
  end.

Definition recase_file (g : str -> str) (f : cfile) : cfile :=
  {| f_module := f_module f; f_elems := map (recase_elem g) (f_elems f) |}.

(* the three command kinds that pop a stack *)
Definition is_pop_kind (k : str) : bool :=
  str_eqb k (s"cpp_end_class") || str_eqb k (s"endfunction") || str_eqb k (s"endmacro").

Definition aw_pending (a : await) : bool :=
  match a with AwNone => false | _ => true end.

(* ---- strings -------------------------------------------------------------------- *)

Lemma str_eqb_eq : forall a b, str_eqb a b = true <-> a = b.
Proof.
  induction a as [|x a IH]; intros [|y b]; cbn [str_eqb]; split; intro H;
    try reflexivity; try discriminate.
  - apply andb_true_iff in H. destruct H as [H1 H2].
    apply N.eqb_eq in H1. apply IH in H2. subst. reflexivity.
  - inversion H; subst. apply andb_true_iff. split.
    + apply N.eqb_refl.
    + apply IH. reflexivity.
Qed.

Lemma str_eqb_refl : forall a, str_eqb a a = true.
Proof. intro a. apply str_eqb_eq. reflexivity. Qed.

(* evaluate comparisons and table lookups of literal command names *)
Ltac red_lits :=
  repeat match goal with
  | |- context [str_eqb (of_string ?a) (of_string ?b)] =>
      let v := eval vm_compute in (str_eqb (of_string a) (of_string b)) in
      change (str_eqb (of_string a) (of_string b)) with v
  | |- context [@lookup ?A (of_string ?a) ?t] =>
      let v := eval vm_compute in (@lookup A (of_string a) t) in
      change (@lookup A (of_string a) t) with v
  | |- context [is_def_name (of_string ?a)] =>
      let v := eval vm_compute in (is_def_name (of_string a)) in
      change (is_def_name (of_string a)) with v
  end;
  cbn [andb orb negb].

Ltac red_lits_in H :=
  repeat match type of H with
  | context [str_eqb (of_string ?a) (of_string ?b)] =>
      let v := eval vm_compute in (str_eqb (of_string a) (of_string b)) in
      change (str_eqb (of_string a) (of_string b)) with v in H
  | context [@lookup ?A (of_string ?a) ?t] =>
      let v := eval vm_compute in (@lookup A (of_string a) t) in
      change (@lookup A (of_string a) t) with v in H
  | context [is_def_name (of_string ?a)] =>
      let v := eval vm_compute in (is_def_name (of_string a)) in
      change (is_def_name (of_string a)) with v in H
  end;
  cbn [andb orb negb] in H.

(* ---- command kinds --------------------------------------------------------------- *)

Inductive ckind :=
| CkDef (is_macro : bool) | CkEndDef | CkClass | CkEndClass | CkCpa
| CkTest (is_section : bool) | CkSet | CkMember (is_ctor : bool) | CkAttr
| CkAddTest | CkOption | CkOther.

Definition classify (k : str) : ckind :=
  if str_eqb k (s"function") then CkDef false
  else if str_eqb k (s"macro") then CkDef true
  else if str_eqb k (s"endfunction") then CkEndDef
  else if str_eqb k (s"endmacro") then CkEndDef
  else if str_eqb k (s"cpp_class") then CkClass
  else if str_eqb k (s"cpp_end_class") then CkEndClass
  else if str_eqb k (s"cmake_parse_arguments") then CkCpa
  else if str_eqb k (s"ct_add_test") then CkTest false
  else if str_eqb k (s"ct_add_section") then CkTest true
  else if str_eqb k (s"set") then CkSet
  else if str_eqb k (s"cpp_member") then CkMember false
  else if str_eqb k (s"cpp_constructor") then CkMember true
  else if str_eqb k (s"cpp_attr") then CkAttr
  else if str_eqb k (s"add_test") then CkAddTest
  else if str_eqb k (s"option") then CkOption
  else CkOther.

Definition other_kind (k : str) : Prop :=
  str_eqb k (s"function") = false /\ str_eqb k (s"macro") = false
  /\ str_eqb k (s"endfunction") = false /\ str_eqb k (s"endmacro") = false
  /\ str_eqb k (s"cpp_class") = false /\ str_eqb k (s"cpp_end_class") = false
  /\ str_eqb k (s"cmake_parse_arguments") = false /\ str_eqb k (s"ct_add_test") = false
  /\ str_eqb k (s"ct_add_section") = false /\ str_eqb k (s"set") = false
  /\ str_eqb k (s"cpp_member") = false /\ str_eqb k (s"cpp_constructor") = false
  /\ str_eqb k (s"cpp_attr") = false /\ str_eqb k (s"add_test") = false
  /\ str_eqb k (s"option") = false.

Lemma classify_spec : forall k,
  match classify k with
  | CkDef false => k = s"function"
  | CkDef true => k = s"macro"
  | CkEndDef => k = s"endfunction" \/ k = s"endmacro"
  | CkClass => k = s"cpp_class"
  | CkEndClass => k = s"cpp_end_class"
  | CkCpa => k = s"cmake_parse_arguments"
  | CkTest false => k = s"ct_add_test"
  | CkTest true => k = s"ct_add_section"
  | CkSet => k = s"set"
  | CkMember false => k = s"cpp_member"
  | CkMember true => k = s"cpp_constructor"
  | CkAttr => k = s"cpp_attr"
  | CkAddTest => k = s"add_test"
  | CkOption => k = s"option"
  | CkOther => other_kind k
  end.
Proof.
  intro k. unfold classify, other_kind.
  destruct (str_eqb k (s"function")) eqn:E1; [apply str_eqb_eq; exact E1|].
  destruct (str_eqb k (s"macro")) eqn:E2; [apply str_eqb_eq; exact E2|].
  destruct (str_eqb k (s"endfunction")) eqn:E3; [left; apply str_eqb_eq; exact E3|].
  destruct (str_eqb k (s"endmacro")) eqn:E4; [right; apply str_eqb_eq; exact E4|].
  destruct (str_eqb k (s"cpp_class")) eqn:E5; [apply str_eqb_eq; exact E5|].
  destruct (str_eqb k (s"cpp_end_class")) eqn:E6; [apply str_eqb_eq; exact E6|].
  destruct (str_eqb k (s"cmake_parse_arguments")) eqn:E7; [apply str_eqb_eq; exact E7|].
  destruct (str_eqb k (s"ct_add_test")) eqn:E8; [apply str_eqb_eq; exact E8|].
  destruct (str_eqb k (s"ct_add_section")) eqn:E9; [apply str_eqb_eq; exact E9|].
  destruct (str_eqb k (s"set")) eqn:E10; [apply str_eqb_eq; exact E10|].
  destruct (str_eqb k (s"cpp_member")) eqn:E11; [apply str_eqb_eq; exact E11|].
  destruct (str_eqb k (s"cpp_constructor")) eqn:E12; [apply str_eqb_eq; exact E12|].
  destruct (str_eqb k (s"cpp_attr")) eqn:E13; [apply str_eqb_eq; exact E13|].
  destruct (str_eqb k (s"add_test")) eqn:E14; [apply str_eqb_eq; exact E14|].
  destruct (str_eqb k (s"option")) eqn:E15; [apply str_eqb_eq; exact E15|].
  repeat split; reflexivity.
Qed.

Lemma other_kind_lookup : forall k, other_kind k -> lookup k handler_table = None.
Proof.
  intros k H. unfold other_kind in H.
  destruct H as (H1&H2&H3&H4&H5&H6&H7&H8&H9&H10&H11&H12&H13&H14&H15).
  cbn [lookup handler_table].
  rewrite H1, H2, H7, H8, H9, H10, H5, H11, H12, H13, H14, H15. reflexivity.
Qed.

(* destruct the kind of a command-name string: literal kinds are substituted *)
Ltac kind_cases k Hk :=
  pose proof (classify_spec k) as Hk;
  destruct (classify k) as [[|]| | | | |[|]| |[|]| | | |] eqn:?Ek.
Section Classified.
  Variable fl : flags.
  Variable trigger : str.
  Variables strip_fn strip_mac strip_mem : str -> str.

  (* the process_* method of a kind *)
  Definition handle (k : ckind) (c : cmd) (doc : str) (docd : bool) (st : agg) : result agg :=
    match k with
    | CkDef m => process_def trigger strip_fn strip_mac m c doc docd st
    | CkCpa => Ok (process_cpa st)
    | CkTest sec => Ok (process_test sec c doc docd st)
    | CkSet => process_set c doc docd st
    | CkClass => Ok (process_class c doc docd st)
    | CkMember ctor => Ok (process_member ctor c doc docd st)
    | CkAttr => Ok (process_attr c doc docd st)
    | CkAddTest => Ok (process_add_test c doc docd st)
    | CkOption => Ok (process_option c doc docd st)
    | CkEndDef | CkEndClass | CkOther => Ok st
    end.

  Definition flag_of (k : ckind) : bool :=
    match k with
    | CkDef false => inc_function fl
    | CkDef true => inc_macro fl
    | CkClass => inc_cpp_class fl
    | CkAttr => inc_cpp_attr fl
    | CkMember true => inc_cpp_constructor fl
    | CkMember false => inc_cpp_member fl
    | CkTest false => inc_ct_add_test fl
    | CkTest true => inc_ct_add_section fl
    | CkAddTest => inc_add_test fl
    | CkOption => inc_option fl
    | _ => false
    end.

  Definition enter_documented_k (k : ckind) (command : str) (d : str) (c : cmd) (st : agg) : result agg :=
    match k with
    | CkEndDef | CkEndClass | CkOther =>
        Ok (process_generic command c (clean_doc_text d) true st)
    | _ => handle k c (clean_doc_text d) true st
    end.

  Lemma enter_documented_eq : forall d c st,
    enter_documented trigger strip_fn strip_mac d c st
    = enter_documented_k (classify (lower_ascii (c_name c))) (lower_ascii (c_name c)) d c st.
  Proof.
    intros d c st. unfold enter_documented.
    generalize (lower_ascii (c_name c)) as k. intro k.
    kind_cases k Hk; try (subst k; red_lits; reflexivity).
    - destruct Hk as [Hk|Hk]; subst k; red_lits; reflexivity.
    - rewrite (other_kind_lookup k Hk). reflexivity.
  Qed.

  (* the implementing definition of a pending member/test declaration *)
  Definition claim (is_macro consumed : bool) (c : cmd) (st : agg) : agg :=
    let raw := singles c in
    let params := match awaiting st with
                  | AwMethod _ _ => map strip_mem raw
                  | _ => raw
                  end in
    let extra := if Nat.ltb 2 (length params) then skipn 2 params else [] in
    let st2 := with_awaiting AwNone
                 (with_docs (upd_awaiting_entry (awaiting st) is_macro extra) st) in
    if consumed then st2 else with_def_stack (None :: def_stack st2) st2.

  Definition enter_command_k (k : ckind) (consumed : bool) (c : cmd) (st : agg) : result agg :=
    match k with
    | CkClass =>
        if negb (inc_cpp_class fl) then Ok (with_class_stack (None :: class_stack st) st)
        else if consumed then Ok st else Ok (process_class c [] false st)
    | CkEndClass =>
        match class_stack st with [] => Crash | _ :: cs => Ok (with_class_stack cs st) end
    | CkCpa => Ok (process_cpa st)
    | CkDef m =>
        if aw_pending (awaiting st) then Ok (claim m consumed c st)
        else if consumed then Ok st
        else if flag_of k then process_def trigger strip_fn strip_mac m c [] false st
        else Ok (with_def_stack (None :: def_stack st) st)
    | CkEndDef =>
        match def_stack st with [] => Crash | _ :: ds => Ok (with_def_stack ds st) end
    | CkSet | CkOther => Ok st
    | _ => if consumed then Ok st else if flag_of k then handle k c [] false st else Ok st
    end.

  Lemma enter_command_eq : forall consumed c st,
    enter_command fl trigger strip_fn strip_mac strip_mem consumed c st
    = enter_command_k (classify (lower_ascii (c_name c))) consumed c st.
  Proof.
    intros consumed c st. unfold enter_command.
    generalize (lower_ascii (c_name c)) as k. intro k.
    kind_cases k Hk.
    all: try (subst k; red_lits; cbn [enter_command_k flag_of handle include_flag run_handler]).
    - unfold claim. destruct (awaiting st); cbn [aw_pending]; destruct consumed; try reflexivity.
      all: destruct (inc_function fl); reflexivity.
    - unfold claim. destruct (awaiting st); cbn [aw_pending]; destruct consumed; try reflexivity.
      all: destruct (inc_macro fl); reflexivity.
    - destruct Hk as [Hk|Hk]; subst k; red_lits; reflexivity.
    - destruct (inc_cpp_class fl); destruct consumed; reflexivity.
    - reflexivity.
    - reflexivity.
    - destruct consumed; reflexivity.
    - destruct consumed; reflexivity.
    - reflexivity.
    - destruct consumed; reflexivity.
    - destruct consumed; reflexivity.
    - destruct consumed; reflexivity.
    - destruct consumed; reflexivity.
    - destruct consumed; reflexivity.
    - rewrite (other_kind_lookup k Hk). unfold other_kind in Hk.
      destruct Hk as (H1&H2&H3&H4&H5&H6&H7&H8&H9&H10&H11&H12&H13&H14&H15).
      unfold is_def_name. rewrite H1, H2, H3, H4, H5, H6, H7, H10.
      cbn [andb orb negb]. destruct consumed; reflexivity.
  Qed.
End Classified.

(* ---- lists ----------------------------------------------------------------------- *)

Lemma update_nth_length : forall {A} (f : A -> A) l n, length (update_nth n f l) = length l.
Proof.
  intros A f l. induction l as [|x r IH]; intros [|n]; cbn [update_nth length]; try reflexivity.
  rewrite IH. reflexivity.
Qed.

Lemma nth_error_update_nth : forall {A} (f : A -> A) l i j,
  nth_error (update_nth i f l) j
  = if Nat.eqb i j then option_map f (nth_error l j) else nth_error l j.
Proof.
  intros A f l. induction l as [|x r IH]; intros [|i] [|j]; cbn [update_nth nth_error Nat.eqb option_map];
    try reflexivity.
  - destruct (Nat.eqb _ _); reflexivity.
  - apply IH.
Qed.

Lemma nth_error_update_nth_fix : forall {A} (f : A -> A) l i j x,
  nth_error l j = Some x -> f x = x -> nth_error (update_nth i f l) j = Some x.
Proof.
  intros A f l i j x H Hf. rewrite nth_error_update_nth. rewrite H. cbn [option_map].
  rewrite Hf. destruct (Nat.eqb i j); reflexivity.
Qed.

Lemma update_last_nil : forall {A} (f : A -> A), update_last f [] = [].
Proof. reflexivity. Qed.

Lemma update_last_snoc : forall {A} (f : A -> A) l x, update_last f (l ++ [x]) = l ++ [f x].
Proof.
  intros A f l x. unfold update_last. rewrite rev_app_distr. cbn [rev app].
  rewrite rev_involutive. reflexivity.
Qed.

Lemma update_last_length : forall {A} (f : A -> A) l, length (update_last f l) = length l.
Proof.
  intros A f l. destruct l as [|a r] using rev_ind; [reflexivity|].
  rewrite update_last_snoc. rewrite !app_length. reflexivity.
Qed.

Lemma Forall2_refl : forall {A} (R : A -> A -> Prop), (forall x, R x x) -> forall l, Forall2 R l l.
Proof. intros A R HR l. induction l as [|x r IH]; constructor; auto. Qed.

Lemma Forall2_trans : forall {A} (R : A -> A -> Prop),
  (forall x y z, R x y -> R y z -> R x z) ->
  forall l1 l2 l3, Forall2 R l1 l2 -> Forall2 R l2 l3 -> Forall2 R l1 l3.
Proof.
  intros A R HR l1 l2 l3 H12. revert l3.
  induction H12 as [|x y l1 l2 Hxy H12 IH]; intros l3 H23; inversion H23; subst; constructor.
  - eapply HR; eassumption.
  - apply IH. assumption.
Qed.

Lemma Forall2_update_nth : forall {A} (R : A -> A -> Prop) (f : A -> A),
  (forall x, R x x) -> (forall x, R x (f x)) ->
  forall l i, Forall2 R l (update_nth i f l).
Proof.
  intros A R f Hr Hf l. induction l as [|x r IH]; intros [|i]; cbn [update_nth]; constructor; auto.
  apply Forall2_refl. assumption.
Qed.

Lemma Forall2_update_last : forall {A} (R : A -> A -> Prop) (f : A -> A),
  (forall x, R x x) -> (forall x, R x (f x)) ->
  forall l, Forall2 R l (update_last f l).
Proof.
  intros A R f Hr Hf l. destruct l as [|a r] using rev_ind; [constructor|].
  rewrite update_last_snoc. apply Forall2_app.
  - apply Forall2_refl. assumption.
  - constructor; [apply Hf|constructor].
Qed.

Lemma Forall2_len : forall {A B} (R : A -> B -> Prop) l l', Forall2 R l l' -> length l = length l'.
Proof. intros A B R l l' H. induction H; cbn [length]; congruence. Qed.

Lemma list_ext_refl : forall {A} (R : A -> A -> Prop), (forall x, R x x) -> forall l, list_ext R l l.
Proof.
  intros A R Hr l. exists l, []. split; [rewrite app_nil_r; reflexivity|].
  apply Forall2_refl. assumption.
Qed.

Lemma list_ext_trans : forall {A} (R : A -> A -> Prop),
  (forall x y z, R x y -> R y z -> R x z) ->
  forall l1 l2 l3, list_ext R l1 l2 -> list_ext R l2 l3 -> list_ext R l1 l3.
Proof.
  intros A R Ht l1 l2 l3 (a & n1 & E1 & F1) (b & n2 & E2 & F2). subst l2.
  apply Forall2_app_inv_l in F2. destruct F2 as (b1 & b2 & Fa & Fb & Eb). subst b.
  exists b1, (b2 ++ n2). split.
  - rewrite E2. rewrite app_assoc. reflexivity.
  - eapply Forall2_trans; eassumption.
Qed.

Lemma list_ext_snoc : forall {A} (R : A -> A -> Prop), (forall x, R x x) ->
  forall l x, list_ext R l (l ++ [x]).
Proof.
  intros A R Hr l x. exists l, [x]. split; [reflexivity|]. apply Forall2_refl. assumption.
Qed.

Lemma list_ext_same : forall {A} (R : A -> A -> Prop) l l', Forall2 R l l' -> list_ext R l l'.
Proof. intros A R l l' H. exists l', []. split; [rewrite app_nil_r; reflexivity|assumption]. Qed.

Lemma list_ext_length : forall {A} (R : A -> A -> Prop) l l', list_ext R l l' -> length l <= length l'.
Proof.
  intros A R l l' (a & n & E & F). subst l'. rewrite app_length.
  apply Forall2_len in F. lia.
Qed.

(* ---- entries evolve -------------------------------------------------------------- *)

Lemma method_evolves_refl : forall m, method_evolves m m.
Proof.
  intro m. unfold method_evolves. repeat split. exists []. rewrite app_nil_r. reflexivity.
Qed.

Lemma method_evolves_trans : forall a b c, method_evolves a b -> method_evolves b c -> method_evolves a c.
Proof.
  intros a b c (A1&A2&A3&A4&A5&A6&x&A7) (B1&B2&B3&B4&B5&B6&y&B7).
  unfold method_evolves. repeat split; try congruence.
  exists (x ++ y). rewrite B7, A7, app_assoc. reflexivity.
Qed.

Lemma upd_method_evolves : forall mac extra m, method_evolves m (upd_method mac extra m).
Proof.
  intros mac extra m. unfold method_evolves, upd_method. cbn. repeat split. exists extra. reflexivity.
Qed.

Lemma entry_evolves_refl : forall e, entry_evolves e e.
Proof.
  intros [m n d p k|n d t v|n d v h|n d p|n d p|sec n d xf ps mac|n d su inn ct me at_|n d];
    cbn [entry_evolves]; try reflexivity.
  - repeat split; auto.
  - repeat split. exists []. rewrite app_nil_r. reflexivity.
  - repeat split.
    + exists []. rewrite app_nil_r. reflexivity.
    + apply list_ext_refl. apply method_evolves_refl.
    + apply list_ext_refl. apply method_evolves_refl.
    + exists []. rewrite app_nil_r. reflexivity.
Qed.

Lemma entry_evolves_trans : forall a b c, entry_evolves a b -> entry_evolves b c -> entry_evolves a c.
Proof.
  intros a b c Hab Hbc.
  destruct a as [m n d p k|n d t v|n d v h|n d p|n d p|sec n d xf ps mac|n d su inn ct me at_|n d];
  destruct b as [m1 n1 d1 p1 k1|n1 d1 t1 v1|n1 d1 v1 h1|n1 d1 p1|n1 d1 p1|sec1 n1 d1 xf1 ps1 mac1|n1 d1 su1 inn1 ct1 me1 at1|n1 d1];
  cbn [entry_evolves] in Hab; try discriminate Hab;
  try (injection Hab as; subst; exact Hbc).
  - destruct c as [m2 n2 d2 p2 k2|n2 d2 t2 v2|n2 d2 v2 h2|n2 d2 p2|n2 d2 p2|sec2 n2 d2 xf2 ps2 mac2|n2 d2 su2 inn2 ct2 me2 at2|n2 d2];
      cbn [entry_evolves] in Hbc |- *; try discriminate Hbc.
    destruct Hab as (A1&A2&A3&A4&A5). destruct Hbc as (B1&B2&B3&B4&B5).
    subst. repeat split; auto.
  - destruct c as [m2 n2 d2 p2 k2|n2 d2 t2 v2|n2 d2 v2 h2|n2 d2 p2|n2 d2 p2|sec2 n2 d2 xf2 ps2 mac2|n2 d2 su2 inn2 ct2 me2 at2|n2 d2];
      cbn [entry_evolves] in Hbc |- *; try discriminate Hbc.
    destruct Hab as (A1&A2&A3&A4&x&A5). destruct Hbc as (B1&B2&B3&B4&y&B5).
    subst. repeat split; auto. exists (x ++ y). rewrite app_assoc. reflexivity.
  - destruct c as [m2 n2 d2 p2 k2|n2 d2 t2 v2|n2 d2 v2 h2|n2 d2 p2|n2 d2 p2|sec2 n2 d2 xf2 ps2 mac2|n2 d2 su2 inn2 ct2 me2 at2|n2 d2];
      cbn [entry_evolves] in Hbc |- *; try discriminate Hbc.
    destruct Hab as (A1&A2&A3&(x&A4)&A5&A6&(x'&A7)). destruct Hbc as (B1&B2&B3&(y&B4)&B5&B6&(y'&B7)).
    subst. repeat split; auto.
    + exists (x ++ y). rewrite app_assoc. reflexivity.
    + eapply list_ext_trans; [apply method_evolves_trans| |]; eassumption.
    + eapply list_ext_trans; [apply method_evolves_trans| |]; eassumption.
    + exists (x' ++ y'). rewrite app_assoc. reflexivity.
Qed.

Lemma entry_evolves_ekey : forall a b, entry_evolves a b -> ekey b = ekey a.
Proof.
  intros a b H.
  destruct a as [m n d p k|n d t v|n d v h|n d p|n d p|sec n d xf ps mac|n d su inn ct me at_|n d];
  destruct b as [m1 n1 d1 p1 k1|n1 d1 t1 v1|n1 d1 v1 h1|n1 d1 p1|n1 d1 p1|sec1 n1 d1 xf1 ps1 mac1|n1 d1 su1 inn1 ct1 me1 at1|n1 d1];
  cbn [entry_evolves] in H; try discriminate H; try (injection H as; subst; reflexivity).
  - destruct H as (A1&A2&_). subst. reflexivity.
  - destruct H as (A1&A2&_). subst. reflexivity.
  - destruct H as (A1&A2&_). subst. reflexivity.
Qed.

Lemma entry_evolves_is_module : forall a b, entry_evolves a b -> is_module b = is_module a.
Proof.
  intros a b H.
  destruct a as [m n d p k|n d t v|n d v h|n d p|n d p|sec n d xf ps mac|n d su inn ct me at_|n d];
  destruct b as [m1 n1 d1 p1 k1|n1 d1 t1 v1|n1 d1 v1 h1|n1 d1 p1|n1 d1 p1|sec1 n1 d1 xf1 ps1 mac1|n1 d1 su1 inn1 ct1 me1 at1|n1 d1];
  cbn [entry_evolves] in H; try discriminate H; reflexivity.
Qed.

Lemma entry_evolves_module : forall n d b, entry_evolves (EModule n d) b -> b = EModule n d.
Proof. intros n d b H. destruct b; exact H. Qed.

(* the updaters used by the aggregator *)
Lemma set_kwargs_evolves : forall e, entry_evolves e (set_kwargs e).
Proof.
  intro e. destruct e; try apply entry_evolves_refl. cbn. repeat split; auto.
Qed.

Lemma add_inner_evolves : forall x e, entry_evolves e (add_inner x e).
Proof.
  intros x e. destruct e as [| | | | | |n d su inn ct me at_|]; try apply entry_evolves_refl.
  cbn [add_inner entry_evolves]. repeat split.
  - exists [x]. reflexivity.
  - apply list_ext_refl, method_evolves_refl.
  - apply list_ext_refl, method_evolves_refl.
  - exists []. rewrite app_nil_r. reflexivity.
Qed.

Lemma add_method_evolves : forall b m e, entry_evolves e (add_method b m e).
Proof.
  intros b m e. destruct e as [| | | | | |n d su inn ct me at_|]; try apply entry_evolves_refl.
  cbn [add_method]. destruct b; cbn [entry_evolves]; repeat split.
  all: try (exists []; rewrite app_nil_r; reflexivity).
  all: try (apply list_ext_refl, method_evolves_refl).
  all: apply list_ext_snoc, method_evolves_refl.
Qed.

Lemma add_attr_evolves : forall a e, entry_evolves e (add_attr a e).
Proof.
  intros a e. destruct e as [| | | | | |n d su inn ct me at_|]; try apply entry_evolves_refl.
  cbn [add_attr entry_evolves]. repeat split.
  - exists []. rewrite app_nil_r. reflexivity.
  - apply list_ext_refl, method_evolves_refl.
  - apply list_ext_refl, method_evolves_refl.
  - exists [a]. reflexivity.
Qed.

Lemma upd_awaiting_evolves : forall a mac extra docs,
  Forall2 entry_evolves docs (upd_awaiting_entry a mac extra docs).
Proof.
  intros a mac extra docs. destruct a as [|idx|cidx ctor]; cbn [upd_awaiting_entry].
  - apply Forall2_refl, entry_evolves_refl.
  - apply Forall2_update_nth; [apply entry_evolves_refl|].
    intro e. destruct e; try apply entry_evolves_refl.
    cbn [entry_evolves]. repeat split. exists extra. reflexivity.
  - apply Forall2_update_nth; [apply entry_evolves_refl|].
    intro e. destruct e as [| | | | | |n d su inn ct me at_|]; try apply entry_evolves_refl.
    destruct ctor; cbn [entry_evolves]; repeat split.
    all: try (exists []; rewrite app_nil_r; reflexivity).
    all: try (apply list_ext_refl, method_evolves_refl).
    all: apply list_ext_same, Forall2_update_last;
      [apply method_evolves_refl | intro x; apply upd_method_evolves].
Qed.

Lemma upd_awaiting_length : forall a mac extra docs,
  length (upd_awaiting_entry a mac extra docs) = length docs.
Proof.
  intros a mac extra docs. symmetry. eapply Forall2_len. apply upd_awaiting_evolves.
Qed.

(* ---- I1: the documented list is append-only ---------------------------------------- *)

(* st' is reached from st by evolving the existing entries and appending at most n new
   non-module entries, keeping origins parallel *)
Definition ev (n : nat) (st st' : agg) : Prop :=
  exists old' new,
    documented st' = old' ++ new
    /\ Forall2 entry_evolves (documented st) old'
    /\ length new <= n
    /\ no_module new = true
    /\ (length (origins st) = length (documented st) ->
        length (origins st') = length (documented st')).

Lemma ev_refl : forall st, ev 0 st st.
Proof.
  intro st. exists (documented st), []. repeat split.
  - rewrite app_nil_r. reflexivity.
  - apply Forall2_refl, entry_evolves_refl.
  - cbn. lia.
  - auto.
Qed.

Lemma no_module_evolves : forall l l', Forall2 entry_evolves l l' -> no_module l' = no_module l.
Proof.
  intros l l' H. induction H as [|x y l l' Hxy H IH]; [reflexivity|].
  unfold no_module in *. cbn [forallb]. rewrite IH.
  rewrite (entry_evolves_is_module _ _ Hxy). reflexivity.
Qed.

Lemma ev_trans : forall n m k a b c, ev n a b -> ev m b c -> n + m <= k -> ev k a c.
Proof.
  intros n m k a b c (o1 & n1 & E1 & F1 & L1 & M1 & O1) (o2 & n2 & E2 & F2 & L2 & M2 & O2) Hk.
  rewrite E1 in F2. apply Forall2_app_inv_l in F2.
  destruct F2 as (o2a & o2b & Fa & Fb & Eo). subst o2.
  exists o2a, (o2b ++ n2). repeat split.
  - rewrite E2, app_assoc. reflexivity.
  - eapply Forall2_trans; [apply entry_evolves_trans| |]; eassumption.
  - rewrite app_length. apply Forall2_len in Fb. lia.
  - unfold no_module in *. rewrite forallb_app. fold (no_module o2b).
    rewrite (no_module_evolves _ _ Fb). unfold no_module. rewrite M1, M2. reflexivity.
  - auto.
Qed.

Lemma ev_le : forall n k a b, ev n a b -> n <= k -> ev k a b.
Proof.
  intros n k a b H Hk. eapply ev_trans; [exact H|apply ev_refl|lia].
Qed.

Lemma ev_append : forall e d st, is_module e = false -> ev 1 st (append e d st).
Proof.
  intros e d st He. exists (documented st), [e]. cbn [append documented origins]. repeat split.
  - apply Forall2_refl, entry_evolves_refl.
  - cbn. lia.
  - unfold no_module. cbn [forallb]. rewrite He. reflexivity.
  - intro H. rewrite !app_length. cbn [length]. lia.
Qed.

Lemma ev_docs : forall f st,
  Forall2 entry_evolves (documented st) (f (documented st)) -> ev 0 st (with_docs f st).
Proof.
  intros f st H. exists (f (documented st)), []. cbn [with_docs documented origins]. repeat split.
  - rewrite app_nil_r. reflexivity.
  - exact H.
  - cbn. lia.
  - intro Ho. rewrite Ho. eapply Forall2_len. exact H.
Qed.

Lemma ev_update : forall i f st,
  (forall e, entry_evolves e (f e)) -> ev 0 st (with_docs (update_nth i f) st).
Proof.
  intros i f st H. apply ev_docs. apply Forall2_update_nth; [apply entry_evolves_refl|exact H].
Qed.

Lemma ev_same : forall st st',
  documented st' = documented st -> origins st' = origins st -> ev 0 st st'.
Proof.
  intros st st' Hd Ho. exists (documented st), []. repeat split.
  - rewrite app_nil_r. exact Hd.
  - apply Forall2_refl, entry_evolves_refl.
  - cbn. lia.
  - rewrite Hd, Ho. auto.
Qed.

Lemma ev_then_same : forall n st st1 st2, ev n st st1 ->
  documented st2 = documented st1 -> origins st2 = origins st1 -> ev n st st2.
Proof.
  intros n st st1 st2 H Hd Ho. eapply ev_trans; [exact H|apply ev_same; assumption|lia].
Qed.

Lemma ev_then_update : forall n i f st st1, ev n st st1 ->
  (forall e, entry_evolves e (f e)) -> ev n st (with_docs (update_nth i f) st1).
Proof.
  intros n i f st st1 H Hf. eapply ev_trans; [exact H|apply ev_update; exact Hf|lia].
Qed.

Section Inv.
  Variable trigger : str.
  Variables strip_fn strip_mac strip_mem : str -> str.

  Lemma process_cpa_ev : forall st, ev 0 st (process_cpa st).
  Proof.
    intro st. unfold process_cpa. destruct (def_stack st) as [|[i|] r]; try apply ev_refl.
    apply ev_update. apply set_kwargs_evolves.
  Qed.

  Lemma handle_ev : forall k c doc docd st st',
    handle trigger strip_fn strip_mac k c doc docd st = Ok st' -> ev 1 st st'.
  Proof.
    intros k c doc docd st st' H.
    destruct k as [m| | | | |sec| |ctor| | | |]; cbn [handle] in H.
    - unfold process_def in H. destruct (singles c) as [|name ps]; [discriminate|].
      injection H as <-. eapply ev_then_same; [apply ev_append|reflexivity|reflexivity]. reflexivity.
    - injection H as <-. apply ev_le with 0; [apply ev_refl|lia].
    - injection H as <-. unfold process_class. destruct (singles c) as [|name supers].
      + apply ev_le with 0; [apply ev_refl|lia].
      + eapply ev_then_same; [|reflexivity|reflexivity].
        destruct (class_stack st) as [|[cidx|] r]; try (apply ev_append; reflexivity).
        apply ev_then_update; [apply ev_append; reflexivity|apply add_inner_evolves].
    - injection H as <-. apply ev_le with 0; [apply ev_refl|lia].
    - injection H as <-. apply ev_le with 0; [apply process_cpa_ev|lia].
    - injection H as <-. unfold process_test.
      destruct (Nat.ltb _ _); [apply ev_le with 0; [apply ev_refl|lia]|].
      destruct (scan_name _ _); [|apply ev_le with 0; [apply ev_refl|lia]].
      eapply ev_then_same; [apply ev_append|reflexivity|reflexivity]. reflexivity.
    - unfold process_set in H. destruct (singles c) as [|name [|v [|v2 vals]]].
      + injection H as <-. apply ev_le with 0; [apply ev_refl|lia].
      + injection H as <-. apply ev_append. reflexivity.
      + destruct (unquote v); [|discriminate]. injection H as <-. apply ev_append. reflexivity.
      + injection H as <-. apply ev_append. reflexivity.
    - injection H as <-. apply ev_le with 0; [|lia]. unfold process_member.
      destruct (Nat.ltb _ _); [apply ev_refl|].
      destruct (class_stack st) as [|[cidx|] r]; try apply ev_refl.
      eapply ev_then_same; [|reflexivity|reflexivity].
      apply ev_update. apply add_method_evolves.
    - injection H as <-. apply ev_le with 0; [|lia]. unfold process_attr.
      destruct (Nat.ltb _ _); [apply ev_refl|].
      destruct (class_stack st) as [|[cidx|] r]; try apply ev_refl.
      apply ev_update. apply add_attr_evolves.
    - injection H as <-. unfold process_add_test.
      destruct (Nat.ltb _ _); [apply ev_le with 0; [apply ev_refl|lia]|].
      destruct (scan_name_idx _ _ _) as [[idx name]|]; [|apply ev_le with 0; [apply ev_refl|lia]].
      apply ev_append. reflexivity.
    - injection H as <-. unfold process_option.
      destruct (singles c) as [|n [|h [|v [|x r]]]]; try (apply ev_le with 0; [apply ev_refl|lia]).
      all: apply ev_append; reflexivity.
    - injection H as <-. apply ev_le with 0; [apply ev_refl|lia].
  Qed.

  Lemma enter_documented_ev : forall d c st st',
    enter_documented trigger strip_fn strip_mac d c st = Ok st' -> ev 1 st st'.
  Proof.
    intros d c st st' H. rewrite enter_documented_eq in H.
    destruct (classify (lower_ascii (c_name c))) as [m| | | | |sec| |ctor| | | |];
      cbn [enter_documented_k] in H; try (eapply handle_ev; exact H).
    all: injection H as <-; apply ev_append; reflexivity.
  Qed.

  Lemma claim_ev : forall m consumed c st, ev 0 st (claim strip_mem m consumed c st).
  Proof.
    intros m consumed c st. unfold claim.
    set (extra := if Nat.ltb 2 _ then _ else _).
    assert (H : ev 0 st (with_docs (upd_awaiting_entry (awaiting st) m extra) st)).
    { apply ev_docs. apply upd_awaiting_evolves. }
    destruct consumed; (eapply ev_then_same; [exact H|reflexivity|reflexivity]).
  Qed.

  Lemma enter_command_ev : forall fl consumed c st st',
    enter_command fl trigger strip_fn strip_mac strip_mem consumed c st = Ok st' ->
    ev (if consumed then 0 else 1) st st'.
  Proof.
    intros fl consumed c st st' H. rewrite enter_command_eq in H.
    destruct (classify (lower_ascii (c_name c))) as [m| | | | |sec| |ctor| | | |] eqn:Ek;
      cbn [enter_command_k] in H.
    - destruct (aw_pending (awaiting st)).
      { injection H as <-. apply ev_le with 0; [apply claim_ev|destruct consumed; lia]. }
      destruct consumed; [injection H as <-; apply ev_refl|].
      destruct (flag_of fl (CkDef m)).
      + apply (handle_ev (CkDef m)) in H. exact H.
      + injection H as <-. apply ev_le with 0; [apply ev_same; reflexivity|lia].
    - destruct (def_stack st); [discriminate|]. injection H as <-.
      apply ev_le with 0; [apply ev_same; reflexivity|destruct consumed; lia].
    - destruct (negb (inc_cpp_class fl)).
      { injection H as <-. apply ev_le with 0; [apply ev_same; reflexivity|destruct consumed; lia]. }
      destruct consumed; [injection H as <-; apply ev_refl|].
      apply (handle_ev CkClass c [] false). exact H.
    - destruct (class_stack st); [discriminate|]. injection H as <-.
      apply ev_le with 0; [apply ev_same; reflexivity|destruct consumed; lia].
    - injection H as <-. apply ev_le with 0; [apply process_cpa_ev|destruct consumed; lia].
    - destruct consumed; [injection H as <-; apply ev_refl|].
      destruct (flag_of fl (CkTest sec)); [eapply handle_ev; exact H|].
      injection H as <-. apply ev_le with 0; [apply ev_refl|lia].
    - injection H as <-. apply ev_le with 0; [apply ev_refl|destruct consumed; lia].
    - destruct consumed; [injection H as <-; apply ev_refl|].
      destruct (flag_of fl (CkMember ctor)); [eapply handle_ev; exact H|].
      injection H as <-. apply ev_le with 0; [apply ev_refl|lia].
    - destruct consumed; [injection H as <-; apply ev_refl|].
      destruct (flag_of fl CkAttr); [eapply handle_ev; exact H|].
      injection H as <-. apply ev_le with 0; [apply ev_refl|lia].
    - destruct consumed; [injection H as <-; apply ev_refl|].
      destruct (flag_of fl CkAddTest); [eapply handle_ev; exact H|].
      injection H as <-. apply ev_le with 0; [apply ev_refl|lia].
    - destruct consumed; [injection H as <-; apply ev_refl|].
      destruct (flag_of fl CkOption); [eapply handle_ev; exact H|].
      injection H as <-. apply ev_le with 0; [apply ev_refl|lia].
    - injection H as <-. apply ev_le with 0; [apply ev_refl|destruct consumed; lia].
  Qed.

  Lemma agg_step_ev : forall fl st e st',
    agg_step fl trigger strip_fn strip_mac strip_mem st e = Ok st' -> ev 1 st st'.
  Proof.
    intros fl st e st' H. destruct e as [d c|c|d]; cbn [agg_step] in H.
    - destruct (enter_documented trigger strip_fn strip_mac d c st) as [st1|] eqn:E1; [|discriminate].
      apply enter_documented_ev in E1. apply enter_command_ev in H.
      eapply ev_trans; [exact E1|exact H|lia].
    - apply enter_command_ev in H. exact H.
    - injection H as <-. apply ev_le with 0; [apply ev_refl|lia].
  Qed.

  Lemma agg_run_ev : forall fl es st st',
    agg_run fl trigger strip_fn strip_mac strip_mem st es = Ok st' -> ev (length es) st st'.
  Proof.
    intros fl es. induction es as [|e r IH]; intros st st' H; cbn [agg_run] in H.
    - injection H as <-. apply ev_refl.
    - destruct (agg_step fl trigger strip_fn strip_mac strip_mem st e) as [st1|] eqn:E1; [|discriminate].
      apply agg_step_ev in E1. apply IH in H.
      eapply ev_trans; [exact E1|exact H|]. cbn [length]. lia.
  Qed.

  (* I1 *)
  Theorem agg_step_append_only : forall fl st e st',
    agg_step fl trigger strip_fn strip_mac strip_mem st e = Ok st' ->
    exists old' new,
      documented st' = old' ++ new /\ length new <= 1
      /\ Forall2 entry_evolves (documented st) old'
      /\ length (documented st') = length (documented st) + length new.
  Proof.
    intros fl st e st' H. apply agg_step_ev in H.
    destruct H as (o & n & E & F & L & _ & _). exists o, n. repeat split; try assumption.
    rewrite E, app_length. apply Forall2_len in F. lia.
  Qed.

  Corollary agg_step_append_only_firstn : forall fl st e st',
    agg_step fl trigger strip_fn strip_mac strip_mem st e = Ok st' ->
    Forall2 entry_evolves (documented st) (firstn (length (documented st)) (documented st'))
    /\ length (documented st) <= length (documented st') <= length (documented st) + 1.
  Proof.
    intros fl st e st' H. apply agg_step_append_only in H.
    destruct H as (o & n & E & L & F & Hl). pose proof (Forall2_len _ _ _ F) as Hlen.
    split; [|lia]. rewrite E, Hlen. rewrite firstn_app, Nat.sub_diag, firstn_all. cbn [firstn].
    rewrite app_nil_r. exact F.
  Qed.

  Theorem agg_run_append_only : forall fl st es st',
    agg_run fl trigger strip_fn strip_mac strip_mem st es = Ok st' ->
    exists old' new,
      documented st' = old' ++ new /\ length new <= length es
      /\ Forall2 entry_evolves (documented st) old'.
  Proof.
    intros fl st es st' H. apply agg_run_ev in H.
    destruct H as (o & n & E & F & L & _ & _). exists o, n. auto.
  Qed.

  Lemma map_ekey_evolves : forall l l', Forall2 entry_evolves l l' -> map ekey l' = map ekey l.
  Proof.
    intros l l' H. induction H as [|x y l l' Hxy H IH]; [reflexivity|].
    cbn [map]. rewrite IH, (entry_evolves_ekey _ _ Hxy). reflexivity.
  Qed.

  Theorem agg_run_keys_prefix : forall fl st es st',
    agg_run fl trigger strip_fn strip_mac strip_mem st es = Ok st' ->
    exists ks, map ekey (documented st') = map ekey (documented st) ++ ks
               /\ length ks <= length es.
  Proof.
    intros fl st es st' H. apply agg_run_append_only in H.
    destruct H as (o & n & E & L & F). exists (map ekey n). rewrite E, map_app.
    rewrite (map_ekey_evolves _ _ F), map_length. auto.
  Qed.

  (* origins stays parallel to documented *)
  Theorem origins_parallel_step : forall fl st e st',
    length (origins st) = length (documented st) ->
    agg_step fl trigger strip_fn strip_mac strip_mem st e = Ok st' ->
    length (origins st') = length (documented st').
  Proof.
    intros fl st e st' Ho H. apply agg_step_ev in H. destruct H as (o & n & _ & _ & _ & _ & O).
    auto.
  Qed.

  Theorem origins_parallel_run : forall fl st es st',
    length (origins st) = length (documented st) ->
    agg_run fl trigger strip_fn strip_mac strip_mem st es = Ok st' ->
    length (origins st') = length (documented st').
  Proof.
    intros fl st es st' Ho H. apply agg_run_ev in H. destruct H as (o & n & _ & _ & _ & _ & O).
    auto.
  Qed.

  Theorem origins_parallel : forall fl f st,
    aggregate fl trigger strip_fn strip_mac strip_mem f = Ok st ->
    length (origins st) = length (documented st).
  Proof.
    intros fl f st H. unfold aggregate in H. eapply origins_parallel_run; [|exact H].
    destruct (f_module f); reflexivity.
  Qed.

  (* ---- I2 -------------------------------------------------------------------------- *)

  Theorem dangling_no_effect : forall fl st d,
    agg_step fl trigger strip_fn strip_mac strip_mem st (EDangling d) = Ok st.
  Proof. reflexivity. Qed.

  Lemma lookup_none_classify : forall k,
    lookup k handler_table = None -> is_pop_kind k = false -> classify k = CkOther.
  Proof.
    intros k Hl Hp. pose proof (classify_spec k) as Hk.
    destruct (classify k) as [[|]| | | | |[|]| |[|]| | | |]; try reflexivity;
      try (subst k; vm_compute in Hl; discriminate Hl).
    - destruct Hk as [Hk|Hk]; subst k; vm_compute in Hp; discriminate Hp.
    - subst k; vm_compute in Hp; discriminate Hp.
  Qed.

  Theorem undocumented_other_no_effect : forall fl st c,
    lookup (lower_ascii (c_name c)) handler_table = None ->
    is_pop_kind (lower_ascii (c_name c)) = false ->
    agg_step fl trigger strip_fn strip_mac strip_mem st (ECmd c) = Ok st.
  Proof.
    intros fl st c Hl Hp. cbn [agg_step]. rewrite enter_command_eq.
    rewrite (lookup_none_classify _ Hl Hp). reflexivity.
  Qed.

  (* ---- I3 -------------------------------------------------------------------------- *)

  Lemma is_def_name_classify : forall k, is_def_name k = true -> exists m, classify k = CkDef m.
  Proof.
    intros k H. unfold is_def_name in H. apply orb_true_iff in H.
    destruct H as [H|H]; apply str_eqb_eq in H; subst k; [exists false|exists true]; reflexivity.
  Qed.

  Theorem claimed_definition_no_entry : forall fl st c,
    is_def_name (lower_ascii (c_name c)) = true ->
    awaiting st <> AwNone ->
    exists st',
      agg_step fl trigger strip_fn strip_mac strip_mem st (ECmd c) = Ok st'
      /\ length (documented st') = length (documented st)
      /\ awaiting st' = AwNone
      /\ def_stack st' = None :: def_stack st
      /\ class_stack st' = class_stack st.
  Proof.
    intros fl st c Hd Ha. cbn [agg_step]. rewrite enter_command_eq.
    destruct (is_def_name_classify _ Hd) as [m Hm]. rewrite Hm. cbn [enter_command_k].
    assert (Hp : aw_pending (awaiting st) = true).
    { destruct (awaiting st); [contradiction Ha|..]; reflexivity. }
    rewrite Hp. eexists. split; [reflexivity|]. unfold claim.
    cbn [documented with_def_stack with_awaiting with_docs awaiting def_stack class_stack].
    rewrite upd_awaiting_length. auto.
  Qed.

  (* ---- I4 -------------------------------------------------------------------------- *)

  Theorem module_only_first : forall fl f st,
    aggregate fl trigger strip_fn strip_mac strip_mem f = Ok st ->
    (f_module f = None -> no_module (documented st) = true)
    /\ (forall t, f_module f = Some t ->
          exists rest, documented st = module_entry t :: rest /\ no_module rest = true).
  Proof.
    intros fl f st H. unfold aggregate in H. apply agg_run_ev in H.
    destruct H as (o & n & E & F & _ & M & _). split.
    - intro Hm. rewrite Hm in F. cbn in F. inversion F; subst. rewrite E. exact M.
    - intros t Hm. rewrite Hm in F. cbn [append documented agg_init app] in F.
      inversion F as [|x y l l' Hxy Hl]; subst. inversion Hl; subst.
      unfold module_entry in Hxy. apply entry_evolves_module in Hxy. subst y.
      exists n. split; [exact E|exact M].
  Qed.
End Inv.

(* ---- I5: command names are case-insensitive ---------------------------------------- *)

Lemma lower_upper_char : forall c, lower_char (upper_char_ascii c) = lower_char c.
Proof.
  intro c. unfold lower_char, upper_char_ascii.
  destruct ((97 <=? c) && (c <=? 122))%N eqn:E1.
  - apply andb_true_iff in E1. destruct E1 as [A B].
    apply N.leb_le in A. apply N.leb_le in B.
    assert (H1 : ((65 <=? c - 32) && (c - 32 <=? 90))%N = true).
    { apply andb_true_iff. split; apply N.leb_le; lia. }
    assert (H2 : ((65 <=? c) && (c <=? 90))%N = false).
    { apply andb_false_iff. right. apply N.leb_gt. lia. }
    rewrite H1, H2. lia.
  - reflexivity.
Qed.

Lemma lower_lower_char : forall c, lower_char (lower_char c) = lower_char c.
Proof.
  intro c. unfold lower_char.
  destruct ((65 <=? c) && (c <=? 90))%N eqn:E1; [|rewrite E1; reflexivity].
  apply andb_true_iff in E1. destruct E1 as [A B].
  apply N.leb_le in A. apply N.leb_le in B.
  assert (H2 : ((65 <=? c + 32) && (c + 32 <=? 90))%N = false).
  { apply andb_false_iff. right. apply N.leb_gt. lia. }
  rewrite H2. reflexivity.
Qed.

Lemma lower_ascii_upper : forall n, lower_ascii (map upper_char_ascii n) = lower_ascii n.
Proof.
  intro n. unfold lower_ascii. rewrite map_map. apply map_ext. apply lower_upper_char.
Qed.

Lemma lower_ascii_idem : forall n, lower_ascii (lower_ascii n) = lower_ascii n.
Proof.
  intro n. unfold lower_ascii. rewrite map_map. apply map_ext. apply lower_lower_char.
Qed.

Section Recase.
  Variable trigger : str.
  Variables strip_fn strip_mac strip_mem : str -> str.
  Variable g : str -> str.
  Hypothesis g_lower : forall n, lower_ascii (g n) = lower_ascii n.

  Lemma enter_documented_recase : forall d c st,
    enter_documented trigger strip_fn strip_mac d (recase_cmd g c) st
    = enter_documented trigger strip_fn strip_mac d c st.
  Proof.
    intros d c st. unfold enter_documented.
    change (c_name (recase_cmd g c)) with (g (c_name c)). rewrite g_lower.
    destruct (lookup (lower_ascii (c_name c)) handler_table) as [h|]; [|reflexivity].
    destruct h; reflexivity.
  Qed.

  Lemma enter_command_recase : forall fl consumed c st,
    enter_command fl trigger strip_fn strip_mac strip_mem consumed (recase_cmd g c) st
    = enter_command fl trigger strip_fn strip_mac strip_mem consumed c st.
  Proof.
    intros fl consumed c st. unfold enter_command.
    change (c_name (recase_cmd g c)) with (g (c_name c)). rewrite g_lower.
    change (singles (recase_cmd g c)) with (singles c).
    destruct (lookup (lower_ascii (c_name c)) handler_table) as [h|]; [|reflexivity].
    destruct h; reflexivity.
  Qed.

  Theorem agg_step_recase : forall fl st e,
    agg_step fl trigger strip_fn strip_mac strip_mem st (recase_elem g e)
    = agg_step fl trigger strip_fn strip_mac strip_mem st e.
  Proof.
    intros fl st e. destruct e as [d c|c|d]; cbn [recase_elem agg_step].
    - rewrite enter_documented_recase.
      destruct (enter_documented trigger strip_fn strip_mac d c st); [|reflexivity].
      apply enter_command_recase.
    - apply enter_command_recase.
    - reflexivity.
  Qed.

  Theorem agg_run_recase : forall fl es st,
    agg_run fl trigger strip_fn strip_mac strip_mem st (map (recase_elem g) es)
    = agg_run fl trigger strip_fn strip_mac strip_mem st es.
  Proof.
    intros fl es. induction es as [|e r IH]; intro st; cbn [map agg_run]; [reflexivity|].
    rewrite agg_step_recase.
    destruct (agg_step fl trigger strip_fn strip_mac strip_mem st e); [apply IH|reflexivity].
  Qed.

  Theorem aggregate_recase : forall fl f,
    aggregate fl trigger strip_fn strip_mac strip_mem (recase_file g f)
    = aggregate fl trigger strip_fn strip_mac strip_mem f.
  Proof.
    intros fl f. unfold aggregate, recase_file. cbn [f_module f_elems]. apply agg_run_recase.
  Qed.
End Recase.

Corollary aggregate_upper_case : forall fl trigger strip_fn strip_mac strip_mem f,
  aggregate fl trigger strip_fn strip_mac strip_mem (recase_file (map upper_char_ascii) f)
  = aggregate fl trigger strip_fn strip_mac strip_mem f.
Proof. intros. apply aggregate_recase. apply lower_ascii_upper. Qed.

Corollary aggregate_lower_case : forall fl trigger strip_fn strip_mac strip_mem f,
  aggregate fl trigger strip_fn strip_mac strip_mem (recase_file lower_ascii f)
  = aggregate fl trigger strip_fn strip_mac strip_mem f.
Proof. intros. apply aggregate_recase. apply lower_ascii_idem. Qed.

(* ---- I6: the aggregator refines the one-pass specification --------------------------- *)

(* the specification state a model state stands for *)
Definition abs (st : agg) : sstate :=
  {| pending := aw_pending (awaiting st);
     depth := length (class_stack st);
     defs := length (def_stack st) |}.

Definition all_some (cs : list (option nat)) : bool :=
  forallb (fun o => match o with Some _ => true | None => false end) cs.

Definition spec_elem (ss : sstate) (e : element) : option (list (ekind * str) * sstate) :=
  match e with
  | EDocCmd _ c => spec_step ss true c
  | ECmd c => spec_step ss false c
  | EDangling _ => Some ([], ss)
  end.

(* st' adds the keys ks to st, stands for ss', and keeps the class stack free of None *)
Definition eff (st st' : agg) (ks : list (ekind * str)) (ss' : sstate) : Prop :=
  map ekey (documented st') = map ekey (documented st) ++ ks
  /\ abs st' = ss'
  /\ all_some (class_stack st') = true.

Lemma eff_refl : forall st, all_some (class_stack st) = true -> eff st st [] (abs st).
Proof. intros st H. unfold eff. rewrite app_nil_r. auto. Qed.

Lemma eff_trans : forall a b c k1 k2 s1 s2,
  eff a b k1 s1 -> eff b c k2 s2 -> eff a c (k1 ++ k2) s2.
Proof.
  intros a b c k1 k2 s1 s2 (A1&A2&A3) (B1&B2&B3). unfold eff. rewrite B1, A1, app_assoc. auto.
Qed.

Lemma map_ekey_update : forall i f l,
  (forall e, entry_evolves e (f e)) -> map ekey (update_nth i f l) = map ekey l.
Proof.
  intros i f l H. apply map_ekey_evolves. apply Forall2_update_nth; [apply entry_evolves_refl|exact H].
Qed.

Lemma scan_name_idx_name : forall ps i cur,
  option_map snd (scan_name_idx ps i cur) = scan_name ps (snd cur).
Proof.
  induction ps as [|p r IH]; intros i cur; cbn [scan_name_idx scan_name]; [reflexivity|].
  destruct (str_eqb p kw_name).
  - destruct r as [|n r']; [reflexivity|]. rewrite IH. reflexivity.
  - apply IH.
Qed.

Section Refine.
  Variable trigger : str.
  Variables strip_fn strip_mac strip_mem : str -> str.

  Lemma process_cpa_eff : forall st,
    all_some (class_stack st) = true -> eff st (process_cpa st) [] (abs st).
  Proof.
    intros st H. unfold process_cpa. destruct (def_stack st) as [|[i|] r] eqn:E;
      try (apply eff_refl; exact H).
    unfold eff, abs. cbn [with_docs documented awaiting class_stack def_stack].
    rewrite map_ekey_update by apply set_kwargs_evolves. rewrite app_nil_r. auto.
  Qed.

  Lemma process_def_eff : forall m c doc docd st,
    all_some (class_stack st) = true ->
    match singles c with
    | [] => process_def trigger strip_fn strip_mac m c doc docd st = Crash
    | n :: _ =>
        exists st', process_def trigger strip_fn strip_mac m c doc docd st = Ok st'
          /\ eff st st' [(if m then KMacro else KFunction, n)]
                 {| pending := aw_pending (awaiting st); depth := length (class_stack st);
                    defs := S (length (def_stack st)) |}
          /\ awaiting st' = awaiting st
    end.
  Proof.
    intros m c doc docd st H. unfold process_def. destruct (singles c) as [|n ps]; [reflexivity|].
    eexists. split; [reflexivity|]. unfold eff, abs.
    cbn [with_def_stack append documented awaiting class_stack def_stack length].
    rewrite map_app. cbn [map]. destruct m; auto.
  Qed.

  Lemma claim_eff : forall m consumed c st,
    all_some (class_stack st) = true ->
    eff st (claim strip_mem m consumed c st) []
        {| pending := false; depth := length (class_stack st);
           defs := if consumed then length (def_stack st) else S (length (def_stack st)) |}.
  Proof.
    intros m consumed c st H. unfold claim, eff, abs.
    set (extra := if Nat.ltb 2 _ then _ else _).
    destruct consumed;
      cbn [with_def_stack with_awaiting with_docs documented awaiting class_stack def_stack length];
      rewrite (map_ekey_evolves _ _ (upd_awaiting_evolves _ _ _ _)), app_nil_r; auto.
  Qed.

  Lemma process_class_eff : forall c doc docd st,
    all_some (class_stack st) = true ->
    match singles c with
    | [] => process_class c doc docd st = st
    | n :: _ => eff st (process_class c doc docd st) [(KClass, n)]
                    {| pending := aw_pending (awaiting st); depth := S (length (class_stack st));
                       defs := length (def_stack st) |}
    end.
  Proof.
    intros c doc docd st H. unfold process_class. destruct (singles c) as [|n su]; [reflexivity|].
    unfold eff, abs. destruct (class_stack st) as [|[cidx|] r] eqn:E;
      cbn [with_class_stack with_docs append documented awaiting class_stack def_stack length].
    - rewrite E. rewrite map_app. cbn [map length all_some forallb]. auto.
    - rewrite E. rewrite map_ekey_update by apply add_inner_evolves.
      rewrite map_app. cbn [map length]. repeat split. cbn [all_some forallb]. exact H.
    - discriminate H.
  Qed.

  Lemma process_test_eff : forall sec c doc docd st,
    all_some (class_stack st) = true ->
    match test_name c with
    | Some n => eff st (process_test sec c doc docd st) [(if sec then KSection else KTest, n)]
                    {| pending := true; depth := length (class_stack st);
                       defs := length (def_stack st) |}
    | None => process_test sec c doc docd st = st
    end.
  Proof.
    intros sec c doc docd st H. unfold test_name, process_test, nargs.
    destruct (Nat.ltb (length (singles c)) 2); [reflexivity|].
    destruct (scan_name (singles c) []) as [n|]; [|reflexivity].
    unfold eff, abs. cbn [with_awaiting append documented awaiting class_stack def_stack aw_pending].
    rewrite map_app. cbn [map]. destruct sec; auto.
  Qed.

  Lemma process_add_test_eff : forall c doc docd st,
    all_some (class_stack st) = true ->
    match test_name c with
    | Some n => eff st (process_add_test c doc docd st) [(KCTest, n)] (abs st)
    | None => process_add_test c doc docd st = st
    end.
  Proof.
    intros c doc docd st H. unfold test_name, process_add_test, nargs.
    destruct (Nat.ltb (length (singles c)) 2); [reflexivity|].
    pose proof (scan_name_idx_name (singles c) 0 (None, [])) as Hs. cbn [snd] in Hs.
    rewrite <- Hs. destruct (scan_name_idx (singles c) 0 (None, [])) as [[idx n]|];
      cbn [option_map snd]; [|reflexivity].
    unfold eff, abs. cbn [append documented awaiting class_stack def_stack].
    rewrite map_app. cbn [map]. auto.
  Qed.

  Lemma process_option_eff : forall c doc docd st,
    all_some (class_stack st) = true ->
    if Nat.leb 2 (nargs c) && Nat.leb (nargs c) 3
    then eff st (process_option c doc docd st) [(KOption, nth_arg 0 c)] (abs st)
    else process_option c doc docd st = st.
  Proof.
    intros c doc docd st H. unfold process_option, nargs, nth_arg.
    destruct (singles c) as [|n [|h [|v [|x r]]]]; cbn [length Nat.leb andb nth]; try reflexivity.
    all: unfold eff, abs; cbn [append documented awaiting class_stack def_stack];
      rewrite map_app; cbn [map]; auto.
  Qed.

  Lemma process_member_eff : forall ctor c doc docd st,
    all_some (class_stack st) = true ->
    if Nat.leb 2 (nargs c) && negb (Nat.eqb (length (class_stack st)) 0)
    then eff st (process_member ctor c doc docd st) []
             {| pending := true; depth := length (class_stack st); defs := length (def_stack st) |}
    else process_member ctor c doc docd st = st.
  Proof.
    intros ctor c doc docd st H. unfold process_member, nargs.
    rewrite Nat.ltb_antisym. destruct (Nat.leb 2 (length (singles c))); cbn [negb andb]; [|reflexivity].
    destruct (class_stack st) as [|[cidx|] r] eqn:E; cbn [length Nat.eqb negb]; try reflexivity.
    - unfold eff, abs. cbn [with_awaiting with_docs documented awaiting class_stack def_stack aw_pending].
      rewrite E. rewrite map_ekey_update by apply add_method_evolves. rewrite app_nil_r. auto.
    - discriminate H.
  Qed.

  Lemma process_attr_eff : forall c doc docd st,
    all_some (class_stack st) = true -> eff st (process_attr c doc docd st) [] (abs st).
  Proof.
    intros c doc docd st H. unfold process_attr. pose proof (eff_refl st H) as Hr.
    destruct (Nat.ltb _ _); [exact Hr|].
    destruct (class_stack st) as [|[cidx|] r] eqn:E; try exact Hr.
    unfold eff, abs. cbn [with_docs documented awaiting class_stack def_stack].
    rewrite map_ekey_update by apply add_attr_evolves. rewrite app_nil_r, E. auto.
  Qed.

  Lemma process_generic_eff : forall k c doc docd st,
    all_some (class_stack st) = true ->
    eff st (process_generic k c doc docd st) [(KGeneric, k)] (abs st).
  Proof.
    intros k c doc docd st H. unfold process_generic, eff, abs.
    cbn [append documented awaiting class_stack def_stack]. rewrite map_app. auto.
  Qed.

  Lemma eff_with_def_stack : forall st st1 ks ss1 ds,
    eff st st1 ks ss1 ->
    eff st (with_def_stack ds st1) ks
        {| pending := pending ss1; depth := depth ss1; defs := length ds |}.
  Proof.
    intros st st1 ks ss1 ds (A&B&C). subst ss1. unfold eff, abs.
    cbn [with_def_stack documented awaiting class_stack def_stack pending depth]. auto.
  Qed.

  Lemma eff_with_class_stack : forall st st1 ks ss1 cs,
    eff st st1 ks ss1 -> all_some cs = true ->
    eff st (with_class_stack cs st1) ks
        {| pending := pending ss1; depth := length cs; defs := defs ss1 |}.
  Proof.
    intros st st1 ks ss1 cs (A&B&C) Hcs. subst ss1. unfold eff, abs.
    cbn [with_class_stack documented awaiting class_stack def_stack pending defs]. auto.
  Qed.

  (* the outcome of a model step against the outcome of the specification step *)
  Definition sim_post (st : agg) (r : result agg) (sp : option (list (ekind * str) * sstate))
    : Prop :=
    match r with
    | Ok st' => exists ks, sp = Some (ks, abs st')
                           /\ map ekey (documented st') = map ekey (documented st) ++ ks
                           /\ all_some (class_stack st') = true
    | Crash => sp = None
    end.

  Lemma sim_post_eff : forall st st' ks ss' ks0 ss0,
    eff st st' ks ss' -> ks = ks0 -> ss' = ss0 -> sim_post st (Ok st') (Some (ks0, ss0)).
  Proof.
    intros st st' ks ss' ks0 ss0 (A&B&C) -> <-. cbn [sim_post]. exists ks0. rewrite B. auto.
  Qed.

  Lemma sim_post_same : forall st,
    all_some (class_stack st) = true -> sim_post st (Ok st) (Some ([], abs st)).
  Proof. intros st H. eapply sim_post_eff; [apply eff_refl; exact H|reflexivity|reflexivity]. Qed.

  Notation dstep := (agg_step default_flags trigger strip_fn strip_mac strip_mem).

  Lemma agg_step_doc_eq : forall fl d c st,
    agg_step fl trigger strip_fn strip_mac strip_mem st (EDocCmd d c)
    = match enter_documented_k trigger strip_fn strip_mac (classify (cmd_kind c)) (cmd_kind c) d c st with
      | Ok st1 => enter_command_k fl trigger strip_fn strip_mac strip_mem (classify (cmd_kind c)) true c st1
      | Crash => Crash
      end.
  Proof.
    intros fl d c st. cbn [agg_step]. rewrite enter_documented_eq. fold (cmd_kind c).
    destruct (enter_documented_k trigger strip_fn strip_mac (classify (cmd_kind c)) (cmd_kind c) d c st);
      [|reflexivity].
    rewrite enter_command_eq. reflexivity.
  Qed.

  Lemma agg_step_cmd_eq : forall fl c st,
    agg_step fl trigger strip_fn strip_mac strip_mem st (ECmd c)
    = enter_command_k fl trigger strip_fn strip_mac strip_mem (classify (cmd_kind c)) false c st.
  Proof. intros fl c st. cbn [agg_step]. rewrite enter_command_eq. reflexivity. Qed.

  Ltac model_red :=
    cbn [enter_documented_k enter_command_k handle flag_of default_flags negb
         inc_function inc_macro inc_cpp_class inc_cpp_attr inc_cpp_constructor inc_cpp_member
         inc_ct_add_test inc_ct_add_section inc_add_test inc_option].

  (* undocumented commands *)
  Lemma sim_cmd : forall c st,
    all_some (class_stack st) = true ->
    sim_post st (dstep st (ECmd c)) (spec_step (abs st) false c).
  Proof.
    intros c st H. rewrite agg_step_cmd_eq. unfold spec_step.
    generalize (cmd_kind c) as k. intro k.
    kind_cases k Hk.
    all: try (subst k; red_lits; model_red).
    - (* macro *)
      rewrite andb_true_r. cbn [abs pending depth defs].
      destruct (aw_pending (awaiting st)) eqn:Ea.
      + eapply sim_post_eff; [apply claim_eff; exact H|reflexivity|reflexivity].
      + pose proof (process_def_eff true c [] false st H) as Hp.
        destruct (singles c) as [|n ps]; [rewrite Hp; reflexivity|].
        destruct Hp as (st1 & E1 & He & _). rewrite E1.
        eapply sim_post_eff; [exact He|reflexivity|]. rewrite Ea. reflexivity.
    - (* function *)
      rewrite andb_true_r. cbn [abs pending depth defs].
      destruct (aw_pending (awaiting st)) eqn:Ea.
      + eapply sim_post_eff; [apply claim_eff; exact H|reflexivity|reflexivity].
      + pose proof (process_def_eff false c [] false st H) as Hp.
        destruct (singles c) as [|n ps]; [rewrite Hp; reflexivity|].
        destruct Hp as (st1 & E1 & He & _). rewrite E1.
        eapply sim_post_eff; [exact He|reflexivity|]. rewrite Ea. reflexivity.
    - (* endfunction / endmacro *)
      destruct Hk as [Hk|Hk]; subst k; red_lits; model_red; cbn [abs pending depth defs].
      all: destruct (def_stack st) as [|fr ds] eqn:Ed; cbn [length]; [reflexivity|].
      all: eapply sim_post_eff;
        [apply eff_with_def_stack, eff_refl; exact H|reflexivity|reflexivity].
    - (* cpp_class *)
      pose proof (process_class_eff c [] false st H) as Hp.
      destruct (singles c) as [|n ps]; [rewrite Hp; apply sim_post_same; exact H|].
      eapply sim_post_eff; [exact Hp|reflexivity|reflexivity].
    - (* cpp_end_class *)
      cbn [abs pending depth defs].
      destruct (class_stack st) as [|fr cs] eqn:Ec; cbn [length]; [reflexivity|].
      eapply sim_post_eff; [apply eff_with_class_stack; [apply eff_refl|]|reflexivity|reflexivity].
      + rewrite Ec. exact H.
      + cbn [all_some forallb] in H. apply andb_true_iff in H. apply H.
    - (* cmake_parse_arguments *)
      eapply sim_post_eff; [apply process_cpa_eff; exact H|reflexivity|reflexivity].
    - (* ct_add_section *)
      pose proof (process_test_eff true c [] false st H) as Hp.
      destruct (test_name c) as [n|]; [|rewrite Hp; apply sim_post_same; exact H].
      eapply sim_post_eff; [exact Hp|reflexivity|reflexivity].
    - (* ct_add_test *)
      pose proof (process_test_eff false c [] false st H) as Hp.
      destruct (test_name c) as [n|]; [|rewrite Hp; apply sim_post_same; exact H].
      eapply sim_post_eff; [exact Hp|reflexivity|reflexivity].
    - (* set *)
      apply sim_post_same; exact H.
    - (* cpp_constructor *)
      pose proof (process_member_eff true c [] false st H) as Hp. cbn [abs depth].
      destruct (Nat.leb 2 (nargs c) && negb (Nat.eqb (length (class_stack st)) 0));
        [|rewrite Hp; apply sim_post_same; exact H].
      eapply sim_post_eff; [exact Hp|reflexivity|reflexivity].
    - (* cpp_member *)
      pose proof (process_member_eff false c [] false st H) as Hp. cbn [abs depth].
      destruct (Nat.leb 2 (nargs c) && negb (Nat.eqb (length (class_stack st)) 0));
        [|rewrite Hp; apply sim_post_same; exact H].
      eapply sim_post_eff; [exact Hp|reflexivity|reflexivity].
    - (* cpp_attr *)
      eapply sim_post_eff; [apply process_attr_eff; exact H|reflexivity|reflexivity].
    - (* add_test *)
      pose proof (process_add_test_eff c [] false st H) as Hp.
      destruct (test_name c) as [n|]; [|rewrite Hp; apply sim_post_same; exact H].
      eapply sim_post_eff; [exact Hp|reflexivity|reflexivity].
    - (* option *)
      pose proof (process_option_eff c [] false st H) as Hp.
      destruct (Nat.leb 2 (nargs c) && Nat.leb (nargs c) 3);
        [|rewrite Hp; apply sim_post_same; exact H].
      eapply sim_post_eff; [exact Hp|reflexivity|reflexivity].
    - (* any other command *)
      model_red. unfold other_kind in Hk.
      destruct Hk as (H1&H2&H3&H4&H5&H6&H7&H8&H9&H10&H11&H12&H13&H14&H15).
      rewrite H1, H2, H3, H4, H5, H6, H7, H8, H9, H10, H11, H12, H13, H14, H15.
      cbn [orb]. apply sim_post_same; exact H.
  Qed.

  Lemma append_eff : forall e docd st,
    all_some (class_stack st) = true -> eff st (append e docd st) [ekey e] (abs st).
  Proof.
    intros e docd st H. unfold eff, abs. cbn [append documented awaiting class_stack def_stack].
    rewrite map_app. auto.
  Qed.

  (* documented commands *)
  Lemma sim_doc : forall d c st,
    all_some (class_stack st) = true ->
    sim_post st (dstep st (EDocCmd d c)) (spec_step (abs st) true c).
  Proof.
    intros d c st H. rewrite agg_step_doc_eq. unfold spec_step.
    generalize (cmd_kind c) as k. intro k.
    kind_cases k Hk.
    all: try (subst k; red_lits; model_red).
    - (* macro *)
      rewrite andb_false_r. cbn [abs pending depth defs].
      pose proof (process_def_eff true c (clean_doc_text d) true st H) as Hp.
      destruct (singles c) as [|n ps]; [rewrite Hp; reflexivity|].
      destruct Hp as (st1 & E1 & He & Haw). rewrite E1.
      destruct (aw_pending (awaiting st1)) eqn:Ea.
      + pose proof He as (_ & Hb & Hc). unfold abs in Hb. injection Hb as _ Hb2 Hb3.
        eapply sim_post_eff; [eapply eff_trans; [exact He|apply claim_eff; exact Hc]|reflexivity|].
        rewrite Hb2, Hb3. reflexivity.
      + eapply sim_post_eff; [exact He|reflexivity|]. rewrite <- Haw, Ea. reflexivity.
    - (* function *)
      rewrite andb_false_r. cbn [abs pending depth defs].
      pose proof (process_def_eff false c (clean_doc_text d) true st H) as Hp.
      destruct (singles c) as [|n ps]; [rewrite Hp; reflexivity|].
      destruct Hp as (st1 & E1 & He & Haw). rewrite E1.
      destruct (aw_pending (awaiting st1)) eqn:Ea.
      + pose proof He as (_ & Hb & Hc). unfold abs in Hb. injection Hb as _ Hb2 Hb3.
        eapply sim_post_eff; [eapply eff_trans; [exact He|apply claim_eff; exact Hc]|reflexivity|].
        rewrite Hb2, Hb3. reflexivity.
      + eapply sim_post_eff; [exact He|reflexivity|]. rewrite <- Haw, Ea. reflexivity.
    - (* endfunction / endmacro *)
      destruct Hk as [Hk|Hk]; subst k; red_lits; model_red;
        cbn [abs pending depth defs process_generic append def_stack].
      all: destruct (def_stack st) as [|fr ds] eqn:Ed; cbn [length]; [reflexivity|].
      all: eapply sim_post_eff;
        [apply eff_with_def_stack, process_generic_eff; exact H|reflexivity|reflexivity].
    - (* cpp_class *)
      pose proof (process_class_eff c (clean_doc_text d) true st H) as Hp.
      destruct (singles c) as [|n ps]; [rewrite Hp; apply sim_post_same; exact H|].
      eapply sim_post_eff; [exact Hp|reflexivity|reflexivity].
    - (* cpp_end_class *)
      cbn [abs pending depth defs process_generic append class_stack].
      destruct (class_stack st) as [|fr cs] eqn:Ec; cbn [length]; [reflexivity|].
      eapply sim_post_eff;
        [apply eff_with_class_stack; [apply process_generic_eff|]|reflexivity|reflexivity].
      + rewrite Ec. exact H.
      + cbn [all_some forallb] in H. apply andb_true_iff in H. apply H.
    - (* cmake_parse_arguments *)
      pose proof (process_cpa_eff st H) as (A & B & C).
      eapply sim_post_eff;
        [eapply eff_trans; [apply process_cpa_eff; exact H|apply process_cpa_eff; exact C]
        |reflexivity|exact B].
    - (* ct_add_section *)
      pose proof (process_test_eff true c (clean_doc_text d) true st H) as Hp.
      destruct (test_name c) as [n|]; [|rewrite Hp; apply sim_post_same; exact H].
      eapply sim_post_eff; [exact Hp|reflexivity|reflexivity].
    - (* ct_add_test *)
      pose proof (process_test_eff false c (clean_doc_text d) true st H) as Hp.
      destruct (test_name c) as [n|]; [|rewrite Hp; apply sim_post_same; exact H].
      eapply sim_post_eff; [exact Hp|reflexivity|reflexivity].
    - (* set *)
      unfold process_set. destruct (singles c) as [|n [|v [|v2 r]]].
      + apply sim_post_same; exact H.
      + eapply sim_post_eff; [apply append_eff; exact H|reflexivity|reflexivity].
      + destruct (unquote v) as [v'|]; [|reflexivity].
        eapply sim_post_eff; [apply append_eff; exact H|reflexivity|reflexivity].
      + eapply sim_post_eff; [apply append_eff; exact H|reflexivity|reflexivity].
    - (* cpp_constructor *)
      pose proof (process_member_eff true c (clean_doc_text d) true st H) as Hp. cbn [abs depth].
      destruct (Nat.leb 2 (nargs c) && negb (Nat.eqb (length (class_stack st)) 0));
        [|rewrite Hp; apply sim_post_same; exact H].
      eapply sim_post_eff; [exact Hp|reflexivity|reflexivity].
    - (* cpp_member *)
      pose proof (process_member_eff false c (clean_doc_text d) true st H) as Hp. cbn [abs depth].
      destruct (Nat.leb 2 (nargs c) && negb (Nat.eqb (length (class_stack st)) 0));
        [|rewrite Hp; apply sim_post_same; exact H].
      eapply sim_post_eff; [exact Hp|reflexivity|reflexivity].
    - (* cpp_attr *)
      eapply sim_post_eff; [apply process_attr_eff; exact H|reflexivity|reflexivity].
    - (* add_test *)
      pose proof (process_add_test_eff c (clean_doc_text d) true st H) as Hp.
      destruct (test_name c) as [n|]; [|rewrite Hp; apply sim_post_same; exact H].
      eapply sim_post_eff; [exact Hp|reflexivity|reflexivity].
    - (* option *)
      pose proof (process_option_eff c (clean_doc_text d) true st H) as Hp.
      destruct (Nat.leb 2 (nargs c) && Nat.leb (nargs c) 3);
        [|rewrite Hp; apply sim_post_same; exact H].
      eapply sim_post_eff; [exact Hp|reflexivity|reflexivity].
    - (* any other command *)
      model_red. unfold other_kind in Hk.
      destruct Hk as (H1&H2&H3&H4&H5&H6&H7&H8&H9&H10&H11&H12&H13&H14&H15).
      rewrite H1, H2, H3, H4, H5, H6, H7, H8, H9, H10, H11, H12, H13, H14, H15.
      cbn [orb]. eapply sim_post_eff; [apply process_generic_eff; exact H|reflexivity|reflexivity].
  Qed.

  Lemma sim_step : forall e st,
    all_some (class_stack st) = true ->
    sim_post st (dstep st e) (spec_elem (abs st) e).
  Proof.
    intros [d c|c|d] st H; cbn [spec_elem].
    - apply sim_doc; exact H.
    - apply sim_cmd; exact H.
    - apply sim_post_same; exact H.
  Qed.

  Lemma spec_run_cons : forall ss e r,
    spec_run ss (e :: r)
    = match spec_elem ss e with
      | Some (ks, ss') => option_map (app ks) (spec_run ss' r)
      | None => None
      end.
  Proof.
    intros ss [d c|c|d] r; cbn [spec_run spec_elem]; try reflexivity.
    destruct (spec_run ss r); reflexivity.
  Qed.

  Lemma sim_run : forall es st,
    all_some (class_stack st) = true ->
    match agg_run default_flags trigger strip_fn strip_mac strip_mem st es with
    | Ok st' => exists ks, spec_run (abs st) es = Some ks
                           /\ map ekey (documented st') = map ekey (documented st) ++ ks
    | Crash => spec_run (abs st) es = None
    end.
  Proof.
    induction es as [|e r IH]; intros st H.
    - cbn [agg_run spec_run]. exists []. rewrite app_nil_r. auto.
    - cbn [agg_run]. rewrite spec_run_cons. pose proof (sim_step e st H) as Hs.
      destruct (dstep st e) as [st1|]; cbn [sim_post] in Hs.
      + destruct Hs as (ks & Hsp & Hk & Ha). rewrite Hsp. specialize (IH st1 Ha).
        destruct (agg_run default_flags trigger strip_fn strip_mac strip_mem st1 r) as [st'|].
        * destruct IH as (ks2 & Hr & Hk2). rewrite Hr. cbn [option_map].
          exists (ks ++ ks2). split; [reflexivity|]. rewrite Hk2, Hk, app_assoc. reflexivity.
        * rewrite IH. reflexivity.
      + rewrite Hs. reflexivity.
  Qed.

  (* I6 *)
  Theorem entries_refine_spec : forall f st,
    aggregate default_flags trigger strip_fn strip_mac strip_mem f = Ok st ->
    expected_keys f = Some (map ekey (documented st)).
  Proof.
    intros f st H. unfold aggregate in H. unfold expected_keys.
    destruct (f_module f) as [t|].
    - pose proof (sim_run (f_elems f) (append (module_entry t) true agg_init) eq_refl) as Hs.
      rewrite H in Hs. destruct Hs as (ks & Hr & Hk).
      change (abs (append (module_entry t) true agg_init))
        with {| pending := false; depth := 0; defs := 0 |} in Hr.
      rewrite Hr, Hk. reflexivity.
    - pose proof (sim_run (f_elems f) agg_init eq_refl) as Hs.
      rewrite H in Hs. destruct Hs as (ks & Hr & Hk).
      change (abs agg_init) with {| pending := false; depth := 0; defs := 0 |} in Hr.
      rewrite Hr, Hk. reflexivity.
  Qed.

  Theorem crash_iff_spec_none : forall f,
    aggregate default_flags trigger strip_fn strip_mac strip_mem f = Crash
    <-> expected_keys f = None.
  Proof.
    intro f. unfold aggregate, expected_keys.
    assert (Hs : forall st0, abs st0 = {| pending := false; depth := 0; defs := 0 |} ->
                 all_some (class_stack st0) = true ->
                 (agg_run default_flags trigger strip_fn strip_mac strip_mem st0 (f_elems f) = Crash
                  <-> spec_run {| pending := false; depth := 0; defs := 0 |} (f_elems f) = None)).
    { intros st0 Ha Hc. pose proof (sim_run (f_elems f) st0 Hc) as Hs. rewrite Ha in Hs.
      destruct (agg_run default_flags trigger strip_fn strip_mac strip_mem st0 (f_elems f)) as [st'|].
      - destruct Hs as (ks & Hr & _). rewrite Hr. split; discriminate.
      - rewrite Hs. split; reflexivity. }
    destruct (f_module f) as [t|].
    - rewrite (Hs (append (module_entry t) true agg_init) eq_refl eq_refl).
      destruct (spec_run _ _); cbn [option_map]; split; congruence.
    - rewrite (Hs agg_init eq_refl eq_refl).
      destruct (spec_run _ _); cbn [option_map]; split; congruence.
  Qed.
  (* I7 / C02: a documented command of no special kind yields exactly one generic entry,
     named by the lower-cased command, with the arguments as written; whatever the flags *)
  Theorem documented_other_generic : forall fl d c st,
    classify (cmd_kind c) = CkOther ->
    agg_step fl trigger strip_fn strip_mac strip_mem st (EDocCmd d c)
    = Ok (append (EGeneric (cmd_kind c) (clean_doc_text d) (map arg_written (c_args c))) true st).
  Proof. intros fl d c st Hk. rewrite agg_step_doc_eq, Hk. reflexivity. Qed.

  Corollary one_entry_per_documented_command : forall fl d c st st',
    agg_step fl trigger strip_fn strip_mac strip_mem st (EDocCmd d c) = Ok st' ->
    length (documented st) <= length (documented st') <= length (documented st) + 1.
  Proof. intros fl d c st st' H. apply agg_step_append_only_firstn in H. apply H. Qed.
End Refine.

(* ---- non-vacuity: concrete runs ------------------------------------------------------ *)

Module Examples.
  Open Scope string_scope.
  Definition mk (n : string) (args : list string) : cmd :=
    {| c_name := of_string n; c_args := map (fun a => ASingle TIdent (of_string a)) args |}.
  Definition dtext : str := s"#[[[ doc ]]".
  Definition D (n : string) (args : list string) : element := EDocCmd dtext (mk n args).
  Definition U (n : string) (args : list string) : element := ECmd (mk n args).
  Definition idf (x : str) : str := x.
  Definition trig : str := s"**kwargs".
  Definition agr (f : cfile) : result agg := aggregate default_flags trig idf idf idf f.
  Definition keys_of (r : result agg) : option (list (ekind * str)) :=
    match r with Ok st => Some (map ekey (documented st)) | Crash => None end.

  (* a class with a member declaration claimed by an undocumented function, a test claimed by
     a documented macro, documented end commands, NAME last, a set without doccomment *)
  Definition file1 : cfile :=
    {| f_module := Some (s"#[[[ @module demo");
       f_elems :=
         [ D "cpp_class" ["A"]; D "cpp_member" ["m"; "A"; "int"]; U "function" ["x"; "self"; "n"];
           D "endfunction" []; U "cpp_attr" ["A"; "a"]; D "CPP_END_CLASS" [];
           U "ct_add_test" ["NAME"; "t"]; D "macro" ["mm"; "p"]; U "endmacro" [];
           U "add_test" ["x"; "NAME"]; D "add_test" ["NAME"; "u"; "COMMAND"; "c"];
           U "set" ["v"; "1"]; D "set" ["v"; "1"]; D "option" ["o"; "help"]; EDangling dtext;
           D "message" ["hi"]; U "message" ["hi"]; U "cmake_parse_arguments" [] ] |}.

  Example refine_hyps_satisfiable :
    keys_of (agr file1)
    = Some [ (KModule, s"demo"); (KClass, s"A"); (KGeneric, s"endfunction");
             (KGeneric, s"cpp_end_class"); (KTest, s"t"); (KMacro, s"mm"); (KCTest, s"u");
             (KVariable, s"v"); (KOption, s"o"); (KGeneric, s"message") ]
    /\ expected_keys file1 = keys_of (agr file1).
  Proof. vm_compute. split; reflexivity. Qed.

  (* unbalanced end command, function() without a name, set(x <empty quoted>): both crash *)
  Example crash_hyps_satisfiable :
    agr {| f_module := None; f_elems := [D "function" ["f"]; U "endfunction" []; D "endmacro" []] |} = Crash
    /\ agr {| f_module := None; f_elems := [U "function" []] |} = Crash
    /\ agr {| f_module := None; f_elems := [U "cpp_end_class" []] |} = Crash
    /\ expected_keys {| f_module := None; f_elems := [U "function" []] |} = None.
  Proof. vm_compute. repeat split. Qed.

  (* I3: a pending member declaration, then its implementing definition *)
  Example claimed_hyps_satisfiable :
    exists st, agg_run default_flags trig idf idf idf agg_init
                 [D "cpp_class" ["A"]; D "cpp_member" ["m"; "A"]] = Ok st
               /\ awaiting st <> AwNone
               /\ is_def_name (lower_ascii (c_name (mk "FUNCTION" ["x"; "self"]))) = true.
  Proof. eexists. split; [vm_compute; reflexivity|]. split; [discriminate|reflexivity]. Qed.

  (* I2 *)
  Example other_hyps_satisfiable :
    lookup (lower_ascii (c_name (mk "Generic_Command" []))) handler_table = None
    /\ is_pop_kind (lower_ascii (c_name (mk "Generic_Command" []))) = false.
  Proof. vm_compute. split; reflexivity. Qed.

  (* I5 *)
  Example recase_example :
    recase_elem (map upper_char_ascii) (U "cpp_class" ["A"]) = U "CPP_CLASS" ["A"].
  Proof. vm_compute. reflexivity. Qed.
End Examples.

(* ==== MAIN THEOREMS ====
   agg_step_append_only, agg_step_append_only_firstn, agg_run_append_only, agg_run_keys_prefix (I1)
   origins_parallel_step, origins_parallel_run, origins_parallel                           (I1)
   dangling_no_effect, undocumented_other_no_effect                                        (I2)
   claimed_definition_no_entry                                                             (I3)
   module_only_first                                                                       (I4)
   agg_step_recase, agg_run_recase, aggregate_recase, aggregate_upper_case,
   aggregate_lower_case, lower_ascii_upper, lower_ascii_idem                               (I5)
   entries_refine_spec, crash_iff_spec_none                                                (I6)
   documented_other_generic, one_entry_per_documented_command                              (I7)
   tools used by other files: classify, classify_spec, enter_documented_eq, enter_command_eq *)
Print Assumptions agg_step_append_only.
Print Assumptions agg_step_append_only_firstn.
Print Assumptions agg_run_append_only.
Print Assumptions agg_run_keys_prefix.
Print Assumptions origins_parallel.
Print Assumptions dangling_no_effect.
Print Assumptions undocumented_other_no_effect.
Print Assumptions claimed_definition_no_entry.
Print Assumptions module_only_first.
Print Assumptions agg_step_recase.
Print Assumptions aggregate_recase.
Print Assumptions aggregate_upper_case.
Print Assumptions aggregate_lower_case.
Print Assumptions entries_refine_spec.
Print Assumptions crash_iff_spec_none.
Print Assumptions documented_other_generic.
Print Assumptions one_entry_per_documented_command.
