(* Proofs/AggInv.v -- lemmas; see DESIGN.md section 7 *)
