(* Proofs/PathFacts.v -- properties C17 / C12: the default prefix of a run is
   basename (abspath cwd input).  For a normalised absolute working directory it is the
   name of the input directory however the input is spelled on the command line:
   n, n/, ., ./n, ../n, or absolutely. *)
From Coq Require Import String List NArith Bool Arith Lia.
From CMinx Require Import Base.Str Model.Path Proofs.NamingFacts.
Import ListNotations.

(* ---- spec ---- *)
(* comp_ok c : c is non-empty and has no slash; abs_of cc = /c1/c2/.../ck  (Proofs/NamingFacts.v) *)

(* a path component of a normalised path: non-empty, no slash, neither [.] nor [..] *)
Definition comp_plain (c : str) : bool :=
  comp_ok c && negb (str_eqb c [dot]) && negb (str_eqb c dotdot).

(* ---- helpers ---- *)

Lemma comp_plain_spec : forall c, comp_plain c = true ->
  comp_ok c = true /\ str_eqb c [] = false /\ str_eqb c [dot] = false /\ str_eqb c dotdot = false.
Proof.
  intros c H. unfold comp_plain in H.
  apply andb_prop in H. destruct H as [H H3]. apply andb_prop in H. destruct H as [H1 H2].
  apply negb_true_iff in H2. apply negb_true_iff in H3.
  split; [exact H1|]. split; [|split; assumption].
  unfold comp_ok in H1. apply andb_prop in H1. destruct H1 as [H1 _].
  apply negb_true_iff in H1. exact H1.
Qed.

Lemma forallb_plain_ok : forall cc, forallb comp_plain cc = true -> forallb comp_ok cc = true.
Proof.
  induction cc as [|c cc IH]; intros H; [reflexivity|].
  cbn [forallb] in H |- *. apply andb_prop in H. destruct H as [H1 H2].
  rewrite (proj1 (comp_plain_spec c H1)), (IH H2). reflexivity.
Qed.

Lemma forallb_app_single : forall (f : str -> bool) l x,
  forallb f l = true -> f x = true -> forallb f (l ++ [x]) = true.
Proof.
  intros f l x Hl Hx. rewrite forallb_app, Hl. cbn [forallb]. rewrite Hx. reflexivity.
Qed.

Lemma comp_ok_not_abs : forall c, comp_ok c = true -> isabs c = false.
Proof.
  intros c H. destruct (comp_ok_spec c H) as [Hne Hs].
  destruct c as [|a c']; [reflexivity|]. cbn [isabs].
  destruct (N.eqb_spec a 47) as [E|E]; [|reflexivity].
  exfalso. apply Hs. left. exact E.
Qed.

(* join *)
Lemma join_cons_ne : forall sep x (r : list str), r <> [] -> join sep (x :: r) = x ++ sep ++ join sep r.
Proof. intros sep x r H. destruct r as [|y r']; [contradiction H; reflexivity|reflexivity]. Qed.

Lemma join_app_ne : forall sep (a b : list str), a <> [] -> b <> [] ->
  join sep (a ++ b) = join sep a ++ sep ++ join sep b.
Proof.
  intros sep a b Ha Hb. induction a as [|x a IH]; [contradiction Ha; reflexivity|].
  destruct a as [|y a'].
  - cbn [app]. rewrite join_cons_ne by exact Hb. reflexivity.
  - change ((x :: y :: a') ++ b) with (x :: ((y :: a') ++ b)).
    rewrite join_cons_ne by discriminate. rewrite IH by discriminate.
    rewrite (join_cons_ne sep x (y :: a')) by discriminate.
    rewrite <- !app_assoc. reflexivity.
Qed.

(* a string with separators inside, used as the last component, is the same as its pieces *)
Lemma join_app_join : forall sep (a b : list str), b <> [] ->
  join sep (a ++ [join sep b]) = join sep (a ++ b).
Proof.
  intros sep a b Hb. destruct a as [|x a'].
  - reflexivity.
  - rewrite !join_app_ne by (exact Hb || discriminate). reflexivity.
Qed.

(* the last character of a joined list of good components is not a slash *)
Lemma abs_of_no_trailing_slash : forall cc, cc <> [] -> forallb comp_ok cc = true ->
  endswith [slash] (abs_of cc) = false.
Proof.
  intros cc Hne Hok. destruct (endswith [slash] (abs_of cc)) eqn:E; [|reflexivity]. exfalso.
  apply endswith_single in E. destruct E as [d E].
  destruct (exists_last Hne) as [cc' [c Hc]]. subst cc.
  rewrite forallb_app in Hok. apply andb_prop in Hok. destruct Hok as [_ Hc].
  cbn [forallb] in Hc. rewrite andb_true_r in Hc.
  destruct (comp_ok_spec c Hc) as [Hcne Hcs].
  assert (Hc' : c <> []) by exact Hcne.
  destruct (exists_last Hc') as [c0 [z Hz]]. subst c.
  assert (Hj : exists X, abs_of (cc' ++ [c0 ++ [z]]) = X ++ [z]).
  { unfold abs_of. destruct cc' as [|y cc''].
    - exists ([slash] ++ c0). reflexivity.
    - rewrite join_app_ne by discriminate. cbn [join].
      exists ([slash] ++ join [slash] (y :: cc'') ++ [slash] ++ c0).
      rewrite <- !app_assoc. reflexivity. }
  destruct Hj as [X HX]. assert (E2 := eq_trans (eq_sym HX) E).
  apply app_inj_tail in E2. destruct E2 as [_ E2].
  apply Hcs. apply in_app_iff. right. left. exact E2.
Qed.

(* posixpath.join of a normalised absolute directory and a relative path *)
Lemma join2_abs_of : forall cc x, forallb comp_ok cc = true -> isabs x = false ->
  join2 (abs_of cc) x = slash :: join [slash] (cc ++ [x]).
Proof.
  intros cc x Hok Hx. unfold join2. rewrite Hx.
  destruct cc as [|c cc'].
  - reflexivity.
  - rewrite abs_of_no_trailing_slash by (discriminate || exact Hok).
    rewrite (join_app_ne [slash] (c :: cc') [x]) by discriminate.
    unfold abs_of. cbn [join]. rewrite <- app_assoc. reflexivity.
Qed.

(* ---- split_on slash on an absolute path given by slash-free components ---- *)

Lemma split_on_abs : forall l : list str, l <> [] -> Forall (fun c : str => ~ In slash c) l ->
  split_on slash (slash :: join [slash] l) = [] :: l.
Proof.
  intros l Hne HF.
  change (slash :: join [slash] l) with ([] ++ slash :: join [slash] l).
  rewrite split_on_app_sep. cbn [split_on app].
  rewrite split_on_join by assumption. reflexivity.
Qed.

Lemma split_on_abs_of : forall cc, cc <> [] -> forallb comp_ok cc = true ->
  split_on slash (abs_of cc) = [] :: cc.
Proof.
  intros cc Hne Hok. unfold abs_of. cbn [app]. apply split_on_abs; [exact Hne|].
  apply forallb_comp_ok_free. exact Hok.
Qed.

Lemma basename_abs_of : forall cc n, forallb comp_ok cc = true -> comp_ok n = true ->
  basename (abs_of (cc ++ [n])) = n.
Proof.
  intros cc n Hcc Hn. unfold basename.
  rewrite split_on_abs_of.
  - change ([] :: cc ++ [n]) with (([] :: cc) ++ [n]). rewrite last_opt_app1. reflexivity.
  - destruct cc; discriminate.
  - apply forallb_app_single; assumption.
Qed.

(* ---- norm_comps on plain components: they are pushed unchanged ---- *)

Lemma norm_comps_plain : forall init l rest acc, forallb comp_plain l = true ->
  norm_comps init (l ++ rest) acc = norm_comps init rest (rev l ++ acc).
Proof.
  intros init l. induction l as [|c l IH]; intros rest acc H; [reflexivity|].
  cbn [forallb] in H. apply andb_prop in H. destruct H as [Hc Hl].
  destruct (comp_plain_spec c Hc) as [_ [H1 [H2 H3]]].
  cbn [app norm_comps]. rewrite H1, H2, H3. cbn [orb negb].
  rewrite IH by exact Hl. cbn [rev]. rewrite <- app_assoc. reflexivity.
Qed.

Lemma norm_comps_plain_all : forall init l, forallb comp_plain l = true ->
  norm_comps init l [] = l.
Proof.
  intros init l H. rewrite <- (app_nil_r l) at 1. rewrite norm_comps_plain by exact H.
  cbn [norm_comps]. rewrite app_nil_r. apply rev_involutive.
Qed.

(* ---- normpath of  /c1/.../ck  for slash-free components, the first one not empty ---- *)

Lemma normpath_abs_comps : forall (c : str) (r : list str),
  c <> [] -> Forall (fun x : str => ~ In slash x) (c :: r) ->
  normpath (slash :: join [slash] (c :: r)) = slash :: join [slash] (norm_comps true (c :: r) []).
Proof.
  intros c r Hc HF.
  assert (Hs : startswith [slash] (join [slash] (c :: r)) = false).
  { destruct c as [|a c']; [contradiction Hc; reflexivity|].
    assert (Ha : a <> slash).
    { intros E. inversion HF as [|x l Hx _]. subst. apply Hx. left. reflexivity. }
    destruct r as [|y r']; cbn [join app startswith];
      (destruct (N.eqb_spec slash a) as [E|E]; [exfalso; apply Ha; symmetry; exact E|reflexivity]). }
  unfold normpath.
  assert (H1 : startswith [slash] (slash :: join [slash] (c :: r)) = true).
  { cbn [startswith]. rewrite N.eqb_refl. reflexivity. }
  assert (H2 : startswith [slash; slash] (slash :: join [slash] (c :: r)) = false).
  { change (startswith [slash; slash] (slash :: join [slash] (c :: r)))
      with ((slash =? slash)%N && startswith [slash] (join [slash] (c :: r))).
    rewrite Hs, N.eqb_refl. reflexivity. }
  rewrite H1, H2. cbn [andb Nat.eqb negb repeat app].
  rewrite split_on_abs by (discriminate || exact HF).
  change (norm_comps true ([] :: c :: r) []) with (norm_comps true (c :: r) []).
  reflexivity.
Qed.

Lemma plain_free : forall cc, forallb comp_plain cc = true -> Forall (fun x : str => ~ In slash x) cc.
Proof. intros cc H. apply forallb_comp_ok_free. apply forallb_plain_ok. exact H. Qed.

(* ================================================================== *)
(* P1: a normalised absolute path is a fixed point of normpath          *)
(* ================================================================== *)

Theorem normpath_abs_plain : forall cc, forallb comp_plain cc = true ->
  normpath (abs_of cc) = abs_of cc.
Proof.
  intros cc H. destruct cc as [|c r].
  - vm_compute. reflexivity.
  - unfold abs_of. cbn [app]. rewrite normpath_abs_comps.
    + rewrite norm_comps_plain_all by exact H. reflexivity.
    + cbn [forallb] in H. apply andb_prop in H. destruct H as [H _].
      exact (proj1 (comp_ok_spec c (proj1 (comp_plain_spec c H)))).
    + apply plain_free. exact H.
Qed.

(* the common core of P2-P7: cwd components cc, input = join of the slash-free pieces xs
   (relative), and the component stack of cc ++ xs normalises to res *)
Lemma abspath_pieces : forall (cc xs : list str),
  forallb comp_plain cc = true -> xs <> [] ->
  Forall (fun x : str => ~ In slash x) xs ->
  isabs (join [slash] xs) = false ->
  hd [] (cc ++ xs) <> [] ->
  abspath (abs_of cc) (join [slash] xs)
  = slash :: join [slash] (norm_comps true xs (rev cc)).
Proof.
  intros cc xs Hcc Hne HF Habs Hhd. unfold abspath. rewrite Habs.
  rewrite join2_abs_of by (apply forallb_plain_ok; exact Hcc) || exact Habs.
  rewrite join_app_join by exact Hne.
  destruct (cc ++ xs) as [|c r] eqn:E.
  - exfalso. apply Hne. apply app_eq_nil in E. exact (proj2 E).
  - rewrite normpath_abs_comps.
    + rewrite <- E. rewrite norm_comps_plain by exact Hcc. rewrite app_nil_r. reflexivity.
    + exact Hhd.
    + rewrite <- E. apply Forall_app. split; [apply plain_free; exact Hcc|exact HF].
Qed.

Lemma hd_app_plain : forall cc (x : str) xs, forallb comp_plain cc = true -> x <> [] ->
  hd [] (cc ++ x :: xs) <> [].
Proof.
  intros cc x xs H Hx. destruct cc as [|c r]; [exact Hx|].
  cbn [app hd]. cbn [forallb] in H. apply andb_prop in H. destruct H as [H _].
  exact (proj1 (comp_ok_spec c (proj1 (comp_plain_spec c H)))).
Qed.

Lemma no_slash_dot : ~ In slash [dot].
Proof. intros [H|[]]. discriminate H. Qed.
Lemma no_slash_dotdot : ~ In slash dotdot.
Proof. intros [H|[H|[]]]; discriminate H. Qed.
Lemma no_slash_nil : ~ In slash [].
Proof. intros []. Qed.

(* ================================================================== *)
(* P2 - P7                                                             *)
(* ================================================================== *)

Lemma isabs_app : forall x t, x <> [] -> isabs (x ++ t) = isabs x.
Proof. intros x t H. destruct x as [|a x']; [contradiction H; reflexivity|reflexivity]. Qed.

Section Spellings.
  Variable cc : list str.
  Variable n : str.
  Hypothesis Hcc : forallb comp_plain cc = true.
  Hypothesis Hn : comp_plain n = true.

  Lemma sp_n_ok : comp_ok n = true.
  Proof. exact (proj1 (comp_plain_spec n Hn)). Qed.
  Lemma sp_n_ne : n <> [].
  Proof. exact (proj1 (comp_ok_spec n sp_n_ok)). Qed.
  Lemma sp_n_free : ~ In slash n.
  Proof. exact (proj2 (comp_ok_spec n sp_n_ok)). Qed.
  Lemma sp_cc_ok : forallb comp_ok cc = true.
  Proof. exact (forallb_plain_ok cc Hcc). Qed.

  Lemma isabs_n_app : forall t, isabs (n ++ t) = false.
  Proof.
    intros t. rewrite isabs_app by exact sp_n_ne. apply comp_ok_not_abs. exact sp_n_ok.
  Qed.

  (* spelled  n *)
  Theorem abspath_name : abspath (abs_of cc) n = abs_of (cc ++ [n]).
  Proof.
    change n with (join [slash] [n]) at 1.
    rewrite abspath_pieces.
    - destruct (comp_plain_spec n Hn) as [_ [H1 [H2 H3]]].
      cbn [norm_comps]. rewrite H1, H2, H3. cbn [orb negb rev].
      rewrite rev_involutive. reflexivity.
    - exact Hcc.
    - discriminate.
    - constructor; [exact sp_n_free|constructor].
    - cbn [join]. apply comp_ok_not_abs. exact sp_n_ok.
    - apply hd_app_plain; [exact Hcc|exact sp_n_ne].
  Qed.

  Theorem basename_abspath_name : basename (abspath (abs_of cc) n) = n.
  Proof. rewrite abspath_name. apply basename_abs_of; [exact sp_cc_ok|exact sp_n_ok]. Qed.

  (* spelled  n/ *)
  Theorem abspath_trailing_slash : abspath (abs_of cc) (n ++ [slash]) = abs_of (cc ++ [n]).
  Proof.
    replace (n ++ [slash]) with (join [slash] [n; []]) by reflexivity.
    rewrite abspath_pieces.
    - destruct (comp_plain_spec n Hn) as [_ [H1 [H2 H3]]].
      cbn [norm_comps str_eqb]. rewrite H1, H2, H3. cbn [orb negb rev].
      rewrite rev_involutive. reflexivity.
    - exact Hcc.
    - discriminate.
    - constructor; [exact sp_n_free|constructor; [exact no_slash_nil|constructor]].
    - cbn [join]. apply isabs_n_app.
    - apply hd_app_plain; [exact Hcc|exact sp_n_ne].
  Qed.

  Theorem basename_abspath_trailing_slash :
    basename (abspath (abs_of cc) (n ++ [slash])) = n.
  Proof. rewrite abspath_trailing_slash. apply basename_abs_of; [exact sp_cc_ok|exact sp_n_ok]. Qed.

  (* spelled  .  from inside the directory *)
  Theorem abspath_dot : abspath (abs_of (cc ++ [n])) [dot] = abs_of (cc ++ [n]).
  Proof.
    change [dot] with (join [slash] [[dot]]) at 1.
    rewrite abspath_pieces.
    - cbn [norm_comps str_eqb]. rewrite N.eqb_refl. cbn [andb orb].
      rewrite rev_involutive. reflexivity.
    - apply forallb_app_single; assumption.
    - discriminate.
    - constructor; [exact no_slash_dot|constructor].
    - reflexivity.
    - rewrite <- app_assoc. apply hd_app_plain; [exact Hcc|exact sp_n_ne].
  Qed.

  Theorem basename_abspath_dot : basename (abspath (abs_of (cc ++ [n])) [dot]) = n.
  Proof. rewrite abspath_dot. apply basename_abs_of; [exact sp_cc_ok|exact sp_n_ok]. Qed.

  (* spelled  ./n *)
  Theorem abspath_dotslash : abspath (abs_of cc) ([dot; slash] ++ n) = abs_of (cc ++ [n]).
  Proof.
    replace ([dot; slash] ++ n) with (join [slash] [[dot]; n]) by reflexivity.
    rewrite abspath_pieces.
    - destruct (comp_plain_spec n Hn) as [_ [H1 [H2 H3]]].
      cbn [norm_comps]. change (str_eqb [dot] [dot]) with ((dot =? dot)%N && true).
      rewrite N.eqb_refl. cbn [andb orb]. rewrite H1, H2, H3. cbn [orb negb rev].
      rewrite rev_involutive. reflexivity.
    - exact Hcc.
    - discriminate.
    - constructor; [exact no_slash_dot|constructor; [exact sp_n_free|constructor]].
    - reflexivity.
    - apply hd_app_plain; [exact Hcc|discriminate].
  Qed.

  Theorem basename_abspath_dotslash :
    basename (abspath (abs_of cc) ([dot; slash] ++ n)) = n.
  Proof. rewrite abspath_dotslash. apply basename_abs_of; [exact sp_cc_ok|exact sp_n_ok]. Qed.

  (* spelled absolutely: the working directory does not matter *)
  Theorem abspath_absolute : forall anycwd, abspath anycwd (abs_of (cc ++ [n])) = abs_of (cc ++ [n]).
  Proof.
    intros anycwd. unfold abspath.
    change (isabs (abs_of (cc ++ [n]))) with true. cbv iota.
    apply normpath_abs_plain. apply forallb_app_single; assumption.
  Qed.

  Theorem basename_abspath_absolute : forall anycwd,
    basename (abspath anycwd (abs_of (cc ++ [n]))) = n.
  Proof. intros anycwd. rewrite abspath_absolute. apply basename_abs_of; [exact sp_cc_ok|exact sp_n_ok]. Qed.

  (* spelled  ../n  from a sibling directory m *)
  Theorem abspath_dotdot : forall m, comp_plain m = true ->
    abspath (abs_of (cc ++ [m])) (dotdot ++ [slash] ++ n) = abs_of (cc ++ [n]).
  Proof.
    intros m Hm.
    replace (dotdot ++ [slash] ++ n) with (join [slash] [dotdot; n]) by reflexivity.
    rewrite abspath_pieces.
    - destruct (comp_plain_spec n Hn) as [_ [H1 [H2 H3]]].
      destruct (comp_plain_spec m Hm) as [_ [_ [_ M3]]].
      rewrite rev_app_distr. cbn [rev app norm_comps].
      change (str_eqb dotdot []) with false. change (str_eqb dotdot [dot]) with false.
      change (str_eqb dotdot dotdot) with true. rewrite M3. cbn [orb negb andb].
      rewrite H1, H2, H3. cbn [orb negb rev].
      rewrite rev_involutive. reflexivity.
    - apply forallb_app_single; assumption.
    - discriminate.
    - constructor; [exact no_slash_dotdot|constructor; [exact sp_n_free|constructor]].
    - reflexivity.
    - rewrite <- app_assoc. apply hd_app_plain; [exact Hcc|].
      exact (proj1 (comp_ok_spec m (proj1 (comp_plain_spec m Hm)))).
  Qed.

  Theorem basename_abspath_dotdot : forall m, comp_plain m = true ->
    basename (abspath (abs_of (cc ++ [m])) (dotdot ++ [slash] ++ n)) = n.
  Proof. intros m Hm. rewrite abspath_dotdot by exact Hm. apply basename_abs_of; [exact sp_cc_ok|exact sp_n_ok]. Qed.
End Spellings.

(* all spellings give the same default prefix *)
Theorem default_prefix_spelling_independent : forall cc n m anycwd,
  forallb comp_plain cc = true -> comp_plain n = true -> comp_plain m = true ->
  let b := basename (abspath (abs_of cc) n) in
  b = n
  /\ basename (abspath (abs_of cc) (n ++ [slash])) = b
  /\ basename (abspath (abs_of (cc ++ [n])) [dot]) = b
  /\ basename (abspath (abs_of cc) ([dot; slash] ++ n)) = b
  /\ basename (abspath anycwd (abs_of (cc ++ [n]))) = b
  /\ basename (abspath (abs_of (cc ++ [m])) (dotdot ++ [slash] ++ n)) = b.
Proof.
  intros cc n m anycwd Hcc Hn Hm b. unfold b.
  rewrite basename_abspath_name, basename_abspath_trailing_slash, basename_abspath_dot,
    basename_abspath_dotslash, basename_abspath_absolute, basename_abspath_dotdot by assumption.
  repeat split.
Qed.

(* ---- non-vacuity, and what the hypotheses exclude ---- *)

Example spellings_ex :
  let cc := [s"home"; s"u.v"; s"..x"] in
  let n := s"pro.j" in
  forallb comp_plain cc = true /\ comp_plain n = true /\ comp_plain (s"other") = true
  /\ abs_of cc = s"/home/u.v/..x"
  /\ abspath (abs_of cc) (s"pro.j/") = s"/home/u.v/..x/pro.j"
  /\ abspath (abs_of (cc ++ [s"other"])) (s"../pro.j") = s"/home/u.v/..x/pro.j"
  /\ basename (abspath (abs_of (cc ++ [n])) (s".")) = n
  /\ basename (abspath (abs_of []) n) = n.
Proof. vm_compute. repeat split. Qed.

(* the name must be a plain component: for the spellings  ..  and  x/..  the prefix is the
   name of another directory, and at the root it is empty *)
Example non_plain_names :
  basename (abspath (s"/home/u/proj") (s"..")) = s"u"
  /\ basename (abspath (s"/home/u") (s"proj/..")) = s"u"
  /\ basename (abspath (s"/") (s".")) = []
  /\ comp_plain (s"..") = false /\ comp_plain (s".") = false /\ comp_plain [] = false.
Proof. vm_compute. repeat split. Qed.

(* ==== MAIN THEOREMS ====
   normpath_abs_plain                  (P1)
   basename_abspath_name               (P2)   abspath_name
   basename_abspath_trailing_slash     (P3)   abspath_trailing_slash
   basename_abspath_dot                (P4)   abspath_dot
   basename_abspath_dotslash           (P5)   abspath_dotslash
   basename_abspath_absolute           (P6)   abspath_absolute
   basename_abspath_dotdot             (P7)   abspath_dotdot
   default_prefix_spelling_independent
   split_on_abs_of, norm_comps_plain, basename_abs_of   (characterisations) *)
Print Assumptions normpath_abs_plain.
Print Assumptions basename_abspath_name.
Print Assumptions basename_abspath_trailing_slash.
Print Assumptions basename_abspath_dot.
Print Assumptions basename_abspath_dotslash.
Print Assumptions basename_abspath_absolute.
Print Assumptions basename_abspath_dotdot.
Print Assumptions default_prefix_spelling_independent.
Print Assumptions split_on_abs_of.
Print Assumptions norm_comps_plain.
Print Assumptions basename_abs_of.
